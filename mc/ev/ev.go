// Package ev is the shared reporting layer of every check: evidence file, violation
// replays, known-finding matching and the exit-code contract of MANIFEST.json.
package ev

import (
	"crypto/sha256"
	"encoding/hex"
	"encoding/json"
	"fmt"
	"os"
	"path/filepath"
	"regexp"
	"sort"
	"strconv"
	"strings"
	"sync"
	"time"
)

const Root = "/verif"

// Out is where evidence/ and replays/ are written (differs from Root only in mutant trials).
func Out() string {
	if o := os.Getenv("VERIF_OUT"); o != "" {
		return o
	}
	return Root
}

// Repo is the juno tree the harness was built against.
func Repo() string {
	if o := os.Getenv("VERIF_REPO"); o != "" {
		return o
	}
	return "/repo"
}

type Finding struct {
	Property string `json:"property"`
	Status   string `json:"status"` // "known" | "fixed"
	Match    string `json:"match"`  // regexp over the violation key
	What     string `json:"what"`
	Commit   string `json:"commit,omitempty"`
	re       *regexp.Regexp
}

type Violation struct {
	Key    string `json:"key"`    // stable identity: which input / call site / history fails
	Detail any    `json:"detail"` // replayable description (first case seen)
	Count  int    `json:"count"`  // failing cases with this key
	More   []any  `json:"more,omitempty"`
}

type Run struct {
	ID    string
	Tier  string
	Seed  int
	Level string
	start time.Time

	mu         sync.Mutex
	viol       []*Violation
	violKeys   map[string]*Violation
	known      []Finding
	knownHit   map[int]int
	Assume     []string
	Cov        map[string]any
	samples    []any
	outcomes   map[string]int
	deadline   time.Time
	incomplete []string
}

func Start(id, level string) *Run {
	r := &Run{ID: id, Level: level, start: time.Now(), violKeys: map[string]*Violation{}, knownHit: map[int]int{},
		Cov: map[string]any{}, outcomes: map[string]int{}}
	r.Tier = os.Getenv("VERIF_TIER")
	if r.Tier != "thorough" {
		r.Tier = "quick"
	}
	r.Seed, _ = strconv.Atoi(os.Getenv("VERIF_SEED"))
	if b := os.Getenv("VERIF_BUDGET_S"); b != "" {
		if s, err := strconv.Atoi(b); err == nil {
			r.deadline = r.start.Add(time.Duration(s) * time.Second)
		}
	}
	r.loadKnown()
	return r
}

func (r *Run) Quick() bool    { return r.Tier == "quick" }
func (r *Run) Thorough() bool { return r.Tier == "thorough" }

// Pick returns q in the quick tier and t in the thorough tier.
func Pick[T any](r *Run, q, t T) T {
	if r.Thorough() {
		return t
	}
	return q
}

// SetBudget installs an internal deadline (seconds from start) unless VERIF_BUDGET_S overrides it.
func (r *Run) SetBudget(sec int) {
	if r.deadline.IsZero() {
		r.deadline = r.start.Add(time.Duration(sec) * time.Second)
	}
}

// OutOfTime reports whether the internal deadline has passed. Callers stop enumerating and
// record what was left out with Incomplete; the run then reports exhaustive:false.
func (r *Run) OutOfTime() bool { return !r.deadline.IsZero() && time.Now().After(r.deadline) }

// WayOutOfTime reports whether the run is past its internal deadline by half the budget (at least 300 s): the hard stop for parts that are exempt from
// the ordinary deadline (cheap, specific parts that should always run) so that even they cannot make a check run
// without bound on an overloaded machine. Callers record what was left out with Incomplete.
func (r *Run) WayOutOfTime() bool {
	if r.deadline.IsZero() {
		return false
	}
	grace := r.deadline.Sub(r.start) / 2
	if grace < 300*time.Second {
		grace = 300 * time.Second
	}
	return time.Now().After(r.deadline.Add(grace))
}

func (r *Run) Incomplete(what string) {
	r.mu.Lock()
	defer r.mu.Unlock()
	for _, w := range r.incomplete {
		if w == what {
			return
		}
	}
	r.incomplete = append(r.incomplete, what)
}

func (r *Run) loadKnown() {
	if os.Getenv("VERIF_NO_KNOWN") != "" {
		return // diagnostic runs: show every violation key, suppress nothing
	}
	b, err := os.ReadFile(filepath.Join(Root, "known_findings.jsonl"))
	if err != nil {
		return
	}
	for _, l := range strings.Split(string(b), "\n") {
		l = strings.TrimSpace(l)
		if l == "" || strings.HasPrefix(l, "#") {
			continue
		}
		var f Finding
		if json.Unmarshal([]byte(l), &f) != nil || f.Property != r.ID || f.Status != "known" {
			continue
		}
		re, err := regexp.Compile(f.Match)
		if err != nil {
			continue
		}
		f.re = re
		r.known = append(r.known, f)
	}
}

// Violate records a violation. key must identify the failing input/call site/history in a
// stable way (it is what known_findings.jsonl matches against).
func (r *Run) Violate(key string, detail any) {
	r.mu.Lock()
	defer r.mu.Unlock()
	if v := r.violKeys[key]; v != nil {
		v.Count++
		if len(v.More) < 3 {
			v.More = append(v.More, detail)
		}
		return
	}
	v := &Violation{Key: key, Detail: detail, Count: 1}
	r.violKeys[key] = v
	r.viol = append(r.viol, v)
}

func (r *Run) Violations() int { r.mu.Lock(); defer r.mu.Unlock(); return len(r.viol) }

// Sample keeps up to 6 written-out cases for the evidence file.
func (r *Run) Sample(s any) {
	r.mu.Lock()
	defer r.mu.Unlock()
	if len(r.samples) < 6 {
		r.samples = append(r.samples, s)
	}
}

// Outcome counts distinct observed outcomes (vacuity guard).
func (r *Run) Outcome(o string) {
	r.mu.Lock()
	r.outcomes[o]++
	r.mu.Unlock()
}

func (r *Run) Set(k string, v any) { r.mu.Lock(); r.Cov[k] = v; r.mu.Unlock() }
func (r *Run) Add(k string, n int64) {
	r.mu.Lock()
	switch x := r.Cov[k].(type) {
	case int64:
		r.Cov[k] = x + n
	default:
		r.Cov[k] = n
	}
	r.mu.Unlock()
}

func (r *Run) Get(k string) int64 {
	r.mu.Lock()
	defer r.mu.Unlock()
	x, _ := r.Cov[k].(int64)
	return x
}

// Infra aborts with exit 2: an infrastructure problem, never a verdict.
func (r *Run) Infra(format string, a ...any) {
	fmt.Printf("INFRA-ERROR property=%s %s\n", r.ID, fmt.Sprintf(format, a...))
	os.Exit(2)
}

// Finish writes the evidence file, prints KNOWN-FINDING / VIOLATION lines and exits.
func (r *Run) Finish() {
	r.mu.Lock()
	defer r.mu.Unlock()
	var unknown []*Violation
	for _, v := range r.viol {
		hit := -1
		for i, f := range r.known {
			if f.re.MatchString(v.Key) {
				hit = i
				break
			}
		}
		if hit >= 0 {
			r.knownHit[hit] += v.Count
		} else {
			unknown = append(unknown, v)
		}
	}
	for i, f := range r.known {
		if r.knownHit[i] > 0 {
			fmt.Printf("KNOWN-FINDING: property=%s %s (matched %d failing cases)\n", r.ID, f.What, r.knownHit[i])
		}
	}
	sort.Slice(unknown, func(i, j int) bool { return unknown[i].Key < unknown[j].Key })
	os.MkdirAll(filepath.Join(Out(), "replays"), 0o755)
	for i, v := range unknown {
		if i >= 20 {
			fmt.Printf("... %d more violations suppressed\n", len(unknown)-i)
			break
		}
		h := sha256.Sum256([]byte(v.Key))
		p := filepath.Join(Out(), "replays", fmt.Sprintf("%s-%s.json", r.ID, hex.EncodeToString(h[:6])))
		b, _ := json.MarshalIndent(map[string]any{"property": r.ID, "key": v.Key, "detail": v.Detail, "count": v.Count, "more": v.More, "tier": r.Tier}, "", " ")
		os.WriteFile(p, b, 0o644)
		fmt.Printf("VIOLATION property=%s replay=%s\n  key: %s (%d cases)\n", r.ID, p, v.Key, v.Count)
	}
	cov := r.Cov
	if _, ok := cov["samples"]; !ok {
		cov["samples"] = r.samples
	}
	if len(r.outcomes) > 0 {
		cov["distinct_outcomes"] = len(r.outcomes)
		if len(r.outcomes) <= 24 {
			cov["outcome_histogram"] = r.outcomes
		}
	}
	if len(r.incomplete) > 0 {
		cov["exhaustive"] = false
		cov["caps_hit"] = r.incomplete
	} else if _, ok := cov["exhaustive"]; !ok {
		cov["exhaustive"] = true
	}
	kf := 0
	for _, n := range r.knownHit {
		kf += n
	}
	cov["known_finding_cases"] = kf
	if r.Assume == nil {
		r.Assume = []string{}
	}
	out := map[string]any{
		"property_id": r.ID, "tier": r.Tier, "seed": r.Seed, "level": r.Level,
		"coverage": cov, "assumptions": r.Assume,
		"wall_s":     time.Since(r.start).Seconds(),
		"violations": len(unknown),
	}
	b, _ := json.MarshalIndent(out, "", " ")
	os.MkdirAll(filepath.Join(Out(), "evidence"), 0o755)
	if err := os.WriteFile(filepath.Join(Out(), "evidence", r.ID+".json"), b, 0o644); err != nil {
		fmt.Println("INFRA-ERROR cannot write evidence:", err)
		os.Exit(2)
	}
	fmt.Printf("SUMMARY property=%s tier=%s violations=%d known=%d wall=%.1fs exhaustive=%v\n", r.ID, r.Tier, len(unknown), kf,
		time.Since(r.start).Seconds(), cov["exhaustive"])
	if os.Getenv("VERIF_NOEXIT") != "" {
		return // profiling runs: let the test binary flush its profiles
	}
	if len(unknown) > 0 {
		os.Exit(1)
	}
	os.Exit(0)
}

// Guard runs f and converts a panic into (panicked=true, message).
func Guard(f func()) (panicked bool, msg string) {
	defer func() {
		if x := recover(); x != nil {
			panicked = true
			msg = fmt.Sprint(x)
		}
	}()
	f()
	return
}

// Par runs f(i) for i in [0,n) on w goroutines.
func Par(n, w int, f func(i int)) {
	if w < 1 {
		w = 1
	}
	var wg sync.WaitGroup
	ch := make(chan int)
	for k := 0; k < w; k++ {
		wg.Add(1)
		go func() {
			defer wg.Done()
			for i := range ch {
				f(i)
			}
		}()
	}
	for i := 0; i < n; i++ {
		ch <- i
	}
	close(ch)
	wg.Wait()
}
