// Package schedatomic is a drop-in for the typed part of sync/atomic (Pointer[T], Value, Bool, Int32, Int64, Uint32,
// Uint64, Uintptr) with one harness hook: before EVERY Load / Store / Swap / CompareAndSwap / Add / And / Or the
// installed hook (if any) is called in the calling goroutine with the operation's name. Without a hook (the default,
// and always outside an enumeration) every type behaves exactly like its sync/atomic counterpart: each wraps the real
// type as its only field, so size, alignment and memory layout are identical (harnesses that peek through unsafe keep
// working). A production package is built against it through a generated `go build -overlay` that rewrites only the
// import line of "sync/atomic" (see props/c20/prebuild.sh).
//
// The hook lets a harness make "how many atomic operations does one reader call perform, and what happens when a
// writer lands between two of them" an ENUMERATED fact instead of an assumption.
package schedatomic

import (
	"sync/atomic"
	"unsafe"
)

var hook atomic.Pointer[func(op string)]

// SetHook installs f (nil removes it). The hook runs synchronously in the goroutine that performs the operation,
// BEFORE the operation takes effect.
func SetHook(f func(op string)) {
	if f == nil {
		hook.Store(nil)
		return
	}
	hook.Store(&f)
}

func call(op string) {
	if h := hook.Load(); h != nil {
		(*h)(op)
	}
}

type Pointer[T any] struct{ p atomic.Pointer[T] }

func (x *Pointer[T]) Load() *T     { call("Pointer.Load"); return x.p.Load() }
func (x *Pointer[T]) Store(v *T)   { call("Pointer.Store"); x.p.Store(v) }
func (x *Pointer[T]) Swap(v *T) *T { call("Pointer.Swap"); return x.p.Swap(v) }
func (x *Pointer[T]) CompareAndSwap(old, new *T) bool {
	call("Pointer.CompareAndSwap")
	return x.p.CompareAndSwap(old, new)
}

type Value struct{ v atomic.Value }

func (x *Value) Load() any      { call("Value.Load"); return x.v.Load() }
func (x *Value) Store(v any)    { call("Value.Store"); x.v.Store(v) }
func (x *Value) Swap(v any) any { call("Value.Swap"); return x.v.Swap(v) }
func (x *Value) CompareAndSwap(old, new any) bool {
	call("Value.CompareAndSwap")
	return x.v.CompareAndSwap(old, new)
}

type Bool struct{ v atomic.Bool }

func (x *Bool) Load() bool       { call("Bool.Load"); return x.v.Load() }
func (x *Bool) Store(v bool)     { call("Bool.Store"); x.v.Store(v) }
func (x *Bool) Swap(v bool) bool { call("Bool.Swap"); return x.v.Swap(v) }
func (x *Bool) CompareAndSwap(old, new bool) bool {
	call("Bool.CompareAndSwap")
	return x.v.CompareAndSwap(old, new)
}

type Int32 struct{ v atomic.Int32 }

func (x *Int32) Load() int32        { call("Int32.Load"); return x.v.Load() }
func (x *Int32) Store(v int32)      { call("Int32.Store"); x.v.Store(v) }
func (x *Int32) Swap(v int32) int32 { call("Int32.Swap"); return x.v.Swap(v) }
func (x *Int32) Add(d int32) int32  { call("Int32.Add"); return x.v.Add(d) }
func (x *Int32) And(m int32) int32  { call("Int32.And"); return x.v.And(m) }
func (x *Int32) Or(m int32) int32   { call("Int32.Or"); return x.v.Or(m) }
func (x *Int32) CompareAndSwap(old, new int32) bool {
	call("Int32.CompareAndSwap")
	return x.v.CompareAndSwap(old, new)
}

type Int64 struct{ v atomic.Int64 }

func (x *Int64) Load() int64        { call("Int64.Load"); return x.v.Load() }
func (x *Int64) Store(v int64)      { call("Int64.Store"); x.v.Store(v) }
func (x *Int64) Swap(v int64) int64 { call("Int64.Swap"); return x.v.Swap(v) }
func (x *Int64) Add(d int64) int64  { call("Int64.Add"); return x.v.Add(d) }
func (x *Int64) And(m int64) int64  { call("Int64.And"); return x.v.And(m) }
func (x *Int64) Or(m int64) int64   { call("Int64.Or"); return x.v.Or(m) }
func (x *Int64) CompareAndSwap(old, new int64) bool {
	call("Int64.CompareAndSwap")
	return x.v.CompareAndSwap(old, new)
}

type Uint32 struct{ v atomic.Uint32 }

func (x *Uint32) Load() uint32         { call("Uint32.Load"); return x.v.Load() }
func (x *Uint32) Store(v uint32)       { call("Uint32.Store"); x.v.Store(v) }
func (x *Uint32) Swap(v uint32) uint32 { call("Uint32.Swap"); return x.v.Swap(v) }
func (x *Uint32) Add(d uint32) uint32  { call("Uint32.Add"); return x.v.Add(d) }
func (x *Uint32) And(m uint32) uint32  { call("Uint32.And"); return x.v.And(m) }
func (x *Uint32) Or(m uint32) uint32   { call("Uint32.Or"); return x.v.Or(m) }
func (x *Uint32) CompareAndSwap(old, new uint32) bool {
	call("Uint32.CompareAndSwap")
	return x.v.CompareAndSwap(old, new)
}

type Uint64 struct{ v atomic.Uint64 }

func (x *Uint64) Load() uint64         { call("Uint64.Load"); return x.v.Load() }
func (x *Uint64) Store(v uint64)       { call("Uint64.Store"); x.v.Store(v) }
func (x *Uint64) Swap(v uint64) uint64 { call("Uint64.Swap"); return x.v.Swap(v) }
func (x *Uint64) Add(d uint64) uint64  { call("Uint64.Add"); return x.v.Add(d) }
func (x *Uint64) And(m uint64) uint64  { call("Uint64.And"); return x.v.And(m) }
func (x *Uint64) Or(m uint64) uint64   { call("Uint64.Or"); return x.v.Or(m) }
func (x *Uint64) CompareAndSwap(old, new uint64) bool {
	call("Uint64.CompareAndSwap")
	return x.v.CompareAndSwap(old, new)
}

type Uintptr struct{ v atomic.Uintptr }

func (x *Uintptr) Load() uintptr          { call("Uintptr.Load"); return x.v.Load() }
func (x *Uintptr) Store(v uintptr)        { call("Uintptr.Store"); x.v.Store(v) }
func (x *Uintptr) Swap(v uintptr) uintptr { call("Uintptr.Swap"); return x.v.Swap(v) }
func (x *Uintptr) Add(d uintptr) uintptr  { call("Uintptr.Add"); return x.v.Add(d) }
func (x *Uintptr) CompareAndSwap(old, new uintptr) bool {
	call("Uintptr.CompareAndSwap")
	return x.v.CompareAndSwap(old, new)
}

// function forms (same hook)
func LoadInt32(a *int32) int32          { call("LoadInt32"); return atomic.LoadInt32(a) }
func StoreInt32(a *int32, v int32)      { call("StoreInt32"); atomic.StoreInt32(a, v) }
func AddInt32(a *int32, d int32) int32  { call("AddInt32"); return atomic.AddInt32(a, d) }
func SwapInt32(a *int32, v int32) int32 { call("SwapInt32"); return atomic.SwapInt32(a, v) }
func CompareAndSwapInt32(a *int32, o, n int32) bool {
	call("CompareAndSwapInt32")
	return atomic.CompareAndSwapInt32(a, o, n)
}
func LoadInt64(a *int64) int64          { call("LoadInt64"); return atomic.LoadInt64(a) }
func StoreInt64(a *int64, v int64)      { call("StoreInt64"); atomic.StoreInt64(a, v) }
func AddInt64(a *int64, d int64) int64  { call("AddInt64"); return atomic.AddInt64(a, d) }
func SwapInt64(a *int64, v int64) int64 { call("SwapInt64"); return atomic.SwapInt64(a, v) }
func CompareAndSwapInt64(a *int64, o, n int64) bool {
	call("CompareAndSwapInt64")
	return atomic.CompareAndSwapInt64(a, o, n)
}
func LoadUint32(a *uint32) uint32           { call("LoadUint32"); return atomic.LoadUint32(a) }
func StoreUint32(a *uint32, v uint32)       { call("StoreUint32"); atomic.StoreUint32(a, v) }
func AddUint32(a *uint32, d uint32) uint32  { call("AddUint32"); return atomic.AddUint32(a, d) }
func SwapUint32(a *uint32, v uint32) uint32 { call("SwapUint32"); return atomic.SwapUint32(a, v) }
func CompareAndSwapUint32(a *uint32, o, n uint32) bool {
	call("CompareAndSwapUint32")
	return atomic.CompareAndSwapUint32(a, o, n)
}
func LoadUint64(a *uint64) uint64           { call("LoadUint64"); return atomic.LoadUint64(a) }
func StoreUint64(a *uint64, v uint64)       { call("StoreUint64"); atomic.StoreUint64(a, v) }
func AddUint64(a *uint64, d uint64) uint64  { call("AddUint64"); return atomic.AddUint64(a, d) }
func SwapUint64(a *uint64, v uint64) uint64 { call("SwapUint64"); return atomic.SwapUint64(a, v) }
func CompareAndSwapUint64(a *uint64, o, n uint64) bool {
	call("CompareAndSwapUint64")
	return atomic.CompareAndSwapUint64(a, o, n)
}
func LoadPointer(a *unsafe.Pointer) unsafe.Pointer { call("LoadPointer"); return atomic.LoadPointer(a) }
func StorePointer(a *unsafe.Pointer, v unsafe.Pointer) {
	call("StorePointer")
	atomic.StorePointer(a, v)
}
func SwapPointer(a *unsafe.Pointer, v unsafe.Pointer) unsafe.Pointer {
	call("SwapPointer")
	return atomic.SwapPointer(a, v)
}
func CompareAndSwapPointer(a *unsafe.Pointer, o, n unsafe.Pointer) bool {
	call("CompareAndSwapPointer")
	return atomic.CompareAndSwapPointer(a, o, n)
}
