package crashfs

import (
	"sort"
)

// Options selects which part of the crash model is enumerated.
type Options struct {
	// ByteCuts: the last persisted write of an unsynced file is cut at every byte offset
	// (otherwise only whole writes persist or not).
	ByteCuts bool
	// Torn: the cut-off remainder of that write additionally reads back as zeros and as 0xFF
	// up to the full length of the write (only where it extends the file).
	Torn bool
	// MetaLag: namespace ops since the last directory sync persist as every in-order prefix
	// (otherwise all of them are taken as durable).
	MetaLag bool
	// FsyncCommitsJournal: a file fsync also makes all earlier namespace ops durable (what ext4 does
	// in practice). Off by default: only directory syncs are barriers (the stated, weaker model).
	FsyncCommitsJournal bool
}

var (
	// Full is the crash model of DESIGN §3 E4.
	Full = Options{ByteCuts: true, Torn: true, MetaLag: true}
	// Boundaries enumerates only whole-op states (every data-op prefix, every namespace prefix).
	Boundaries = Options{MetaLag: true}
)

// TailCut says what was persisted of the unsynced data ops of one file.
type TailCut struct {
	Path       string
	Ino        int
	OpsApplied int  // data ops since the last fsync that persisted completely
	OpsPending int  // data ops since the last fsync
	Cut        int  // -1: no partial write; k>=0: the next write persisted only its first k bytes
	WriteLen   int  // length of that write (0 if Cut < 0)
	Fill       byte // 0: remainder absent; 'z': remainder reads as zeros; 'f': remainder reads as 0xFF
}

// CrashInfo identifies one crash image: ops[0:Prefix) were issued; of the namespace ops that
// were not yet covered by a directory sync the first MetaApplied persisted.
type CrashInfo struct {
	Prefix      int
	MetaApplied int
	MetaPending int
	Tails       []TailCut
}

// Variant is a coarse label of the image kind (for violation keys).
func (ci CrashInfo) Variant() string {
	v := "clean"
	for _, t := range ci.Tails {
		switch {
		case t.Fill == 'z':
			return "torn-zero"
		case t.Fill == 'f':
			return "torn-ff"
		case t.Cut >= 0:
			v = "cut"
		case t.OpsApplied < t.OpsPending && v == "clean":
			v = "unsynced-dropped"
		}
	}
	if ci.MetaApplied < ci.MetaPending && v == "clean" {
		v = "meta-lag"
	}
	return v
}

type rIno struct {
	synced []byte
	pend   []int // indices into ops
}

type replay struct {
	ops    []Op
	o      Options
	inodes map[int]*rIno
	dDirs  map[string]bool
	dNames map[string]int
	pendM  []int
}

func (fs *FS) newReplay(o Options) *replay {
	r := &replay{ops: fs.Ops(), o: o, inodes: map[int]*rIno{}, dDirs: map[string]bool{"/": true}, dNames: map[string]int{}}
	for d := range fs.base.Dirs {
		r.dDirs[d] = true
	}
	for f, id := range fs.baseI {
		r.dNames[f] = id
		r.inodes[id] = &rIno{synced: fs.base.Files[f]}
	}
	return r
}

func applyMeta(dirs map[string]bool, names map[string]int, op Op) {
	switch op.Kind {
	case OpMkdir:
		dirs[op.Path] = true
	case OpCreate:
		names[op.Path] = op.Ino
	case OpRemove:
		delete(dirs, op.Path)
		delete(names, op.Path)
	case OpRename:
		if id, ok := names[op.Path]; ok {
			names[op.Path2] = id
			delete(names, op.Path)
		}
	}
}

func (r *replay) commit() {
	for _, i := range r.pendM {
		applyMeta(r.dDirs, r.dNames, r.ops[i])
	}
	r.pendM = r.pendM[:0]
}

func (r *replay) step(i int) {
	op := r.ops[i]
	switch op.Kind {
	case OpCreate:
		r.inodes[op.Ino] = &rIno{}
		r.pendM = append(r.pendM, i)
	case OpMkdir, OpRemove, OpRename:
		r.pendM = append(r.pendM, i)
	case OpSyncDir:
		r.commit()
	case OpWrite, OpTruncate:
		in := r.inodes[op.Ino]
		in.pend = append(in.pend, i)
	case OpSyncFile:
		in := r.inodes[op.Ino]
		cur := in.synced
		for _, j := range in.pend {
			cur = applyData(cur, r.ops[j], -1, 0)
		}
		in.synced, in.pend = cur, nil
		if r.o.FsyncCommitsJournal {
			r.commit()
		}
	}
}

// applyData returns a fresh slice: cur with op applied. cut<0: whole op; else only the first cut
// bytes of a write, the remainder (where it extends the file) filled with fill ('z'/'f') or absent (0).
func applyData(cur []byte, op Op, cut int, fill byte) []byte {
	if op.Kind == OpTruncate {
		out := make([]byte, op.Off)
		copy(out, cur)
		return out
	}
	data := op.Data
	if cut >= 0 {
		data = data[:cut]
	}
	end := op.Off + int64(len(data))
	full := op.Off + int64(len(op.Data))
	size := int64(len(cur))
	if end > size {
		size = end
	}
	if fill != 0 && full > size {
		size = full
	}
	out := make([]byte, size)
	copy(out, cur)
	copy(out[op.Off:], data)
	if fill != 0 {
		from := end
		if int64(len(cur)) > from {
			from = int64(len(cur))
		}
		b := byte(0)
		if fill == 'f' {
			b = 0xFF
		}
		for i := from; i < full; i++ {
			out[i] = b
		}
	}
	return out
}

// variants enumerates every persisted content of one inode with unsynced data ops.
func (r *replay) variants(p string, id int, in *rIno, fn func(TailCut, []byte) bool) bool {
	n := len(in.pend)
	cur := in.synced
	if !fn(TailCut{Path: p, Ino: id, OpsApplied: 0, OpsPending: n, Cut: -1}, cur) {
		return false
	}
	for i, oi := range in.pend {
		op := r.ops[oi]
		if op.Kind == OpWrite {
			l := len(op.Data)
			if r.o.ByteCuts {
				for k := 1; k < l; k++ {
					if !fn(TailCut{Path: p, Ino: id, OpsApplied: i, OpsPending: n, Cut: k, WriteLen: l}, applyData(cur, op, k, 0)) {
						return false
					}
				}
			}
			if r.o.Torn && op.Off+int64(l) > int64(len(cur)) {
				kmax := 1
				if r.o.ByteCuts {
					kmax = l
				}
				for k := 0; k < kmax; k++ {
					for _, f := range []byte{'z', 'f'} {
						if !fn(TailCut{Path: p, Ino: id, OpsApplied: i, OpsPending: n, Cut: k, WriteLen: l, Fill: f}, applyData(cur, op, k, f)) {
							return false
						}
					}
				}
			}
		}
		cur = applyData(cur, op, -1, 0)
		if !fn(TailCut{Path: p, Ino: id, OpsApplied: i + 1, OpsPending: n, Cut: -1}, cur) {
			return false
		}
	}
	return true
}

func (r *replay) emit(prefix int, fn func(CrashInfo, *Image) bool) bool {
	dirs := make(map[string]bool, len(r.dDirs))
	for d := range r.dDirs {
		dirs[d] = true
	}
	names := make(map[string]int, len(r.dNames))
	for f, id := range r.dNames {
		names[f] = id
	}
	j0 := 0
	if !r.o.MetaLag {
		j0 = len(r.pendM)
		for _, i := range r.pendM {
			applyMeta(dirs, names, r.ops[i])
		}
	}
	for j := j0; j <= len(r.pendM); j++ {
		if j > j0 {
			applyMeta(dirs, names, r.ops[r.pendM[j-1]])
		}
		dcopy := make(map[string]bool, len(dirs))
		for d := range dirs {
			dcopy[d] = true
		}
		paths := make([]string, 0, len(names))
		for f := range names {
			paths = append(paths, f)
		}
		sort.Strings(paths)
		var dirty []string
		fixed := make(map[string][]byte, len(paths))
		for _, f := range paths {
			in := r.inodes[names[f]]
			if len(in.pend) > 0 {
				dirty = append(dirty, f)
			} else {
				fixed[f] = in.synced
			}
		}
		ci := CrashInfo{Prefix: prefix, MetaApplied: j, MetaPending: len(r.pendM)}
		var rec func(k int, tails []TailCut, files map[string][]byte) bool
		rec = func(k int, tails []TailCut, files map[string][]byte) bool {
			if k == len(dirty) {
				im := &Image{Dirs: dcopy, Files: make(map[string][]byte, len(files))}
				for f, b := range files {
					im.Files[f] = b
				}
				c := ci
				c.Tails = append([]TailCut(nil), tails...)
				return fn(c, im)
			}
			f := dirty[k]
			return r.variants(f, names[f], r.inodes[names[f]], func(tc TailCut, b []byte) bool {
				files[f] = b
				return rec(k+1, append(tails, tc), files)
			})
		}
		if !rec(0, nil, fixed) {
			return false
		}
	}
	return true
}

// EnumCrash calls fn for every crash image of every op-log prefix p with from <= p <= to
// (prefix p = the first p ops were issued before the crash). Images and their contents are
// immutable and may be retained. fn returning false stops the enumeration.
func (fs *FS) EnumCrash(from, to int, o Options, fn func(CrashInfo, *Image) bool) {
	r := fs.newReplay(o)
	if to > len(r.ops) {
		to = len(r.ops)
	}
	for i := 0; i < from && i < len(r.ops); i++ {
		r.step(i)
	}
	for p := from; p <= to; p++ {
		if !r.emit(p, fn) {
			return
		}
		if p < len(r.ops) {
			r.step(p)
		}
	}
}
