package crashfs

import (
	"fmt"
	"os"
	"sort"
	"strings"
	"testing"

	"github.com/cockroachdb/pebble/v2/vfs"
)

func imgKey(im *Image) string {
	var out []string
	for f, b := range im.Files {
		out = append(out, fmt.Sprintf("%s=%q", f, b))
	}
	sort.Strings(out)
	return strings.Join(out, ",")
}

// TestCrashModel pins the crash semantics on a tiny script.
func TestCrashModel(t *testing.T) {
	Install()
	fs := NewFS()
	root := fs.Mount()
	defer fs.Unmount()
	must := func(err error) {
		t.Helper()
		if err != nil {
			t.Fatal(err)
		}
	}
	must(vfs.Default.MkdirAll(root+"/d", 0o755))
	f, err := vfs.Default.Create(root+"/d/a", "x")
	must(err)
	dir, err := vfs.Default.OpenDir(root + "/d")
	must(err)
	must(dir.Sync()) // mkdir + create durable
	_, err = f.Write([]byte("AB"))
	must(err)
	must(f.Sync()) // "AB" durable
	_, err = f.Write([]byte("cd"))
	must(err)                                          // unsynced
	must(vfs.Default.Rename(root+"/d/a", root+"/d/b")) // namespace lag
	p := fs.NumOps()

	got := map[string]bool{}
	fs.EnumCrash(p, p, Full, func(ci CrashInfo, im *Image) bool { got[imgKey(im)] = true; return true })
	want := []string{
		// rename not persisted / persisted  x  tail: none, "c", "cd", zero / 0xFF fills at cut 0 and 1
		`/d/a="AB"`, `/d/a="ABc"`, `/d/a="ABcd"`, `/d/a="AB\x00\x00"`, `/d/a="AB\xff\xff"`, `/d/a="ABc\x00"`, `/d/a="ABc\xff"`,
		`/d/b="AB"`, `/d/b="ABc"`, `/d/b="ABcd"`, `/d/b="AB\x00\x00"`, `/d/b="AB\xff\xff"`, `/d/b="ABc\x00"`, `/d/b="ABc\xff"`,
	}
	for _, w := range want {
		if !got[w] {
			t.Errorf("missing image %s", w)
		}
		delete(got, w)
	}
	for g := range got {
		t.Errorf("unexpected image %s", g)
	}

	// before the directory sync nothing of the namespace is guaranteed: prefix 0 = empty disk
	n := 0
	fs.EnumCrash(0, 0, Full, func(ci CrashInfo, im *Image) bool { n++; return len(im.Files) == 0 })
	if n != 1 {
		t.Errorf("prefix 0: %d images", n)
	}

	// fault injection: the next call fails once with EIO and has no effect
	fs.FailCall(fs.Calls(), FailNoEffect)
	if _, err := f.Write([]byte("zz")); err == nil || !strings.Contains(err.Error(), "input/output error") {
		t.Errorf("expected EIO, got %v", err)
	}
	if fs.NumOps() != p {
		t.Errorf("failed write was logged")
	}
	if _, err := f.Write([]byte("ok")); err != nil {
		t.Errorf("fault must fire once: %v", err)
	}

	// a recovered machine: image -> fresh FS
	fs2 := NewFSFromImage(fs.Image())
	root2 := fs2.Mount()
	defer fs2.Unmount()
	g, err := vfs.Default.Open(root2 + "/d/b")
	must(err)
	buf := make([]byte, 16)
	k, _ := g.Read(buf)
	if string(buf[:k]) != "ABcdok" {
		t.Errorf("read back %q", buf[:k])
	}
	if _, err := vfs.Default.Stat(root2 + "/d/a"); !os.IsNotExist(err) {
		t.Errorf("stat of renamed-away file: %v", err)
	}
}
