// Package crashfs is engine E4 of the verification framework: an in-memory filesystem that
// logs every mutation, can fail any single call with EIO and can enumerate every disk image a
// crash may leave behind under the *ext4-ordered* crash model stated in DESIGN §3:
//
//   - file data: for every inode, the data operations (write / truncate) issued since its last
//     successful fsync persist as an in-order prefix; the last write of that prefix may be cut at
//     every byte offset, and the part of it that was cut off may additionally read back as zeros
//     or as 0xFF garbage up to the full length of that write (torn / stale tail);
//   - namespace: create / remove / rename / mkdir issued since the last directory sync persist as
//     an in-order prefix (metadata is journaled in order; it may lag, it never reorders). A
//     directory sync commits the whole journal (all earlier namespace operations of the FS).
//
// Nothing else is ever produced: no reordering of data writes inside a file, no damage to synced
// bytes, no namespace reordering. So a recovery failure on one of these images is a failure on a
// state a real crash can leave.
//
// Minimal use:
//
//	crashfs.Install()                       // once: vfs.Default (and the os shim) now route by path
//	fs := crashfs.NewFS()                   // or NewFSFromImage(img)
//	root := fs.Mount(); defer fs.Unmount()  // every path below root lives in fs
//	... run the system under test on root+"/db" ...
//	fs.EnumCrash(from, to, crashfs.Full, func(ci crashfs.CrashInfo, img *crashfs.Image) bool { ... })
//	fs.FailCall(k, crashfs.FailNoEffect)    // k-th FS call (see Calls) returns EIO
package crashfs

import (
	"crypto/sha256"
	"fmt"
	"io"
	"os"
	"path"
	"sort"
	"strings"
	"sync"
	"syscall"
	"time"

	"github.com/cockroachdb/pebble/v2/vfs"
)

type OpKind uint8

const (
	OpMkdir OpKind = iota + 1
	OpCreate
	OpRemove
	OpRename
	OpSyncDir
	OpWrite
	OpTruncate
	OpSyncFile
)

func (k OpKind) String() string {
	return [...]string{"?", "mkdir", "create", "remove", "rename", "syncdir", "write", "truncate", "syncfile"}[k]
}

// Op is one logged mutation. Paths are relative to the mount root ("/db/consensus-wal/000001.log").
type Op struct {
	Kind  OpKind
	Path  string // namespace ops: the path; data ops: the path the handle was opened with (informative)
	Path2 string // rename target
	Ino   int    // create + data ops
	Off   int64  // write offset / truncate size
	Data  []byte // write payload (private copy)
	Tag   int    // value of SetTag when the op was issued
}

func (o Op) String() string {
	switch o.Kind {
	case OpWrite:
		return fmt.Sprintf("write(%s#%d,off=%d,len=%d)", path.Base(o.Path), o.Ino, o.Off, len(o.Data))
	case OpTruncate:
		return fmt.Sprintf("truncate(%s#%d,%d)", path.Base(o.Path), o.Ino, o.Off)
	case OpSyncFile:
		return fmt.Sprintf("syncfile(%s#%d)", path.Base(o.Path), o.Ino)
	case OpRename:
		return fmt.Sprintf("rename(%s,%s)", o.Path, o.Path2)
	case OpCreate:
		return fmt.Sprintf("create(%s#%d)", o.Path, o.Ino)
	default:
		return fmt.Sprintf("%s(%s)", o.Kind, o.Path)
	}
}

// Image is a complete disk state: directories and file contents, paths relative to the mount root.
// Contents must be treated as immutable.
type Image struct {
	Dirs  map[string]bool
	Files map[string][]byte
}

func NewImage() *Image { return &Image{Dirs: map[string]bool{"/": true}, Files: map[string][]byte{}} }

// Hash is a content hash of the image (dedupe key).
func (im *Image) Hash() [16]byte {
	h := sha256.New()
	names := make([]string, 0, len(im.Dirs)+len(im.Files))
	for d := range im.Dirs {
		names = append(names, d+"/")
	}
	for f := range im.Files {
		names = append(names, f)
	}
	sort.Strings(names)
	var lenbuf [8]byte
	for _, n := range names {
		io.WriteString(h, n)
		h.Write([]byte{0})
		if !strings.HasSuffix(n, "/") {
			b := im.Files[n]
			l := uint64(len(b))
			for i := range lenbuf {
				lenbuf[i] = byte(l >> (8 * i))
			}
			h.Write(lenbuf[:])
			h.Write(b)
		}
	}
	var out [16]byte
	copy(out[:], h.Sum(nil))
	return out
}

// Describe lists files and sizes (for violation details).
func (im *Image) Describe() []string {
	var out []string
	for f, b := range im.Files {
		out = append(out, fmt.Sprintf("%s[%d]", f, len(b)))
	}
	sort.Strings(out)
	return out
}

type FaultMode uint8

const (
	// FailNoEffect: the call returns EIO and has no effect at all.
	FailNoEffect FaultMode = iota
	// FailPartial: like FailNoEffect, except that a failing write first writes the first half of its
	// bytes (volatile, unsynced) and a failing fsync leaves the data unsynced.
	FailPartial
)

type inode struct {
	id   int
	data []byte
}

// FS is the logging filesystem. It implements vfs.FS. All methods are safe for concurrent use.
type FS struct {
	mu    sync.Mutex
	base  *Image
	baseI map[string]int // inode numbers of the files of base
	dirs  map[string]bool
	names map[string]*inode
	nIno  int
	ops   []Op
	tag   int

	calls     int
	callNames []string
	failAt    int
	failMode  FaultMode
	failed    string // name of the call that was failed, "" if the fault has not fired

	root string // mount root, "" if not mounted
}

// NewFS returns an empty filesystem (only "/").
func NewFS() *FS { return NewFSFromImage(NewImage()) }

// NewFSFromImage returns a filesystem whose durable and volatile state is img (a machine that just
// rebooted with that disk). img is not modified.
func NewFSFromImage(img *Image) *FS {
	fs := &FS{base: img, baseI: map[string]int{}, dirs: map[string]bool{}, names: map[string]*inode{}, failAt: -1}
	for d := range img.Dirs {
		fs.dirs[d] = true
	}
	fs.dirs["/"] = true
	files := make([]string, 0, len(img.Files))
	for f := range img.Files {
		files = append(files, f)
	}
	sort.Strings(files)
	for _, f := range files {
		in := &inode{id: fs.nIno, data: append([]byte(nil), img.Files[f]...)}
		fs.nIno++
		fs.names[f] = in
		fs.baseI[f] = in.id
	}
	return fs
}

// SetTag labels all subsequently logged ops (harnesses store the index of the API call).
func (fs *FS) SetTag(t int) { fs.mu.Lock(); fs.tag = t; fs.mu.Unlock() }

// NumOps is the current length of the op log.
func (fs *FS) NumOps() int { fs.mu.Lock(); defer fs.mu.Unlock(); return len(fs.ops) }

// Ops returns the op log (shared backing array; do not modify).
func (fs *FS) Ops() []Op { fs.mu.Lock(); defer fs.mu.Unlock(); return fs.ops[:len(fs.ops):len(fs.ops)] }

// Calls is the number of FS calls (mutating or not) made so far; call k is the one FailCall(k) hits.
func (fs *FS) Calls() int { fs.mu.Lock(); defer fs.mu.Unlock(); return fs.calls }

// CallName names call k ("create", "write", "syncfile", "open", "stat", ...).
func (fs *FS) CallName(k int) string {
	fs.mu.Lock()
	defer fs.mu.Unlock()
	if k < 0 || k >= len(fs.callNames) {
		return "?"
	}
	return fs.callNames[k]
}

// FailCall makes call number k (0-based, absolute) return EIO once.
func (fs *FS) FailCall(k int, mode FaultMode) {
	fs.mu.Lock()
	fs.failAt, fs.failMode, fs.failed = k, mode, ""
	fs.mu.Unlock()
}

// Failed reports which call the injected fault hit ("" if it has not fired).
func (fs *FS) Failed() string { fs.mu.Lock(); defer fs.mu.Unlock(); return fs.failed }

// Image returns the current volatile state as an image (what a clean shutdown leaves).
func (fs *FS) Image() *Image {
	fs.mu.Lock()
	defer fs.mu.Unlock()
	im := &Image{Dirs: map[string]bool{}, Files: map[string][]byte{}}
	for d := range fs.dirs {
		im.Dirs[d] = true
	}
	for n, in := range fs.names {
		im.Files[n] = append([]byte(nil), in.data...)
	}
	return im
}

// ---- call accounting / fault injection (fs.mu held) ----

func eio(op, p string) error { return &os.PathError{Op: op, Path: p, Err: syscall.EIO} }

// enter counts a call; it returns true when this call must fail.
func (fs *FS) enter(name string) bool {
	k := fs.calls
	fs.calls++
	fs.callNames = append(fs.callNames, name)
	if k == fs.failAt {
		fs.failed = name
		return true
	}
	return false
}

func (fs *FS) log(op Op) { op.Tag = fs.tag; fs.ops = append(fs.ops, op) }

func clean(p string) string {
	p = path.Clean("/" + p)
	return p
}

func notExist(op, p string) error { return &os.PathError{Op: op, Path: p, Err: syscall.ENOENT} }

// ---- vfs.FS ----

var _ vfs.FS = (*FS)(nil)

func (fs *FS) Create(name string, _ vfs.DiskWriteCategory) (vfs.File, error) {
	h, err := fs.OpenFile(name, os.O_RDWR|os.O_CREATE|os.O_TRUNC|flagReplace, 0o666)
	if err != nil {
		return nil, err
	}
	return h, nil
}

// flagReplace: an existing file is removed and a new inode created (vfs.Create semantics).
const flagReplace = 1 << 30

// OpenFile has os.OpenFile semantics (O_RDONLY/O_WRONLY/O_RDWR, O_CREATE, O_EXCL, O_TRUNC, O_APPEND).
func (fs *FS) OpenFile(name string, flag int, _ os.FileMode) (*Handle, error) {
	p := clean(name)
	fs.mu.Lock()
	defer fs.mu.Unlock()
	callName := "open"
	if flag&os.O_CREATE != 0 {
		callName = "create"
	}
	if fs.enter(callName) {
		return nil, eio("open", name)
	}
	if fs.dirs[p] {
		if flag&(os.O_WRONLY|os.O_RDWR) != 0 {
			return nil, &os.PathError{Op: "open", Path: name, Err: syscall.EISDIR}
		}
		return &Handle{fs: fs, path: p, dir: true, rd: true}, nil
	}
	in := fs.names[p]
	if in != nil && flag&os.O_CREATE != 0 && flag&os.O_EXCL != 0 {
		return nil, &os.PathError{Op: "open", Path: name, Err: syscall.EEXIST}
	}
	if in != nil && flag&flagReplace != 0 {
		fs.log(Op{Kind: OpRemove, Path: p})
		delete(fs.names, p)
		in = nil
	}
	if in == nil {
		if flag&os.O_CREATE == 0 {
			return nil, notExist("open", name)
		}
		if !fs.dirs[path.Dir(p)] {
			return nil, notExist("open", name)
		}
		in = &inode{id: fs.nIno}
		fs.nIno++
		fs.names[p] = in
		fs.log(Op{Kind: OpCreate, Path: p, Ino: in.id})
	} else if flag&os.O_TRUNC != 0 && len(in.data) > 0 {
		in.data = nil
		fs.log(Op{Kind: OpTruncate, Path: p, Ino: in.id, Off: 0})
	}
	acc := flag & (os.O_RDONLY | os.O_WRONLY | os.O_RDWR)
	return &Handle{fs: fs, in: in, path: p, rd: acc != os.O_WRONLY, wr: acc != os.O_RDONLY, app: flag&os.O_APPEND != 0}, nil
}

func (fs *FS) Link(oldname, newname string) error {
	return &os.LinkError{Op: "link", Old: oldname, New: newname, Err: syscall.ENOTSUP}
}

func (fs *FS) Open(name string, opts ...vfs.OpenOption) (vfs.File, error) {
	h, err := fs.OpenFile(name, os.O_RDONLY, 0)
	if err != nil {
		return nil, err
	}
	for _, o := range opts {
		o.Apply(h)
	}
	return h, nil
}

func (fs *FS) OpenReadWrite(name string, _ vfs.DiskWriteCategory, opts ...vfs.OpenOption) (vfs.File, error) {
	h, err := fs.OpenFile(name, os.O_RDWR|os.O_CREATE, 0o666)
	if err != nil {
		return nil, err
	}
	for _, o := range opts {
		o.Apply(h)
	}
	return h, nil
}

func (fs *FS) OpenDir(name string) (vfs.File, error) {
	p := clean(name)
	fs.mu.Lock()
	defer fs.mu.Unlock()
	if fs.enter("opendir") {
		return nil, eio("open", name)
	}
	if !fs.dirs[p] {
		return nil, notExist("open", name)
	}
	return &Handle{fs: fs, path: p, dir: true, rd: true}, nil
}

func (fs *FS) Remove(name string) error {
	p := clean(name)
	fs.mu.Lock()
	defer fs.mu.Unlock()
	if fs.enter("remove") {
		return eio("remove", name)
	}
	return fs.removeLocked(p, name)
}

func (fs *FS) removeLocked(p, name string) error {
	if fs.dirs[p] {
		pre := p + "/"
		for d := range fs.dirs {
			if strings.HasPrefix(d, pre) {
				return &os.PathError{Op: "remove", Path: name, Err: syscall.ENOTEMPTY}
			}
		}
		for f := range fs.names {
			if strings.HasPrefix(f, pre) {
				return &os.PathError{Op: "remove", Path: name, Err: syscall.ENOTEMPTY}
			}
		}
		delete(fs.dirs, p)
		fs.log(Op{Kind: OpRemove, Path: p})
		return nil
	}
	if fs.names[p] == nil {
		return notExist("remove", name)
	}
	delete(fs.names, p)
	fs.log(Op{Kind: OpRemove, Path: p})
	return nil
}

func (fs *FS) RemoveAll(name string) error {
	p := clean(name)
	fs.mu.Lock()
	defer fs.mu.Unlock()
	if fs.enter("removeall") {
		return eio("removeall", name)
	}
	pre := p + "/"
	var victims []string
	for f := range fs.names {
		if f == p || strings.HasPrefix(f, pre) {
			victims = append(victims, f)
		}
	}
	var dvict []string
	for d := range fs.dirs {
		if d != "/" && (d == p || strings.HasPrefix(d, pre)) {
			dvict = append(dvict, d)
		}
	}
	sort.Strings(victims)
	sort.Sort(sort.Reverse(sort.StringSlice(dvict))) // children before parents
	for _, f := range victims {
		delete(fs.names, f)
		fs.log(Op{Kind: OpRemove, Path: f})
	}
	for _, d := range dvict {
		delete(fs.dirs, d)
		fs.log(Op{Kind: OpRemove, Path: d})
	}
	return nil
}

func (fs *FS) Rename(oldname, newname string) error {
	o, n := clean(oldname), clean(newname)
	fs.mu.Lock()
	defer fs.mu.Unlock()
	if fs.enter("rename") {
		return &os.LinkError{Op: "rename", Old: oldname, New: newname, Err: syscall.EIO}
	}
	in := fs.names[o]
	if in == nil {
		return &os.LinkError{Op: "rename", Old: oldname, New: newname, Err: syscall.ENOENT}
	}
	if !fs.dirs[path.Dir(n)] {
		return &os.LinkError{Op: "rename", Old: oldname, New: newname, Err: syscall.ENOENT}
	}
	if o == n {
		return nil
	}
	delete(fs.names, o)
	fs.names[n] = in
	fs.log(Op{Kind: OpRename, Path: o, Path2: n})
	return nil
}

func (fs *FS) ReuseForWrite(oldname, newname string, c vfs.DiskWriteCategory) (vfs.File, error) {
	if err := fs.Rename(oldname, newname); err != nil {
		return nil, err
	}
	return fs.OpenReadWrite(newname, c)
}

func (fs *FS) MkdirAll(dir string, _ os.FileMode) error {
	p := clean(dir)
	fs.mu.Lock()
	defer fs.mu.Unlock()
	if fs.enter("mkdirall") {
		return eio("mkdir", dir)
	}
	if fs.names[p] != nil {
		return &os.PathError{Op: "mkdir", Path: dir, Err: syscall.ENOTDIR}
	}
	var todo []string
	for q := p; !fs.dirs[q]; q = path.Dir(q) {
		todo = append(todo, q)
	}
	for i := len(todo) - 1; i >= 0; i-- {
		fs.dirs[todo[i]] = true
		fs.log(Op{Kind: OpMkdir, Path: todo[i]})
	}
	return nil
}

type nopCloser struct{}

func (nopCloser) Close() error { return nil }

func (fs *FS) Lock(name string) (io.Closer, error) { return nopCloser{}, nil }

func (fs *FS) List(dir string) ([]string, error) {
	p := clean(dir)
	fs.mu.Lock()
	defer fs.mu.Unlock()
	if fs.enter("list") {
		return nil, eio("readdir", dir)
	}
	if !fs.dirs[p] {
		return nil, notExist("open", dir)
	}
	return fs.listLocked(p), nil
}

func (fs *FS) listLocked(p string) []string {
	var out []string
	for f := range fs.names {
		if path.Dir(f) == p {
			out = append(out, path.Base(f))
		}
	}
	for d := range fs.dirs {
		if d != "/" && path.Dir(d) == p {
			out = append(out, path.Base(d))
		}
	}
	sort.Strings(out)
	return out
}

func (fs *FS) Stat(name string) (vfs.FileInfo, error) {
	p := clean(name)
	fs.mu.Lock()
	defer fs.mu.Unlock()
	if fs.enter("stat") {
		return nil, eio("stat", name)
	}
	if fs.dirs[p] {
		return fileInfo{name: path.Base(p), dir: true}, nil
	}
	if in := fs.names[p]; in != nil {
		return fileInfo{name: path.Base(p), size: int64(len(in.data))}, nil
	}
	return nil, notExist("stat", name)
}

func (fs *FS) PathBase(p string) string       { return path.Base(p) }
func (fs *FS) PathJoin(elem ...string) string { return path.Join(elem...) }
func (fs *FS) PathDir(p string) string        { return path.Dir(p) }
func (fs *FS) Unwrap() vfs.FS                 { return nil }
func (fs *FS) GetDiskUsage(string) (vfs.DiskUsage, error) {
	return vfs.DiskUsage{AvailBytes: 1 << 40, TotalBytes: 1 << 41, UsedBytes: 1 << 40}, nil
}

type fileInfo struct {
	name string
	size int64
	dir  bool
}

func (fi fileInfo) Name() string { return fi.name }
func (fi fileInfo) Size() int64  { return fi.size }
func (fi fileInfo) Mode() os.FileMode {
	if fi.dir {
		return os.ModeDir | 0o755
	}
	return 0o644
}
func (fi fileInfo) ModTime() time.Time     { return time.Time{} }
func (fi fileInfo) IsDir() bool            { return fi.dir }
func (fi fileInfo) Sys() any               { return nil }
func (fi fileInfo) DeviceID() vfs.DeviceID { return vfs.DeviceID{} }

// ---- Handle: vfs.File + the *os.File methods the shim needs ----

type Handle struct {
	fs     *FS
	in     *inode
	path   string
	pos    int64
	rd, wr bool
	app    bool
	dir    bool
	closed bool
}

var _ vfs.File = (*Handle)(nil)

func (h *Handle) Name() string { return h.path }

func (h *Handle) Close() error {
	h.fs.mu.Lock()
	defer h.fs.mu.Unlock()
	if h.closed {
		return &os.PathError{Op: "close", Path: h.path, Err: os.ErrClosed}
	}
	h.closed = true // the descriptor is released even when close reports an error
	if h.fs.enter("close") {
		return eio("close", h.path)
	}
	return nil
}

func (h *Handle) bad(op string) error {
	if h.closed {
		return &os.PathError{Op: op, Path: h.path, Err: os.ErrClosed}
	}
	if h.dir {
		return &os.PathError{Op: op, Path: h.path, Err: syscall.EISDIR}
	}
	return nil
}

func (h *Handle) Read(p []byte) (int, error) {
	h.fs.mu.Lock()
	defer h.fs.mu.Unlock()
	if err := h.bad("read"); err != nil {
		return 0, err
	}
	if h.fs.enter("read") {
		return 0, eio("read", h.path)
	}
	if !h.rd {
		return 0, &os.PathError{Op: "read", Path: h.path, Err: syscall.EBADF}
	}
	if h.pos >= int64(len(h.in.data)) {
		return 0, io.EOF
	}
	n := copy(p, h.in.data[h.pos:])
	h.pos += int64(n)
	return n, nil
}

func (h *Handle) ReadAt(p []byte, off int64) (int, error) {
	h.fs.mu.Lock()
	defer h.fs.mu.Unlock()
	if err := h.bad("read"); err != nil {
		return 0, err
	}
	if h.fs.enter("readat") {
		return 0, eio("read", h.path)
	}
	if !h.rd {
		return 0, &os.PathError{Op: "read", Path: h.path, Err: syscall.EBADF}
	}
	if off >= int64(len(h.in.data)) {
		return 0, io.EOF
	}
	n := copy(p, h.in.data[off:])
	if n < len(p) {
		return n, io.EOF
	}
	return n, nil
}

func (h *Handle) writeLocked(p []byte, off int64) (int, error) {
	if err := h.bad("write"); err != nil {
		return 0, err
	}
	fail := h.fs.enter("write")
	if !h.wr {
		return 0, &os.PathError{Op: "write", Path: h.path, Err: syscall.EBADF}
	}
	if fail {
		if h.fs.failMode == FailNoEffect || len(p) < 2 {
			return 0, eio("write", h.path)
		}
		p = p[:len(p)/2]
	}
	if len(p) > 0 {
		end := off + int64(len(p))
		if int64(len(h.in.data)) < end {
			nd := make([]byte, end)
			copy(nd, h.in.data)
			h.in.data = nd
		}
		copy(h.in.data[off:], p)
		h.fs.log(Op{Kind: OpWrite, Path: h.path, Ino: h.in.id, Off: off, Data: append([]byte(nil), p...)})
	}
	if fail {
		return len(p), eio("write", h.path)
	}
	return len(p), nil
}

func (h *Handle) Write(p []byte) (int, error) {
	h.fs.mu.Lock()
	defer h.fs.mu.Unlock()
	if h.app && h.in != nil {
		h.pos = int64(len(h.in.data))
	}
	n, err := h.writeLocked(p, h.pos)
	h.pos += int64(n)
	return n, err
}

func (h *Handle) WriteString(s string) (int, error) { return h.Write([]byte(s)) }

func (h *Handle) WriteAt(p []byte, off int64) (int, error) {
	h.fs.mu.Lock()
	defer h.fs.mu.Unlock()
	return h.writeLocked(p, off)
}

func (h *Handle) Seek(offset int64, whence int) (int64, error) {
	h.fs.mu.Lock()
	defer h.fs.mu.Unlock()
	if err := h.bad("seek"); err != nil {
		return 0, err
	}
	switch whence {
	case io.SeekStart:
		h.pos = offset
	case io.SeekCurrent:
		h.pos += offset
	case io.SeekEnd:
		h.pos = int64(len(h.in.data)) + offset
	}
	return h.pos, nil
}

func (h *Handle) Truncate(size int64) error {
	h.fs.mu.Lock()
	defer h.fs.mu.Unlock()
	if err := h.bad("truncate"); err != nil {
		return err
	}
	if h.fs.enter("truncate") {
		return eio("truncate", h.path)
	}
	if !h.wr {
		return &os.PathError{Op: "truncate", Path: h.path, Err: syscall.EINVAL}
	}
	if size == int64(len(h.in.data)) {
		return nil
	}
	nd := make([]byte, size)
	copy(nd, h.in.data)
	h.in.data = nd
	h.fs.log(Op{Kind: OpTruncate, Path: h.path, Ino: h.in.id, Off: size})
	return nil
}

func (h *Handle) Preallocate(offset, length int64) error { return nil }
func (h *Handle) Prefetch(offset, length int64) error    { return nil }
func (h *Handle) Fd() uintptr                            { return vfs.InvalidFd }

func (h *Handle) Stat() (vfs.FileInfo, error) {
	h.fs.mu.Lock()
	defer h.fs.mu.Unlock()
	if h.closed {
		return nil, &os.PathError{Op: "stat", Path: h.path, Err: os.ErrClosed}
	}
	if h.fs.enter("fstat") {
		return nil, eio("stat", h.path)
	}
	if h.dir {
		return fileInfo{name: path.Base(h.path), dir: true}, nil
	}
	return fileInfo{name: path.Base(h.path), size: int64(len(h.in.data))}, nil
}

func (h *Handle) Sync() error {
	h.fs.mu.Lock()
	defer h.fs.mu.Unlock()
	if h.closed {
		return &os.PathError{Op: "sync", Path: h.path, Err: os.ErrClosed}
	}
	if h.dir {
		if h.fs.enter("syncdir") {
			return eio("sync", h.path)
		}
		h.fs.log(Op{Kind: OpSyncDir, Path: h.path})
		return nil
	}
	if h.fs.enter("syncfile") {
		return eio("sync", h.path)
	}
	h.fs.log(Op{Kind: OpSyncFile, Path: h.path, Ino: h.in.id})
	return nil
}

func (h *Handle) SyncData() error { return h.Sync() }

func (h *Handle) SyncTo(length int64) (bool, error) {
	if h.dir {
		return false, nil
	}
	return true, h.Sync()
}

// Readdirnames lists a directory handle.
func (h *Handle) Readdirnames(n int) ([]string, error) {
	h.fs.mu.Lock()
	defer h.fs.mu.Unlock()
	if !h.dir {
		return nil, &os.PathError{Op: "readdir", Path: h.path, Err: syscall.ENOTDIR}
	}
	if h.fs.enter("list") {
		return nil, eio("readdir", h.path)
	}
	return h.fs.listLocked(h.path), nil
}

// ReadFile reads a whole file (os.ReadFile).
func (fs *FS) ReadFile(name string) ([]byte, error) {
	p := clean(name)
	fs.mu.Lock()
	defer fs.mu.Unlock()
	if fs.enter("readfile") {
		return nil, eio("read", name)
	}
	in := fs.names[p]
	if in == nil {
		if fs.dirs[p] {
			return nil, &os.PathError{Op: "read", Path: name, Err: syscall.EISDIR}
		}
		return nil, notExist("open", name)
	}
	return append([]byte(nil), in.data...), nil
}
