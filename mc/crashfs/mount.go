package crashfs

import (
	"fmt"
	"io"
	"os"
	"strings"
	"sync"
	"sync/atomic"

	"github.com/cockroachdb/pebble/v2/vfs"
)

// MountPrefix is the path prefix under which crashfs instances are mounted. Any path that does
// not start with it is served by the filesystem that was vfs.Default before Install (the real OS).
const MountPrefix = "/@crashfs/"

var (
	mountMu  sync.RWMutex
	mounts   = map[string]*FS{}
	mountSeq atomic.Int64
	install  sync.Once
	origFS   vfs.FS
)

// Install replaces pebble's package variable vfs.Default by a router (idempotent): paths below a
// Mount() root go to that crashfs instance, everything else to the original vfs.Default. Code that
// hard-codes vfs.Default (consensus/walstore) thereby runs on crashfs, and many instances can be
// used concurrently. The os shim (package osshim) routes the same way.
func Install() {
	install.Do(func() {
		origFS = vfs.Default
		vfs.Default = router{}
	})
}

// Mount makes the filesystem reachable as <root>/... through vfs.Default and the os shim and
// returns root (no trailing slash).
func (fs *FS) Mount() string {
	id := mountSeq.Add(1)
	key := fmt.Sprintf("%d", id)
	mountMu.Lock()
	mounts[key] = fs
	mountMu.Unlock()
	fs.mu.Lock()
	fs.root = MountPrefix + key
	fs.mu.Unlock()
	return MountPrefix + key
}

func (fs *FS) Unmount() {
	fs.mu.Lock()
	root := fs.root
	fs.root = ""
	fs.mu.Unlock()
	if root == "" {
		return
	}
	mountMu.Lock()
	delete(mounts, strings.TrimPrefix(root, MountPrefix))
	mountMu.Unlock()
}

// Resolve maps an absolute path to (instance, path inside the instance); fs == nil if the path is
// not below a mounted root.
func Resolve(p string) (*FS, string) {
	if !strings.HasPrefix(p, MountPrefix) {
		return nil, p
	}
	rest := p[len(MountPrefix):]
	key, rel := rest, "/"
	if i := strings.IndexByte(rest, '/'); i >= 0 {
		key, rel = rest[:i], rest[i:]
	}
	mountMu.RLock()
	fs := mounts[key]
	mountMu.RUnlock()
	if fs == nil {
		return nil, p
	}
	return fs, rel
}

type router struct{}

var _ vfs.FS = router{}

func pick(p string) (vfs.FS, string) {
	if fs, rel := Resolve(p); fs != nil {
		return fs, rel
	}
	return origFS, p
}

func (router) Create(name string, c vfs.DiskWriteCategory) (vfs.File, error) {
	fs, p := pick(name)
	return fs.Create(p, c)
}
func (router) Link(o, n string) error {
	fs, p := pick(o)
	_, q := pick(n)
	return fs.Link(p, q)
}
func (router) Open(name string, opts ...vfs.OpenOption) (vfs.File, error) {
	fs, p := pick(name)
	return fs.Open(p, opts...)
}
func (router) OpenReadWrite(name string, c vfs.DiskWriteCategory, opts ...vfs.OpenOption) (vfs.File, error) {
	fs, p := pick(name)
	return fs.OpenReadWrite(p, c, opts...)
}
func (router) OpenDir(name string) (vfs.File, error) { fs, p := pick(name); return fs.OpenDir(p) }
func (router) Remove(name string) error              { fs, p := pick(name); return fs.Remove(p) }
func (router) RemoveAll(name string) error           { fs, p := pick(name); return fs.RemoveAll(p) }
func (router) Rename(o, n string) error {
	fs, p := pick(o)
	_, q := pick(n)
	return fs.Rename(p, q)
}
func (router) ReuseForWrite(o, n string, c vfs.DiskWriteCategory) (vfs.File, error) {
	fs, p := pick(o)
	_, q := pick(n)
	return fs.ReuseForWrite(p, q, c)
}
func (router) MkdirAll(dir string, perm os.FileMode) error {
	fs, p := pick(dir)
	return fs.MkdirAll(p, perm)
}
func (router) Lock(name string) (io.Closer, error)    { fs, p := pick(name); return fs.Lock(p) }
func (router) List(dir string) ([]string, error)      { fs, p := pick(dir); return fs.List(p) }
func (router) Stat(name string) (vfs.FileInfo, error) { fs, p := pick(name); return fs.Stat(p) }
func (router) PathBase(p string) string               { return origFS.PathBase(p) }
func (router) PathJoin(elem ...string) string         { return origFS.PathJoin(elem...) }
func (router) PathDir(p string) string                { return origFS.PathDir(p) }
func (router) Unwrap() vfs.FS                         { return nil }
func (router) GetDiskUsage(p string) (vfs.DiskUsage, error) {
	fs, q := pick(p)
	return fs.GetDiskUsage(q)
}
