// Package osshim is a drop-in subset of package os whose file operations are routed to a mounted
// crashfs instance when the path lies below a crashfs mount root, and to the real package os
// otherwise. A harness's prebuild step rewrites `import "os"` into
// `import os "verif/mc/crashfs/osshim"` in copies of the files of the package under test
// (go build -overlay), so that direct os.* file access becomes visible to crash enumeration and
// fault injection without editing the repository.
package osshim

import (
	"io/fs"
	"os"

	"verif/mc/crashfs"
)

const (
	O_RDONLY = os.O_RDONLY
	O_WRONLY = os.O_WRONLY
	O_RDWR   = os.O_RDWR
	O_APPEND = os.O_APPEND
	O_CREATE = os.O_CREATE
	O_EXCL   = os.O_EXCL
	O_SYNC   = os.O_SYNC
	O_TRUNC  = os.O_TRUNC

	ModeDir    = os.ModeDir
	ModePerm   = os.ModePerm
	ModeAppend = os.ModeAppend

	PathSeparator = os.PathSeparator
	DevNull       = os.DevNull
)

var (
	ErrInvalid          = os.ErrInvalid
	ErrPermission       = os.ErrPermission
	ErrExist            = os.ErrExist
	ErrNotExist         = os.ErrNotExist
	ErrClosed           = os.ErrClosed
	ErrDeadlineExceeded = os.ErrDeadlineExceeded
	ErrNoDeadline       = os.ErrNoDeadline

	Stdin  = os.Stdin
	Stdout = os.Stdout
	Stderr = os.Stderr
	Args   = os.Args
)

type (
	FileMode     = os.FileMode
	FileInfo     = os.FileInfo
	PathError    = os.PathError
	LinkError    = os.LinkError
	SyscallError = os.SyscallError
	DirEntry     = os.DirEntry
	Signal       = os.Signal
)

// File mirrors *os.File for the methods file-handling code uses.
type File struct {
	h *crashfs.Handle
	f *os.File
}

func wrapOS(f *os.File, err error) (*File, error) {
	if err != nil {
		return nil, err
	}
	return &File{f: f}, nil
}

func wrapH(h *crashfs.Handle, err error) (*File, error) {
	if err != nil {
		return nil, err
	}
	return &File{h: h}, nil
}

func OpenFile(name string, flag int, perm FileMode) (*File, error) {
	if c, p := crashfs.Resolve(name); c != nil {
		return wrapH(c.OpenFile(p, flag, perm))
	}
	return wrapOS(os.OpenFile(name, flag, perm))
}

func Open(name string) (*File, error) { return OpenFile(name, O_RDONLY, 0) }

func Create(name string) (*File, error) { return OpenFile(name, O_RDWR|O_CREATE|O_TRUNC, 0o666) }

func (f *File) Name() string {
	if f.h != nil {
		return f.h.Name()
	}
	return f.f.Name()
}

func (f *File) Read(b []byte) (int, error) {
	if f.h != nil {
		return f.h.Read(b)
	}
	return f.f.Read(b)
}

func (f *File) ReadAt(b []byte, off int64) (int, error) {
	if f.h != nil {
		return f.h.ReadAt(b, off)
	}
	return f.f.ReadAt(b, off)
}

func (f *File) Write(b []byte) (int, error) {
	if f.h != nil {
		return f.h.Write(b)
	}
	return f.f.Write(b)
}

func (f *File) WriteString(s string) (int, error) {
	if f.h != nil {
		return f.h.WriteString(s)
	}
	return f.f.WriteString(s)
}

func (f *File) WriteAt(b []byte, off int64) (int, error) {
	if f.h != nil {
		return f.h.WriteAt(b, off)
	}
	return f.f.WriteAt(b, off)
}

func (f *File) Seek(offset int64, whence int) (int64, error) {
	if f.h != nil {
		return f.h.Seek(offset, whence)
	}
	return f.f.Seek(offset, whence)
}

func (f *File) Close() error {
	if f == nil {
		return os.ErrInvalid
	}
	if f.h != nil {
		return f.h.Close()
	}
	return f.f.Close()
}

func (f *File) Sync() error {
	if f.h != nil {
		return f.h.Sync()
	}
	return f.f.Sync()
}

func (f *File) Truncate(size int64) error {
	if f.h != nil {
		return f.h.Truncate(size)
	}
	return f.f.Truncate(size)
}

func (f *File) Stat() (FileInfo, error) {
	if f.h != nil {
		fi, err := f.h.Stat()
		if err != nil {
			return nil, err
		}
		return fi, nil
	}
	return f.f.Stat()
}

func (f *File) Readdirnames(n int) ([]string, error) {
	if f.h != nil {
		return f.h.Readdirnames(n)
	}
	return f.f.Readdirnames(n)
}

func (f *File) Fd() uintptr {
	if f.h != nil {
		return f.h.Fd()
	}
	return f.f.Fd()
}

func Stat(name string) (FileInfo, error) {
	if c, p := crashfs.Resolve(name); c != nil {
		fi, err := c.Stat(p)
		if err != nil {
			return nil, err
		}
		return fi, nil
	}
	return os.Stat(name)
}

func Lstat(name string) (FileInfo, error) { return Stat(name) }

func ReadFile(name string) ([]byte, error) {
	if c, p := crashfs.Resolve(name); c != nil {
		return c.ReadFile(p)
	}
	return os.ReadFile(name)
}

func WriteFile(name string, data []byte, perm FileMode) error {
	f, err := OpenFile(name, O_WRONLY|O_CREATE|O_TRUNC, perm)
	if err != nil {
		return err
	}
	_, err = f.Write(data)
	if cerr := f.Close(); err == nil {
		err = cerr
	}
	return err
}

func Remove(name string) error {
	if c, p := crashfs.Resolve(name); c != nil {
		return c.Remove(p)
	}
	return os.Remove(name)
}

func RemoveAll(name string) error {
	if c, p := crashfs.Resolve(name); c != nil {
		return c.RemoveAll(p)
	}
	return os.RemoveAll(name)
}

func Rename(oldpath, newpath string) error {
	if c, p := crashfs.Resolve(oldpath); c != nil {
		_, q := crashfs.Resolve(newpath)
		return c.Rename(p, q)
	}
	return os.Rename(oldpath, newpath)
}

func Mkdir(name string, perm FileMode) error { return MkdirAll(name, perm) }

func MkdirAll(name string, perm FileMode) error {
	if c, p := crashfs.Resolve(name); c != nil {
		return c.MkdirAll(p, perm)
	}
	return os.MkdirAll(name, perm)
}

func Truncate(name string, size int64) error {
	f, err := OpenFile(name, O_WRONLY, 0)
	if err != nil {
		return err
	}
	err = f.Truncate(size)
	if cerr := f.Close(); err == nil {
		err = cerr
	}
	return err
}

type dirEntry struct{ fi FileInfo }

func (d dirEntry) Name() string               { return d.fi.Name() }
func (d dirEntry) IsDir() bool                { return d.fi.IsDir() }
func (d dirEntry) Type() fs.FileMode          { return d.fi.Mode().Type() }
func (d dirEntry) Info() (fs.FileInfo, error) { return d.fi, nil }

func ReadDir(name string) ([]DirEntry, error) {
	if c, p := crashfs.Resolve(name); c != nil {
		names, err := c.List(p)
		if err != nil {
			return nil, err
		}
		out := make([]DirEntry, 0, len(names))
		for _, n := range names {
			fi, err := c.Stat(p + "/" + n)
			if err != nil {
				return nil, err
			}
			out = append(out, dirEntry{fi})
		}
		return out, nil
	}
	return os.ReadDir(name)
}

func IsNotExist(err error) bool   { return os.IsNotExist(err) }
func IsExist(err error) bool      { return os.IsExist(err) }
func IsPermission(err error) bool { return os.IsPermission(err) }
func IsTimeout(err error) bool    { return os.IsTimeout(err) }

func Getenv(k string) string                  { return os.Getenv(k) }
func LookupEnv(k string) (string, bool)       { return os.LookupEnv(k) }
func TempDir() string                         { return os.TempDir() }
func Getpid() int                             { return os.Getpid() }
func Exit(code int)                           { os.Exit(code) }
func Getwd() (string, error)                  { return os.Getwd() }
func Hostname() (string, error)               { return os.Hostname() }
func MkdirTemp(d, p string) (string, error)   { return os.MkdirTemp(d, p) }
func SameFile(a, b FileInfo) bool             { return os.SameFile(a, b) }
func NewSyscallError(s string, e error) error { return os.NewSyscallError(s, e) }
