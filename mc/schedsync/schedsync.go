// Package schedsync is a drop-in for the part of package sync that db/memory uses (RWMutex), with a cooperative,
// replayable scheduler behind it. While no exploration is active - or for goroutines the explorer did not start - a
// RWMutex behaves exactly like sync.RWMutex (it embeds one). Goroutines started through (*Sched).Go are "threads": they
// run one at a time, park before every lock acquisition, and the explorer decides which parked thread goes next. The
// lock state of controlled threads is modelled (writer / reader count); releases are not scheduling points (every
// order of critical sections is reached through the acquisition points).
//
// Explore enumerates, depth-first, every schedule of a scenario: the scenario is re-run from scratch for each schedule
// with a recorded choice prefix; a choice out of range while replaying a prefix is a hard error (non-determinism).
package schedsync

import (
	"bytes"
	"fmt"
	"runtime"
	"strconv"
	"sync"
	"sync/atomic"
)

type Locker = sync.Locker

type RWMutex struct {
	real    sync.RWMutex
	writer  bool
	readers int
}

const (
	opStart = iota
	opLock
	opRLock
)

type thread struct {
	id      int
	name    string
	wake    chan struct{}
	op      int
	m       *RWMutex
	done    bool
	started bool
}

type Sched struct {
	mu      sync.Mutex
	threads []*thread
	byGoid  map[uint64]*thread
	parked  chan *thread // a thread reports that it parked (or finished)
	prefix  []int
	Trace   []int // choice taken at each scheduling point
	Enabled []int // number of enabled threads at each scheduling point
	Names   []string
	err     error
}

var active atomic.Pointer[Sched]

func goid() uint64 {
	var buf [64]byte
	b := buf[:runtime.Stack(buf[:], false)]
	b = bytes.TrimPrefix(b, []byte("goroutine "))
	i := bytes.IndexByte(b, ' ')
	n, _ := strconv.ParseUint(string(b[:i]), 10, 64)
	return n
}

func current() (*Sched, *thread) {
	s := active.Load()
	if s == nil {
		return nil, nil
	}
	s.mu.Lock()
	t := s.byGoid[goid()]
	s.mu.Unlock()
	return s, t
}

// Go registers a thread; it starts running when the scheduler first picks it.
func (s *Sched) Go(name string, f func()) {
	t := &thread{id: len(s.threads), name: name, wake: make(chan struct{}), op: opStart}
	s.threads = append(s.threads, t)
	go func() {
		s.mu.Lock()
		s.byGoid[goid()] = t
		s.mu.Unlock()
		<-t.wake // parked at its start point
		f()
		t.done = true
		s.parked <- t
	}()
}

// park is called by a controlled thread right before an acquisition.
func (s *Sched) park(t *thread, op int, m *RWMutex) {
	t.op, t.m = op, m
	s.parked <- t
	<-t.wake
}

func (t *thread) enabled() bool {
	switch t.op {
	case opLock:
		return !t.m.writer && t.m.readers == 0
	case opRLock:
		return !t.m.writer
	}
	return true
}

// run drives the registered threads to completion under the choice prefix (then always the first enabled thread).
func (s *Sched) run() {
	running := 0 // threads currently executing (0 or 1)
	for {
		if running > 0 {
			<-s.parked
			running--
		}
		var en []*thread
		alive := 0
		for _, t := range s.threads {
			if t.done {
				continue
			}
			alive++
			if t.enabled() {
				en = append(en, t)
			}
		}
		if alive == 0 {
			return
		}
		if len(en) == 0 {
			s.err = fmt.Errorf("deadlock: %d threads alive, none enabled", alive)
			return
		}
		c := 0
		i := len(s.Trace)
		if i < len(s.prefix) {
			c = s.prefix[i]
			if c >= len(en) {
				s.err = fmt.Errorf("replay diverged at point %d: choice %d of %d enabled", i, c, len(en))
				return
			}
		}
		t := en[c]
		s.Trace = append(s.Trace, c)
		s.Enabled = append(s.Enabled, len(en))
		s.Names = append(s.Names, t.name)
		switch t.op {
		case opLock:
			t.m.writer = true
		case opRLock:
			t.m.readers++
		}
		t.op = opStart
		running++
		t.wake <- struct{}{}
	}
}

func (m *RWMutex) Lock() {
	if s, t := current(); t != nil {
		s.park(t, opLock, m)
		return
	}
	m.real.Lock()
}

func (m *RWMutex) Unlock() {
	if _, t := current(); t != nil {
		m.writer = false
		return
	}
	m.real.Unlock()
}

func (m *RWMutex) RLock() {
	if s, t := current(); t != nil {
		s.park(t, opRLock, m)
		return
	}
	m.real.RLock()
}

func (m *RWMutex) RUnlock() {
	if _, t := current(); t != nil {
		m.readers--
		return
	}
	m.real.RUnlock()
}

func (m *RWMutex) TryLock() bool  { return m.real.TryLock() }
func (m *RWMutex) TryRLock() bool { return m.real.TryRLock() }
func (m *RWMutex) RLocker() Locker { return m.real.RLocker() }

// Stats of one exploration.
type Stats struct {
	Schedules int
	Points    int
	MaxPoints int
}

// Explore runs scenario once per schedule. scenario registers its threads with s.Go and returns a function that is
// called after all threads have finished (the check of that one execution). It returns the first error (deadlock,
// replay divergence) it met.
func Explore(scenario func(s *Sched) (check func(trace []string))) (Stats, error) {
	var st Stats
	var rec func(prefix []int) error
	rec = func(prefix []int) error {
		s := &Sched{byGoid: map[uint64]*thread{}, parked: make(chan *thread), prefix: prefix}
		check := scenario(s)
		active.Store(s)
		// every thread is parked at its start point
		s.run()
		active.Store(nil)
		if s.err != nil {
			return s.err
		}
		st.Schedules++
		st.Points += len(s.Trace)
		if len(s.Trace) > st.MaxPoints {
			st.MaxPoints = len(s.Trace)
		}
		if check != nil {
			check(s.Names)
		}
		for i := len(prefix); i < len(s.Trace); i++ {
			for alt := s.Trace[i] + 1; alt < s.Enabled[i]; alt++ {
				np := append(append([]int{}, s.Trace[:i]...), alt)
				if err := rec(np); err != nil {
					return err
				}
			}
		}
		return nil
	}
	err := rec(nil)
	return st, err
}
