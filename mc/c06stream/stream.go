// Package stream is a verbatim copy of github.com/sourcegraph/conc/stream (v0.3.1-0.20240121214520-5f936abd7ae8)
// with ONE change: getCh/putCh allocate a fresh callback channel instead of recycling channels through a
// process-wide sync.Pool. Reason: a channel created inside one testing/synctest bubble must not be used in another
// bubble ("receive on synctest channel from outside bubble"), and the C06 harness runs the real Synchronizer in
// thousands of bubbles per process. props/c06/prebuild.sh rewrites the import in a build-overlay copy of the current
// sync/sync.go to this package; nothing else of juno is changed.
package stream

import (
	"sync"

	"github.com/sourcegraph/conc"
	"github.com/sourcegraph/conc/panics"
	"github.com/sourcegraph/conc/pool"
)

// New creates a new Stream with default settings.
func New() *Stream {
	return &Stream{
		pool: *pool.New(),
	}
}

// Stream is used to execute a stream of tasks concurrently while maintaining
// the order of the results.
//
// To use a stream, you submit some number of `Task`s, each of which
// return a callback. Each task will be executed concurrently in the stream's
// associated Pool, and the callbacks will be executed sequentially in the
// order the tasks were submitted.
//
// Once all your tasks have been submitted, Wait() must be called to clean up
// running goroutines and propagate any panics.
//
// In the case of panic during execution of a task or a callback, all other
// tasks and callbacks will still execute. The panic will be propagated to the
// caller when Wait() is called.
//
// A Stream is efficient, but not zero cost. It should not be used for very
// short tasks. Startup and teardown adds an overhead of a couple of
// microseconds, and the overhead for each task is roughly 500ns. It should be
// good enough for any task that requires a network call.
type Stream struct {
	pool             pool.Pool
	callbackerHandle conc.WaitGroup
	queue            chan callbackCh

	initOnce sync.Once
}

// Task is a task that is submitted to the stream. Submitted tasks will
// be executed concurrently. It returns a callback that will be called after
// the task has completed.
type Task func() Callback

// Callback is a function that is returned by a Task. Callbacks are
// called in the same order that tasks are submitted.
type Callback func()

// Go schedules a task to be run in the stream's pool. All submitted tasks
// will be executed concurrently in worker goroutines. Then, the callbacks
// returned by the tasks will be executed in the order that the tasks were
// submitted. All callbacks will be executed by the same goroutine, so no
// synchronization is necessary between callbacks. If all goroutines in the
// stream's pool are busy, a call to Go() will block until the task can be
// started.
func (s *Stream) Go(f Task) {
	s.init()

	// Get a channel from the cache.
	ch := getCh()

	// Queue the channel for the callbacker.
	s.queue <- ch

	// Submit the task for execution.
	s.pool.Go(func() {
		defer func() {
			// In the case of a panic from f, we don't want the callbacker to
			// starve waiting for a callback from this channel, so give it an
			// empty callback.
			if r := recover(); r != nil {
				ch <- func() {}
				panic(r)
			}
		}()

		// Run the task, sending its callback down this task's channel.
		callback := f()
		ch <- callback
	})
}

// Wait signals to the stream that all tasks have been submitted. Wait will
// not return until all tasks and callbacks have been run.
func (s *Stream) Wait() {
	s.init()

	// Defer the callbacker cleanup so that it occurs even in the case
	// that one of the tasks panics and is propagated up by s.pool.Wait().
	defer func() {
		close(s.queue)
		s.callbackerHandle.Wait()
	}()

	// Wait for all the workers to exit.
	s.pool.Wait()
}

func (s *Stream) WithMaxGoroutines(n int) *Stream {
	s.pool.WithMaxGoroutines(n)
	return s
}

func (s *Stream) init() {
	s.initOnce.Do(func() {
		s.queue = make(chan callbackCh, s.pool.MaxGoroutines()+1)

		// Start the callbacker.
		s.callbackerHandle.Go(s.callbacker)
	})
}

// callbacker is responsible for calling the returned callbacks in the order
// they were submitted. There is only a single instance of callbacker running.
func (s *Stream) callbacker() {
	var panicCatcher panics.Catcher
	defer panicCatcher.Repanic()

	// For every scheduled task, read that tasks channel from the queue.
	for callbackCh := range s.queue {
		// Wait for the task to complete and get its callback from the channel.
		callback := <-callbackCh

		// Execute the callback (with panic protection).
		if callback != nil {
			panicCatcher.Try(callback)
		}

		// Return the channel to the pool of unused channels.
		putCh(callbackCh)
	}
}

type callbackCh chan func()

var callbackChPool = sync.Pool{
	New: func() any {
		return make(callbackCh, 1)
	},
}

func getCh() callbackCh {
	return make(callbackCh, 1)
}

func putCh(ch callbackCh) {
	_ = ch
}
