// Package poisondb wraps a db.KeyValueStore so that every buffer the store LENDS to a reader is scribbled over as soon as
// the loan ends: the value handed to a Get callback when the callback returns, the value returned by an iterator's
// UncopiedValue when the iterator moves or closes. Production back ends (pebble) own and recycle those buffers; the
// in-memory back end never does, so code that keeps such a slice works in every test and reads garbage in production.
// Behind this wrapper the garbage is deterministic and immediate.
package poisondb

import (
	"bytes"

	"github.com/NethermindEth/juno/db"
)

const scribble = 0xA5

func poisoned(cb func([]byte) error) func([]byte) error {
	return func(v []byte) error {
		buf := bytes.Clone(v)
		if buf == nil && v != nil {
			buf = []byte{}
		}
		err := cb(buf)
		for i := range buf {
			buf[i] = scribble
		}
		return err
	}
}

type DB struct{ db.KeyValueStore }

func Wrap(inner db.KeyValueStore) *DB { return &DB{inner} }

func (d *DB) Get(key []byte, cb func([]byte) error) error {
	return d.KeyValueStore.Get(key, poisoned(cb))
}

func (d *DB) NewIterator(prefix []byte, withUpperBound bool) (db.Iterator, error) {
	it, err := d.KeyValueStore.NewIterator(prefix, withUpperBound)
	if err != nil {
		return nil, err
	}
	return &iter{Iterator: it}, nil
}

func (d *DB) NewSnapshot() db.Snapshot { return &snap{d.KeyValueStore.NewSnapshot()} }

func (d *DB) NewIndexedBatch() db.IndexedBatch { return &ibatch{d.KeyValueStore.NewIndexedBatch()} }
func (d *DB) NewIndexedBatchWithSize(n int) db.IndexedBatch {
	return &ibatch{d.KeyValueStore.NewIndexedBatchWithSize(n)}
}

func (d *DB) Update(fn func(db.IndexedBatch) error) error {
	return d.KeyValueStore.Update(func(b db.IndexedBatch) error { return fn(&ibatch{b}) })
}

func (d *DB) WithListener(l db.EventListener) db.KeyValueStore {
	return &DB{d.KeyValueStore.WithListener(l)}
}

type snap struct{ db.Snapshot }

func (s *snap) Get(key []byte, cb func([]byte) error) error { return s.Snapshot.Get(key, poisoned(cb)) }
func (s *snap) NewIterator(prefix []byte, withUpperBound bool) (db.Iterator, error) {
	it, err := s.Snapshot.NewIterator(prefix, withUpperBound)
	if err != nil {
		return nil, err
	}
	return &iter{Iterator: it}, nil
}

type ibatch struct{ db.IndexedBatch }

func (b *ibatch) Get(key []byte, cb func([]byte) error) error {
	return b.IndexedBatch.Get(key, poisoned(cb))
}
func (b *ibatch) NewIterator(prefix []byte, withUpperBound bool) (db.Iterator, error) {
	it, err := b.IndexedBatch.NewIterator(prefix, withUpperBound)
	if err != nil {
		return nil, err
	}
	return &iter{Iterator: it}, nil
}

type iter struct {
	db.Iterator
	lent [][]byte
}

func (i *iter) release() {
	for _, b := range i.lent {
		for j := range b {
			b[j] = scribble
		}
	}
	i.lent = i.lent[:0]
}

func (i *iter) UncopiedValue() ([]byte, error) {
	v, err := i.Iterator.UncopiedValue()
	if err != nil || v == nil {
		return v, err
	}
	buf := bytes.Clone(v)
	i.lent = append(i.lent, buf)
	return buf, nil
}

func (i *iter) First() bool        { i.release(); return i.Iterator.First() }
func (i *iter) Next() bool         { i.release(); return i.Iterator.Next() }
func (i *iter) Prev() bool         { i.release(); return i.Iterator.Prev() }
func (i *iter) Seek(k []byte) bool { i.release(); return i.Iterator.Seek(k) }
func (i *iter) Close() error       { i.release(); return i.Iterator.Close() }
