// Package faultdb is a db.KeyValueStore proxy over juno's in-memory backend that makes the
// *durable-write seam* observable and controllable:
//
//   - every committed write (direct Put / Delete / DeleteRange and Batch.Write, including the
//     batches created by Update/Write) gets a 1-based sequence number and a log entry;
//   - SnapshotAll / SnapshotAt keep a copy of the byte image after chosen commits, so that a
//     "crash after the k-th commit" is replayed by opening a fresh component on Image(k);
//   - FailAt makes the k-th commit return an error and apply nothing;
//   - CrashAfter freezes the image after the k-th commit (all later commits fail with ErrCrashed);
//   - OnCommit / OnRead are synchronous callbacks in the calling goroutine; they may block (that
//     is how a harness gates readers/committers to enumerate orders) or cancel a context.
//
// Atomicity of one batch is the backend's contract (checked by C15), so a crash is modelled
// *between* commits only.
//
// Typical use:
//
//	d := faultdb.Wrap(base.Copy()); d.SnapshotAll()
//	run(d)                                   // component under test writes through d
//	for k := 0; k <= d.Commits(); k++ { img := d.Image(k); restartOn(faultdb.Wrap(img)) }
package faultdb

import (
	"crypto/sha256"
	"encoding/binary"
	"errors"
	"sort"
	"sync"

	"github.com/NethermindEth/juno/db"
	"github.com/NethermindEth/juno/db/memory"
)

type Kind uint8

const (
	KPut Kind = iota + 1
	KDelete
	KDeleteRange
	KBatch
)

func (k Kind) String() string {
	switch k {
	case KPut:
		return "put"
	case KDelete:
		return "delete"
	case KDeleteRange:
		return "deleterange"
	case KBatch:
		return "batch"
	}
	return "?"
}

// Commit describes one committed (or failed) durable write.
type Commit struct {
	N      int  // 1-based sequence number
	Kind   Kind // what committed
	Ops    int  // number of operations in it (1 for direct writes)
	Failed bool // true if the commit was made to fail (nothing applied)
}

var (
	ErrInjected = errors.New("faultdb: injected write failure")
	ErrCrashed  = errors.New("faultdb: process crashed (image frozen)")
)

var _ db.KeyValueStore = (*DB)(nil)

type DB struct {
	inner *memory.Database

	mu         sync.Mutex
	n          int
	log        []Commit
	failAt     map[int]error
	gets       int           // point reads (Get) issued on the store so far
	failGetAt  map[int]error // the k-th Get returns this error instead of reading
	crashAfter int           // 0 = never
	snapAll    bool
	snapAt     map[int]bool
	snaps      map[int]*memory.Database
	onCommit   func(Commit)
	onRead     func(op string, key []byte)

	staged     int           // staged batch operations (Put/Delete/DeleteRange on any batch) seen so far
	failStaged map[int]error // 1-based index of the staged operation that returns an error (and stages nothing)
}

// New returns a proxy over a fresh empty memory database.
func New() *DB { return Wrap(memory.New()) }

// Wrap returns a proxy that owns inner (callers pass a Copy() if they want to keep theirs).
func Wrap(inner *memory.Database) *DB {
	return &DB{inner: inner, failAt: map[int]error{}, snapAt: map[int]bool{}, snaps: map[int]*memory.Database{}}
}

// FailStagedAt makes the k-th STAGED batch operation (a Put/Delete/DeleteRange on a batch, before any commit) return
// err and stage nothing. Staged operations are numbered across all batches in call order.
func (d *DB) FailStagedAt(k int, err error) {
	d.mu.Lock()
	if d.failStaged == nil {
		d.failStaged = map[int]error{}
	}
	d.failStaged[k] = err
	d.mu.Unlock()
}

// Staged is the number of staged batch operations seen so far.
func (d *DB) Staged() int { d.mu.Lock(); defer d.mu.Unlock(); return d.staged }

func (d *DB) stage() error {
	d.mu.Lock()
	defer d.mu.Unlock()
	d.staged++
	if err, ok := d.failStaged[d.staged]; ok {
		return err
	}
	return nil
}

// Inner is the live underlying image.
func (d *DB) Inner() *memory.Database { return d.inner }

// Commits is the number of commits numbered so far (failed ones included).
func (d *DB) Commits() int { d.mu.Lock(); defer d.mu.Unlock(); return d.n }

// Log returns a copy of the commit log.
func (d *DB) Log() []Commit {
	d.mu.Lock()
	defer d.mu.Unlock()
	return append([]Commit(nil), d.log...)
}

// SnapshotAll keeps the image after every commit from now on, and the current image as Image(n).
func (d *DB) SnapshotAll() {
	d.mu.Lock()
	defer d.mu.Unlock()
	d.snapAll = true
	d.snaps[d.n] = d.inner.Copy()
}

// SnapshotAt keeps the image after the k-th commit.
func (d *DB) SnapshotAt(k int) { d.mu.Lock(); d.snapAt[k] = true; d.mu.Unlock() }

// Image returns a private copy of the image after the k-th commit (nil if it was not kept).
func (d *DB) Image(k int) *memory.Database {
	d.mu.Lock()
	defer d.mu.Unlock()
	s := d.snaps[k]
	if s == nil {
		return nil
	}
	return s.Copy()
}

// FailAt makes the k-th commit (absolute number) return err (ErrInjected if nil) and apply nothing.
func (d *DB) FailAt(k int, err error) {
	if err == nil {
		err = ErrInjected
	}
	d.mu.Lock()
	d.failAt[k] = err
	d.mu.Unlock()
}

// CrashAfter freezes the image after the k-th commit: every later commit returns ErrCrashed.
// k = 0 freezes the current image.
func (d *DB) CrashAfter(k int) { d.mu.Lock(); d.crashAfter = k + 1; d.mu.Unlock() }

// OnCommit installs a callback run after each commit (also failed ones) in the committing goroutine,
// outside the proxy lock. It may block or cancel contexts.
func (d *DB) OnCommit(f func(Commit)) { d.mu.Lock(); d.onCommit = f; d.mu.Unlock() }

// OnRead installs a callback run before each Get/Has/NewIterator on the store (not on snapshots or
// batches) in the reading goroutine. op is "get", "has" or "iter". It may block.
func (d *DB) OnRead(f func(op string, key []byte)) { d.mu.Lock(); d.onRead = f; d.mu.Unlock() }

func (d *DB) commit(kind Kind, ops int, apply func() error) error {
	d.mu.Lock()
	d.n++
	c := Commit{N: d.n, Kind: kind, Ops: ops}
	var err error
	switch {
	case d.crashAfter != 0 && c.N >= d.crashAfter:
		err, c.Failed = ErrCrashed, true
	case d.failAt[c.N] != nil:
		err, c.Failed = d.failAt[c.N], true
	default:
		err = apply()
	}
	d.log = append(d.log, c)
	if d.snapAll || d.snapAt[c.N] {
		d.snaps[c.N] = d.inner.Copy()
	}
	cb := d.onCommit
	d.mu.Unlock()
	if cb != nil {
		cb(c)
	}
	return err
}

func (d *DB) read(op string, key []byte) {
	d.mu.Lock()
	cb := d.onRead
	d.mu.Unlock()
	if cb != nil {
		cb(op, key)
	}
}

// ---- db.KeyValueStore ----

func (d *DB) Has(key []byte) (bool, error) { d.read("has", key); return d.inner.Has(key) }
func (d *DB) Get(key []byte, cb func([]byte) error) error {
	d.read("get", key)
	d.mu.Lock()
	d.gets++
	err := d.failGetAt[d.gets]
	d.mu.Unlock()
	if err != nil {
		return err
	}
	return d.inner.Get(key, cb)
}

// FailGetAt makes the k-th point read (Get) on the store return err (ErrInjected when nil) - a transient read fault;
// reads through snapshots and batches are not counted. Gets reports how many point reads were issued so far.
func (d *DB) FailGetAt(k int, err error) {
	if err == nil {
		err = ErrInjected
	}
	d.mu.Lock()
	if d.failGetAt == nil {
		d.failGetAt = map[int]error{}
	}
	d.failGetAt[k] = err
	d.mu.Unlock()
}

func (d *DB) Gets() int { d.mu.Lock(); defer d.mu.Unlock(); return d.gets }

func (d *DB) NewIterator(prefix []byte, withUpperBound bool) (db.Iterator, error) {
	d.read("iter", prefix)
	return d.inner.NewIterator(prefix, withUpperBound)
}

func (d *DB) Put(key, value []byte) error {
	return d.commit(KPut, 1, func() error { return d.inner.Put(key, value) })
}

func (d *DB) Delete(key []byte) error {
	return d.commit(KDelete, 1, func() error { return d.inner.Delete(key) })
}

func (d *DB) DeleteRange(start, end []byte) error {
	return d.commit(KDeleteRange, 1, func() error { return d.inner.DeleteRange(start, end) })
}

func (d *DB) NewBatch() db.Batch                             { return &batch{d: d, b: d.inner.NewIndexedBatch()} }
func (d *DB) NewBatchWithSize(int) db.Batch                  { return d.NewBatch() }
func (d *DB) NewIndexedBatch() db.IndexedBatch               { return &batch{d: d, b: d.inner.NewIndexedBatch()} }
func (d *DB) NewIndexedBatchWithSize(int) db.IndexedBatch    { return d.NewIndexedBatch() }
func (d *DB) NewSnapshot() db.Snapshot                       { return d.inner.NewSnapshot() }
func (d *DB) Impl() any                                      { return d.inner.Impl() }
func (d *DB) Path() string                                   { return d.inner.Path() }
func (d *DB) Close() error                                   { return d.inner.Close() }
func (d *DB) WithListener(db.EventListener) db.KeyValueStore { return d }

func (d *DB) Update(fn func(db.IndexedBatch) error) error {
	b := d.NewIndexedBatch()
	if err := fn(b); err != nil {
		return err
	}
	return b.Write()
}

func (d *DB) Write(fn func(db.Batch) error) error {
	b := d.NewBatch()
	if err := fn(b); err != nil {
		return err
	}
	return b.Write()
}

type batch struct {
	d   *DB
	b   db.IndexedBatch
	ops int
}

func (b *batch) Put(k, v []byte) error {
	if err := b.d.stage(); err != nil {
		return err
	}
	b.ops++
	return b.b.Put(k, v)
}

func (b *batch) Delete(k []byte) error {
	if err := b.d.stage(); err != nil {
		return err
	}
	b.ops++
	return b.b.Delete(k)
}

func (b *batch) DeleteRange(s, e []byte) error {
	if err := b.d.stage(); err != nil {
		return err
	}
	b.ops++
	return b.b.DeleteRange(s, e)
}
func (b *batch) Size() int                                          { return b.b.Size() }
func (b *batch) Close() error                                       { return b.b.Close() }
func (b *batch) Has(k []byte) (bool, error)                         { return b.b.Has(k) }
func (b *batch) Get(k []byte, cb func([]byte) error) error          { return b.b.Get(k, cb) }
func (b *batch) NewIterator(p []byte, ub bool) (db.Iterator, error) { return b.b.NewIterator(p, ub) }
func (b *batch) Write() error {
	return b.d.commit(KBatch, b.ops, func() error { return b.b.Write() })
}

// ---- image helpers ----

// Hash is a canonical digest of a memory image (sorted keys, length-prefixed).
func Hash(m *memory.Database) [32]byte {
	kv := m.Impl().(map[string][]byte)
	keys := make([]string, 0, len(kv))
	for k := range kv {
		keys = append(keys, k)
	}
	sort.Strings(keys)
	h := sha256.New()
	var l [8]byte
	for _, k := range keys {
		binary.BigEndian.PutUint64(l[:], uint64(len(k)))
		h.Write(l[:])
		h.Write([]byte(k))
		binary.BigEndian.PutUint64(l[:], uint64(len(kv[k])))
		h.Write(l[:])
		h.Write(kv[k])
	}
	var out [32]byte
	copy(out[:], h.Sum(nil))
	return out
}

// Keys returns the sorted keys of the image that start with prefix.
func Keys(m *memory.Database, prefix []byte) []string {
	kv := m.Impl().(map[string][]byte)
	var keys []string
	for k := range kv {
		if len(k) >= len(prefix) && k[:len(prefix)] == string(prefix) {
			keys = append(keys, k)
		}
	}
	sort.Strings(keys)
	return keys
}

// Diff lists up to max keys whose value differs between two images.
func Diff(a, b *memory.Database, max int) []string {
	ka, kb := a.Impl().(map[string][]byte), b.Impl().(map[string][]byte)
	seen := map[string]bool{}
	var out []string
	for k, v := range ka {
		seen[k] = true
		if w, ok := kb[k]; !ok || string(w) != string(v) {
			out = append(out, k)
		}
	}
	for k := range kb {
		if !seen[k] {
			out = append(out, k)
		}
	}
	sort.Strings(out)
	if len(out) > max {
		out = out[:max]
	}
	return out
}
