package c16

// Part S: interrupted sweeps that HAVE A PREDECESSOR, and what the node answers afterwards.
//
// The searched worlds (c16_test.go) reach "completed prune ; later prune cancelled mid-sweep" only at their deepest
// levels, observe state BY HASH with a thin question set, and are the first thing an overloaded machine cuts. This part
// enumerates that family directly against the real pruner.PruneUpto / RetentionFloor / blockchain.Reader, before the
// search starts and outside its time budget:
//
//	for both state backends x batch threshold in {1 byte, juno's default}
//	  for every first floor f1 in 1..head-1           PruneUpto(f1) completes (so the next sweep starts above 0 and a
//	                                                   hash->number carve-out of f1-1 exists)
//	    for every second floor f2 in f1+1..head       PruneUpto(f2) is CANCELLED ...
//	      for every i in 0..f2-f1-1                   ... after exactly i blocks of its sweep (i = 0: the context is
//	                                                   already cancelled when the call starts; otherwise the context is
//	                                                   cancelled while block f1+i-1 is being swept, whatever the batching)
//
// and after each of them asks the WHOLE Reader surface — with the full state question set also for every state lookup
// BY HASH — against the unpruned twin under the property's rule (>= floor identical, < floor error-or-identical):
//
//	(a) immediately, on the node that was running during the prune (its shared floor already raised to f2-1, as the
//	    pruner service does before it deletes),
//	(b) after a restart on the image (floor seeded from the database),
//	(c) after a restart and one further COMPLETED PruneUpto(f3), f3 in {f2, head} (thorough: every f3 above the point
//	    the interrupted sweep reached); that image must also be byte-identical to the one an uninterrupted
//	    PruneUpto(f3) reaches from the same start.
//
// Cases are merged on identical (KV image, published floor): on a correct pruner the image after an interruption
// depends on where the sweep stopped only, so the expensive comparison runs once per distinct image.

import (
	"bytes"
	"context"
	"fmt"
	"runtime"
	"sync"
	"sync/atomic"

	"verif/mc/ev"
	"verif/mc/faultdb"

	"github.com/NethermindEth/juno/db"
	"github.com/NethermindEth/juno/db/memory"
	"github.com/NethermindEth/juno/pruner"
)

const staleDefaultBatch = 96 << 20 // juno's default flush threshold: the whole sweep of a short chain is one batch

type staleJob struct {
	ns     bool
	batch  int
	f1, f2 uint64
}

type staleTotals struct {
	cases, live, reopened, followups, followChecked, dupLive, dupReopened, dupFollow atomic.Int64
	stoppedEarly, compared, belowErr, belowSame                                      atomic.Int64
}

func batchName(b int) string {
	if b == staleDefaultBatch {
		return "default"
	}
	return fmt.Sprintf("%dB", b)
}

// pruneComplete = an uninterrupted PruneUpto on a private copy.
func pruneComplete(img *memory.Database, upto uint64, batch int) (*memory.Database, error) {
	d := img.Copy()
	_, kept, err := pruner.PruneUpto(context.Background(), d, upto, batch)
	if err == nil && kept != upto {
		err = fmt.Errorf("oldest kept %d, want %d", kept, upto)
	}
	return d, err
}

// pruneCancelled runs PruneUpto(f2) on d with a context that is cancelled after exactly i blocks of the sweep that
// starts at f1: while block f1+i-1 is read (the loop tests the context before it reads a block), or up front for i = 0.
func pruneCancelled(d *faultdb.DB, f1, f2 uint64, i int, batch int) (kept uint64, err error) {
	ctx, cancel := context.WithCancel(context.Background())
	defer cancel()
	if i == 0 {
		cancel()
	} else {
		want := db.StateUpdateByBlockNumKey(f1 + uint64(i) - 1)
		d.OnRead(func(op string, key []byte) {
			if op == "get" && bytes.Equal(key, want) {
				cancel()
			}
		})
		defer d.OnRead(nil)
	}
	_, kept, err = pruner.PruneUpto(ctx, d, f2, batch)
	return kept, err
}

func hashKey(ns bool, m *memory.Database) string {
	h := faultdb.Hash(m)
	return fmt.Sprintf("%v|%x", ns, h[:16])
}

func runStale(r *ev.Run, bases map[bool]*base) int64 {
	var tot staleTotals
	var liveSeen, reopenSeen, followSeen sync.Map
	head := uint64(baseLen - 1)
	batches := []int{1, staleDefaultBatch}

	// the predecessors: base chain pruned completely to f1; and the uninterrupted references direct[f1][f3]
	type pre struct {
		img    map[uint64]*memory.Database
		direct map[[2]uint64]*memory.Database
		hash   map[[2]uint64]string
	}
	pres := map[bool]*pre{}
	for _, ns := range []bool{false, true} {
		p := &pre{map[uint64]*memory.Database{}, map[[2]uint64]*memory.Database{}, map[[2]uint64]string{}}
		for f1 := uint64(1); f1 < head; f1++ {
			d, err := pruneComplete(bases[ns].img, f1, 1)
			if err != nil {
				r.Violate("stale: completed prune fails"+backend(ns), map[string]any{"upto": f1, "err": err.Error()})
				return 0
			}
			p.img[f1] = d
			for f3 := f1 + 1; f3 <= head; f3++ {
				u, err := pruneComplete(d, f3, 1)
				if err != nil {
					r.Violate("stale: completed prune fails"+backend(ns), map[string]any{"from": f1, "upto": f3, "err": err.Error()})
					return 0
				}
				p.direct[[2]uint64{f1, f3}] = u
				p.hash[[2]uint64{f1, f3}] = hashKey(ns, u)
			}
		}
		pres[ns] = p
	}

	var jobs []staleJob
	for _, ns := range []bool{false, true} {
		for _, b := range batches {
			for f1 := uint64(1); f1 < head; f1++ {
				for f2 := f1 + 1; f2 <= head; f2++ {
					jobs = append(jobs, staleJob{ns, b, f1, f2})
				}
			}
		}
	}

	ev.Par(len(jobs), runtime.NumCPU(), func(ji int) {
		j := jobs[ji]
		p := pres[j.ns]
		b := bases[j.ns]
		st := newStats()
		newW := func() *world {
			return &world{cfg: config{Batch: j.batch, NewState: j.ns}, l1: -1, tw: b.twin, canon: b.entries, all: b.entries, fullHash: true}
		}
		flush := func(w *world, i int) {
			for _, pr := range w.problems {
				d := map[string]any{"history": fmt.Sprintf("%d-block chain ; PruneUpto(%d) completes ; PruneUpto(%d) cancelled after %d block(s) of its sweep (batch threshold %s)",
					baseLen, j.f1, j.f2, i, batchName(j.batch))}
				for k, v := range pr.detail {
					d[k] = v
				}
				r.Violate(pr.key, d)
			}
		}
		for i := 0; i < int(j.f2-j.f1); i++ {
			tot.cases.Add(1)
			w := newW()
			d := faultdb.Wrap(p.img[j.f1].Copy())
			kept, err := pruneCancelled(d, j.f1, j.f2, i, j.batch)
			if err != nil {
				w.problem("cancelled-prune-reports-error"+backend(j.ns)+" "+errClass(err.Error()), map[string]any{"err": err.Error()})
				flush(w, i)
				continue
			}
			if kept < j.f2 {
				tot.stoppedEarly.Add(1)
			}
			img := d.Inner()
			ik := hashKey(j.ns, img)
			ctx := map[string]any{"interrupted_sweep_reached": kept}

			// (a) immediately, on the node that lived through the prune. Only for images not yet seen with this floor:
			// the history is then run again with a node opened beforehand.
			if _, dup := liveSeen.LoadOrStore(fmt.Sprintf("%s|%d", ik, j.f2), true); dup {
				tot.dupLive.Add(1)
			} else {
				tot.live.Add(1)
				d2 := faultdb.Wrap(p.img[j.f1].Copy())
				bc, fl, err := openPruningNode(d2, j.ns)
				if err != nil {
					w.problem("cancel-mid-prune (live): open fails"+backend(j.ns), map[string]any{"err": err.Error()})
				} else {
					// the service raises the shared floor to f2-1 before it deletes; Seed on the uninterrupted image
					// publishes exactly that value through the public API
					if err := fl.Seed(p.direct[[2]uint64{j.f1, j.f2}]); err != nil {
						panic(err)
					}
					if _, err := pruneCancelled(d2, j.f1, j.f2, i, j.batch); err != nil {
						panic("replay of a cancelled prune fails: " + err.Error())
					}
					if hashKey(j.ns, d2.Inner()) != ik {
						panic("cancelled prune is not deterministic")
					}
					bf, sf := floors(d2, fl)
					w.check("cancel-mid-prune (live)", bc, d2.Inner(), bf, sf, b.twin, b.entries, nil, st, ctx)
				}
			}
			// (b) after a restart
			if _, dup := reopenSeen.LoadOrStore(ik, true); dup {
				tot.dupReopened.Add(1)
			} else {
				tot.reopened.Add(1)
				w.checkReopened("cancel-mid-prune (reopened)", img, st, ctx)
			}
			// (c) restart, then one further prune that completes
			var f3s []uint64
			if r.Thorough() {
				for f3 := kept + 1; f3 <= head; f3++ {
					f3s = append(f3s, f3)
				}
			} else {
				f3s = []uint64{j.f2}
				if j.f2 != head {
					f3s = append(f3s, head)
				}
			}
			for _, f3 := range f3s {
				tot.followups.Add(1)
				c3 := merge(ctx, map[string]any{"then": fmt.Sprintf("restart ; PruneUpto(%d) completes", f3)})
				d3, err := pruneComplete(img, f3, j.batch)
				if err != nil {
					w.problem("resumed-prune-reports-error (cancel)"+backend(j.ns)+" "+errClass(err.Error()), merge(c3, map[string]any{"err": err.Error()}))
					continue
				}
				k3 := hashKey(j.ns, d3)
				if want := p.hash[[2]uint64{j.f1, f3}]; k3 != want {
					w.problem("resumed-prune-reaches-different-image (cancel)"+backend(j.ns), merge(c3, map[string]any{"resumed": k3, "uninterrupted": want,
						"differing_keys": faultdb.Diff(d3, p.direct[[2]uint64{j.f1, f3}], 6)}))
				}
				if _, dup := followSeen.LoadOrStore(k3, true); dup {
					tot.dupFollow.Add(1)
					continue
				}
				tot.followChecked.Add(1)
				w.checkReopened("interrupted-then-completed-prune (reopened)", d3, st, c3)
			}
			flush(w, i)
		}
		tot.compared.Add(int64(st.compared))
		tot.belowErr.Add(int64(st.belowErr))
		tot.belowSame.Add(int64(st.belowSame))
		outMu.Lock()
		for k, v := range st.outcomes {
			outcomes[k] += v
		}
		outMu.Unlock()
	})

	r.Set("stale_histories", tot.cases.Load()) // backend x batch x f1 x f2 x blocks swept before the cancel
	r.Set("stale_sweeps_stopped_before_their_target", tot.stoppedEarly.Load())
	r.Set("stale_live_nodes_compared", tot.live.Load())
	r.Set("stale_live_identical_to_compared", tot.dupLive.Load())
	r.Set("stale_reopened_images_compared", tot.reopened.Load())
	r.Set("stale_reopened_identical_to_compared", tot.dupReopened.Load())
	r.Set("stale_followup_prunes_run", tot.followups.Load())
	r.Set("stale_followup_images_compared", tot.followChecked.Load())
	r.Set("stale_followup_identical_to_compared", tot.dupFollow.Load())
	r.Set("stale_questions_compared_with_twin", tot.compared.Load())
	r.Set("stale_below_floor_refused", tot.belowErr.Load())
	r.Set("stale_below_floor_answered_completely", tot.belowSame.Load())
	return tot.live.Load() + tot.reopened.Load() + tot.followChecked.Load()
}
