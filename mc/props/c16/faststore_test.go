package c16

import "github.com/NethermindEth/juno/db"

// fastStore works around a cost artifact of juno's in-memory backend: (*memory.batch).NewIterator copies the whole
// database on every call, and the legacy state backend opens one indexed batch per state reader and iterates it
// for every historical lookup. For a batch WITHOUT pending writes the batch's view is exactly the store's view, so
// its iterator is taken from the store directly (this is also what pebble does). Batches with writes are untouched.
type fastStore struct{ db.KeyValueStore }

func (f fastStore) NewIndexedBatch() db.IndexedBatch {
	return &fastBatch{IndexedBatch: f.KeyValueStore.NewIndexedBatch(), s: f.KeyValueStore}
}

func (f fastStore) NewIndexedBatchWithSize(n int) db.IndexedBatch {
	return &fastBatch{IndexedBatch: f.KeyValueStore.NewIndexedBatchWithSize(n), s: f.KeyValueStore}
}

type fastBatch struct {
	db.IndexedBatch
	s     db.KeyValueStore
	dirty bool
}

func (b *fastBatch) Put(k, v []byte) error         { b.dirty = true; return b.IndexedBatch.Put(k, v) }
func (b *fastBatch) Delete(k []byte) error         { b.dirty = true; return b.IndexedBatch.Delete(k) }
func (b *fastBatch) DeleteRange(s, e []byte) error { b.dirty = true; return b.IndexedBatch.DeleteRange(s, e) }
func (b *fastBatch) NewIterator(p []byte, ub bool) (db.Iterator, error) {
	if !b.dirty {
		return b.s.NewIterator(p, ub)
	}
	return b.IndexedBatch.NewIterator(p, ub)
}
