package c16

// Part W: pruning across aggregated-bloom-filter windows (8192 blocks each). The searched worlds live on a 16-block
// chain, far below one window; the window arithmetic of the pruner (which persisted filters a prune may delete) is only
// reached on a chain that spans more than two windows. That chain is reached by plain sequential sync (no enumeration
// below it); enumerated on top of it: every floor of a list that covers each position relative to the window boundaries
// (inside the first window, last block of a window, first block of a window, inside the second window, inside the
// running window) x both state backends. After the real PruneUpto, on a REOPENED node (the in-memory filter cache of
// the pruning process is gone): every event query starting at or above the floor must give exactly the unpruned twin's
// events, the head must revert across the last window boundary (down to the floor in the thorough tier for one floor per
// backend), be extended again, and the queries must still agree.

import (
	"context"
	"fmt"
	"sync"

	"verif/mc/chain"
	"verif/mc/ev"

	"github.com/NethermindEth/juno/blockchain"
	"github.com/NethermindEth/juno/core"
	"github.com/NethermindEth/juno/core/felt"
	"github.com/NethermindEth/juno/db/memory"
	"github.com/NethermindEth/juno/pruner"
)

const (
	winBlocks = uint64(core.NumBlocksPerFilter)
	longLen   = 2*winBlocks + 6 // blocks 0..16389: two completed windows + 6 blocks of the running one
)

var winEventBlocks = map[uint64]bool{1: true, 100: true, winBlocks - 1: true, winBlocks: true, winBlocks + 1: true, winBlocks + 5: true,
	winBlocks + 8: true, 2*winBlocks - 1: true, 2 * winBlocks: true, 2*winBlocks + 3: true}

func longEntry(parent *chain.Entry, salt uint64) *chain.Entry {
	var n uint64
	if parent != nil {
		n = parent.Block.Number + 1
	}
	d := core.EmptyStateDiff()
	sp := chain.BlockSpec{Version: version, Timestamp: 1_000_000 + 60*n + salt, Diff: &d}
	if winEventBlocks[n] || salt != 0 {
		from := chain.AddrA
		if n%2 == 1 {
			from = chain.AddrB
		}
		sp.Txs = []chain.TxSpec{{Kind: "invoke3", Salt: n*16 + 1 + salt, Events: []chain.EvSpec{{From: from, Keys: []felt.Felt{chain.Key1}, Data: []felt.Felt{chain.FV(n)}}}}}
	}
	e, err := chain.Build(parent, sp)
	if err != nil {
		panic(fmt.Sprintf("long chain block %d: %v", n, err))
	}
	return e
}

type winEvent struct {
	blk      uint64
	hash, tx felt.Felt
	idx      uint64
}

// winEvents pages a query to its end; from..head, the three filters of the twin observation.
func winEvents(bc *blockchain.Blockchain, filter int, from uint64) ([]winEvent, error) {
	aA, aB := felt.Address(chain.AddrA), felt.Address(chain.AddrB)
	var addrs []felt.Address
	var keys [][]felt.Felt
	switch filter {
	case 1:
		addrs = []felt.Address{aA}
	case 2:
		addrs, keys = []felt.Address{aB}, [][]felt.Felt{{chain.Key1}}
	}
	ef, err := bc.EventFilter(addrs, keys, nil)
	if err != nil {
		return nil, err
	}
	defer ef.Close()
	if err := ef.SetRangeEndBlockByNumber(blockchain.EventFilterFrom, from); err != nil {
		return nil, err
	}
	var out []winEvent
	var tok *blockchain.ContinuationToken
	for guard := 0; guard < 10000; guard++ {
		evs, next, err := ef.Events(tok, 4)
		if err != nil {
			return out, err
		}
		for _, e := range evs {
			w := winEvent{blk: e.BlockNumber, tx: *e.TransactionHash, idx: uint64(e.EventIndex)}
			if e.BlockHash != nil {
				w.hash = *e.BlockHash
			}
			out = append(out, w)
		}
		if next.IsEmpty() {
			return out, nil
		}
		n := next
		tok = &n
	}
	return out, fmt.Errorf("query does not terminate")
}

func sameWinEvents(a, b []winEvent) bool {
	if len(a) != len(b) {
		return false
	}
	for i := range a {
		if a[i] != b[i] {
			return false
		}
	}
	return true
}

func runWindows(r *ev.Run) int64 {
	floors := []uint64{100, winBlocks + 5, 2 * winBlocks}
	if r.Thorough() {
		floors = []uint64{100, winBlocks - 1, winBlocks, winBlocks + 1, winBlocks + 5, 2*winBlocks - 1, 2 * winBlocks, 2*winBlocks + 2}
	}
	var mu sync.Mutex
	var cases, queries, reverts int64
	ev.Par(2, 2, func(bi int) {
		ns := bi == 1
		be := backend(ns)
		img := memory.New()
		bc := chain.NewNode(img, ns)
		var entries []*chain.Entry // reference copies (never handed to juno)
		var prev *chain.Entry
		for i := uint64(0); i < longLen; i++ {
			e := longEntry(prev, 0)
			if err := chain.StoreSync(bc, longEntry(prev, 0)); err != nil {
				r.Violate("windows: store-next-fails"+be, map[string]any{"block": e.Block.Number, "err": err.Error()})
				return
			}
			entries, prev = append(entries, e), e
		}
		// graceful shutdown of the syncing node: the running filter snapshot is on disk, as on a real node
		if err := bc.WriteRunningEventFilter(); err != nil {
			r.Infra("windows: WriteRunningEventFilter: %v", err)
		}
		head := entries[len(entries)-1]
		ev.Par(len(floors), len(floors), func(fi int) {
			f := floors[fi]
			// Quick tier: the floor cases are a small bounded amount of work after the (unconditional) chain build, so they
			// always run - on an overloaded machine the build alone used to outlast the budget and the whole part was
			// silently skipped. Thorough: subject to the budget.
			if r.Thorough() && r.OutOfTime() {
				r.Incomplete(fmt.Sprintf("windows: floor %d%s not run", f, be))
				return
			}
			pd, td := img.Copy(), img.Copy()
			detail := func(m map[string]any) map[string]any {
				m["floor"], m["head"], m["window"], m["chain"] = f, head.Block.Number, winBlocks, fmt.Sprintf("%d blocks synced sequentially, then PruneUpto(%d), then reopened", longLen, f)
				return m
			}
			if _, kept, err := pruner.PruneUpto(context.Background(), pd, f, 0); err != nil || kept != f {
				r.Violate("windows: prune fails"+be, detail(map[string]any{"err": fmt.Sprint(err), "oldest_kept": kept}))
				return
			}
			pbc, _, err := openPruningNode(pd, ns)
			if err != nil {
				r.Violate("windows: reopen fails"+be, detail(map[string]any{"err": err.Error()}))
				return
			}
			tbc := chain.NewNode(td, ns)
			var q int64
			compare := func(stage string, hd uint64) {
				froms := map[uint64]bool{f: true, f + 1: true, hd: true}
				for _, b := range []uint64{winBlocks - 1, winBlocks, 2*winBlocks - 1, 2 * winBlocks} {
					if b >= f && b <= hd {
						froms[b] = true
					}
				}
				for from := range froms {
					if from > hd {
						continue
					}
					for filter := 0; filter < 3; filter++ {
						q++
						want, werr := winEvents(tbc, filter, from)
						got, gerr := winEvents(pbc, filter, from)
						if werr != nil {
							r.Infra("windows: twin query fails: %v", werr)
							continue
						}
						if gerr != nil {
							r.Violate("windows: at-or-above-floor event-query fails "+stage+be, detail(map[string]any{"from": from, "filter": filter, "err": gerr.Error(), "head_now": hd}))
						} else if !sameWinEvents(got, want) {
							r.Violate("windows: at-or-above-floor event-query answers-with-different-data "+stage+be, detail(map[string]any{"from": from, "filter": filter,
								"got": fmt.Sprint(got), "want": fmt.Sprint(want), "head_now": hd}))
						}
					}
				}
			}
			compare("after-reopen", head.Block.Number)
			// revert across the last completed window's boundary (to the floor itself where asked), then extend again
			target := max(f, 2*winBlocks-4)
			if r.Thorough() && f == winBlocks+5 {
				target = f
			}
			h := head.Block.Number
			var rv int64
			for h > target {
				if err := pbc.RevertHead(); err != nil {
					r.Violate("windows: revert-above-floor-fails"+be, detail(map[string]any{"block": h, "err": err.Error()}))
					break
				}
				if err := tbc.RevertHead(); err != nil {
					r.Infra("windows: twin revert fails: %v", err)
					break
				}
				h--
				rv++
			}
			if h == target {
				compare("after-revert", h)
				parent := entries[h]
				for i := 0; i < 3; i++ {
					ne := longEntry(parent, 7)
					if err := chain.StoreSync(pbc, longEntry(parent, 7)); err != nil {
						r.Violate("windows: store-next-fails after revert"+be, detail(map[string]any{"block": ne.Block.Number, "err": err.Error()}))
						break
					}
					if err := chain.StoreSync(tbc, longEntry(parent, 7)); err != nil {
						r.Infra("windows: twin store fails: %v", err)
						break
					}
					parent, h = ne, ne.Block.Number
				}
				compare("after-revert-and-extend", h)
			}
			mu.Lock()
			cases++
			queries += q
			reverts += rv
			mu.Unlock()
		})
	})
	r.Set("windows_chain_blocks", int64(longLen))
	r.Set("windows_floor_cases", cases)
	r.Set("windows_event_queries_compared_with_twin", queries)
	r.Set("windows_reverts", reverts)
	return queries
}
