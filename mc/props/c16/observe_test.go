package c16

// Lean twin-observation for C16. Same question set as chain.Observe (the whole blockchain.Reader surface), but
//   - every question carries the block number it is about (so the oracle can tell ">= floor" from "< floor"),
//   - answers are digested through juno's canonical CBOR encoder instead of spew (chain.Observe costs ~170 ms on a
//     16-block chain, mostly because every historical read of the in-memory backend copies the store; this one ~15 ms),
//   - error KINDS are kept (pruned / not-found / other).
// chain.Observe (full dumps) is still used to print the two answers when a question differs.

import (
	"errors"
	"fmt"
	"hash/fnv"

	"verif/mc/chain"

	"github.com/NethermindEth/juno/blockchain"
	"github.com/NethermindEth/juno/core"
	"github.com/NethermindEth/juno/core/felt"
	"github.com/NethermindEth/juno/db"
	"github.com/NethermindEth/juno/encoder"
	"github.com/NethermindEth/juno/l1/eth"
	"github.com/NethermindEth/juno/pruner"
)

const (
	kBlock  = 0 // about block data of block Blk: must equal the twin if Blk >= block floor
	kState  = 1 // about state AFTER block Blk: must equal the twin if Blk >= state floor (= block floor - 1)
	kGlobal = 2 // head / chain-wide: must always equal the twin
	kGone   = 3 // about a hash that is not canonical on the twin: must equal the twin (both "not found")
)

type item struct {
	Q    string
	Kind uint8
	Blk  uint64
	Dig  uint64
	Err  string // "" | "pruned" | "notfound" | "other: ..."
}

type obs struct{ items []item }

func errKind(err error) string {
	switch {
	case err == nil:
		return ""
	case errors.Is(err, pruner.ErrBlockPruned):
		return "pruned"
	case errors.Is(err, db.ErrKeyNotFound):
		return "notfound"
	}
	return "other: " + err.Error()
}

func digest(parts ...any) uint64 {
	h := fnv.New64a()
	for _, p := range parts {
		b, err := encoder.Marshal(p)
		if err != nil {
			b = []byte(chain.Dump(p)) // types the CBOR encoder does not know
		}
		var l [4]byte
		l[0], l[1], l[2], l[3] = byte(len(b)>>24), byte(len(b)>>16), byte(len(b)>>8), byte(len(b))
		h.Write(l[:])
		h.Write(b)
	}
	return h.Sum64()
}

func (o *obs) put(q string, kind uint8, blk uint64, err error, parts ...any) {
	it := item{Q: q, Kind: kind, Blk: blk, Err: errKind(err)}
	if err == nil {
		it.Dig = digest(parts...)
	}
	o.items = append(o.items, it)
}

// probe = the identifiers asked about + where each of them lives on the reference (twin) chain.
type probe struct {
	maxNumber uint64
	blocks    []felt.Felt
	blockAt   map[felt.Felt]int64 // canonical number or -1
	txs       []felt.Felt
	txAt      map[felt.Felt]int64
	msgs      []eth.Hash
	msgAt     map[eth.Hash]int64
	evFrom    []uint64 // extra from-blocks for the event queries
	// fullHash: ask the full state question set (every address: nonce, storage; classes) also through StateAtBlockHash;
	// otherwise the by-hash readers get the short list (cost) and the full one is asked by number only
	fullHash bool
}

var (
	stAddrs = []felt.Felt{chain.AddrA, chain.AddrB, chain.AddrC, chain.Sys1, chain.Sys2, chain.FV(0xDEAD)}
	stSlots = []felt.Felt{chain.Slot0, chain.Slot1}
)

// sysSlot: the system contracts are written at slot = small block numbers; probe a few.
var sysSlots = []felt.Felt{chain.FV(0), chain.FV(1), chain.FV(2), chain.FV(7)}

func stClasses() []felt.Felt {
	_, h0 := chain.Cairo0(0)
	_, h1, _, _ := chain.Sierra(1)
	_, h2, _, _ := chain.Sierra(2)
	return []felt.Felt{h0, h1, h2}
}

// observeState asks the state questions; if the reader itself could not be opened (rerr), every question is
// recorded with that error so that the question lists of two nodes stay aligned.
func observeState(o *obs, pfx string, kind uint8, blk uint64, sr stateQ, rerr error, full bool) {
	if rerr != nil {
		sr = failingState{rerr}
	}
	for i := range stAddrs {
		a := stAddrs[i]
		ch, err := sr.ContractClassHash(&a)
		o.put(pfx+".ClassHash("+a.ShortString()+")", kind, blk, err, ch)
		if !full && i > 1 {
			continue
		}
		nc, err := sr.ContractNonce(&a)
		o.put(pfx+".Nonce("+a.ShortString()+")", kind, blk, err, nc)
		slots := stSlots
		if a == chain.Sys1 || a == chain.Sys2 {
			slots = sysSlots
		}
		for j := range slots {
			s := slots[j]
			v, err := sr.ContractStorage(&a, &s)
			if err != nil && rerr == nil {
				v, err = felt.Zero, nil // nonexistent contract: error and zero are the same observation
			}
			o.put(pfx+".Storage("+a.ShortString()+","+s.ShortString()+")", kind, blk, err, v)
		}
	}
	if !full {
		return
	}
	for _, h := range stClasses() {
		h := h
		dc, err := sr.Class(&h)
		if err == nil {
			o.put(pfx+".Class("+h.ShortString()+")", kind, blk, nil, dc.At, fmt.Sprintf("%T", dc.Class))
		} else {
			o.put(pfx+".Class("+h.ShortString()+")", kind, blk, err)
		}
		sh := felt.SierraClassHash(h)
		c1, err := sr.CompiledClassHash(&sh)
		o.put(pfx+".Casm("+h.ShortString()+")", kind, blk, err, c1)
	}
}

func blockParts(b *core.Block) []any {
	if b == nil {
		return []any{nil}
	}
	return []any{b.Header, b.Transactions, b.Receipts}
}

func observe(bc *blockchain.Blockchain, p *probe) *obs {
	o := &obs{}
	h, err := bc.Height()
	o.put("Height", kGlobal, 0, err, h)
	hd, err := bc.Head()
	o.put("Head", kGlobal, 0, err, blockParts(hd)...)
	hh, err := bc.HeadsHeader()
	o.put("HeadsHeader", kGlobal, 0, err, hh)
	l1, err := bc.L1Head()
	o.put("L1Head", kGlobal, 0, err, l1)
	for n := uint64(0); n <= p.maxNumber; n++ {
		q := func(s string) string { return fmt.Sprintf("%s(%d)", s, n) }
		b, err := bc.BlockByNumber(n)
		o.put(q("BlockByNumber"), kBlock, n, err, blockParts(b)...)
		bh, err := bc.BlockHeaderByNumber(n)
		o.put(q("BlockHeaderByNumber"), kBlock, n, err, bh)
		hs, err := bc.BlockHeaderHashByNumber(n)
		o.put(q("BlockHeaderHashByNumber"), kBlock, n, err, hs)
		gr, err := bc.GlobalStateRootByBlockNumber(n)
		o.put(q("GlobalStateRootByBlockNumber"), kBlock, n, err, gr)
		tc, err := bc.BlockTransactionCountByNumber(n)
		o.put(q("BlockTransactionCountByNumber"), kBlock, n, err, tc)
		txs, err := bc.TransactionsByBlockNumber(n)
		o.put(q("TransactionsByBlockNumber"), kBlock, n, err, txs)
		txs2, rcs, err := bc.TransactionsAndReceiptsByBlockNumber(n)
		o.put(q("TransactionsAndReceiptsByBlockNumber"), kBlock, n, err, txs2, rcs)
		ths, err := bc.TransactionHashesByBlockNumber(n)
		o.put(q("TransactionHashesByBlockNumber"), kBlock, n, err, ths)
		su, err := bc.StateUpdateByNumber(n)
		o.put(q("StateUpdateByNumber"), kBlock, n, err, su)
		cm, err := bc.BlockCommitmentsByNumber(n)
		o.put(q("BlockCommitmentsByNumber"), kBlock, n, err, cm)
		for i := uint64(0); i < 4; i++ {
			tx, err := bc.TransactionByBlockNumberAndIndex(n, i)
			o.put(fmt.Sprintf("TransactionByBlockNumberAndIndex(%d,%d)", n, i), kBlock, n, err, tx)
			tx2, rc, bhh, err := bc.TransactionAndReceiptByBlockNumberAndIndex(n, i)
			o.put(fmt.Sprintf("TransactionAndReceiptByBlockNumberAndIndex(%d,%d)", n, i), kBlock, n, err, tx2, rc, bhh)
			st, err := bc.TransactionExecutionStatusByBlockNumberAndIndex(n, i)
			o.put(fmt.Sprintf("TransactionExecutionStatusByBlockNumberAndIndex(%d,%d)", n, i), kBlock, n, err, st)
		}
		sr, cl, err := bc.StateAtBlockNumber(n)
		o.put(q("StateAtBlockNumber"), kState, n, err, "ok")
		observeState(o, q("StateAtBlockNumber"), kState, n, sr, err, true)
		if err == nil {
			cl()
		}
	}
	for i := range p.blocks {
		bhash := p.blocks[i]
		kind, blk := uint8(kBlock), uint64(0)
		if at := p.blockAt[bhash]; at < 0 {
			kind = kGone
		} else {
			blk = uint64(at)
		}
		q := func(s string) string { return fmt.Sprintf("%s(%s)", s, bhash.ShortString()) }
		b, err := bc.BlockByHash(&bhash)
		o.put(q("BlockByHash"), kind, blk, err, blockParts(b)...)
		bh, err := bc.BlockHeaderByHash(&bhash)
		o.put(q("BlockHeaderByHash"), kind, blk, err, bh)
		bn, err := bc.BlockNumberByHash(&bhash)
		o.put(q("BlockNumberByHash"), kind, blk, err, bn)
		su, err := bc.StateUpdateByHash(&bhash)
		o.put(q("StateUpdateByHash"), kind, blk, err, su)
		skind := kind
		if kind == kBlock {
			skind = kState
		}
		sr, cl, err := bc.StateAtBlockHash(&bhash)
		o.put(q("StateAtBlockHash"), skind, blk, err, "ok")
		observeState(o, q("StateAtBlockHash"), skind, blk, sr, err, p.fullHash)
		if err == nil {
			cl()
		}
	}
	for i := range p.txs {
		th := p.txs[i]
		kind, blk := uint8(kBlock), uint64(0)
		if at := p.txAt[th]; at < 0 {
			kind = kGone
		} else {
			blk = uint64(at)
		}
		q := func(s string) string { return fmt.Sprintf("%s(%s)", s, th.ShortString()) }
		tx, err := bc.TransactionByHash(&th)
		o.put(q("TransactionByHash"), kind, blk, err, tx)
		rc, bh, bn, err := bc.Receipt(&th)
		o.put(q("Receipt"), kind, blk, err, rc, bh, bn)
		bn2, idx, err := bc.BlockNumberAndIndexByTxHash((*felt.TransactionHash)(&th))
		o.put(q("BlockNumberAndIndexByTxHash"), kind, blk, err, bn2, idx)
	}
	for i := range p.msgs {
		mh := p.msgs[i]
		kind, blk := uint8(kBlock), uint64(0)
		if at := p.msgAt[mh]; at < 0 {
			kind = kGone
		} else {
			blk = uint64(at)
		}
		th, err := bc.L1HandlerTxnHash(&mh)
		o.put(fmt.Sprintf("L1HandlerTxnHash(%s)", mh.Hex()[:12]), kind, blk, err, th)
	}
	{
		sr, cl, err := bc.HeadState()
		o.put("HeadState", kGlobal, 0, err, "ok")
		observeState(o, "HeadState", kGlobal, 0, sr, err, true)
		if err == nil {
			cl()
		}
	}
	// event queries from several start blocks (the query is "about" its first block: a pruned start must be
	// refused, a retained start must give exactly the twin's events)
	aA, aB := felt.Address(chain.AddrA), felt.Address(chain.AddrB)
	for _, from := range p.evFrom {
		for fi, f := range []struct {
			addrs []felt.Address
			keys  [][]felt.Felt
		}{{nil, nil}, {[]felt.Address{aA}, nil}, {[]felt.Address{aB}, [][]felt.Felt{{chain.Key1}}}} {
			q := fmt.Sprintf("Events[%d](from=%d)", fi, from)
			ef, err := bc.EventFilter(f.addrs, f.keys, nil)
			if err != nil {
				o.put(q, kBlock, from, err)
				continue
			}
			if err := ef.SetRangeEndBlockByNumber(blockchain.EventFilterFrom, from); err != nil {
				o.put(q, kBlock, from, err)
				continue
			}
			var all []any
			var tok *blockchain.ContinuationToken
			var ferr error
			for guard := 0; guard < 1000; guard++ {
				evs, next, err := ef.Events(tok, 3)
				if err != nil {
					ferr = err
					break
				}
				for _, e := range evs {
					all = append(all, e.BlockNumber, e.BlockHash, e.TransactionHash, uint64(e.TransactionIndex), uint64(e.EventIndex), e.Event)
				}
				if next.IsEmpty() {
					break
				}
				n := next
				tok = &n
			}
			ef.Close()
			o.put(q, kBlock, from, ferr, all...)
		}
	}
	return o
}

// failingState answers every question with the error that prevented opening the reader.
type failingState struct{ err error }

func (f failingState) ContractClassHash(*felt.Felt) (felt.Felt, error) { return felt.Felt{}, f.err }
func (f failingState) ContractNonce(*felt.Felt) (felt.Felt, error)     { return felt.Felt{}, f.err }
func (f failingState) ContractStorage(*felt.Felt, *felt.Felt) (felt.Felt, error) {
	return felt.Felt{}, f.err
}
func (f failingState) Class(*felt.Felt) (*core.DeclaredClassDefinition, error) { return nil, f.err }
func (f failingState) CompiledClassHash(*felt.SierraClassHash) (felt.CasmClassHash, error) {
	return felt.CasmClassHash{}, f.err
}

// stateQ = the part of core.StateReader the sweep asks.
type stateQ interface {
	ContractClassHash(addr *felt.Felt) (felt.Felt, error)
	ContractNonce(addr *felt.Felt) (felt.Felt, error)
	ContractStorage(addr, key *felt.Felt) (felt.Felt, error)
	Class(classHash *felt.Felt) (*core.DeclaredClassDefinition, error)
	CompiledClassHash(classHash *felt.SierraClassHash) (felt.CasmClassHash, error)
}
