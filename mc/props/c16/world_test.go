package c16

// One "world" = a pruning juno node (real blockchain.Blockchain + real pruner.Pruner service loop, sharing a
// pruner.RetentionFloor exactly like node.New wires them) next to an UNPRUNED twin node fed the same blocks.
// A world only lives inside a testing/synctest bubble: the pruner's time.Now / tickers are virtual, and
// synctest.Wait() is the quiescence point after every environment event.

import (
	"context"
	"encoding/hex"
	"fmt"
	"hash/fnv"
	"reflect"
	"regexp"
	"sort"
	"strings"
	"sync"
	"sync/atomic"
	"testing/synctest"
	"time"

	"verif/mc/chain"
	"verif/mc/faultdb"

	"github.com/NethermindEth/juno/blockchain"
	"github.com/NethermindEth/juno/core"
	"github.com/NethermindEth/juno/core/felt"
	"github.com/NethermindEth/juno/db"
	"github.com/NethermindEth/juno/db/memory"
	"github.com/NethermindEth/juno/feed"
	"github.com/NethermindEth/juno/l1/eth"
	"github.com/NethermindEth/juno/pruner"
	"github.com/NethermindEth/juno/utils/log"
)

const (
	epoch    = 946684800 // time.Now().Unix() at the start of every synctest bubble
	blockSec = 60
	baseLen  = 16 // base chain = blocks 0..15; events extend it to at most 15+depth
	version  = "0.14.0"
	tickIv   = 300 * time.Second // floor tick interval (= the non-zero min-age setting = 5 blocks' worth)
)

type config struct {
	Retained uint64
	MinAge   time.Duration
	HPP      uint64 // L2 heads per prune
	Batch    int    // 0 = juno's default (96 MB), else the byte threshold
	NewState bool
}

func (c config) String() string {
	b := "default"
	if c.Batch > 0 {
		b = fmt.Sprintf("%dB", c.Batch)
	}
	return fmt.Sprintf("retained=%d minAge=%s heads/prune=%d batch=%s%s", c.Retained, c.MinAge, c.HPP, b, backend(c.NewState))
}

func backend(ns bool) string {
	if ns {
		return " [new-state]"
	}
	return " [legacy-state]"
}

type evKind uint8

const (
	evStore    evKind = iota // clock += 60 s, next block (timestamp = now) stored on both nodes, new-head event
	evL1Lag                  // L1 head := L2 head - 2
	evL1Eq                   // L1 head := L2 head
	evL1Ahead                // L1 head := L2 head + 3
	evTick                   // clock += floor tick interval (the pruner re-samples its min-age floor)
	evRevert                 // RevertHead down to the oldest retained block (2 blocks if nothing is pruned yet)
	evStoreOld               // catch-up block: timestamp = parent+1, far older than min-age, clock unchanged
	numEvents
)

var evNames = [...]string{"store", "L1:=head-2", "L1:=head", "L1:=head+3", "tick", "revert-to-floor", "store-old"}

type path []evKind

func (p path) String() string {
	s := make([]string, len(p))
	for i, e := range p {
		s[i] = evNames[e]
	}
	return strings.Join(s, " ; ")
}

func (p path) key() string { return string(p) }

// ---- chain material -------------------------------------------------------------------------------------------

var entryCache sync.Map // parentHash|ts -> *chain.Entry

func nextEntry(parent *chain.Entry, ts uint64) *chain.Entry {
	var n uint64
	var st *chain.State
	ph := "genesis"
	if parent != nil {
		n, st, ph = parent.Block.Number+1, parent.State, parent.Block.Hash.String()
	}
	k := fmt.Sprintf("%s|%d", ph, ts)
	if e, ok := entryCache.Load(k); ok {
		return e.(*chain.Entry)
	}
	al := chain.Alphabet(st, n, version)
	i := (int(n)*3 + 1) % len(al)
	for strings.HasSuffix(al[i].Name, "sys1.clear") { // exotic diff with a known unrelated finding (C03)
		i = (i + 1) % len(al)
	}
	sp := al[i].Spec
	sp.Timestamp = ts
	e, err := chain.Build(parent, sp)
	if err != nil {
		panic(fmt.Sprintf("build block %d (%s): %v", n, al[i].Name, err))
	}
	entryCache.Store(k, e)
	return e
}

type base struct {
	newState bool
	entries  []*chain.Entry
	img      *memory.Database
	twin     *twinState
}

// twinState is an immutable image of the unpruned twin node. The twin is a real juno node that receives exactly the
// same operations as the pruning node; because its state is a function of the operation sequence only (not of the
// pruner configuration) the results are memoised by (image, operation) and shared by all replays.
type twinState struct {
	ns   bool
	img  *memory.Database
	hash string
}

var (
	twinOps   sync.Map // ns|hash|op -> *twinState
	twinOpsN  atomic.Int64
	twinExecs atomic.Int64
)

func newTwinState(ns bool, img *memory.Database) *twinState {
	h := faultdb.Hash(img)
	return &twinState{ns, img, hex.EncodeToString(h[:16])}
}

func (t *twinState) node() *blockchain.Blockchain { return chain.NewNode(fastStore{t.img.Copy()}, t.ns) }

// twinApply runs op on a real unpruned node opened on a copy of t (or returns the memoised result).
func twinApply(t *twinState, op string, f func(bc *blockchain.Blockchain) error) *twinState {
	k := fmt.Sprintf("%v|%s|%s", t.ns, t.hash, op)
	if v, ok := twinOps.Load(k); ok {
		return v.(*twinState)
	}
	d := t.img.Copy()
	if err := f(chain.NewNode(fastStore{d}, t.ns)); err != nil {
		panic(fmt.Sprintf("twin refuses %s: %v", op, err))
	}
	twinExecs.Add(1)
	n := newTwinState(t.ns, d)
	if twinOpsN.Add(1) > 6000 { // bound the memo (it is only a cache)
		twinOps.Range(func(k, _ any) bool { twinOps.Delete(k); return true })
		twinOpsN.Store(0)
	}
	twinOps.Store(k, n)
	return n
}

func twinStore(t *twinState, e *chain.Entry) *twinState {
	return twinApply(t, "store:"+e.Block.Hash.String(), func(bc *blockchain.Blockchain) error { return chain.StoreSync(bc, e) })
}

func twinRevert(t *twinState) *twinState {
	return twinApply(t, "revert", func(bc *blockchain.Blockchain) error { return bc.RevertHead() })
}

// buildBase stores blocks 0..15 on a plain node; block i is 30 s + (15-i) min old at the bubble epoch.
func buildBase(newState bool) (*base, error) {
	b := &base{newState: newState, img: memory.New()}
	defer func() { b.twin = newTwinState(newState, b.img.Copy()) }()
	bc := chain.NewNode(b.img, newState)
	var prev *chain.Entry
	for i := uint64(0); i < baseLen; i++ {
		e := nextEntry(prev, epoch-30-(baseLen-1-i)*blockSec)
		if err := chain.StoreSync(bc, e); err != nil {
			return nil, fmt.Errorf("base block %d: %w", i, err)
		}
		b.entries = append(b.entries, e)
		prev = e
	}
	return b, nil
}

// ---- world ------------------------------------------------------------------------------------------------------

type pruneRec struct{ OldestKept, Pruned uint64 }

type world struct {
	cfg      config
	fdb      *faultdb.DB
	floor    *pruner.RetentionFloor
	bc       *blockchain.Blockchain
	headFeed *feed.Feed[*core.Block]
	l1Feed   *feed.Feed[*core.L1Head]
	pr       *pruner.Pruner
	cancel   context.CancelFunc
	done     chan error

	tw *twinState // the unpruned twin (memoised: see twinApply)

	canon   []*chain.Entry // canonical chain by height
	all     []*chain.Entry // every block ever stored (reverted ones too)
	l1      int64          // -1 = never set
	allowed uint64         // running max of bound(): the highest floor the property has ever allowed on this path

	mu        sync.Mutex
	prunes    []pruneRec
	pruneErrs []string
	c0, c1    int // commit numbers (exclusive, inclusive) made by the pruner during the last event
	problems  []problem

	fullHash bool // probes built by this world ask the full state question set by hash too (see probe.fullHash)
}

type problem struct {
	key    string
	detail map[string]any
}

// problem records a finding; within one world only the first case of a key is kept (the rest is counted).
func (w *world) problem(key string, detail map[string]any) {
	for i := range w.problems {
		if w.problems[i].key == key {
			n, _ := w.problems[i].detail["further_questions_same_class"].(int)
			w.problems[i].detail["further_questions_same_class"] = n + 1
			return
		}
	}
	if detail == nil {
		detail = map[string]any{}
	}
	w.problems = append(w.problems, problem{key, detail})
}

// family groups the Reader questions by the index they go through, so that a violation key names a defect class.
func family(q string) string {
	n := qName(q)
	switch {
	case strings.HasPrefix(n, "StateAtBlockHash"):
		return "state-by-hash"
	case strings.HasPrefix(n, "StateAtBlockNumber"):
		return "state-by-number"
	case strings.HasPrefix(n, "HeadState"):
		return "head-state"
	case strings.HasPrefix(n, "Events"):
		return "event-query"
	case n == "BlockByHash" || n == "BlockHeaderByHash" || n == "BlockNumberByHash" || n == "StateUpdateByHash":
		return "block-hash-lookup"
	case n == "TransactionByHash" || n == "Receipt" || n == "BlockNumberAndIndexByTxHash" || n == "L1HandlerTxnHash":
		return "tx-hash-lookup"
	case n == "BlockHeaderByNumber" || n == "BlockHeaderHashByNumber" || n == "GlobalStateRootByBlockNumber":
		return "header-by-number"
	case n == "Height" || n == "Head" || n == "HeadsHeader" || n == "L1Head":
		return "head"
	}
	return "block-data-by-number"
}

func prunerOpts(cfg config, onPrune func(pruneRec), onErr func(error)) []pruner.Option {
	o := []pruner.Option{
		pruner.WithL2HeadsPerPrune(cfg.HPP), pruner.WithMinAge(cfg.MinAge), pruner.WithFloorTickInterval(tickIv),
		pruner.WithListener(&pruner.SelectiveListener{
			OnPruneCb:      func(k, n uint64, _ time.Duration) { onPrune(pruneRec{k, n}) },
			OnPruneErrorCb: onErr,
		}),
	}
	if cfg.Batch > 0 {
		o = append(o, pruner.WithTargetBatchByteSize(cfg.Batch))
	}
	return o
}

// openPruningNode wires Blockchain + RetentionFloor the way node.New / node.Run do for --prune-mode.
func openPruningNode(d db.KeyValueStore, newState bool) (*blockchain.Blockchain, *pruner.RetentionFloor, error) {
	fl := &pruner.RetentionFloor{}
	bc := blockchain.New(fastStore{d}, chain.Net, blockchain.WithNewState(newState), blockchain.WithRetentionFloor(fl),
		blockchain.WithRunningEventFilterInitializer(pruner.InitializeRunningEventFilter))
	return bc, fl, fl.Seed(d)
}

func newWorld(cfg config, b *base) *world {
	w := &world{cfg: cfg, l1: -1}
	w.fdb = faultdb.Wrap(b.img.Copy())
	var err error
	w.bc, w.floor, err = openPruningNode(w.fdb, cfg.NewState)
	if err != nil {
		panic(err)
	}
	w.headFeed, w.l1Feed = feed.New[*core.Block](), feed.New[*core.L1Head]()
	w.pr = pruner.New(w.fdb, w.floor, cfg.Retained, w.headFeed.Subscribe(), w.l1Feed.Subscribe(), log.NewNopZapLogger(),
		prunerOpts(cfg,
			func(p pruneRec) { w.mu.Lock(); w.prunes = append(w.prunes, p); w.mu.Unlock() },
			func(e error) { w.mu.Lock(); w.pruneErrs = append(w.pruneErrs, e.Error()); w.mu.Unlock() })...)
	ctx, cancel := context.WithCancel(context.Background())
	w.cancel, w.done = cancel, make(chan error, 1)
	go func() { w.done <- w.pr.Run(ctx) }()
	w.tw = b.twin
	w.canon = append(w.canon, b.entries...)
	w.all = append(w.all, b.entries...)
	synctest.Wait()
	return w
}

func (w *world) close() {
	w.cancel()
	if err := <-w.done; err != nil {
		w.problem("pruner-service-exits-with-error"+backend(w.cfg.NewState), map[string]any{"err": err.Error()})
	}
}

func (w *world) head() uint64 { return uint64(len(w.canon) - 1) }

func oldestRetained(r db.KeyValueReader) uint64 {
	o, err := pruner.OldestRetainedBlock(r)
	if err != nil {
		return 0
	}
	return o
}

// privU64 reads an unexported integer field (read-only reflection; the world is quiescent when it is called).
func privU64(v any, names ...string) uint64 {
	f := reflect.ValueOf(v).Elem()
	for _, n := range names {
		f = f.FieldByName(n)
	}
	return f.Uint()
}

// stateFloor = what the shared RetentionFloor publishes: historical state is served for n >= stateFloor.
func stateFloorOf(fl *pruner.RetentionFloor) uint64 {
	s := privU64(fl, "state", "v")
	if s == 0 {
		return 0
	}
	return s - 1
}

// floors returns (block floor, state floor) as published by a node: the block floor is the oldest block with
// commitments, raised to stateFloor+1 when the in-memory floor has already been raised for a prune in progress.
func floors(r db.KeyValueReader, fl *pruner.RetentionFloor) (uint64, uint64) {
	bf, sf := oldestRetained(r), stateFloorOf(fl)
	if sf > 0 && sf+1 > bf {
		bf = sf + 1
	}
	return bf, sf
}

// bound is the oracle's own floor formula for the current instant: min(L1 head, L2 head) - retained (0 if that
// underflows or no L1 head is recorded), lowered to the first block that is younger than min-age.
func (w *world) bound() uint64 {
	if w.l1 < 0 {
		return 0
	}
	piv := min(uint64(w.l1), w.head())
	if piv < w.cfg.Retained {
		return 0
	}
	std := piv - w.cfg.Retained
	if w.cfg.MinAge > 0 {
		cutoff := uint64(time.Now().Add(-w.cfg.MinAge).Unix())
		for n, e := range w.canon {
			if e.Block.Timestamp >= cutoff {
				std = min(std, uint64(n))
				break
			}
		}
	}
	return std
}

func (w *world) stateKey() string {
	h := faultdb.Hash(w.fdb.Inner())
	return fmt.Sprintf("%s p%d s%d f%d t%d a%d", hex.EncodeToString(h[:12]), privU64(w.pr, "pendingL2Heads"),
		privU64(w.pr, "latestSampledHeight"), privU64(w.floor, "state", "v"), time.Now().Unix()-epoch, w.allowed)
}

func (w *world) storeBoth(e *chain.Entry) bool {
	tw := twinStore(w.tw, e)
	if errP := chain.StoreSync(w.bc, e); errP != nil {
		w.problem("store-next-fails"+backend(w.cfg.NewState), map[string]any{"block": e.Block.Number, "err": errP.Error()})
		return false // the twin stays in step with the pruning node
	}
	w.tw = tw
	w.canon = append(w.canon, e)
	w.all = append(w.all, e)
	return true
}

// apply performs one environment event; false = not enabled in this state. onPrunerStart (optional) runs right before
// the pruner is triggered, with the number of commits made so far.
func (w *world) apply(e evKind, onPrunerStart func(c0 int)) bool {
	w.c0, w.c1 = w.fdb.Commits(), w.fdb.Commits()
	trigger := func(send func()) {
		w.c0 = w.fdb.Commits()
		if onPrunerStart != nil {
			onPrunerStart(w.c0)
		}
		send()
		synctest.Wait()
		w.c1 = w.fdb.Commits()
	}
	switch e {
	case evStore, evStoreOld:
		parent := w.canon[w.head()]
		var ts uint64
		if e == evStore {
			time.Sleep(blockSec * time.Second)
			synctest.Wait() // a floor tick that fell into the sleep is processed before the store
			ts = uint64(time.Now().Unix())
		} else {
			ts = parent.Block.Timestamp + 1
			if w.cfg.MinAge == 0 || ts >= uint64(time.Now().Add(-w.cfg.MinAge).Unix()) {
				return false
			}
		}
		ent := nextEntry(parent, ts)
		if !w.storeBoth(ent) {
			return true
		}
		trigger(func() { w.headFeed.Send(ent.Block) })
	case evL1Lag, evL1Eq, evL1Ahead:
		x := w.head()
		switch e {
		case evL1Lag:
			x -= min(x, 2)
		case evL1Ahead:
			x += 3
		}
		h := &core.L1Head{BlockNumber: x, BlockHash: chain.F(0x11AA), StateRoot: chain.F(0x11BB)}
		if x <= w.head() {
			h.BlockHash, h.StateRoot = w.canon[x].Block.Hash, w.canon[x].Block.GlobalStateRoot
		}
		// Blockchain.SetL1Head = feed.Send + WriteL1Head; the harness owns the feed so that the write is
		// complete before the pruner wakes (commit numbering stays deterministic).
		if err := core.WriteL1Head(w.fdb, h); err != nil {
			panic(err)
		}
		w.tw = twinApply(w.tw, fmt.Sprintf("l1:%d:%s", x, h.BlockHash), func(bc *blockchain.Blockchain) error { return bc.SetL1Head(h) })
		w.l1 = int64(x)
		trigger(func() { w.l1Feed.Send(h) })
	case evTick:
		if w.cfg.MinAge == 0 {
			return false
		}
		time.Sleep(tickIv)
		synctest.Wait()
	case evRevert:
		tgt := oldestRetained(w.fdb)
		if tgt == 0 {
			tgt = w.head() - min(w.head(), 2)
		}
		if w.head() <= tgt {
			return false
		}
		for w.head() > tgt {
			tw := twinRevert(w.tw)
			if err := w.bc.RevertHead(); err != nil {
				w.problem("revert-above-floor-fails"+backend(w.cfg.NewState), map[string]any{"block": w.head(), "oldest_retained": oldestRetained(w.fdb), "err": err.Error()})
				break // the twin stays in step with the pruning node
			}
			w.tw = tw
			w.canon = w.canon[:w.head()]
		}
	}
	w.allowed = max(w.allowed, w.bound())
	return true
}

// cheapChecks: after every transition. Floor formula + the pruner must not have reported an error.
func (w *world) cheapChecks() {
	bf, sf := floors(w.fdb, w.floor)
	if bf > w.allowed {
		w.problem(fmt.Sprintf("floor-above-allowed (blocks)%s", backend(w.cfg.NewState)), map[string]any{
			"oldest_retained": oldestRetained(w.fdb), "published_block_floor": bf, "allowed": w.allowed, "l1": w.l1, "head": w.head()})
	}
	if sf > max(w.allowed, 1)-1 {
		w.problem(fmt.Sprintf("floor-above-allowed (state)%s", backend(w.cfg.NewState)), map[string]any{
			"state_floor": sf, "allowed": w.allowed, "l1": w.l1, "head": w.head()})
	}
	w.mu.Lock()
	for _, e := range w.pruneErrs {
		w.problem("pruner-reports-error"+backend(w.cfg.NewState)+" "+errClass(e), map[string]any{"err": e})
	}
	w.pruneErrs = nil
	w.mu.Unlock()
}

func errClass(e string) string {
	// strip numbers so that the key names a class of failures
	var b strings.Builder
	for _, r := range e {
		if r >= '0' && r <= '9' {
			continue
		}
		b.WriteRune(r)
	}
	s := b.String()
	if len(s) > 80 {
		s = s[:80]
	}
	return s
}

// ---- probes & twin cache -------------------------------------------------------------------------------------

func (w *world) probe(canon []*chain.Entry, extra []*chain.Entry, evFrom ...uint64) *probe {
	p := &probe{blockAt: map[felt.Felt]int64{}, txAt: map[felt.Felt]int64{}, msgAt: map[eth.Hash]int64{}, fullHash: w.fullHash}
	all := append(append([]*chain.Entry{}, w.all...), extra...)
	for _, e := range all {
		if e.Block.Number+1 > p.maxNumber {
			p.maxNumber = e.Block.Number + 1
		}
		if _, ok := p.blockAt[*e.Block.Hash]; ok {
			continue
		}
		p.blocks = append(p.blocks, *e.Block.Hash)
		p.blockAt[*e.Block.Hash] = -1
		for _, tx := range e.Block.Transactions {
			if _, ok := p.txAt[*tx.Hash()]; !ok {
				p.txs = append(p.txs, *tx.Hash())
				p.txAt[*tx.Hash()] = -1
			}
			if l1, ok := tx.(*core.L1HandlerTransaction); ok {
				mh := eth.HashFromBytes(l1.MessageHash())
				if _, ok := p.msgAt[mh]; !ok {
					p.msgs = append(p.msgs, mh)
					p.msgAt[mh] = -1
				}
			}
		}
	}
	for n, e := range canon {
		p.blockAt[*e.Block.Hash] = int64(n)
		for _, tx := range e.Block.Transactions {
			p.txAt[*tx.Hash()] = int64(n)
			if l1, ok := tx.(*core.L1HandlerTransaction); ok {
				p.msgAt[eth.HashFromBytes(l1.MessageHash())] = int64(n)
			}
		}
	}
	seen := map[uint64]bool{}
	for _, f := range evFrom {
		if !seen[f] {
			seen[f] = true
			p.evFrom = append(p.evFrom, f)
		}
	}
	sort.Slice(p.evFrom, func(i, j int) bool { return p.evFrom[i] < p.evFrom[j] })
	return p
}

func (p *probe) digest() uint64 {
	h := fnv.New64a()
	fmt.Fprintf(h, "%d|%v|%v|", p.maxNumber, p.evFrom, p.fullHash)
	for _, b := range p.blocks {
		fmt.Fprintf(h, "%s@%d,", b.String(), p.blockAt[b])
	}
	return h.Sum64()
}

var twinObsCache sync.Map // image hash + probe digest -> *obs

func twinObserve(t *twinState, p *probe) *obs {
	k := fmt.Sprintf("%s|%x|%v", t.hash, p.digest(), t.ns)
	if o, ok := twinObsCache.Load(k); ok {
		return o.(*obs)
	}
	o := observe(t.node(), p)
	if twinObsN.Add(1) > 4000 {
		twinObsCache.Range(func(k, _ any) bool { twinObsCache.Delete(k); return true })
		twinObsN.Store(0)
	}
	twinObsCache.Store(k, o)
	return o
}

var twinObsN atomic.Int64

// ---- the comparison rule ----------------------------------------------------------------------------------------

var qArgs = regexp.MustCompile(`\([^)]*\)|\[[^\]]*\]`)

// qName strips the arguments: "StateAtBlockNumber(5).Nonce(0x1)" -> "StateAtBlockNumber.Nonce".
func qName(q string) string { return qArgs.ReplaceAllString(q, "") }

type cmpStats struct {
	compared, belowErr, belowSame int
	outcomes                      map[string]int
}

// compare applies the property's rule question by question. a = pruning node, b = twin.
//   - global questions and everything at/above the floor: identical to the twin;
//   - below the floor: an error (kind recorded) or exactly the twin's answer — never different data;
//   - never an answer where the twin has none.
func (w *world) compare(tag string, a, b *obs, blockFloor, stateFloor uint64, st *cmpStats, ctx map[string]any) {
	if len(a.items) != len(b.items) {
		panic("observation lists differ in length")
	}
	for i := range a.items {
		x, y := a.items[i], b.items[i]
		st.compared++
		var below bool
		switch x.Kind {
		case kBlock:
			below = x.Blk < blockFloor
		case kState:
			below = x.Blk < stateFloor
		}
		rel := "at-or-above-floor"
		if below {
			rel = "below-floor"
		} else if x.Kind == kGlobal {
			rel = "head/global"
		} else if x.Kind == kGone {
			rel = "non-canonical-hash"
		}
		bad := ""
		switch {
		case x.Err == "" && y.Err == "":
			if x.Dig != y.Dig {
				bad = "answers-with-different-data"
			} else if below {
				st.belowSame++
				st.outcomes["below-floor "+qName(x.Q)+" -> complete answer (carve-out / not yet deleted)"]++
			}
		case x.Err != "" && y.Err != "":
			// both refuse (kinds may differ: e.g. "pruned" vs "not found" for an event query beyond the head)
		case x.Err == "" && y.Err != "":
			bad = "answers-where-unpruned-node-has-nothing"
		default: // pruning node errors, twin answers
			if below {
				st.belowErr++
				k := x.Err
				if strings.HasPrefix(k, "other: ") {
					k = "other: " + errClass(k[7:])
				}
				st.outcomes["below-floor "+qName(x.Q)+" -> error "+k]++
			} else {
				bad = "unreadable (" + strings.SplitN(x.Err, ":", 2)[0] + ")"
			}
		}
		if bad != "" {
			d := map[string]any{"question": x.Q, "about_block": x.Blk, "block_floor": blockFloor, "state_floor": stateFloor,
				"pruned_node_err": x.Err, "twin_err": y.Err}
			for k, v := range ctx {
				d[k] = v
			}
			w.problem(fmt.Sprintf("%s: %s %s %s%s", tag, rel, family(x.Q), bad, backend(w.cfg.NewState)), d)
		}
	}
}

// ---- resume ---------------------------------------------------------------------------------------------------------

// resume opens a fresh pruner service on a copy of img (= process restart), gives it the trigger that a node in
// this situation receives next (the same L1 head again, or — while L1 is ahead — the head block heads/prune times)
// and returns the image it converges to.
func resume(cfg config, img *memory.Database) (string, []string) {
	d := img.Copy()
	fl := &pruner.RetentionFloor{}
	var errs []string
	var mu sync.Mutex
	if err := fl.Seed(d); err != nil {
		errs = append(errs, "seed: "+err.Error())
	}
	hf, lf := feed.New[*core.Block](), feed.New[*core.L1Head]()
	p := pruner.New(d, fl, cfg.Retained, hf.Subscribe(), lf.Subscribe(), log.NewNopZapLogger(),
		prunerOpts(cfg, func(pruneRec) {}, func(e error) { mu.Lock(); errs = append(errs, e.Error()); mu.Unlock() })...)
	ctx, cancel := context.WithCancel(context.Background())
	done := make(chan error, 1)
	go func() { done <- p.Run(ctx) }()
	synctest.Wait()
	height, herr := core.GetChainHeight(d)
	l1, lerr := core.GetL1Head(d)
	if herr == nil && lerr == nil {
		if l1.BlockNumber > height {
			blk, err := core.GetBlockByNumber(d, height)
			if err != nil {
				errs = append(errs, "head block: "+err.Error())
			} else {
				for i := uint64(0); i < cfg.HPP; i++ {
					hf.Send(blk)
					synctest.Wait()
				}
			}
		} else {
			lf.Send(&l1)
			synctest.Wait()
		}
	}
	cancel()
	if err := <-done; err != nil {
		errs = append(errs, "run: "+err.Error())
	}
	h := faultdb.Hash(d)
	return hex.EncodeToString(h[:16]), errs
}
