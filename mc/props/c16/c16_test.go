package c16

// C16 — pruning never damages retained blocks, the head state, or L1-unconfirmed history.
//
// Explicit-state breadth-first exploration of environment-event sequences against the REAL pruner service loop
// (pruner.Pruner.Run inside a testing/synctest bubble, feeds driven by the harness, virtual clock), the real
// PruneUpto / RetentionFloor / blockchain.Reader, both state backends, with an unpruned twin node as the oracle.
// After the last event of every explored sequence the prune it triggered is additionally interrupted after EVERY
// batch commit, by crash (reopen on the image after that commit) and by context cancellation.

import (
	"encoding/hex"
	"fmt"
	"os"
	"runtime"
	"sort"
	"strconv"
	"strings"
	"sync"
	"sync/atomic"
	"testing"
	"testing/synctest"
	"time"

	"verif/mc/chain"
	"verif/mc/ev"
	"verif/mc/faultdb"

	"github.com/NethermindEth/juno/blockchain"
	"github.com/NethermindEth/juno/db/memory"
)

type explorer struct {
	r     *ev.Run
	t     *testing.T
	cfg   config
	base  *base
	depth int
	// prefix: the search starts from the state reached by this fixed event sequence instead of the base state
	// (depth counts the events after it): a deeper, narrower slice of the same space
	prefix path

	states, transitions, replays, disabled     atomic.Int64
	crashCases, cancelCases, crashDup, cancDup atomic.Int64
	questions, belowErr, belowSame             atomic.Int64
	pruneTransitions, multiBatchPrunes         atomic.Int64
	midCases, liveCases, restartCases          atomic.Int64
}

var (
	reportedKeys sync.Map
	crashSeen    sync.Map
	cancelSeen   sync.Map
	midSeen      sync.Map
	restartSeen  sync.Map
	outMu        sync.Mutex
	outcomes     = map[string]int{}
)

func (x *explorer) report(p path, probs []problem) {
	for _, pr := range probs {
		d := map[string]any{"config": x.cfg.String(), "events": p.String()}
		for k, v := range pr.detail {
			d[k] = v
		}
		x.r.Violate(pr.key, d)
	}
}

func (x *explorer) absorb(st *cmpStats) {
	x.questions.Add(int64(st.compared))
	x.belowErr.Add(int64(st.belowErr))
	x.belowSame.Add(int64(st.belowSame))
	outMu.Lock()
	for k, v := range st.outcomes {
		outcomes[k] += v
	}
	outMu.Unlock()
}

var bubbleSem = make(chan struct{}, runtime.NumCPU())

// bubble runs f in its own synctest bubble; at most NumCPU bubbles run at a time.
func (x *explorer) bubble(f func()) {
	bubbleSem <- struct{}{}
	defer func() { <-bubbleSem }()
	synctest.Test(x.t, func(*testing.T) { f() })
}

func bucket(n int) string {
	switch {
	case n <= 2:
		return fmt.Sprint(n)
	case n <= 5:
		return "3-5"
	case n <= 10:
		return "6-10"
	}
	return ">10"
}

func newStats() *cmpStats { return &cmpStats{outcomes: map[string]int{}} }

// replay runs the events of p on a fresh world; before the LAST event `beforeLast` runs (may be nil).
// Returns false if some event was not enabled (cannot happen for prefixes of explored paths).
func (x *explorer) replay(p path, beforeLast func(w *world) func(c0 int)) (*world, bool) {
	w := newWorld(x.cfg, x.base)
	for i, e := range p {
		var hook func(int)
		if i == len(p)-1 && beforeLast != nil {
			hook = beforeLast(w)
		}
		if !w.apply(e, hook) {
			return w, false
		}
	}
	return w, true
}

type resA struct {
	enabled bool
	key     string
	path    path
}

// phaseA: one transition (parent path + e): floor formula, pruner errors, store / revert must work; returns the
// successor's state key.
func (x *explorer) phaseA(p path) (out resA) {
	out.path = p
	x.bubble(func() {
		w, ok := x.replay(p, nil)
		defer w.close()
		x.replays.Add(1)
		if !ok {
			return
		}
		out.enabled = true
		w.cheapChecks()
		if len(p) > 0 {
			x.r.Add("transitions by event: "+evNames[p[len(p)-1]], 1)
		}
		if w.c1 > w.c0 {
			x.pruneTransitions.Add(1)
			x.r.Add(fmt.Sprintf("prunes by batch commits: %s", bucket(w.c1-w.c0)), 1)
			x.r.Add(fmt.Sprintf("prunes by oldest block kept: %d", oldestRetained(w.fdb)), 1)
		}
		out.key = w.stateKey()
		x.report(p, w.problems)
	})
	return out
}

func (w *world) fullAnswers(a, b *blockchain.Blockchain, extra []*chain.Entry) func(key, q string) map[string]any {
	return func(key, q string) map[string]any {
		if _, dup := reportedKeys.LoadOrStore(key, true); dup {
			return nil
		}
		cp := &chain.Probe{}
		for _, e := range append(append([]*chain.Entry{}, w.all...), extra...) {
			cp.AddEntry(e)
		}
		fa, fb := chain.Observe(a, cp, true), chain.Observe(b, cp, true)
		if _, ok := fb.Full[q]; !ok {
			return nil
		}
		return map[string]any{"pruned_node_answer": clip(fa.Full[q]), "twin_answer": clip(fb.Full[q])}
	}
}

func clip(s string) string {
	if len(s) > 1500 {
		return s[:1500] + "…"
	}
	return s
}

// check compares node a (on store da, floor fl) with the twin b (on store db) under the property's rule.
func (w *world) check(tag string, a *blockchain.Blockchain, da *memory.Database, blockFloor, stateFloor uint64,
	tw *twinState, canon, extra []*chain.Entry, st *cmpStats, ctx map[string]any,
) {
	head := uint64(len(canon) - 1)
	p := w.probe(canon, extra, 0, blockFloor, min(blockFloor+1, head), head)
	oa := observe(a, p)
	ob := twinObserve(tw, p)
	n0 := len(w.problems)
	w.compare(tag, oa, ob, blockFloor, stateFloor, st, ctx)
	if len(w.problems) > n0 {
		full := w.fullAnswers(a, tw.node(), extra)
		for i := n0; i < len(w.problems); i++ {
			if q, ok := w.problems[i].detail["question"].(string); ok {
				for k, v := range full(w.problems[i].key, q) {
					w.problems[i].detail[k] = v
				}
			}
		}
	}
}

type resB struct {
	k, c0 int    // commits of the last transition's prune, first commit number
	rstar string // image a fresh pruner converges to from the uninterrupted final image
}

// phaseB: the expensive checks on a newly discovered state (reached by p).
func (x *explorer) phaseB(p path) (out resB) {
	cfg := x.cfg
	x.bubble(func() {
		st := newStats()
		w, ok := x.replay(p, func(w *world) func(int) {
			return func(c0 int) {
				w.fdb.SnapshotAll()
				// (0) a reader that runs concurrently with the prune, right after each of its batch commits: the floor
				// the node publishes at that moment must already cover everything the committed batches removed
				w.fdb.OnCommit(func(c faultdb.Commit) {
					bf, sf := floors(w.fdb, w.floor)
					ih := faultdb.Hash(w.fdb.Inner())
					key := fmt.Sprintf("%s|%x|%s|%d|%d", cfg, ih[:16], w.tw.hash, bf, sf)
					if _, dup := midSeen.LoadOrStore(key, true); dup {
						return
					}
					x.midCases.Add(1)
					w.check("mid-prune (concurrent reader)", w.bc, w.fdb.Inner(), bf, sf, w.tw, w.canon, nil, st,
						map[string]any{"after_prune_commit": c.N - c0})
				})
			}
		})
		w.fdb.OnCommit(nil)
		defer w.close()
		x.replays.Add(1)
		if !ok {
			panic("phaseB: path not replayable: " + p.String())
		}
		defer func() { x.absorb(st); x.report(p, w.problems) }()

		// (1) the long-lived node, as it is now. States that differ only in the pruner's counters / the clock have the
		// same image, floors and twin: their answers were already compared (by the reader that ran after the last
		// batch commit, or in an earlier state).
		bf, sf := floors(w.fdb, w.floor)
		ih := faultdb.Hash(w.fdb.Inner())
		if _, dup := midSeen.LoadOrStore(fmt.Sprintf("%s|%x|%s|%d|%d", cfg, ih[:16], w.tw.hash, bf, sf), true); !dup {
			x.liveCases.Add(1)
			w.check("live", w.bc, w.fdb.Inner(), bf, sf, w.tw, w.canon, nil, st, nil)
		}

		// (2) restart on the image, store the next block, revert down to the floor (a restart forgets counters and
		// raised floor, so this depends on the image and the clock's effect on the next block only)
		if _, dup := restartSeen.LoadOrStore(fmt.Sprintf("%v|%x|%s", cfg.NewState, ih[:16], w.tw.hash), true); !dup {
			x.restartCases.Add(1)
			w.restartStoreRevert("reopen+store+revert-to-floor", w.fdb.Inner(), st)
		}

		// (3) interruption of the prune of the last transition after every batch commit
		out.k, out.c0 = w.c1-w.c0, w.c0
		if out.k == 0 {
			return
		}
		var errs []string
		out.rstar, errs = resume(cfg, w.fdb.Inner())
		if len(errs) > 0 {
			w.problem("pruner-reports-error after restart"+backend(cfg.NewState)+" "+errClass(errs[0]), map[string]any{"errs": errs})
		}
		if out.k >= 3 {
			x.multiBatchPrunes.Add(1)
		}
		for j := 1; j < out.k; j++ {
			img := w.fdb.Image(w.c0 + j)
			if img == nil {
				panic("missing snapshot")
			}
			ih := faultdb.Hash(img)
			key := fmt.Sprintf("%s|%x|%s|%d", cfg, ih[:16], w.tw.hash, time.Now().Unix())
			if _, dup := crashSeen.LoadOrStore(key, true); dup {
				x.crashDup.Add(1)
				continue
			}
			x.crashCases.Add(1)
			ctx := map[string]any{"crash_after_commit": fmt.Sprintf("%d of %d", j, out.k)}
			w.checkReopened("crash-mid-prune", img, st, ctx)
			got, errs := resume(cfg, img)
			if len(errs) > 0 {
				w.problem("resumed-prune-reports-error (crash)"+backend(cfg.NewState)+" "+errClass(errs[0]), merge(ctx, map[string]any{"errs": errs}))
			} else if got != out.rstar {
				w.problem("resumed-prune-reaches-different-image (crash)"+backend(cfg.NewState), merge(ctx, map[string]any{"resumed": got, "uninterrupted": out.rstar}))
			}
		}
	})
	return out
}

func merge(a, b map[string]any) map[string]any {
	o := map[string]any{}
	for k, v := range a {
		o[k] = v
	}
	for k, v := range b {
		o[k] = v
	}
	return o
}

// checkReopened: a fresh node (seeded floor) on img must obey the rule against the current twin.
func (w *world) checkReopened(tag string, img *memory.Database, st *cmpStats, ctx map[string]any) {
	d := img.Copy()
	bc, fl, err := openPruningNode(d, w.cfg.NewState)
	if err != nil {
		w.problem(tag+": reopen fails"+backend(w.cfg.NewState), merge(ctx, map[string]any{"err": err.Error()}))
		return
	}
	bf, sf := floors(d, fl)
	w.check(tag, bc, d, bf, sf, w.tw, w.canon, nil, st, ctx)
}

func (w *world) restartStoreRevert(tag string, img *memory.Database, st *cmpStats) {
	ns := w.cfg.NewState
	d := img.Copy()
	bc, fl, err := openPruningNode(d, ns)
	if err != nil {
		w.problem(tag+": reopen fails"+backend(ns), map[string]any{"err": err.Error()})
		return
	}
	parent := w.canon[w.head()]
	next := nextEntry(parent, max(uint64(time.Now().Unix()), parent.Block.Timestamp)+blockSec)
	tw := twinStore(w.tw, next)
	if err := chain.StoreSync(bc, next); err != nil {
		w.problem("store-next-fails after reopen"+backend(ns), map[string]any{"block": next.Block.Number, "err": err.Error()})
		return
	}
	tgt := oldestRetained(d)
	if tgt == 0 {
		tgt = w.head() - min(w.head(), 1)
	}
	h := w.head() + 1
	for h > tgt {
		tw = twinRevert(tw)
		if err := bc.RevertHead(); err != nil {
			w.problem("revert-above-floor-fails after reopen"+backend(ns), map[string]any{"block": h, "oldest_retained": tgt, "err": err.Error()})
			return
		}
		h--
	}
	bf, sf := floors(d, fl)
	w.check(tag, bc, d, bf, sf, tw, w.canon[:h+1], []*chain.Entry{next}, st, map[string]any{"reverted_down_to": h})
}

// phaseCancel: same path, but the service context is cancelled right after the j-th batch commit of the last prune.
func (x *explorer) phaseCancel(p path, b resB, j int) {
	cfg := x.cfg
	x.bubble(func() {
		w, ok := x.replay(p, func(w *world) func(int) {
			return func(c0 int) {
				w.fdb.OnCommit(func(c faultdb.Commit) {
					if c.N == c0+j {
						w.cancel()
					}
				})
			}
		})
		defer w.close()
		x.replays.Add(1)
		if !ok {
			panic("phaseCancel: path not replayable")
		}
		w.fdb.OnCommit(nil)
		st := newStats()
		defer func() { x.absorb(st); x.report(p, w.problems) }()
		if w.c0 != b.c0 {
			panic("replay not deterministic: commit numbering differs")
		}
		w.cheapChecks()
		ih := faultdb.Hash(w.fdb.Inner())
		key := fmt.Sprintf("%s|%x|%s|%d|%d", cfg, ih[:16], w.tw.hash, stateFloorOf(w.floor), time.Now().Unix())
		if _, dup := cancelSeen.LoadOrStore(key, true); dup {
			x.cancDup.Add(1)
			return
		}
		x.cancelCases.Add(1)
		ctx := map[string]any{"cancel_after_commit": fmt.Sprintf("%d of %d", j, b.k)}
		// the still-running node (floor already raised in memory, deletion partial)
		bf, sf := floors(w.fdb, w.floor)
		w.check("cancel-mid-prune (live)", w.bc, w.fdb.Inner(), bf, sf, w.tw, w.canon, nil, st, ctx)
		// ... and after a restart
		w.checkReopened("cancel-mid-prune (reopened)", w.fdb.Inner(), st, ctx)
		got, errs := resume(cfg, w.fdb.Inner())
		if len(errs) > 0 {
			w.problem("resumed-prune-reports-error (cancel)"+backend(cfg.NewState)+" "+errClass(errs[0]), merge(ctx, map[string]any{"errs": errs}))
		} else if got != b.rstar {
			w.problem("resumed-prune-reaches-different-image (cancel)"+backend(cfg.NewState), merge(ctx, map[string]any{"resumed": got, "uninterrupted": b.rstar}))
		}
	})
}

type frontierNode struct {
	p   path
	key string
}

func (x *explorer) explore(workers int) {
	r := x.r
	seen := map[string]bool{}
	// root
	root := x.phaseA(x.prefix)
	if len(x.prefix) > 0 && !root.enabled {
		r.Infra("%s: prefix %s is not enabled on the base chain", x.cfg, x.prefix)
		return
	}
	seen[root.key] = true
	x.states.Add(1)
	x.phaseB(x.prefix)
	frontier := []frontierNode{{x.prefix, root.key}}
	for d := 1; d <= x.depth && len(frontier) > 0; d++ {
		if r.OutOfTime() {
			r.Incomplete(fmt.Sprintf("%s: stopped before depth %d (%d states in the frontier)", x.cfg, d, len(frontier)))
			return
		}
		var jobs []path
		for _, f := range frontier {
			for e := evKind(0); e < numEvents; e++ {
				jobs = append(jobs, append(append(path{}, f.p...), e))
			}
		}
		res := make([]resA, len(jobs))
		var cut atomic.Bool
		ev.Par(len(jobs), workers, func(i int) {
			if r.OutOfTime() {
				cut.Store(true)
				return
			}
			res[i] = x.phaseA(jobs[i])
		})
		if cut.Load() {
			r.Incomplete(fmt.Sprintf("%s: depth %d transitions not all executed", x.cfg, d))
			return
		}
		// deterministic representative per new state: the smallest path
		fresh := map[string]path{}
		for _, a := range res {
			if !a.enabled {
				x.disabled.Add(1)
				continue
			}
			x.transitions.Add(1)
			if seen[a.key] {
				continue
			}
			if q, ok := fresh[a.key]; !ok || a.path.key() < q.key() {
				fresh[a.key] = a.path
			}
		}
		next := make([]frontierNode, 0, len(fresh))
		for k, p := range fresh {
			seen[k] = true
			next = append(next, frontierNode{p, k})
		}
		sort.Slice(next, func(i, j int) bool { return next[i].p.key() < next[j].p.key() })
		x.states.Add(int64(len(next)))
		ev.Par(len(next), workers, func(i int) {
			if r.OutOfTime() {
				cut.Store(true)
				return
			}
			b := x.phaseB(next[i].p)
			for j := 1; j < b.k; j++ {
				x.phaseCancel(next[i].p, b, j)
			}
		})
		if cut.Load() {
			r.Incomplete(fmt.Sprintf("%s: depth %d: not every new state was checked", x.cfg, d))
			return
		}
		frontier = next
	}
}

func allConfigs() []config {
	var out []config
	for _, ns := range []bool{false, true} {
		for _, ret := range []uint64{0, 1, 3, 100} {
			for _, age := range []time.Duration{0, tickIv} {
				for _, hpp := range []uint64{1, 3} {
					for _, batch := range []int{1, 0} {
						out = append(out, config{ret, age, hpp, batch, ns})
					}
				}
			}
		}
	}
	return out
}

// quickConfigs: a covering subset (every value of every dimension, every pair retained x backend).
func quickConfigs() []config {
	return []config{
		{0, 0, 1, 1, false}, {1, tickIv, 3, 0, false}, {3, tickIv, 1, 1, false}, {100, 0, 3, 0, false},
		{0, tickIv, 3, 1, true}, {1, 0, 1, 1, true}, {3, 0, 3, 0, true}, {100, tickIv, 1, 1, true},
	}
}

func TestCheck(t *testing.T) {
	r := ev.Start("C16", "fault_enumeration")
	t0run := time.Now()
	// The design asked for depth 5 / 7; measured cost (~0.1 CPU-s per distinct state incl. its interruption variants,
	// state count x2.5 per level) puts that at ~15 / ~45 min on 16 cores, so the bounds are 4 / 6.
	depth := ev.Pick(r, 4, 6)
	cfgs := ev.Pick(r, quickConfigs(), allConfigs())
	if v := os.Getenv("VERIF_C16_DEPTH"); v != "" { // development aid
		depth, _ = strconv.Atoi(v)
	}
	if v := os.Getenv("VERIF_C16_CFGS"); v != "" {
		var pick []config
		for _, f := range strings.Split(v, ",") {
			i, _ := strconv.Atoi(f)
			pick = append(pick, cfgs[i])
		}
		cfgs = pick
	}
	bases := map[bool]*base{}
	for _, ns := range []bool{false, true} {
		b, err := buildBase(ns)
		if err != nil {
			r.Infra("base chain: %v", err)
		}
		bases[ns] = b
	}
	// Reorg below the sampled min-age floor needs 5 events (tick ; revert ; store ; L1 ahead ; store). Quick reaches it by
	// searching 3 events deep from the state after "tick ; revert-to-floor" on the prune-on-every-head configurations.
	type job struct {
		cfg    config
		depth  int
		prefix path
	}
	var jobs []job
	for _, c := range cfgs {
		jobs = append(jobs, job{c, depth, nil})
	}
	if r.Quick() && os.Getenv("VERIF_C16_CFGS") == "" {
		for _, ns := range []bool{false, true} {
			jobs = append(jobs, job{config{0, tickIv, 1, 0, ns}, 3, path{evTick, evRevert}})
		}
	}
	// Part S first and outside the search's time budget: it is cheap and must never be the part an overloaded machine cuts.
	t0s := time.Now()
	staleEvals := runStale(r, bases)
	r.Set("stale_part_seconds", int64(time.Since(t0s).Seconds()))
	// the search's budget starts counting after the base chains and part S (the deadline is relative to the run's start)
	r.SetBudget(ev.Pick(r, 140, 1600) + int(time.Since(t0run).Seconds()))
	if os.Getenv("VERIF_C16_ONLY") == "stale" { // development aid
		jobs = nil
	}
	var winQueries int64
	winDone := make(chan struct{})
	go func() { defer close(winDone); winQueries = runWindows(r) }()
	xs := make([]*explorer, len(jobs))
	ev.Par(len(jobs), len(jobs), func(i int) {
		x := &explorer{r: r, t: t, cfg: jobs[i].cfg, base: bases[jobs[i].cfg.NewState], depth: jobs[i].depth, prefix: jobs[i].prefix}
		xs[i] = x
		t0 := time.Now()
		x.explore(runtime.NumCPU())
		r.Sample(map[string]any{"config": x.cfg.String(), "after_prefix": x.prefix.String(), "depth": x.depth, "states": x.states.Load(), "transitions": x.transitions.Load(),
			"replays": x.replays.Load(), "prune_transitions": x.pruneTransitions.Load(), "multi_batch_prunes_interrupted": x.multiBatchPrunes.Load(),
			"crash_points": x.crashCases.Load(), "cancel_points": x.cancelCases.Load(), "seconds": int(time.Since(t0).Seconds())})
	})
	<-winDone
	var tot explorer
	for _, x := range xs {
		tot.states.Add(x.states.Load())
		tot.transitions.Add(x.transitions.Load())
		tot.replays.Add(x.replays.Load())
		tot.disabled.Add(x.disabled.Load())
		tot.crashCases.Add(x.crashCases.Load())
		tot.cancelCases.Add(x.cancelCases.Load())
		tot.crashDup.Add(x.crashDup.Load())
		tot.cancDup.Add(x.cancDup.Load())
		tot.questions.Add(x.questions.Load())
		tot.belowErr.Add(x.belowErr.Load())
		tot.belowSame.Add(x.belowSame.Load())
		tot.pruneTransitions.Add(x.pruneTransitions.Load())
		tot.multiBatchPrunes.Add(x.multiBatchPrunes.Load())
		tot.midCases.Add(x.midCases.Load())
		tot.liveCases.Add(x.liveCases.Load())
		tot.restartCases.Add(x.restartCases.Load())
	}
	for k, v := range outcomes {
		for i := 0; i < min(v, 1); i++ {
			r.Outcome(k)
		}
		r.Set("n: "+k, int64(v))
	}
	r.Set("configurations", int64(len(jobs)))
	r.Set("depth", int64(depth))
	r.Set("states", tot.states.Load())
	r.Set("transitions", tot.transitions.Load())
	r.Set("events_not_enabled", tot.disabled.Load())
	r.Set("executions", tot.replays.Load())
	r.Set("prune_transitions", tot.pruneTransitions.Load())
	r.Set("multi_batch_prunes_interrupted", tot.multiBatchPrunes.Load())
	r.Set("mid_prune_reader_points_checked", tot.midCases.Load())
	r.Set("quiescent_images_compared_live", tot.liveCases.Load())
	r.Set("images_reopened_stored_reverted", tot.restartCases.Load())
	r.Set("twin_operations_executed", twinExecs.Load())
	r.Set("crash_points_checked", tot.crashCases.Load())
	r.Set("crash_points_identical_to_checked", tot.crashDup.Load())
	r.Set("cancel_points_checked", tot.cancelCases.Load())
	r.Set("cancel_points_identical_to_checked", tot.cancDup.Load())
	r.Set("questions_compared_with_twin", tot.questions.Load())
	r.Set("below_floor_refused", tot.belowErr.Load())
	r.Set("below_floor_answered_completely", tot.belowSame.Load())
	r.Set("evaluations", tot.liveCases.Load()+tot.restartCases.Load()+tot.midCases.Load()+tot.crashCases.Load()+tot.cancelCases.Load()+winQueries+staleEvals)
	r.Set("distinct_nontrivial", tot.states.Load())
	r.Set("rule", fmt.Sprintf("per configuration (retained x min-age x heads/prune x batch threshold x state backend): BFS over ALL sequences of <= %d events from "+
		"{store next block, L1 head := head-2 | head | head+3, floor tick (+5 min), revert head down to the floor, catch-up store} on a %d-block base chain, "+
		"driving the real pruner.Run loop in a synctest bubble; sequences are merged when (KV image, pruner counters, published floor, clock, allowed floor) coincide. "+
		"Every transition: floor <= oracle formula, no pruner error, store/revert succeed. Every distinct state: whole Reader surface vs an unpruned twin "+
		"(>= floor identical, < floor error-or-identical), reopen + store next + revert to floor vs twin, and for the prune of the incoming transition a crash "+
		"(reopen on the image) and a context cancel after EVERY batch commit, each followed by a resumed prune that must reach the uninterrupted image. "+
		"Part W (windows_test.go): on a %d-block chain (two completed bloom-filter windows + 6 blocks) every floor of a list covering each position relative to the window "+
		"boundaries x both backends: PruneUpto, reopen, event queries from the floor / the boundaries / the head vs the unpruned twin, revert across the last window boundary "+
		"(to the floor for one floor per backend in the thorough tier), extend by 3 blocks, queries again. "+
		"Part S (stale_test.go, runs first, outside the time budget): on the base chain, both backends x batch threshold {1 byte, default} x every f1 in 1..head-1 "+
		"(PruneUpto(f1) completes) x every f2 in f1+1..head x every i in 0..f2-f1-1 (PruneUpto(f2) cancelled after exactly i swept blocks): whole Reader surface "+
		"with the FULL state question set also by hash vs the twin (a) on the node that lived through the prune, floor raised to f2-1, (b) after restart, "+
		"(c) after restart + a completed PruneUpto(f3), f3 in {f2, head} (thorough: every f3 above the stop point), whose image must equal the uninterrupted one; "+
		"merged on identical (image, floor).", depth, baseLen, longLen))
	r.Assume = append(r.Assume,
		"events are delivered one at a time at quiescence (no preemption inside a prune other than cancel/crash at batch commits)",
		"a batch commit is atomic (C15)", "the unpruned twin is a correct reference (C03/C04)",
		"state merging: the node's future behaviour depends only on the KV image, the pruner's two counters, the shared floor and the clock")
	_ = hex.EncodeToString
	r.Finish()
}
