package c06

import (
	"fmt"
	"os"
	"sort"
	"strings"
	"testing"
	"time"

	"verif/mc/ev"
)

type node struct {
	cfg    int32
	path   []evt
	parent [16]byte // state this node is a successor of
	isDef  bool     // ... by that state's default event
}

// stateInfo is what the parent keeps per distinct state: a path reaching it and its default successor.
type stateInfo struct {
	cfg      int32
	path     []evt
	devs     uint8
	defChild [16]byte
	hasDef   bool
}

// pollInterval is the pre-confirmed poll interval of the polling-enabled configurations (juno's default).
const pollInterval = 500 * time.Millisecond

// polling turns a configuration into one with the pre-confirmed poller running and one injectable commit failure.
func polling(c *config) *config { c.poll = pollInterval; c.dbFaults = 1; return c }

// configs lists the root configurations of a tier. VERIF_C06_CFG="n0,workers,steps,k,newState[,polling];..." overrides
// (development aid).
func configs(tier string) []*config {
	all := allConfigs(tier)
	if os.Getenv("VERIF_C06_ONLY") == "polling" { // development aid: only the polling-enabled configurations of the tier
		var out []*config
		for _, c := range all {
			if c.poll > 0 {
				out = append(out, c)
			}
		}
		return out
	}
	return all
}

func allConfigs(tier string) []*config {
	mk := func(n0, workers, steps, k int, newState bool) *config {
		return &config{n0: n0, workers: workers, steps: steps, k: k, newState: newState, maxLen: n0 + 1,
			variants: []int{vCorruptField, vForgedRoot, vForgedParent}, holds: []byte{lStore, lReorg}}
	}
	if s := os.Getenv("VERIF_C06_CFG"); s != "" {
		var out []*config
		for _, part := range strings.Split(s, ";") {
			var n0, w, st, k, ns, pl int
			if n, err := fmt.Sscanf(part, "%d,%d,%d,%d,%d,%d", &n0, &w, &st, &k, &ns, &pl); err != nil && n < 5 {
				panic("bad VERIF_C06_CFG: " + part)
			}
			c := mk(n0, w, st, k, ns == 1)
			if pl >= 1 {
				polling(c)
			}
			if pl == 2 {
				noHolds(c)
			}
			if pl == 3 {
				c.holds = []byte{lReorg}
			}
			out = append(out, c)
		}
		return out
	}
	if tier == "thorough" {
		all := []byte{lStore, lReorg, lVerify, lFetch, lCheck}
		two := []byte{lStore, lReorg}
		th := func(c *config, holds []byte) *config {
			c.variants = append(c.variants, vCorruptDiff)
			c.holds = holds
			return c
		}
		// listener holds multiply the deviation-1 level by 2-4, so the deepest / widest configurations carry fewer classes
		return []*config{
			th(mk(4, 1, 1, 3, false), nil), // tip-following, one reorg, <=3 deviations, no listener holds
			th(mk(4, 1, 1, 2, false), all), // tip-following, one reorg, <=2 deviations, holds on all five listener classes
			th(mk(3, 1, 2, 1, false), two), // two reorgs, <=1 deviation, holds on store / reorg callbacks
			th(mk(4, 1, 2, 0, false), nil), // two reorgs on a longer chain, every placement of both
			th(mk(6, 2, 1, 2, false), nil), // catch-up with 2 fetchers, one reorg, <=2 deviations, no listener holds
			th(mk(6, 2, 1, 1, false), all), // catch-up with 2 fetchers, one reorg, <=1 deviation, all five listener classes
			th(mk(6, 3, 1, 1, true), all),  // catch-up with 3 fetchers, new state backend, all five listener classes
			th(mk(5, 2, 0, 3, false), all), // catch-up with 2 fetchers, no reorg, <=3 deviations
			// pre-confirmed polling ENABLED (real preconfirmed.Poller on the stream context) + one injectable commit failure
			polling(th(mk(3, 1, 1, 1, false), nil)),            // fresh node, 3-block chain, one reorg (incl. whole chain), <=1 deviation
			polling(th(mk(2, 1, 1, 2, false), []byte{lReorg})), // the quick tier's configuration with <=2 deviations and holds
			// on OnReorg (a tick between the revert of a block and the stream reset that follows it)
			polling(th(mk(4, 2, 1, 1, true), nil)), // catch-up with 2 fetchers, new state backend, <=1 deviation
		}
	}
	return []*config{
		mk(4, 1, 1, 1, false),          // tip-following, one reorg, <=1 deviation
		noHolds(mk(3, 1, 1, 2, false)), // one reorg, <=2 deviations (no listener holds: they triple this level-2 search)
		mk(3, 1, 2, 0, false),          // two reorgs, default answers, every placement of both
		mk(6, 2, 1, 1, true),           // catch-up with 2 fetchers, one reorg, <=1 deviation, new state backend
		mk(5, 2, 0, 2, false),          // catch-up with 2 fetchers, no reorg, <=2 deviations (out-of-order answers, faults)
		// pre-confirmed polling ENABLED (real preconfirmed.Poller on the stream context) + one injectable commit failure:
		// fresh node, faults on any block incl. block 0, one reorg of any depth incl. the whole chain, <=1 deviation (no
		// listener holds: a hold and a fault / a tick at a cost together need 2 deviations, which is the thorough tier)
		polling(noHolds(mk(2, 1, 1, 1, false))),
	}
}

func noHolds(c *config) *config { c.holds = nil; return c }

type cfgCount struct {
	states, transitions, convRuns int64
	maxDepth                      int
	perDev                        []int64
}

func TestCheck(t *testing.T) {
	if os.Getenv("VERIF_C06_WORKER") != "" {
		workerMain(t)
		return
	}
	r := ev.Start("C06", "exploration")
	cfgs := configs(r.Tier)
	pl, err := newPool(r.Tier)
	if err != nil {
		r.Infra("cannot start worker processes: %v", err)
	}
	r.SetBudget(ev.Pick(r, 150, 1620))
	trace := os.Getenv("VERIF_C06_TRACE") != ""

	r.Set("rule", "deviation-bounded explicit-state search over the quiescent points of the real sync.Synchronizer in a testing/synctest bubble: "+
		"default event = truthful answer to the oldest outstanding source request (cost 0); source steps (reorg at any fork height / growth) cost 0 "+
		"but are bounded per configuration; every other enabled event (answer a younger request, error, stale latest header, corrupt-field / forged-root / "+
		"forged-parent block, block of a pre-reorg branch, advance the poll ticker, hold the next sync.EventListener callback of a class at a height so that "+
		"it parks inside the pipeline - e.g. between blockchain.Store and the notifications - until released for free; in the configurations with "+
		"pre-confirmed polling enabled also: error to a request of the real preconfirmed.Poller, one poll interval of virtual time passes, the "+
		"database commit of the next Store of a block fails) costs 1; every replay ends with a shutdown (context cancel) at the state it reached and Run must return within "+
		shutdownHorizon.String()+" of virtual time; ALL states reachable with <= k deviations are expanded with ALL "+
		"their enabled events (successor = replay of the whole path in a fresh bubble + one event, states merged on a canonical key); from every distinct "+
		"state a convergence run is executed. Non-trivial = a transition that stores or reverts a block")
	r.Assume = append(r.Assume,
		"scheduler granularity = data-source calls, source steps and the poll ticker (quiescent points of the bubble); goroutine preemption between two "+
			"environment interactions is not enumerated; requests that arrive in the same step are ordered by content",
		"a source step replaces the suffix from any fork height 0..len by a NEW non-empty branch (new total length len-1, len, len+1 or fork+1, at most "+
			"n0+1) or appends one block; a step that only truncates the source chain is not scripted",
		"blocks are valid 0.14.0 blocks from verif/mc/chain; corrupt-field keeps the hash (must fail the hash check), forged-root / forged-parent recompute "+
			"the hash (self-consistent, must fail in Store); revertTask requests are answered with truth / error / old-branch block only",
		"listener holds: at most one callback armed or parked at a time; classes store+reorg (quick), all five (thorough); a parked callback always returns "+
			"eventually (the convergence run releases it first); emissions are compared with the commit history as FIFO queues per feed (the "+
			"interleaving BETWEEN the two feeds inside one step is not observable), announcements may lag only while a store callback is parked",
		"a cancelled request returns ctx.Err() immediately (like an HTTP client); pre-confirmed polling is disabled (interval 0) and there are no "+
			"database faults except in the configurations marked preconfirmed-poll / db-commit-faults",
		"polling-enabled configurations: interval "+pollInterval.String()+"; the source offers an EMPTY pre-confirmed block on top of its current tip "+
			"(full block, or no-change when the poller already holds it; by-number requests for other heights fail) or an error; time never "+
			"advances while a poller request is outstanding (fewer than 120 single-interval advances per path, so the phase of the minute "+
			"ticker is not observable); at most one injected commit failure per path (the batch of the next Store of a block returns an "+
			"error from Write and applies nothing; RevertHead commits are never failed)",
		"a replay whose Synchronizer does not stop is reported (sync-does-not-stop) and its bubble abandoned; worker processes are replaced "+
			"after "+fmt.Sprint(maxAbandoned)+" abandoned bubbles",
		"convergence run: the source no longer changes, answers the oldest request truthfully, a minute passes whenever the configuration repeats; "+
			"verdict 'stuck' only when the configuration repeats across a time advance (or after "+fmt.Sprint(convHorizon)+" steps)")

	visited := map[[16]byte]*stateInfo{}
	counts := make([]cfgCount, len(cfgs))
	maxK := 0
	for i, c := range cfgs {
		counts[i].perDev = make([]int64, c.k+1)
		if c.k > maxK {
			maxK = c.k
		}
	}
	buckets := make([][]node, maxK+2)
	for i := range cfgs {
		buckets[0] = append(buckets[0], node{cfg: int32(i)})
	}
	var nontrivial, maxKV int64
	r.Set("spin_guard_limit_store_calls_per_step", int64(spinLimit))
	sampled := map[string]int{}
	stop := false
	t0 := time.Now()
	for d := 0; d <= maxK && !stop; d++ {
		level := buckets[d]
		buckets[d] = nil
		// Within a deviation level the configurations are independent of each other. The polling-enabled ones (added
		// last) are explored after the others, so that a time-budget cut on a loaded machine takes from them first and
		// leaves the older configurations exactly what they had before.
		for pass := 0; pass < 2 && !stop; pass++ {
			var frontier []node
			for _, nd := range level {
				if (cfgs[nd.cfg].poll > 0) == (pass == 1) {
					frontier = append(frontier, nd)
				}
			}
			for layer := 0; len(frontier) > 0 && !stop; layer++ {
				if trace {
					fmt.Printf("devs=%d layer=%d nodes=%d states=%d t=%.1fs\n", d, layer, len(frontier), len(visited), time.Since(t0).Seconds())
				}
				results, err := pl.run(frontier, false, r.OutOfTime)
				if err != nil {
					r.Infra("%v", err)
				}
				var next []node
				for i := range results {
					res := &results[i]
					nd := frontier[i]
					c := cfgs[nd.cfg]
					if res.infra == "timeout" {
						r.Incomplete(fmt.Sprintf("time budget hit at deviation level %d, BFS layer %d (%d nodes in that layer)", d, layer, len(frontier)))
						stop = true
						continue
					}
					if res.infra != "" {
						r.Infra("%s [config %s path=%v]", res.infra, c, pathStrings(nd.path))
					}
					counts[nd.cfg].transitions++
					r.Add("evaluations", 1)
					for k, v := range res.stats {
						if k == "max_kv_calls_in_one_step" {
							if v > maxKV {
								maxKV = v
								r.Set("max_store_calls_in_one_environment_step", v)
							}
							continue
						}
						r.Add("last_step_"+k, v)
					}
					for _, v := range res.viols {
						v.detail["deviations"] = d
						r.Violate(v.key, v.detail)
					}
					r.Outcome(res.label)
					if strings.ContainsAny(res.label[strings.Index(res.label, ">")+1:], "SR") {
						nontrivial++
					}
					key := h16(fmt.Sprintf("%d|%x", nd.cfg, res.key))
					if nd.isDef {
						if pi := visited[nd.parent]; pi != nil {
							pi.defChild, pi.hasDef = key, true
						}
					}
					if _, ok := visited[key]; ok {
						continue
					}
					visited[key] = &stateInfo{cfg: nd.cfg, path: nd.path, devs: uint8(d)}
					counts[nd.cfg].states++
					counts[nd.cfg].perDev[d]++
					if res.depth > counts[nd.cfg].maxDepth {
						counts[nd.cfg].maxDepth = res.depth
					}
					if cat := sampleCategory(res.label, nd.path); cat != "" && sampled[cat] < 1 && len(sampled) < 6 {
						sampled[cat]++
						r.Sample(map[string]any{"category": cat, "config": c.String(), "path": pathStrings(nd.path), "state": res.desc})
					}
					if res.hung {
						r.Add("states_in_which_shutdown_hangs", 1) // reported above; the state is expanded like any other
					}
					for j, e := range res.enabled {
						cost := int(res.costs[j])
						if d+cost > c.k {
							continue
						}
						p := make([]evt, len(nd.path)+1)
						copy(p, nd.path)
						p[len(p)-1] = e
						child := node{cfg: nd.cfg, path: p, parent: key, isDef: j == 0}
						if cost == 0 {
							next = append(next, child)
						} else {
							buckets[d+1] = append(buckets[d+1], child)
						}
					}
				}
				frontier = next
			}
		}
	}
	// Convergence. The convergence policy's first move in a state is that state's default event, whose successor is
	// itself an explored state; so the runs from all states whose default continuation enters the same terminal
	// cycle share their suffix, and one real run per terminal cycle (from its smallest-key member) decides them all.
	rep := map[[16]byte][16]byte{} // state -> representative of its terminal cycle (zero = unresolved)
	var unresolved int64
	for k0 := range visited {
		if _, ok := rep[k0]; ok {
			continue
		}
		var walk [][16]byte
		pos := map[[16]byte]int{}
		k := k0
		var found [16]byte
		for {
			if r0, ok := rep[k]; ok {
				found = r0
				break
			}
			if i, ok := pos[k]; ok {
				found = k
				for _, m := range walk[i:] {
					if string(m[:]) < string(found[:]) {
						found = m
					}
				}
				break
			}
			si := visited[k]
			if si == nil || !si.hasDef {
				break // default successor not computed (time budget) -> unresolved
			}
			pos[k] = len(walk)
			walk = append(walk, k)
			k = si.defChild
		}
		for _, m := range walk {
			rep[m] = found
		}
	}
	basin := map[[16]byte]int64{}
	for k := range visited {
		if r0 := rep[k]; r0 != ([16]byte{}) {
			basin[r0]++
		} else {
			unresolved++
		}
	}
	var reps []node
	var repKeys [][16]byte
	for k := range basin {
		repKeys = append(repKeys, k)
	}
	sort.Slice(repKeys, func(i, j int) bool { return string(repKeys[i][:]) < string(repKeys[j][:]) })
	for _, k := range repKeys {
		reps = append(reps, node{cfg: visited[k].cfg, path: visited[k].path})
	}
	convDeadline := time.Now().Add(time.Duration(ev.Pick(r, 25, 180)) * time.Second)
	cres, err := pl.run(reps, true, func() bool { return time.Now().After(convDeadline) })
	if err != nil {
		r.Infra("%v", err)
	}
	var convStates, stuckStates int64
	for i := range cres {
		res := &cres[i]
		if res.infra == "timeout" {
			r.Incomplete("time budget hit during the convergence runs")
			unresolved += basin[repKeys[i]]
			continue
		}
		if res.infra != "" {
			r.Infra("%s [convergence run, config %s path=%v]", res.infra, cfgs[reps[i].cfg], pathStrings(reps[i].path))
		}
		counts[reps[i].cfg].convRuns++
		r.Add("evaluations", 1)
		r.Add("convergence_steps_total", int64(res.convSteps))
		for _, v := range res.viols {
			v.detail["states_whose_default_continuation_ends_here"] = basin[repKeys[i]]
			r.Violate(v.key, v.detail)
		}
		if res.conv {
			r.Outcome("convergence-run:converged")
			convStates += basin[repKeys[i]]
		} else {
			r.Outcome("convergence-run:stuck")
			stuckStates += basin[repKeys[i]]
		}
	}
	r.Set("states_decided_converging", convStates)
	r.Set("states_decided_stuck", stuckStates)
	r.Set("states_convergence_undecided", unresolved)
	if unresolved > 0 {
		r.Incomplete(fmt.Sprintf("convergence undecided for %d states (default successor not computed within the time budget)", unresolved))
	}
	if err := pl.close(); err != nil {
		r.Infra("worker process ended abnormally: %v", err)
	}
	var states, transitions, conv int64
	var per []string
	for i, c := range cfgs {
		states += counts[i].states
		transitions += counts[i].transitions
		conv += counts[i].convRuns
		per = append(per, fmt.Sprintf("%s k=%d: states=%d (by deviations %v) transitions=%d convergence_runs=%d max_depth=%d",
			c, c.k, counts[i].states, counts[i].perDev, counts[i].transitions, counts[i].convRuns, counts[i].maxDepth))
	}
	sort.Strings(per)
	r.Set("configurations", per)
	r.Set("states", states)
	r.Set("transitions", transitions)
	r.Set("executions", transitions+conv)
	r.Set("convergence_runs", conv)
	r.Set("distinct_nontrivial", nontrivial)
	r.Set("worker_processes", int64(len(pl.ws)))
	feedFanout(r)
	if trace {
		fmt.Println(strings.Join(per, "\n"))
	}
	r.Finish()
}

func sampleCategory(label string, path []evt) string {
	if len(path) < 4 {
		return ""
	}
	moved := label[strings.Index(label, ">")+1:]
	switch {
	case strings.HasPrefix(moved, "RR"):
		return "multi-block revert after " + label[:strings.Index(label, ">")]
	case strings.HasPrefix(moved, "R"):
		return "revert after " + label[:strings.Index(label, ">")]
	case strings.Count(moved, "S") >= 2:
		return "several held blocks stored in one step"
	}
	return ""
}
