package c06

// C06 — sync converges to the source's chain and only ever stores verified blocks.
//
// System under test: the real sync.Synchronizer (Run -> syncBlocks, fetcherTask / isReverting / verifierTask /
// storeTask / revertTask / pollLatest, stream reset) on a real blockchain.Blockchain over an in-memory DB wrapped in
// verif/mc/faultdb (commit observation only). Environment: a scripted sync.DataSource whose every call parks on an
// in-bubble channel (testing/synctest), so each BlockByNumber / BlockHeaderLatest call is an *event the explorer
// answers*: truthfully, with an error, with a stale latest header, with a corrupted / forged block or with the block of
// a pre-reorg branch. The source chain itself is changed by explorer-chosen reorg steps (any fork height, several new
// lengths) at any quiescent point, and the minute ticker of pollLatest is fired by an explicit "advance time" event.
// The official sync.EventListener seam is an environment interaction too: every OnSyncStepDone / OnReorg callback is a
// parkable scheduling point. By default it returns at once; the explorer may (one deviation) arm a hold on the next
// callback of a class (store / reorg; thorough: also verify / fetch / reorgCheck) at a height, which then parks inside
// the pipeline - e.g. between blockchain.Store and the notifications of the same storeTask - while data-source answers
// and source steps go on; letting it return is free. Parked callbacks are identified by class/height.
//
// A source chain is a string of branch digits, one per height ("00011" = blocks 0..2 of branch 0, then two blocks
// created by script step 1); the block at height h is the prefix of length h+1. Blocks come from verif/mc/chain
// (Alphabet/Build): they are VALID blocks whose roots and hashes are computed by the reference generator.
//
// Search: states are the quiescent points of the bubble; a successor is computed by replaying the whole path in a
// fresh bubble plus one event; states are merged on a canonical key. Default event = answer the oldest outstanding
// request truthfully (cost 0); source steps cost 0 but are bounded in number; every other event costs one deviation.
// All states reachable with <= k deviations are expanded (search_test.go). Convergence: the default-successor graph
// over all explored states is followed to its terminal cycles and one real convergence run per cycle (source frozen,
// truthful oldest-first answers, a minute passes whenever the configuration repeats) must make the local chain equal
// the source's and keep it equal; that run decides every state whose default continuation enters the cycle.
//
// Pre-confirmed polling (configurations with poll > 0; production default 500 ms): the Synchronizer is constructed with
// a non-zero pre-confirmed poll interval, so the real preconfirmed.Poller runs on the sync STREAM context and takes
// part in every stream reset (syncBlocks waits for it) and in the shutdown. Its ticker is virtual time ('a' = one poll
// interval passes; the minute advance 'A' contains 120 of them), its data-source calls (PreConfirmedBlockLatest /
// PreConfirmedBlockByNumber) park like all the others and are answered truthfully (the source offers an EMPTY
// pre-confirmed block on top of its current tip: full block, or "no change" when the poller already has it) or with an
// error. Those configurations also enumerate ONE injected database commit failure ('F': the commit of the next Store of
// a block returns an error and applies nothing; storefault_test.go).
//
// Shutdown: EVERY replay ends by cancelling the context of Run at the quiescent point it reached (so shutdown is
// exercised at every explored state, polling enabled or not); Run must return without more than shutdownHorizon of
// virtual time passing, else "sync-does-not-stop". Such a state is reported and not expanded further (the bubble of a
// Synchronizer that does not stop cannot be torn down: the worker process is replaced).
//
// Build seam: prebuild.sh (conc/stream's process-wide channel pool cannot be shared between bubbles).
// Reproduction aid: trace_test.go (VERIF_C06_TRACE_CFG / VERIF_C06_TRACE_PATH).
//
// Tolerances (harness would otherwise over-demand):
//   - a stored block only has to be a VALID block extending the head (old-branch blocks served late may be stored if
//     they link; the statement does not require "canonical when served");
//   - new-head / reorg notifications are checked on emissions per quiescent step (order inside one feed, not the
//     interleaving between the two feeds);
//   - commits that do not move the head are ignored.

import (
	"context"
	"crypto/sha256"
	"errors"
	"fmt"
	"reflect"
	"runtime"
	"sort"
	"strings"
	stdsync "sync"
	"sync/atomic"
	"testing"
	"testing/synctest"
	"time"
	"unsafe"

	"verif/mc/chain"
	"verif/mc/faultdb"

	"github.com/NethermindEth/juno/blockchain"
	"github.com/NethermindEth/juno/core"
	"github.com/NethermindEth/juno/core/felt"
	"github.com/NethermindEth/juno/db"
	"github.com/NethermindEth/juno/starknet"
	jsync "github.com/NethermindEth/juno/sync"
	"github.com/NethermindEth/juno/sync/preconfirmed"
	"github.com/NethermindEth/juno/utils/log"
)

const protoVersion = "0.14.0"

// ---------------------------------------------------------------------------------------------------------------
// universe of valid blocks (process-wide memo; reference copies are never handed to juno)

type blk struct {
	name   string
	parent *blk
	e      *chain.Entry
	spec   string
}

var (
	uniByName = map[string]*blk{}
	uniByHash = map[felt.Felt]*blk{}
)

func getBlk(name string) *blk {
	if name == "" {
		return nil
	}
	if b, ok := uniByName[name]; ok {
		return b
	}
	parent := getBlk(name[:len(name)-1])
	number := uint64(len(name) - 1)
	branch := int(name[len(name)-1] - '0')
	var pe *chain.Entry
	var st *chain.State
	if parent != nil {
		pe, st = parent.e, parent.e.State
	}
	var alpha []chain.Named
	for _, a := range chain.Alphabet(st, number, protoVersion) {
		// exotic histories (system contract 0x1 cleared) have their own known findings in C01/C03/C04
		if a.Name != "sys1.clear" {
			alpha = append(alpha, a)
		}
	}
	pick := alpha[(int(number)*2+branch*3+1)%len(alpha)]
	// The first heights are chosen so that class knowledge matters across a reorg (the real feeder data source decides
	// per fetched block which class definitions the node still needs, from the node's head state): the main branch
	// declares S1 at height 1 and uses it at height 2; the branch forking at height 1 declares S1 one block LATER.
	if want, ok := map[string]string{"0": "deployA", "00": "declareS1", "01": "empty", "000": "deployB+touch", "010": "declareS1", "0100": "deployB+touch",
		"011": "declareS1", "001": "declareS2+deployC"}[name]; ok {
		for _, a := range alpha {
			if a.Name == want {
				pick = a
			}
		}
	}
	spec := pick.Spec
	spec.Timestamp += uint64(branch) // siblings always differ
	e, err := chain.Build(pe, spec)
	if err != nil {
		panic(fmt.Sprintf("universe: build %s (%s): %v", name, pick.Name, err))
	}
	b := &blk{name: name, parent: parent, e: e, spec: pick.Name}
	uniByName[name] = b
	if o, dup := uniByHash[*e.Block.Hash]; dup {
		panic("universe: hash collision " + o.name + " " + name)
	}
	uniByHash[*e.Block.Hash] = b
	return b
}

// universeIntact recomputes the hash of every reference block (they are shared, shallowly, with the copies served).
func universeIntact() string {
	for name, b := range uniByName {
		h, _, err := core.BlockHash(b.e.Block, b.e.SU.StateDiff, chain.Net, nil, core.TrieBackend)
		if err != nil || !h.Equal(b.e.Block.Hash) || !b.e.SU.BlockHash.Equal(&h) {
			return name
		}
	}
	return ""
}

// block variants a source can serve for a given reference block
const (
	vTrue         = 0
	vCorruptField = 1 // a hash-committed header field changed, hash kept        -> must fail SanityCheckNewHeight
	vForgedRoot   = 2 // state root changed, hash recomputed (self-consistent)    -> passes the hash check, must fail Store
	vForgedParent = 3 // parent hash changed, hash recomputed (self-consistent)   -> Store: ErrParentDoesNotMatchHead
	vCorruptDiff  = 4 // a state-diff entry added, hash kept                      -> must fail SanityCheckNewHeight
)

var variantName = map[int]string{vTrue: "true", vCorruptField: "corrupt-field", vForgedRoot: "forged-root",
	vForgedParent: "forged-parent", vCorruptDiff: "corrupt-diff"}

type forgedKey struct {
	name string
	v    int
}

var forgedHash = map[forgedKey]felt.Felt{}

// serve builds fresh top-level objects for juno (header / block / state-update structs are copies).
func serve(b *blk, variant int) jsync.CommittedBlock {
	h := *b.e.Block.Header
	blockCopy := &core.Block{Header: &h, Transactions: b.e.Block.Transactions, Receipts: b.e.Block.Receipts}
	su := *b.e.SU
	rehash := func() {
		k := forgedKey{b.name, variant}
		fh, ok := forgedHash[k]
		if !ok {
			var err error
			fh, _, err = core.BlockHash(blockCopy, su.StateDiff, chain.Net, nil, core.TrieBackend)
			if err != nil {
				panic(err)
			}
			forgedHash[k] = fh
		}
		h.Hash = &fh
		su.BlockHash = &fh
	}
	switch variant {
	case vCorruptField:
		h.Timestamp++
	case vForgedRoot:
		r := new(felt.Felt).Add(h.GlobalStateRoot, chain.F(1))
		h.GlobalStateRoot = r
		su.NewRoot = r
		rehash()
	case vForgedParent:
		h.ParentHash = new(felt.Felt).Add(h.ParentHash, chain.F(0xBAD))
		rehash()
	case vCorruptDiff:
		d := *su.StateDiff
		n := map[felt.Felt]*felt.Felt{}
		for k, v := range d.Nonces {
			n[k] = v
		}
		n[chain.FV(0xC0FFEE)] = chain.F(77)
		d.Nonces = n
		su.StateDiff = &d
	}
	return jsync.CommittedBlock{Block: blockCopy, StateUpdate: &su, NewClasses: b.e.Classes, Persisted: make(chan error, 1)}
}

// ---------------------------------------------------------------------------------------------------------------
// events

type evt struct {
	K byte  // 'T' truth, 'E' error, 'S' stale latest header, 'C' corrupt/forged block, 'P' pre-reorg-branch block,
	O byte  //   (O,H) = request: origin 'p' pollLatest, 'v' isReverting, 'f' fetcherTask, 'r' revertTask; height
	H uint8 // 'R' source step: H = fork height, V = new branch length; 'A' advance time one minute
	V uint8 // variant
	// 'H' arm a hold on the next listener callback (O = class, H = height): the callback parks when it happens;
	// 'U' let the parked listener callback (O = class, H = height) return
	// 'a' advance time by one pre-confirmed poll interval; 'F' the database commit of the next Store fails
	// request origins of the pre-confirmed poller: 'c' PreConfirmedBlockLatest, 'n' PreConfirmedBlockByNumber(H)
}

// listener callback classes (the official sync.EventListener seam)
const (
	lStore  = 's' // OnSyncStepDone(OpStore, n): after blockchain.Store and Persisted<-nil, BEFORE the notifications
	lVerify = 'y' // OnSyncStepDone(OpVerify, n)
	lFetch  = 'e' // OnSyncStepDone(OpFetch, n)
	lCheck  = 'k' // OnSyncStepDone(OpReorgCheck{Fast,Remote,Local}, n)
	lReorg  = 'g' // OnReorg(n): inside revertHead, after RevertHead and the currReorg update
)

var listenerName = map[byte]string{lStore: "OnSyncStepDone(store", lVerify: "OnSyncStepDone(verify", lFetch: "OnSyncStepDone(fetch",
	lCheck: "OnSyncStepDone(reorgCheck", lReorg: "OnReorg("}

func listenerClass(op string) byte {
	switch op {
	case jsync.OpStore:
		return lStore
	case jsync.OpVerify:
		return lVerify
	case jsync.OpFetch:
		return lFetch
	}
	return lCheck
}

func (e evt) String() string {
	rq := func() string {
		switch e.O {
		case 'p':
			return "latest@poll"
		case 'v':
			return "latest@isReverting"
		case 'f':
			return fmt.Sprintf("block(%d)@fetcher", e.H)
		case 'r':
			return fmt.Sprintf("block(%d)@revertTask", e.H)
		case 'c':
			return "preconfirmed-latest@poller"
		case 'n':
			return fmt.Sprintf("preconfirmed(%d)@poller", e.H)
		}
		return "?"
	}
	switch e.K {
	case 'T':
		return rq() + "=truth"
	case 'E':
		return rq() + "=error"
	case 'S':
		if e.V == 0 {
			return rq() + "=stale(tip-1)"
		}
		return fmt.Sprintf("%s=stale(tip of source version -%d)", rq(), e.V)
	case 'C':
		return rq() + "=" + variantName[int(e.V)]
	case 'P':
		return fmt.Sprintf("%s=block of source version -%d", rq(), e.V)
	case 'R':
		return fmt.Sprintf("source-step(fork=%d,new=%d)", e.H, e.V)
	case 'A':
		return "advance-1min"
	case 'a':
		return "advance-poll-interval"
	case 'F':
		return "next-store-commit-fails"
	case 'H':
		return fmt.Sprintf("hold-next %s,%d)", listenerName[e.O], e.H)
	case 'U':
		return fmt.Sprintf("return-from %s,%d)", listenerName[e.O], e.H)
	}
	return "?"
}

// kindLabel is the coarse class of an event (used in violation keys and outcome labels).
func (e evt) kindLabel() string {
	switch e.K {
	case 'T':
		return "truth"
	case 'E':
		return "error"
	case 'S':
		if e.V == 0 {
			return "stale-header-lagging"
		}
		return "stale-header-old-branch"
	case 'C':
		return variantName[int(e.V)]
	case 'P':
		return "old-branch-block"
	case 'R':
		return "source-step"
	case 'A':
		return "advance"
	case 'a':
		return "advance-poll-interval"
	case 'F':
		return "db-commit-fault"
	case 'H':
		return "hold-listener"
	case 'U':
		return "release-listener"
	}
	return "?"
}

type config struct {
	n0       int  // initial source length
	workers  int  // GOMAXPROCS seen by the Synchronizer (catch-up parallelism = min(16, GOMAXPROCS))
	newState bool // state backend
	steps    int  // number of source steps (reorg / growth) the explorer may fire
	maxLen   int  // maximum source length
	variants []int
	holds    []byte        // listener callback classes the explorer may hold
	k        int           // deviation bound
	poll     time.Duration // pre-confirmed poll interval given to sync.New (0 = polling disabled)
	dbFaults int           // number of database commit failures the explorer may inject
}

func (c *config) String() string {
	s := fmt.Sprintf("n0=%d workers=%d newState=%v source-steps=%d maxLen=%d listener-holds=%q", c.n0, c.workers, c.newState, c.steps, c.maxLen, string(c.holds))
	if c.poll > 0 {
		s += fmt.Sprintf(" preconfirmed-poll=%v", c.poll)
	}
	if c.dbFaults > 0 {
		s += fmt.Sprintf(" db-commit-faults=%d", c.dbFaults)
	}
	return s
}

// ---------------------------------------------------------------------------------------------------------------
// scripted data source

type reply struct {
	err error
	cb  jsync.CommittedBlock
	hdr *core.Header
	upd starknet.PreConfirmedUpdate // pre-confirmed poller requests
	num uint64
}

type req struct {
	origin byte // 'p','v','f','r','c','n' data-source calls; 'L' parked listener callback
	op     byte // listener class for origin 'L'
	h      uint64
	ident  string // 'c','n': the block identifier / transaction count the poller says it already has
	txc    uint64
	ctx    context.Context
	reply  chan reply
	seq    int
}

func (r *req) code() string {
	if r.origin == 'L' {
		return fmt.Sprintf("L%c%d", r.op, r.h)
	}
	return fmt.Sprintf("%c%d", r.origin, r.h)
}

type source struct {
	calls chan *req
	infra atomic.Value
	poll  bool // pre-confirmed polling enabled: the poller's calls are environment events
}

var errScripted = errors.New("scripted source failure")
var errNotFound = errors.New("scripted source: block not found")

func originOf() byte {
	var pcs [12]uintptr
	n := runtime.Callers(3, pcs[:])
	frames := runtime.CallersFrames(pcs[:n])
	for {
		f, more := frames.Next()
		switch {
		case strings.HasSuffix(f.Function, ").isReverting"):
			return 'v'
		case strings.HasSuffix(f.Function, ").revertTask"):
			return 'r'
		case strings.HasSuffix(f.Function, ").fetcherTask"):
			return 'f'
		case strings.HasSuffix(f.Function, ").pollLatest"):
			return 'p'
		}
		if !more {
			return '?'
		}
	}
}

func (s *source) do(ctx context.Context, r *req) reply {
	r.ctx = ctx
	r.reply = make(chan reply, 1)
	s.calls <- r
	select {
	case rp := <-r.reply:
		return rp
	case <-ctx.Done():
		return reply{err: ctx.Err()}
	}
}

func (s *source) BlockByNumber(ctx context.Context, n uint64) (jsync.CommittedBlock, error) {
	rp := s.do(ctx, &req{origin: originOf(), h: n})
	return rp.cb, rp.err
}

func (s *source) BlockHeaderLatest(ctx context.Context) (*core.Header, error) {
	rp := s.do(ctx, &req{origin: originOf()})
	return rp.hdr, rp.err
}

func (s *source) PreConfirmedBlockByNumber(ctx context.Context, n uint64, ident string, txc uint64) (starknet.PreConfirmedUpdate, error) {
	if !s.poll {
		s.infra.Store("unexpected PreConfirmedBlockByNumber call")
		return nil, errScripted
	}
	rp := s.do(ctx, &req{origin: 'n', h: n, ident: ident, txc: txc})
	return rp.upd, rp.err
}

func (s *source) PreConfirmedBlockLatest(ctx context.Context, ident string, txc uint64) (starknet.PreConfirmedUpdate, uint64, error) {
	if !s.poll {
		s.infra.Store("unexpected PreConfirmedBlockLatest call")
		return nil, 0, errScripted
	}
	rp := s.do(ctx, &req{origin: 'c', ident: ident, txc: txc})
	return rp.upd, rp.num, rp.err
}

func (s *source) Class(context.Context, *felt.Felt) (core.ClassDefinition, error) {
	s.infra.Store("unexpected Class call")
	return nil, errScripted
}

// snData adapts the scripted source to starknetdata.StarknetData so that the Synchronizer is given the REAL
// feederGatewayDataSource (sync/data_source.go: BlockByNumber = StateUpdateWithBlock + fetchUnknownClasses against the
// node's head state). One scripted call per block fetch as before (StateUpdateWithBlock parks exactly like
// BlockByNumber did); class definitions are served at once from the universe's class table (a class request is not a
// scheduling point; it cannot fail).
type snData struct {
	src *source
	mu  stdsync.Mutex
	cls map[felt.Felt]core.ClassDefinition
}

type cbHolderKey struct{}

// viaFeeder is what the Synchronizer holds: the real feeder data source, with the Persisted channel of each block it
// returns replaced by the one of the scripted answer behind it (the harness watches that channel).
type viaFeeder struct {
	jsync.DataSource
}

func (v viaFeeder) BlockByNumber(ctx context.Context, n uint64) (jsync.CommittedBlock, error) {
	var scripted *jsync.CommittedBlock
	cb, err := v.DataSource.BlockByNumber(context.WithValue(ctx, cbHolderKey{}, &scripted), n)
	if err == nil && scripted != nil {
		cb.Persisted = scripted.Persisted
	}
	return cb, err
}

func (d *snData) StateUpdateWithBlock(ctx context.Context, n uint64) (*core.StateUpdate, *core.Block, error) {
	cb, err := d.src.BlockByNumber(ctx, n)
	if err != nil {
		return nil, nil, err
	}
	if h, ok := ctx.Value(cbHolderKey{}).(**jsync.CommittedBlock); ok {
		*h = &cb
	}
	d.mu.Lock()
	for h, c := range cb.NewClasses {
		d.cls[h] = c
	}
	d.mu.Unlock()
	return cb.StateUpdate, cb.Block, nil
}

func (d *snData) BlockHeaderLatest(ctx context.Context) (core.Header, error) {
	h, err := d.src.BlockHeaderLatest(ctx)
	if err != nil {
		return core.Header{}, err
	}
	return *h, nil
}

func (d *snData) Class(_ context.Context, h *felt.Felt) (core.ClassDefinition, error) {
	d.mu.Lock()
	defer d.mu.Unlock()
	if c, ok := d.cls[*h]; ok {
		return c, nil
	}
	for _, b := range uniByName {
		if c, ok := b.e.Classes[*h]; ok {
			return c, nil
		}
	}
	d.src.infra.Store("class " + h.String() + " requested but not in the universe")
	return nil, errScripted
}

func (d *snData) BlockByNumber(context.Context, uint64) (*core.Block, error) {
	d.src.infra.Store("unexpected StarknetData.BlockByNumber call")
	return nil, errScripted
}
func (d *snData) BlockLatest(context.Context) (*core.Block, error) {
	d.src.infra.Store("unexpected StarknetData.BlockLatest call")
	return nil, errScripted
}
func (d *snData) Transaction(context.Context, *felt.Felt) (core.Transaction, error) {
	d.src.infra.Store("unexpected StarknetData.Transaction call")
	return nil, errScripted
}
func (d *snData) StateUpdate(context.Context, uint64) (*core.StateUpdate, error) {
	d.src.infra.Store("unexpected StarknetData.StateUpdate call")
	return nil, errScripted
}
func (d *snData) PreConfirmedBlockByNumber(ctx context.Context, n uint64, ident string, txc uint64) (starknet.PreConfirmedUpdate, error) {
	return d.src.PreConfirmedBlockByNumber(ctx, n, ident, txc)
}
func (d *snData) PreConfirmedBlockLatest(ctx context.Context, ident string, txc uint64) (starknet.PreConfirmedUpdate, uint64, error) {
	return d.src.PreConfirmedBlockLatest(ctx, ident, txc)
}

// ---------------------------------------------------------------------------------------------------------------
// world

type served struct {
	r         *req
	name      string
	variant   int
	cb        jsync.CommittedBlock
	canonical bool // part of the source's chain when it was served
}

// class names what the source did when it served this block, judged now.
func (s *served) class(cur string) string {
	switch {
	case s.variant == vForgedParent:
		return variantName[s.variant]
	case !s.canonical: // (for the other variants a parent mismatch comes from the branch the block is on)
		return "old-branch-block"
	case strings.HasPrefix(cur, s.name):
		return "canonical-block"
	}
	return "block-reorged-since-served"
}

func (s *served) label() string {
	if s.variant == vTrue {
		return s.name
	}
	return s.name + "!" + variantName[s.variant]
}

type obs struct {
	kind   byte // 'c' commit changed the head, 's' listener store, 'r' listener reorg
	height int64
	hash   felt.Felt
	n      uint64
	hdr    *core.Header // stored header of the new head, read inside the commit callback
}

type violation struct {
	key    string
	detail map[string]any
}

type pendHead struct {
	hash     felt.Felt
	reverted bool // the block was reverted while its announcement was still pending
}

type revRun struct {
	startNum, endNum   uint64
	startHash, endHash felt.Felt
}

type world struct {
	c        *config
	versions []string // source chain history; current = last
	fired    int

	fdb   *faultdb.DB
	bc    *blockchain.Blockchain
	syn   *jsync.Synchronizer
	src   *source
	done  chan struct{}
	heads chan *core.Block
	reorg chan *jsync.ReorgBlockRange

	mu       stdsync.Mutex   // guards log / armed / shutdown: listener callbacks come from several goroutines
	armed    map[string]bool // listener callbacks ("s3" = class store, height 3) that will park when they happen
	parked   []*req          // listener callbacks currently parked, in arrival order
	shutdown bool

	out    []*req
	held   []*served
	nseq   int
	log    []obs
	exited bool

	// pre-confirmed polling / database faults
	faultsFired  int             // database commit failures injected so far
	faultArmed   bool            // the next commit will fail
	tickBuffered bool            // model of the poller's ticker: a tick fired while the poller was parked in a data-source call
	streamProbe  context.Context // context of a fetcher request of the current stream (Done = that stream is over)
	pollerMain   bool            // model: the poller of the current stream has left its wait-for-genesis loop
	hung         bool            // Run did not return after its context was cancelled
	kvCalls      int64           // store calls of the node since the last quiescent point (spinguard_test.go)
	spun         bool            // the spin guard parked a goroutine of the pipeline
	spinPark     chan struct{}

	// monitor state
	headHeight int64 // -1 = empty
	headHash   felt.Felt
	local      string // names of the stored blocks ("" = empty); "?" suffix if unknown
	run        *revRun
	pendHeads  []pendHead // stored blocks whose new-head notification has not been emitted yet
	pendReorgs []revRun   // reverted ranges closed by a store whose reorg notification has not been emitted yet
	last       evt
	path       []evt
	viols      []*violation
	stats      map[string]int64
	infra      string
	moved      string // what the last step did to the chain (outcome label)
	cause      string // what made the synchronizer start its current / last revertTask
}

func (w *world) cur() string { return w.versions[len(w.versions)-1] }

func (w *world) violate(class string, extra map[string]any) {
	d := map[string]any{"config": w.c.String(), "path": pathStrings(w.path), "source_versions": w.versions, "local_chain": w.local,
		"state": w.describe()}
	for k, v := range extra {
		d[k] = v
	}
	w.viols = append(w.viols, &violation{key: class, detail: d})
}

func pathStrings(p []evt) []string {
	out := make([]string, len(p))
	for i, e := range p {
		out[i] = e.String()
	}
	return out
}

func (w *world) readHead() (int64, felt.Felt) {
	inner := w.fdb.Inner()
	h, err := core.GetChainHeight(inner)
	if err != nil {
		if errors.Is(err, db.ErrKeyNotFound) {
			return -1, felt.Zero
		}
		w.infra = "GetChainHeight: " + err.Error()
		return -1, felt.Zero
	}
	hash, err := core.GetBlockHeaderHashByNumber(inner, h)
	if err != nil {
		w.infra = "GetBlockHeaderHashByNumber: " + err.Error()
		return -1, felt.Zero
	}
	return int64(h), *hash
}

// observe collects what became visible at the quiescent point.
func (w *world) observe() {
	var fresh []*req
	for {
		select {
		case c := <-w.src.calls:
			fresh = append(fresh, c)
			continue
		default:
		}
		break
	}
	// requests arriving in the same step are ordered by content, so that replays do not depend on goroutine timing
	sort.Slice(fresh, func(i, j int) bool {
		if fresh[i].origin != fresh[j].origin {
			return fresh[i].origin < fresh[j].origin
		}
		return fresh[i].h < fresh[j].h
	})
	for _, r := range fresh {
		w.nseq++
		r.seq = w.nseq
		if r.origin == 'L' {
			w.stats["listener_callbacks_parked"]++
			w.parked = append(w.parked, r)
			continue
		}
		if r.origin == '?' {
			w.infra = "data source called from an unknown place"
		}
		w.out = append(w.out, r)
	}
	live := w.out[:0]
	seen := map[string]bool{}
	for _, r := range w.out {
		if r.ctx.Err() != nil {
			w.stats["requests_cancelled"]++
			if r.origin == 'c' || r.origin == 'n' {
				w.tickBuffered = false // that poller is gone; the next stream starts a new one with a new ticker
			}
			continue
		}
		if seen[r.code()] {
			w.infra = "two outstanding requests with the same identity " + r.code()
		}
		seen[r.code()] = true
		live = append(live, r)
	}
	w.out = live
	// Model of the poller's control state, which is not visible from outside but decides what the next tick does: every
	// stream (re)start launches a new poller, which waits in its wait-for-genesis loop iff the chain is empty at that
	// moment and leaves it with the first tick that finds a block. A stream start is recognised by a fetcher request
	// arriving after the context of the previous stream's requests was cancelled (syncBlocks issues one at once).
	if w.c.poll > 0 {
		if w.streamProbe == nil || w.streamProbe.Err() != nil {
			w.streamProbe = nil
			for _, r := range w.out {
				if r.origin == 'f' {
					w.streamProbe = r.ctx
					h, _ := w.readHead()
					w.pollerMain = h >= 0
					w.tickBuffered = false
					w.stats["streams_started"]++
					break
				}
			}
		} else if (w.last.K == 'a' || w.last.K == 'A') && !w.pollerMain {
			if h, _ := w.readHead(); h >= 0 {
				w.pollerMain = true
			}
		}
	}
	// Model of the other hidden bit of the poller (the buffer of its ticker channel). Time only advances by explorer
	// events, and never while a poller request is outstanding, except inside the minute advance: if the first of its
	// 120 ticks parks the poller in a data-source call, a later one stays buffered and the poller polls again as soon
	// as the current poll is over. A new 'latest' request is the start of a new poll (the buffered tick is consumed).
	pcLatest, pcAny := false, false
	for _, r := range w.out {
		pcLatest = pcLatest || r.origin == 'c'
		pcAny = pcAny || r.origin == 'c' || r.origin == 'n'
	}
	switch {
	case w.last.K == 'A' && pcAny:
		w.tickBuffered = true
	case (w.last.O == 'c' || w.last.O == 'n') && (pcLatest || !pcAny):
		w.tickBuffered = false
	}
	select {
	case <-w.done:
		w.exited = true
	default:
	}
	if s, _ := w.src.infra.Load().(string); s != "" {
		w.infra = s
	}
}

func (w *world) find(o byte, h uint8) *req {
	for _, r := range w.out {
		if r.origin == o && r.h == uint64(h) {
			return r
		}
	}
	return nil
}

func (w *world) remove(r *req) {
	for i, x := range w.out {
		if x == r {
			w.out = append(w.out[:i:i], w.out[i+1:]...)
			return
		}
	}
}

func hdrCopy(b *blk) *core.Header { h := *b.e.Block.Header; return &h }

// oldVersions lists earlier source versions, most recent first.
func (w *world) oldVersions() []string {
	var out []string
	for i := len(w.versions) - 2; i >= 0; i-- {
		out = append(out, w.versions[i])
	}
	return out
}

// enabled lists every event the explorer may choose in this quiescent state together with its deviation cost.
// The first entry is the default (cost 0).
func (w *world) enabled() (evs []evt, costs []uint8) {
	if w.exited {
		return nil, nil
	}
	add := func(e evt, c uint8) { evs = append(evs, e); costs = append(costs, c) }
	cur := w.cur()
	// a parked listener callback may return at any time for free; returning the oldest one is the default
	for _, p := range w.parked {
		add(evt{K: 'U', O: p.op, H: uint8(p.h)}, 0)
	}
	pollOutstanding, pcOutstanding := false, false
	for i, r := range w.out {
		var def uint8 = 1
		if i == 0 {
			def = 0
		}
		o, h := r.origin, uint8(r.h)
		add(evt{K: 'T', O: o, H: h}, def)
		if o == 'p' {
			pollOutstanding = true
		}
		if o == 'c' || o == 'n' {
			pcOutstanding = true
		}
	}
	if len(w.out) == 0 {
		add(evt{K: 'A'}, 0)
	}
	for _, r := range w.out {
		o, h := r.origin, uint8(r.h)
		switch o {
		case 'p', 'v':
			add(evt{K: 'E', O: o, H: h}, 1)
			if len(cur) >= 2 {
				add(evt{K: 'S', O: o, H: h, V: 0}, 1)
			}
			seen := map[string]bool{cur: true}
			for i, v := range w.oldVersions() {
				if !seen[v] {
					seen[v] = true
					add(evt{K: 'S', O: o, H: h, V: uint8(i + 1)}, 1)
				}
			}
		case 'c', 'n':
			// the pre-confirmed poller: truth (above) or an error (for 'n' below / above the source's pre-confirmed
			// height the truth already is one)
			if o == 'c' || int(r.h) == len(cur) {
				add(evt{K: 'E', O: o, H: h}, 1)
			}
		case 'f', 'r':
			if int(r.h) < len(cur) {
				add(evt{K: 'E', O: o, H: h}, 1) // beyond the tip the truth already is an error
				if o == 'f' {
					// revertTask only reads the header of the answer (hash / parent hash); a forged or corrupt block
					// there is the same as an old-branch block or an error, so variants are offered to fetchers only
					for _, v := range w.c.variants {
						add(evt{K: 'C', O: o, H: h, V: uint8(v)}, 1)
					}
				}
			}
			seen := map[string]bool{}
			if int(r.h) < len(cur) {
				seen[cur[:r.h+1]] = true
			}
			for i, v := range w.oldVersions() {
				if int(r.h) < len(v) && !seen[v[:r.h+1]] {
					seen[v[:r.h+1]] = true
					add(evt{K: 'P', O: o, H: h, V: uint8(i + 1)}, 1)
				}
			}
		}
	}
	// time never advances while a ticker-driven request (pollLatest, pre-confirmed poller) is outstanding: the state of
	// the ticker's buffer would be a hidden variable
	if len(w.out) > 0 && !pollOutstanding && !pcOutstanding {
		add(evt{K: 'A'}, 1)
	}
	if w.c.poll > 0 && !pcOutstanding {
		// one pre-confirmed poll interval passes (the poller's ticker fires once). While the node only waits for blocks
		// the source does not have yet, time passing is part of the benign schedule (cost 0); anywhere else it means
		// that the outstanding answers are slow (cost 1).
		var cost uint8
		for _, r := range w.out {
			if r.origin != 'f' || int(r.h) < len(cur) {
				cost = 1
			}
		}
		if len(w.out) == 0 || len(w.parked) > 0 {
			cost = 1
		}
		add(evt{K: 'a'}, cost)
	}
	if w.faultsFired < w.c.dbFaults && !w.faultArmed {
		add(evt{K: 'F'}, 1) // the database commit of the next Store of a block fails
	}
	// hold the next callback of a listener class at a height (one deviation; at most one hold armed or parked at a time)
	if len(w.armed) == 0 && len(w.parked) == 0 {
		var fetchHeights, blockHeights []uint8
		seenH := map[uint8]bool{}
		for _, r := range w.out {
			if r.origin == 'f' {
				fetchHeights = append(fetchHeights, uint8(r.h))
				if int(r.h) < w.c.maxLen && !seenH[uint8(r.h)] {
					seenH[uint8(r.h)] = true
					blockHeights = append(blockHeights, uint8(r.h))
				}
			}
		}
		for _, s := range w.held {
			if !seenH[uint8(s.r.h)] {
				seenH[uint8(s.r.h)] = true
				blockHeights = append(blockHeights, uint8(s.r.h))
			}
		}
		sort.Slice(blockHeights, func(i, j int) bool { return blockHeights[i] < blockHeights[j] })
		for _, cl := range w.c.holds {
			switch cl {
			case lStore, lVerify:
				for _, h := range blockHeights {
					add(evt{K: 'H', O: cl, H: h}, 1)
				}
			case lFetch, lCheck:
				for _, h := range fetchHeights {
					add(evt{K: 'H', O: cl, H: h}, 1)
				}
			case lReorg:
				if w.headHeight >= 0 {
					add(evt{K: 'H', O: cl, H: uint8(w.headHeight)}, 1)
				}
			}
		}
	}
	if w.fired < w.c.steps {
		n := len(cur)
		for f := 0; f <= n; f++ {
			seen := map[int]bool{}
			for _, nl := range []int{n - 1, n, n + 1, f + 1} {
				if nl < f+1 || nl < 1 || nl > w.c.maxLen || seen[nl] {
					continue
				}
				seen[nl] = true
				add(evt{K: 'R', H: uint8(f), V: uint8(nl - f)}, 0)
			}
		}
	}
	return evs, costs
}

// apply performs one event. It returns false if the event is not enabled here (replay divergence).
func (w *world) apply(e evt) bool {
	w.last = e
	cur := w.cur()
	switch e.K {
	case 'A':
		w.stats["time_advances"]++
		time.Sleep(time.Minute)
		return true
	case 'a':
		if w.c.poll == 0 {
			return false
		}
		w.stats["poll_interval_advances"]++
		time.Sleep(w.c.poll)
		return true
	case 'F':
		if w.faultsFired >= w.c.dbFaults || w.faultArmed {
			return false
		}
		w.faultsFired++
		w.mu.Lock()
		w.faultArmed = true // storeFaultDB fails the commit of the next Store of a block
		w.mu.Unlock()
		w.stats["db_commit_faults_armed"]++
		return true
	case 'R':
		if w.fired >= w.c.steps || int(e.H) > len(cur) || e.V == 0 {
			return false
		}
		w.fired++
		digit := string(rune('0' + w.fired))
		w.versions = append(w.versions, cur[:e.H]+strings.Repeat(digit, int(e.V)))
		if int(e.H) == len(cur) {
			w.stats["source_growth_steps"]++
		} else {
			w.stats["source_reorg_steps"]++
		}
		return true
	case 'H':
		ok := false
		for _, cl := range w.c.holds {
			ok = ok || cl == e.O
		}
		if !ok || len(w.armed) != 0 || len(w.parked) != 0 {
			return false
		}
		w.mu.Lock()
		w.armed[fmt.Sprintf("%c%d", e.O, e.H)] = true
		w.mu.Unlock()
		w.stats["listener_holds_armed"]++
		return true
	case 'U':
		for i, p := range w.parked {
			if p.op == e.O && p.h == uint64(e.H) {
				w.parked = append(w.parked[:i:i], w.parked[i+1:]...)
				p.reply <- reply{}
				return true
			}
		}
		return false
	}
	r := w.find(e.O, e.H)
	if r == nil {
		return false
	}
	w.remove(r)
	latest := e.O == 'p' || e.O == 'v'
	var rp reply
	if e.O == 'c' || e.O == 'n' {
		switch e.K {
		case 'T':
			rp = w.preConfirmedTruth(r)
		case 'E':
			rp.err = errScripted
		default:
			return false
		}
		w.stats["preconfirmed_answers_"+e.kindLabel()]++
		r.reply <- rp
		return true
	}
	switch e.K {
	case 'T':
		switch {
		case latest:
			rp.hdr = hdrCopy(getBlk(cur))
		case int(r.h) < len(cur):
			w.serveBlock(r, &rp, cur[:r.h+1], vTrue)
		default:
			rp.err = errNotFound
		}
	case 'E':
		rp.err = errScripted
	case 'S':
		if !latest {
			return false
		}
		if e.V == 0 {
			if len(cur) < 2 {
				return false
			}
			rp.hdr = hdrCopy(getBlk(cur[:len(cur)-1]))
		} else {
			ov := w.oldVersions()
			if int(e.V) > len(ov) {
				return false
			}
			rp.hdr = hdrCopy(getBlk(ov[e.V-1]))
		}
	case 'C':
		if latest || int(r.h) >= len(cur) {
			return false
		}
		w.serveBlock(r, &rp, cur[:r.h+1], int(e.V))
	case 'P':
		ov := w.oldVersions()
		if latest || int(e.V) > len(ov) || e.V == 0 || int(r.h) >= len(ov[e.V-1]) {
			return false
		}
		w.serveBlock(r, &rp, ov[e.V-1][:r.h+1], vTrue)
	default:
		return false
	}
	w.stats["answers_"+e.kindLabel()]++
	if e.O == 'r' && e.K == 'P' {
		w.cause = "revert-check:old-branch-block"
	}
	if e.O == 'v' && e.K != 'E' {
		w.cause = "reorg-check:" + map[byte]string{'T': "truthful-header", 'S': e.kindLabel()}[e.K]
	}
	r.reply <- rp
	return true
}

// preConfirmedTruth: the source offers an EMPTY pre-confirmed block on top of its current tip (number = length of its
// chain), identified by the chain it extends. A poller that already holds it is told "no change"; a request by number
// for any other height fails (that block is committed, or does not exist yet).
func (w *world) preConfirmedTruth(r *req) (rp reply) {
	cur := w.cur()
	if r.origin == 'n' && int(r.h) != len(cur) {
		rp.err = errNotFound
		return rp
	}
	ident := "preconfirmed-on-" + cur
	rp.num = uint64(len(cur))
	if r.ident == ident {
		rp.upd = starknet.PreConfirmedNoChange{}
		w.stats["preconfirmed_no_change"]++
		return rp
	}
	tip := getBlk(cur).e.Block.Header
	price := func() *starknet.GasPrice { return &starknet.GasPrice{PriceInWei: chain.F(1), PriceInFri: chain.F(1)} }
	rp.upd = starknet.PreConfirmedBlock{BlockIdentifier: ident, Status: "PRE_CONFIRMED", Timestamp: tip.Timestamp + 1, Version: protoVersion,
		SequencerAddress: chain.F(0x5E0), L1GasPrice: price(), L2GasPrice: price(), L1DataGasPrice: price(), L1DAMode: starknet.Blob}
	w.stats["preconfirmed_blocks_served"]++
	return rp
}

func (w *world) serveBlock(r *req, rp *reply, name string, variant int) {
	rp.cb = serve(getBlk(name), variant)
	if r.origin == 'f' {
		w.held = append(w.held, &served{r: r, name: name, variant: variant, cb: rp.cb, canonical: strings.HasPrefix(w.cur(), name)})
	}
}

// settle runs the synchronizer to quiescence and evaluates the monitors on what happened since the last point.
func (w *world) spinning() bool {
	w.mu.Lock()
	defer w.mu.Unlock()
	return w.spun
}

func (w *world) settle() {
	synctest.Wait()
	if w.spinning() {
		// the guard parked a pipeline goroutine: the harness's own reads go through the same guarded store and must not park
		atomic.StoreInt64(&w.kvCalls, 0)
		return
	}
	w.observe()
	w.monitor()
}

func (w *world) nameOf(h *felt.Felt) string {
	if b, ok := uniByHash[*h]; ok {
		return b.name
	}
	return ""
}

// monitor = the safety oracle, evaluated on the commit / listener log of the step and on the drained feeds.
func (w *world) monitor() {
	w.moved = ""
	cur := w.cur()
	// served blocks: which were persisted; none of them may be a corrupt / forged variant
	keep := w.held[:0]
	persisted := 0
	servedAs := w.last.kindLabel()
	for _, s := range w.held {
		select {
		case err := <-s.cb.Persisted:
			if err == nil {
				persisted++
				if s.variant != vTrue {
					servedAs = variantName[s.variant] // what the source did when it served the block now being stored
				}
				if s.variant != vTrue {
					w.violate("unverified-block-reported-persisted variant="+variantName[s.variant], map[string]any{"block": s.label()})
				}
			} else {
				w.stats["served_blocks_rejected"]++
				if errors.Is(err, blockchain.ErrParentDoesNotMatchHead) {
					w.cause = "store-rejected:" + s.class(cur)
					w.stats["store_rejected_parent_mismatch"]++
				}
			}
		default:
			if s.r.ctx.Err() != nil && len(w.parked) == 0 {
				w.infra = "served block neither persisted nor rejected although its stream was cancelled"
			}
			keep = append(keep, s)
		}
	}
	w.held = keep
	var storedNow, revertedNow []felt.Felt
	lstore, lreorg := 0, 0
	for _, o := range w.log {
		switch o.kind {
		case 's':
			lstore++
		case 'r':
			lreorg++
		case 'x':
			// the injected failure of a Store's commit: nothing was applied (the head cannot have moved)
			w.stats["db_store_commits_failed"]++
			w.moved += "X"
		case 'c':
			switch {
			case o.height == w.headHeight+1:
				// a block was stored on top of the head
				w.stats["stores"]++
				w.moved += "S"
				name := w.nameOf(&o.hash)
				hdr := o.hdr
				switch {
				case hdr == nil:
					w.infra = "no stored header captured for a head-advancing commit"
				case name == "":
					w.violate("stored-block-not-a-valid-block trigger="+servedAs, map[string]any{"height": o.height, "hash": o.hash.String()})
				default:
					ref := getBlk(name).e.Block.Header
					if !hdr.ParentHash.Equal(ref.ParentHash) || hdr.Timestamp != ref.Timestamp || !hdr.GlobalStateRoot.Equal(ref.GlobalStateRoot) ||
						hdr.TransactionCount != ref.TransactionCount || hdr.EventCount != ref.EventCount || hdr.Number != ref.Number {
						w.violate("stored-block-content-differs-from-verified-block trigger="+servedAs, map[string]any{"block": name})
					}
					if w.headHeight >= 0 && !hdr.ParentHash.Equal(&w.headHash) || w.headHeight < 0 && !hdr.ParentHash.IsZero() {
						w.violate("stored-block-does-not-extend-head trigger="+servedAs, map[string]any{"block": name})
					}
				}
				if strings.HasSuffix(w.local, "?") || name == "" {
					w.local += "?"
				} else {
					w.local = name
				}
				if w.run != nil {
					w.pendReorgs = append(w.pendReorgs, *w.run)
					w.run = nil
				}
				w.pendHeads = append(w.pendHeads, pendHead{hash: o.hash})
				storedNow = append(storedNow, o.hash)
			case o.height == w.headHeight-1:
				// the head was reverted
				w.stats["reverts"]++
				w.moved += "R"
				revName := w.nameOf(&w.headHash)
				revertedNow = append(revertedNow, w.headHash)
				if int(w.headHeight) < len(cur) && revName != "" && cur[:w.headHeight+1] == revName {
					w.violate("revert-of-block-the-source-still-has cause="+w.cause,
						map[string]any{"reverted": revName, "source_now": cur})
				}
				if revName != "" && o.height >= 0 {
					if p := getBlk(revName).parent; p == nil || !p.e.Block.Hash.Equal(&o.hash) {
						w.violate("head-after-revert-is-not-the-parent", map[string]any{"reverted": revName})
					}
				}
				if w.run == nil {
					w.run = &revRun{startNum: uint64(w.headHeight), endNum: uint64(w.headHeight), startHash: w.headHash, endHash: w.headHash}
				} else {
					w.run.startNum, w.run.startHash = uint64(w.headHeight), w.headHash
				}
				if len(w.local) > 0 {
					w.local = w.local[:len(w.local)-1]
					if strings.HasSuffix(w.local, "?") || len(w.local) != int(o.height)+1 {
						w.local = w.chainNames()
					}
				}
			default:
				w.violate("head-jump", map[string]any{"from": w.headHeight, "to": o.height})
			}
			w.headHeight, w.headHash = o.height, o.hash
		}
	}
	w.log = w.log[:0]
	if lstore != len(storedNow) {
		w.violate("listener-store-events-differ-from-commits", map[string]any{"listener": lstore, "commits": len(storedNow)})
	}

	if persisted != len(storedNow) {
		w.violate("persisted-signals-differ-from-commits", map[string]any{"persisted_nil": persisted, "commits": len(storedNow)})
	}

	// Emissions, checked the way a subscriber applies them: every new-head emission is the oldest stored block not
	// announced yet (once per stored block, in storage order) and its block has not been reverted in the meantime;
	// every reorg emission is the oldest reverted range that a store has closed and that was not announced yet.
	// Announcements may lag behind the commits only while a store-listener callback is parked (a storeTask in flight).
	storeInFlight := false
	for _, p := range w.parked {
		storeInFlight = storeInFlight || p.op == lStore
	}
	var gotHeads []felt.Felt
	for {
		select {
		case b := <-w.heads:
			gotHeads = append(gotHeads, *b.Hash)
			continue
		default:
		}
		break
	}
	emis := map[string]any{"emitted_heads": feltStrings(gotHeads), "stored_in_this_step": feltStrings(storedNow)}
	for _, g := range gotHeads {
		switch {
		case len(w.pendHeads) == 0:
			w.violate("newhead-emissions-differ-from-stores head-announced-for-block-not-stored", emis)
		case w.pendHeads[0].hash != g:
			w.violate("newhead-emissions-differ-from-stores order-or-identity", emis)
			w.pendHeads = nil
		default:
			if w.pendHeads[0].reverted {
				w.violate("newhead-announced-after-its-block-was-reverted", emis)
			}
			w.pendHeads = w.pendHeads[1:]
		}
	}
	if len(w.pendHeads) > 0 && !storeInFlight {
		w.violate("newhead-emissions-differ-from-stores stored-block-not-announced", emis)
		w.pendHeads = nil
	}
	var gotReorgs []revRun
	for {
		select {
		case r := <-w.reorg:
			gotReorgs = append(gotReorgs, revRun{startNum: r.StartBlockNum, endNum: r.EndBlockNum, startHash: *r.StartBlockHash, endHash: *r.EndBlockHash})
			continue
		default:
		}
		break
	}
	for _, g := range gotReorgs {
		switch {
		case len(w.pendReorgs) == 0:
			w.violate("reorg-emissions-differ-from-reverted-ranges count", map[string]any{"emitted": fmt.Sprint(g),
				"want": "none: no reverted range has been closed by a store and is still unannounced", "open_range": fmt.Sprint(w.run)})
		case w.pendReorgs[0] != g:
			w.violate("reorg-emissions-differ-from-reverted-ranges range", map[string]any{"emitted": fmt.Sprint(g), "want": fmt.Sprint(w.pendReorgs[0])})
			w.pendReorgs = w.pendReorgs[1:]
		default:
			w.pendReorgs = w.pendReorgs[1:]
		}
	}
	if len(w.pendReorgs) > 0 && !storeInFlight {
		w.violate("reorg-emissions-differ-from-reverted-ranges count", map[string]any{"emitted": fmt.Sprint(gotReorgs), "want": fmt.Sprint(w.pendReorgs)})
		w.pendReorgs = nil
	}
	w.stats["reorg_notifications"] += int64(len(gotReorgs))
	// the order of a revert and an emission inside one step is not observable; a block still unannounced at the END of
	// the step in which it was reverted is marked, so that a later announcement of it is reported
	for _, h := range revertedNow {
		for i := range w.pendHeads {
			if w.pendHeads[i].hash == h {
				w.pendHeads[i].reverted = true
			}
		}
	}

	// the local chain is hash-linked and the monitor's view of it is the store's
	if names := w.chainNames(); names != w.local && !strings.Contains(w.local, "?") {
		w.violate("local-chain-differs-from-commit-history", map[string]any{"db": names, "tracked": w.local})
	}
}

// chainNames reads the stored chain through the Blockchain reader and checks the parent links.
func (w *world) chainNames() string {
	height, err := w.bc.Height()
	if err != nil {
		return ""
	}
	var prev *core.Header
	name := ""
	for n := uint64(0); n <= height; n++ {
		h, err := w.bc.BlockHeaderByNumber(n)
		if err != nil {
			w.violate("local-chain-has-a-hole", map[string]any{"height": n, "err": err.Error()})
			return name + "?"
		}
		if prev != nil && !h.ParentHash.Equal(prev.Hash) || prev == nil && !h.ParentHash.IsZero() {
			w.violate("local-chain-not-hash-linked", map[string]any{"height": n})
		}
		nm := w.nameOf(h.Hash)
		if nm == "" || len(nm) != int(n)+1 || nm[:n] != name {
			return name + "?"
		}
		name = nm
		prev = h
	}
	return name
}

func sameFelts(a, b []felt.Felt) bool {
	if len(a) != len(b) {
		return false
	}
	for i := range a {
		if a[i] != b[i] {
			return false
		}
	}
	return true
}

func feltStrings(a []felt.Felt) []string {
	out := make([]string, len(a))
	for i := range a {
		if b, ok := uniByHash[a[i]]; ok {
			out[i] = b.name
		} else {
			out[i] = a[i].String()
		}
	}
	return out
}

// ---- reflected synchronizer internals (state key only)

func (w *world) internals() string {
	v := reflect.ValueOf(w.syn).Elem()
	cu := v.FieldByName("catchUpMode")
	catchUp := *(*bool)(unsafe.Pointer(cu.UnsafeAddr()))
	cr := v.FieldByName("currReorg")
	rr := *(**jsync.ReorgBlockRange)(unsafe.Pointer(cr.UnsafeAddr()))
	var b strings.Builder
	fmt.Fprintf(&b, "catchup=%v", catchUp)
	if rr != nil {
		fmt.Fprintf(&b, " currReorg=%d..%d(%s..%s)", rr.StartBlockNum, rr.EndBlockNum, w.nameOrHash(rr.StartBlockHash), w.nameOrHash(rr.EndBlockHash))
	}
	if h := w.syn.HighestBlockHeader(); h != nil {
		fmt.Fprintf(&b, " highest=%d:%s", h.Number, w.nameOrHash(h.Hash))
	}
	return b.String()
}

func (w *world) nameOrHash(h *felt.Felt) string {
	if n := w.nameOf(h); n != "" {
		return n
	}
	return h.ShortString()
}

// describe renders the whole quiescent state; its hash is the canonical key.
func (w *world) describe() string {
	var b strings.Builder
	fmt.Fprintf(&b, "src=%s steps-left=%d local=%s | ", strings.Join(w.versions, ">"), w.c.steps-w.fired, w.local)
	for _, r := range w.out {
		fmt.Fprintf(&b, "%s ", r.code())
	}
	for _, p := range w.parked {
		fmt.Fprintf(&b, "parked:%s ", p.code())
	}
	w.mu.Lock()
	for code := range w.armed {
		fmt.Fprintf(&b, "armed:%s ", code) // at most one
	}
	w.mu.Unlock()
	if len(w.pendHeads) > 0 || len(w.pendReorgs) > 0 {
		fmt.Fprintf(&b, "unannounced:%d/%d ", len(w.pendHeads), len(w.pendReorgs))
	}
	if w.c.poll > 0 {
		for _, r := range w.out {
			if r.origin == 'c' || r.origin == 'n' {
				fmt.Fprintf(&b, "poller-has:%q/%d ", r.ident, r.txc)
			}
		}
		fmt.Fprintf(&b, "preconfirmed:%s ", w.preConfirmedStored())
		if w.streamProbe != nil && !w.pollerMain {
			b.WriteString("poller-waits-for-genesis ")
		}
		if w.tickBuffered {
			b.WriteString("poller-tick-buffered ")
		}
	}
	if w.c.dbFaults > 0 {
		fmt.Fprintf(&b, "db-faults-left=%d armed=%v ", w.c.dbFaults-w.faultsFired, w.faultArmed)
	}
	b.WriteString("| held:")
	hs := make([]string, 0, len(w.held))
	for _, s := range w.held {
		hs = append(hs, fmt.Sprintf("%d=%s", s.r.h, s.label()))
	}
	sort.Strings(hs)
	b.WriteString(strings.Join(hs, ","))
	fmt.Fprintf(&b, " | %s", w.internals())
	if w.run != nil {
		fmt.Fprintf(&b, " | reverted-run=%d..%d", w.run.startNum, w.run.endNum)
	}
	if w.exited {
		b.WriteString(" | exited")
	}
	return b.String()
}

// preConfirmedStored renders the Synchronizer's pre-confirmed chain storage (state key only): number and identifier
// of every stored entry, oldest first.
func (w *world) preConfirmedStored() string {
	f := reflect.ValueOf(w.syn).Elem().FieldByName("preConfirmed")
	cs := *(**preconfirmed.ChainStorage)(unsafe.Pointer(f.UnsafeAddr()))
	for n := uint64(0); n <= uint64(w.c.maxLen)+1; n++ {
		snap := cs.SnapshotForBlock(n)
		if snap.Length() == 0 {
			continue
		}
		var parts []string
		for pc := range snap.OldestFirst() {
			parts = append(parts, fmt.Sprintf("%d=%s/%d", pc.Block.Number, pc.BlockIdentifier, len(pc.Block.Transactions)))
		}
		return strings.Join(parts, ",")
	}
	return "-"
}

func h16(s string) [16]byte {
	sum := sha256.Sum256([]byte(s))
	var k [16]byte
	copy(k[:], sum[:16])
	return k
}

// ---------------------------------------------------------------------------------------------------------------
// one execution of the real synchronizer along a path

type result struct {
	key     [16]byte
	enabled []evt
	costs   []uint8
	viols   []*violation
	infra   string
	label   string
	desc    string
	stats   map[string]int64
	depth   int
	// convergence runs
	conv      bool
	convSteps int
	hung      bool // Run did not return after the final shutdown: the bubble was abandoned (see replay)
}

const convHorizon = 200

// shutdownHorizon is the virtual time Run is given to return after its context has been cancelled (nothing in the
// Synchronizer needs any time to pass for that; 10 minutes = 10 ticks of pollLatest / 1200 ticks of the poller).
const shutdownHorizon = 10 * time.Minute

func setChan(sub any, ch any) {
	// feed.Subscription[T].c is replaced by a large-buffer channel before the synchronizer starts: feed.Send is
	// non-blocking with buffer 1, so an ordinary subscriber sees a lossy subsequence; with a buffer that is never
	// full every emission is recorded.
	f := reflect.ValueOf(sub).Elem().FieldByName("c")
	reflect.NewAt(f.Type(), unsafe.Pointer(f.UnsafeAddr())).Elem().Set(reflect.ValueOf(ch))
}

// replay executes one path in a fresh bubble. The bubble runs in its own goroutine: when Run does not return after the
// final shutdown, the bubble can never be torn down (synctest.Test waits for every goroutine of the bubble), so the
// result is handed out and the bubble is abandoned with its root goroutine blocked on a channel from OUTSIDE the
// bubble (not a durable block: virtual time stops, nothing spins); the caller (worker process) retires after such a
// result.
func replay(t *testing.T, c *config, path []evt, converge bool) result {
	prev := runtime.GOMAXPROCS(c.workers)
	defer runtime.GOMAXPROCS(prev)
	var res result
	finished, abandoned, never := make(chan struct{}), make(chan struct{}), make(chan struct{})
	go func() {
		defer close(finished)
		replayInBubble(t, c, path, converge, &res, abandoned, never)
	}()
	select {
	case <-finished:
	case <-abandoned:
	}
	return res
}

func replayInBubble(t *testing.T, c *config, path []evt, converge bool, out *result, abandoned, never chan struct{}) {
	synctest.Test(t, func(t *testing.T) {
		var res result
		w := &world{c: c, versions: []string{strings.Repeat("0", c.n0)}, headHeight: -1, stats: map[string]int64{}, armed: map[string]bool{}}
		w.fdb = faultdb.New()
		var kv db.KeyValueStore = w.fdb
		if c.dbFaults > 0 {
			kv = &storeFaultDB{DB: w.fdb, w: w}
		}
		w.spinPark = make(chan struct{}) // a channel of this bubble, never closed (see spinguard_test.go)
		kv = &spinGuardDB{KeyValueStore: kv, w: w}
		w.bc = chain.NewNode(kv, c.newState)
		w.src = &source{calls: make(chan *req, 256), poll: c.poll > 0}
		cbHeight, cbHash := int64(-1), felt.Zero
		w.fdb.OnCommit(func(cm faultdb.Commit) {
			if cm.Failed {
				w.infra = "a commit failed that the harness did not make fail"
				return
			}
			h, hash := w.readHead()
			if h == cbHeight && hash == cbHash {
				w.stats["commits_not_moving_head"]++
				return
			}
			o := obs{kind: 'c', height: h, hash: hash}
			if h > cbHeight && h >= 0 {
				if o.hdr, _ = core.GetBlockHeaderByNumber(w.fdb.Inner(), uint64(h)); o.hdr == nil {
					w.infra = "stored header unreadable in the commit callback"
				}
			}
			cbHeight, cbHash = h, hash
			w.mu.Lock()
			w.log = append(w.log, o)
			w.mu.Unlock()
		})
		w.syn = jsync.New(w.bc, viaFeeder{jsync.NewFeederGatewayDataSource(w.bc, &snData{src: w.src, cls: map[felt.Felt]core.ClassDefinition{}})}, log.NewNopZapLogger(), c.poll, false, kv)
		w.syn.WithListener(&jsync.SelectiveListener{
			OnSyncStepDoneCb: func(op string, n uint64, _ time.Duration) {
				if op == jsync.OpStore {
					w.mu.Lock()
					w.log = append(w.log, obs{kind: 's', n: n})
					w.mu.Unlock()
				}
				w.listenerCall(listenerClass(op), n)
			},
			OnReorgCb: func(n uint64) {
				w.mu.Lock()
				w.log = append(w.log, obs{kind: 'r', n: n})
				w.mu.Unlock()
				w.listenerCall(lReorg, n)
			},
		})
		hs := w.syn.SubscribeNewHeads()
		w.heads = make(chan *core.Block, 1024)
		setChan(hs.Subscription, w.heads)
		rs := w.syn.SubscribeReorg()
		w.reorg = make(chan *jsync.ReorgBlockRange, 1024)
		setChan(rs.Subscription, w.reorg)

		ctx, cancel := context.WithCancel(context.Background())
		w.done = make(chan struct{})
		go func() { w.syn.Run(ctx); close(w.done) }()
		w.settle()
		for i, e := range path {
			if w.infra != "" {
				break
			}
			if i == len(path)-1 {
				w.stats = map[string]int64{}
				w.viols = nil // violations on the prefix were reported when the prefix was explored
			}
			w.path = path[:i+1]
			atomic.StoreInt64(&w.kvCalls, 0)
			if !w.apply(e) {
				w.infra = fmt.Sprintf("replay divergence: event %s not enabled after %v in state %s", e, pathStrings(path[:i]), w.describe())
				break
			}
			w.settle()
			if n := atomic.LoadInt64(&w.kvCalls); n > w.stats["max_kv_calls_in_one_step"] {
				w.stats["max_kv_calls_in_one_step"] = n
			}
			if w.spinning() {
				break
			}
		}
		abandonIfSpinning := func() {
			if !w.spinning() {
				return
			}
			// a goroutine of the pipeline made more than spinLimit store calls inside one environment step and was parked by
			// the guard: the Synchronizer is in a busy loop. Nothing further can be decided about this state; the bubble is
			// abandoned exactly like one whose Run does not return.
			if w.infra == "" {
				w.violate("sync-spins-without-blocking (busy loop inside one environment step)", map[string]any{
					"store_calls_in_the_step": spinLimit, "state_before_the_step": w.describe(),
					"what": "after this event the Synchronizer keeps calling into the database without ever blocking on the source, a timer or a channel"})
			}
			res.label = w.last.kindLabel() + ">spin"
			res.desc = "spin|" + w.describe()
			res.key = h16(res.desc)
			res.viols, res.infra, res.stats, res.depth, res.hung = w.viols, w.infra, w.stats, len(path), true
			*out = res
			close(abandoned)
			<-never
		}
		abandonIfSpinning()
		res.label = w.last.kindLabel() + ">" + w.moved
		if len(path) == 0 {
			res.label = "start"
		}
		res.desc = w.describe()
		res.key = h16(res.desc)
		res.enabled, res.costs = w.enabled()
		if converge && w.infra == "" {
			w.viols = nil
			res.conv, res.convSteps = w.converge()
			abandonIfSpinning()
		}
		w.mu.Lock()
		w.shutdown = true // callbacks fired by the shutdown itself (OpFetch of cancelled fetchers) must not park
		w.mu.Unlock()
		// Shutdown at this quiescent point: Run must return once its context is cancelled (every parked listener
		// callback returns, every outstanding request returns ctx.Err()).
		cancel()
		for _, p := range w.parked {
			p.reply <- reply{}
		}
		select {
		case <-w.done:
		case <-time.After(shutdownHorizon):
			w.hung = true
		}
		if w.hung && w.infra == "" {
			chainShape := "local-chain-non-empty"
			if w.headHeight < 0 {
				chainShape = "local-chain-empty"
			}
			polling := "preconfirmed-polling-disabled"
			if c.poll > 0 {
				polling = "preconfirmed-polling-enabled"
			}
			w.violate("sync-does-not-stop "+chainShape+" "+polling, map[string]any{"virtual_time_waited": shutdownHorizon.String(),
				"what": "Run has not returned although its context was cancelled at this quiescent point"})
		}
		res.viols, res.infra, res.stats, res.depth, res.hung = w.viols, w.infra, w.stats, len(path), w.hung
		*out = res
		if w.hung {
			close(abandoned) // the goroutines of this bubble are left behind
			<-never
		}
		synctest.Wait()
	})
}

// listenerCall is the body of every sync.EventListener callback: it returns at once unless the explorer armed a hold
// for exactly this (class, height); then it parks as an enabled event until the explorer lets it return.
func (w *world) listenerCall(class byte, n uint64) {
	code := fmt.Sprintf("%c%d", class, n)
	w.mu.Lock()
	hit := w.armed[code] && !w.shutdown
	if hit {
		delete(w.armed, code)
	}
	w.mu.Unlock()
	if !hit {
		return
	}
	r := &req{origin: 'L', op: class, h: n, reply: make(chan reply, 1)}
	w.src.calls <- r
	<-r.reply
}

// converge: the source is stable from now on and answers the oldest outstanding request truthfully; whenever the
// configuration repeats, a minute passes. The local chain must become the source's and stay it. A repetition of the
// configuration after a time advance without convergence is a proof that the node is stuck for good.
func (w *world) converge() (bool, int) {
	seen := map[string]bool{}
	wasEqual := false
	for step := 0; step < convHorizon; step++ {
		if w.infra != "" {
			return true, step
		}
		if w.local == w.cur() {
			wasEqual = true
		} else if wasEqual {
			w.violate("left-the-source-chain-after-converging", nil)
			return false, step
		}
		d := w.describe()
		var e evt
		switch {
		case len(w.parked) > 0:
			e = evt{K: 'U', O: w.parked[0].op, H: uint8(w.parked[0].h)} // a listener callback always returns eventually
		case len(w.out) > 0 && !seen[d]:
			seen[d] = true
			e = evt{K: 'T', O: w.out[0].origin, H: uint8(w.out[0].h)}
		case seen[d+"|advanced"]:
			// the configuration repeats even across a time advance: nothing will ever change again
			if wasEqual {
				return true, step
			}
			w.violate("no-convergence "+w.stuckClass(), map[string]any{"stuck_state": d, "steps": step})
			return false, step
		default:
			seen[d+"|advanced"] = true
			e = evt{K: 'A'}
		}
		w.path = append(append([]evt(nil), w.path...), e)
		atomic.StoreInt64(&w.kvCalls, 0)
		if !w.apply(e) {
			w.infra = "convergence run: event not enabled: " + e.String()
			return true, step
		}
		w.settle()
		if w.spinning() {
			return false, step // reported and abandoned by the caller
		}
	}
	w.violate("no-convergence within-horizon "+w.stuckClass(), map[string]any{"steps": convHorizon})
	return false, convHorizon
}

// stuckClass names the shape of a non-converged end state.
func (w *world) stuckClass() string {
	cur, loc := w.cur(), w.local
	common := 0
	for common < len(cur) && common < len(loc) && cur[common] == loc[common] {
		common++
	}
	rel := "local-shorter"
	switch {
	case len(loc) == len(cur):
		rel = "same-length"
	case len(loc) > len(cur):
		rel = "local-longer"
	}
	fork := "fork-above-genesis"
	if common == 0 {
		fork = "fork-at-genesis"
	}
	if common == len(cur) || common == len(loc) {
		fork = "prefix"
	}
	tip := "source-tip-above-genesis"
	if len(cur) == 1 {
		tip = "source-tip-is-genesis"
	}
	return fmt.Sprintf("%s %s %s", rel, fork, tip)
}
