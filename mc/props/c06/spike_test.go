package c06

import (
	"fmt"
	"os"
	"testing"
	"time"
)

func TestSpike(t *testing.T) {
	if os.Getenv("VERIF_C06_SPIKE") == "" {
		t.Skip()
	}
	c := &config{n0: 5, workers: 2, steps: 2, maxLen: 7, variants: []int{1, 2, 3}}
	var path []evt
	for i := 0; i < 30; i++ {
		t0 := time.Now()
		r := replay(t, c, path, false)
		fmt.Printf("%2d %-40s %s  [%d enabled] %v\n", i, r.label, r.desc, len(r.enabled), time.Since(t0))
		for _, v := range r.viols {
			fmt.Println("   VIOL", v.key)
		}
		if r.infra != "" {
			fmt.Println("INFRA", r.infra)
			return
		}
		if len(r.enabled) == 0 {
			break
		}
		if i == 29 {
			for j, e := range r.enabled {
				fmt.Println("    ", e, r.costs[j])
			}
		}
		path = append(path, r.enabled[0])
	}
	r := replay(t, c, path[:8], true)
	fmt.Println("converge:", r.conv, r.convSteps, r.infra, len(r.viols))
}
