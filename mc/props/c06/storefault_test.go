package c06

// storeFaultDB is the database handed to the node in the configurations with injectable commit failures: a thin layer
// over verif/mc/faultdb (which keeps observing every commit) that can make the commit of the NEXT STORE OF A BLOCK fail:
// the batch that raises the chain height returns an error from Write and applies nothing. Only stores are failed: a
// failing RevertHead is outside the property (its quantifier ranges over source behaviour and schedules), and the
// Synchronizer is known to record / announce a reorg range for a block whose RevertHead failed (revertHead ignores the
// error when it updates currReorg) - see the C06 notes in manifest.d/C06.json.

import (
	"bytes"
	"encoding/binary"

	"verif/mc/faultdb"

	"github.com/NethermindEth/juno/core"
	"github.com/NethermindEth/juno/db"
)

type storeFaultDB struct {
	*faultdb.DB
	w *world
}

var chainHeightKey = db.ChainHeight.Key()

type sfBatch struct {
	db.IndexedBatch
	d     *storeFaultDB
	store bool // this batch raises the chain height (or sets the first one)
}

func (d *storeFaultDB) wrap() *sfBatch { return &sfBatch{IndexedBatch: d.DB.NewIndexedBatch(), d: d} }

func (d *storeFaultDB) NewBatch() db.Batch                          { return d.wrap() }
func (d *storeFaultDB) NewBatchWithSize(int) db.Batch               { return d.wrap() }
func (d *storeFaultDB) NewIndexedBatch() db.IndexedBatch            { return d.wrap() }
func (d *storeFaultDB) NewIndexedBatchWithSize(int) db.IndexedBatch { return d.wrap() }
func (d *storeFaultDB) WithListener(db.EventListener) db.KeyValueStore {
	return d
}

func (d *storeFaultDB) Update(fn func(db.IndexedBatch) error) error {
	b := d.wrap()
	if err := fn(b); err != nil {
		return err
	}
	return b.Write()
}

func (d *storeFaultDB) Write(fn func(db.Batch) error) error {
	b := d.wrap()
	if err := fn(b); err != nil {
		return err
	}
	return b.Write()
}

func (b *sfBatch) Put(k, v []byte) error {
	if bytes.Equal(k, chainHeightKey) && len(v) == 8 {
		cur, err := core.GetChainHeight(b.d.DB.Inner())
		if err != nil || binary.BigEndian.Uint64(v) > cur {
			b.store = true
		}
	}
	return b.IndexedBatch.Put(k, v)
}

func (b *sfBatch) Write() error {
	if b.store {
		w := b.d.w
		w.mu.Lock()
		fire := w.faultArmed
		if fire {
			w.faultArmed = false
			w.log = append(w.log, obs{kind: 'x'})
		}
		w.mu.Unlock()
		if fire {
			b.IndexedBatch.Close()
			return faultdb.ErrInjected
		}
	}
	return b.IndexedBatch.Write()
}
