package c06

// spinGuardDB makes a busy loop of the Synchronizer visible. Every step of a replay ends with synctest.Wait(), which
// returns only when every goroutine of the bubble is durably blocked; a pipeline goroutine that retries an operation
// forever WITHOUT blocking (e.g. a revert walk whose RevertHead keeps failing) never lets the bubble quiesce, and the
// replay - and with it the whole check - would hang instead of reporting. The guard counts the calls the node makes
// into the key-value store between two quiescent points (the store is the one seam every pipeline step crosses). When
// one environment step makes more than spinLimit such calls - orders of magnitude above what storing and reverting the
// whole (<= 8-block) chain needs, see the max_kv_calls_in_one_step counter - the calling goroutine is parked on a
// channel of the bubble: the bubble quiesces, the replay reports "sync-spins-without-blocking" and is abandoned like a
// Synchronizer that does not stop. The verdict is a deterministic count, not a wall-clock timeout.

import (
	"sync/atomic"

	"github.com/NethermindEth/juno/db"
)

const spinLimit = 20_000

type spinGuardDB struct {
	db.KeyValueStore
	w *world
}

func (d *spinGuardDB) tick() {
	w := d.w
	if atomic.AddInt64(&w.kvCalls, 1) <= spinLimit {
		return
	}
	w.mu.Lock()
	w.spun = true
	park := w.spinPark
	w.mu.Unlock()
	<-park // never closed: a durable block inside the bubble
}

func (d *spinGuardDB) Has(k []byte) (bool, error) { d.tick(); return d.KeyValueStore.Has(k) }
func (d *spinGuardDB) Get(k []byte, cb func([]byte) error) error {
	d.tick()
	return d.KeyValueStore.Get(k, cb)
}
func (d *spinGuardDB) Put(k, v []byte) error { d.tick(); return d.KeyValueStore.Put(k, v) }
func (d *spinGuardDB) Delete(k []byte) error { d.tick(); return d.KeyValueStore.Delete(k) }
func (d *spinGuardDB) DeleteRange(a, b []byte) error {
	d.tick()
	return d.KeyValueStore.DeleteRange(a, b)
}
func (d *spinGuardDB) NewBatch() db.Batch { d.tick(); return d.KeyValueStore.NewBatch() }
func (d *spinGuardDB) NewBatchWithSize(n int) db.Batch {
	d.tick()
	return d.KeyValueStore.NewBatchWithSize(n)
}
func (d *spinGuardDB) NewIndexedBatch() db.IndexedBatch {
	d.tick()
	return d.KeyValueStore.NewIndexedBatch()
}
func (d *spinGuardDB) NewIndexedBatchWithSize(n int) db.IndexedBatch {
	d.tick()
	return d.KeyValueStore.NewIndexedBatchWithSize(n)
}
func (d *spinGuardDB) NewSnapshot() db.Snapshot { d.tick(); return d.KeyValueStore.NewSnapshot() }
func (d *spinGuardDB) Update(fn func(db.IndexedBatch) error) error {
	d.tick()
	return d.KeyValueStore.Update(fn)
}
func (d *spinGuardDB) Write(fn func(db.Batch) error) error {
	d.tick()
	return d.KeyValueStore.Write(fn)
}
func (d *spinGuardDB) WithListener(db.EventListener) db.KeyValueStore {
	return d
}

func (d *spinGuardDB) NewIterator(prefix []byte, withUpperBound bool) (db.Iterator, error) {
	d.tick()
	return d.KeyValueStore.NewIterator(prefix, withUpperBound)
}
