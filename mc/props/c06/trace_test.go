package c06

import (
	"fmt"
	"os"
	"strings"
	"testing"
)

// TestTrace is a development / reproduction aid: VERIF_C06_TRACE_CFG="n0,workers,steps,k,newState" and
// VERIF_C06_TRACE_PATH="event;event;..." (event strings as printed in violation details) replay one path against the
// real Synchronizer and print every quiescent state, the violations of each step and the convergence verdict.
func TestTrace(t *testing.T) {
	ps := os.Getenv("VERIF_C06_TRACE_PATH")
	if ps == "" {
		t.Skip()
	}
	os.Setenv("VERIF_C06_CFG", os.Getenv("VERIF_C06_TRACE_CFG"))
	c := configs("quick")[0]
	var path []evt
	for i, want := range append(strings.Split(ps, ";"), "") {
		r := replay(t, c, path, false)
		fmt.Printf("%2d %-28s %s\n", i, r.label, r.desc)
		for _, v := range r.viols {
			fmt.Println("     VIOLATION", v.key)
		}
		if r.infra != "" {
			fmt.Println("     INFRA", r.infra)
			return
		}
		if want == "" {
			break
		}
		found := false
		for _, e := range r.enabled {
			if e.String() == strings.TrimSpace(want) {
				path = append(path, e)
				found = true
			}
		}
		if !found {
			fmt.Println("event not enabled:", want)
			for j, e := range r.enabled {
				fmt.Printf("     enabled: %s (cost %d)\n", e, r.costs[j])
			}
			return
		}
	}
	r := replay(t, c, path, true)
	fmt.Printf("convergence run: converged=%v steps=%d\n", r.conv, r.convSteps)
	for _, v := range r.viols {
		fmt.Println("     VIOLATION", v.key, v.detail["stuck_state"])
	}
}
