#!/bin/bash
# The Synchronizer's fetcher/verifier streams come from github.com/sourcegraph/conc/stream, which recycles its
# callback channels through a process-wide sync.Pool. A channel created in one testing/synctest bubble must not be
# used in another one ("receive on synctest channel from outside bubble"), and this harness runs thousands of
# bubbles per process (files under GOMODCACHE cannot be overlaid directly). This script regenerates, from the
# CURRENT $VERIF_REPO/sync/sync.go, a copy in which only the import path of that package is rewritten to
# verif/mc/c06stream (verbatim copy of conc/stream minus the pool), plus the `go build -overlay` JSON mapping the
# original path to the copy. Every edit / mutation of sync.go is preserved. Prints the JSON path.
set -eu
REPO="${VERIF_REPO:-/repo}"
SUF=""
[ "$REPO" != /repo ] && SUF=".$(echo "$REPO" | tr -c 'A-Za-z0-9' '_')"
OUT="/verif/build/overlay-c06$SUF"
mkdir -p "$OUT"
SRC="$REPO/sync/sync.go"
[ -f "$SRC" ] || { echo "no $SRC" >&2; exit 1; }
sed -e 's#"github.com/sourcegraph/conc/stream"#"verif/mc/c06stream"#' "$SRC" > "$OUT/sync.go"
grep -q '"verif/mc/c06stream"' "$OUT/sync.go" || { echo "sync.go does not import conc/stream any more" >&2; exit 1; }
JSON="$OUT/overlay.json"
printf '{"Replace":{"%s": "%s"}}\n' "$SRC" "$OUT/sync.go" > "$JSON"
echo "$JSON"
