package c06

// Worker-process pool (same technique as props/c17/pool_test.go): replays are executed by copies of this test binary
// (env VERIF_C06_WORKER=1) over gob pipes on fd 3/4. Workers are pure functions (config index, path, mode) -> result;
// all search state lives in the parent, so the enumeration is identical to an in-process one. Each worker sets
// GOMAXPROCS to the configuration's parallelism knob for the duration of a replay (sync.maxWorkers() reads it).

import (
	"bufio"
	"encoding/gob"
	"encoding/json"
	"fmt"
	"os"
	"os/exec"
	"runtime"
	"runtime/debug"
	"sync"
	"testing"
)

type wireJob struct {
	Cfg  int32
	Path []byte
	Conv bool
}

type wireViol struct {
	Key    string
	Detail []byte
}

type wireRes struct {
	Key       [16]byte
	Enabled   []byte
	Costs     []byte
	Viols     []wireViol
	Infra     string
	Label     string
	Desc      string
	Stats     map[string]int64
	Depth     int
	Conv      bool
	ConvSteps int
	Hung      bool
	Retire    bool // set on the last result of a batch: the worker exits after sending it
}

func encPath(p []evt) []byte {
	out := make([]byte, 0, 4*len(p))
	for _, e := range p {
		out = append(out, e.K, e.O, e.H, e.V)
	}
	return out
}

func decPath(b []byte) []evt {
	out := make([]evt, 0, len(b)/4)
	for i := 0; i+3 < len(b); i += 4 {
		out = append(out, evt{b[i], b[i+1], b[i+2], b[i+3]})
	}
	return out
}

func toWire(r *result) wireRes {
	w := wireRes{Key: r.key, Enabled: encPath(r.enabled), Costs: r.costs, Infra: r.infra, Label: r.label, Desc: r.desc,
		Stats: r.stats, Depth: r.depth, Conv: r.conv, ConvSteps: r.convSteps, Hung: r.hung}
	for _, v := range r.viols {
		d, _ := json.Marshal(v.detail)
		w.Viols = append(w.Viols, wireViol{v.key, d})
	}
	return w
}

func fromWire(w *wireRes) result {
	r := result{key: w.Key, enabled: decPath(w.Enabled), costs: w.Costs, infra: w.Infra, label: w.Label, desc: w.Desc,
		stats: w.Stats, depth: w.Depth, conv: w.Conv, convSteps: w.ConvSteps, hung: w.Hung}
	for _, v := range w.Viols {
		d := map[string]any{}
		json.Unmarshal(v.Detail, &d)
		r.viols = append(r.viols, &violation{key: v.Key, detail: d})
	}
	return r
}

// maxAbandoned is the number of abandoned bubbles (replays whose Synchronizer did not stop) after which a worker process
// is replaced by a fresh one.
const maxAbandoned = 64

// workerMain serves replay requests until its input pipe closes.
func workerMain(t *testing.T) {
	in, out := os.NewFile(3, "jobs"), os.NewFile(4, "results")
	dec := gob.NewDecoder(bufio.NewReaderSize(in, 1<<16))
	bw := bufio.NewWriterSize(out, 1<<16)
	enc := gob.NewEncoder(bw)
	var cfgs []*config
	abandonedBubbles := 0
	debug.SetGCPercent(100) // many workers share the machine; replays allocate little that survives
	for {
		var tier string
		var jobs []wireJob
		if err := dec.Decode(&tier); err != nil {
			// end of work: the reference blocks must not have been mutated through the copies handed to juno
			if bad := universeIntact(); bad != "" {
				fmt.Fprintln(os.Stderr, "C06 worker: reference block mutated by the system under test:", bad)
				os.Exit(3)
			}
			return
		}
		if err := dec.Decode(&jobs); err != nil {
			return
		}
		if cfgs == nil {
			cfgs = configs(tier)
		}
		res := make([]wireRes, len(jobs))
		for i, j := range jobs {
			r := replay(t, cfgs[j.Cfg], decPath(j.Path), j.Conv)
			res[i] = toWire(&r)
			if r.hung {
				abandonedBubbles++
			}
		}
		retire := abandonedBubbles >= maxAbandoned
		if retire && len(res) > 0 {
			res[len(res)-1].Retire = true
		}
		if err := enc.Encode(res); err != nil {
			return
		}
		bw.Flush()
		if retire {
			// every Synchronizer that did not stop left its (blocked) goroutines and its database behind in this
			// process: the parent starts a fresh worker in its place
			if bad := universeIntact(); bad != "" {
				fmt.Fprintln(os.Stderr, "C06 worker: reference block mutated by the system under test:", bad)
				os.Exit(3)
			}
			os.Exit(0)
		}
	}
}

type worker struct {
	cmd *exec.Cmd
	enc *gob.Encoder
	bw  *bufio.Writer
	dec *gob.Decoder
	in  *os.File
	out *os.File
}

type pool struct {
	ws   []*worker
	tier string
}

func newPool(tier string) (*pool, error) {
	p := &pool{tier: tier}
	k := runtime.NumCPU()
	if s := os.Getenv("VERIF_C06_WORKERS"); s != "" {
		fmt.Sscan(s, &k)
	}
	for i := 0; i < k; i++ {
		w, err := startWorker()
		if err != nil {
			return nil, err
		}
		p.ws = append(p.ws, w)
	}
	return p, nil
}

func startWorker() (*worker, error) {
	jr, jw, err := os.Pipe()
	if err != nil {
		return nil, err
	}
	rr, rw, err := os.Pipe()
	if err != nil {
		return nil, err
	}
	cmd := exec.Command(os.Args[0], "-test.run", "^TestCheck$", "-test.timeout", "0")
	cmd.Env = append(os.Environ(), "VERIF_C06_WORKER=1", "GOMAXPROCS=1")
	cmd.ExtraFiles = []*os.File{jr, rw}
	cmd.Stderr = os.Stderr
	if err := cmd.Start(); err != nil {
		return nil, err
	}
	jr.Close()
	rw.Close()
	bw := bufio.NewWriterSize(jw, 1<<16)
	return &worker{cmd: cmd, enc: gob.NewEncoder(bw), bw: bw, dec: gob.NewDecoder(bufio.NewReaderSize(rr, 1<<16)), in: jw, out: rr}, nil
}

func (p *pool) close() error {
	var first error
	for _, w := range p.ws {
		w.in.Close()
		if err := w.cmd.Wait(); err != nil && first == nil {
			first = err
		}
	}
	return first
}

// run replays every node; results[i].infra=="timeout" for nodes skipped because stop() became true.
func (p *pool) run(frontier []node, conv bool, stop func() bool) ([]result, error) {
	const batch = 4
	results := make([]result, len(frontier))
	nb := (len(frontier) + batch - 1) / batch
	ch := make(chan int, nb)
	for b := 0; b < nb; b++ {
		ch <- b
	}
	close(ch)
	var wg sync.WaitGroup
	var mu sync.Mutex
	var firstErr error
	for _, w := range p.ws {
		wg.Add(1)
		go func(w *worker) {
			defer wg.Done()
			for b := range ch {
				lo, hi := b*batch, min((b+1)*batch, len(frontier))
				if stop() {
					for i := lo; i < hi; i++ {
						results[i].infra = "timeout"
					}
					continue
				}
				jobs := make([]wireJob, hi-lo)
				for i := lo; i < hi; i++ {
					jobs[i-lo] = wireJob{Cfg: frontier[i].cfg, Path: encPath(frontier[i].path), Conv: conv}
				}
				var res []wireRes
				err := w.enc.Encode(p.tier)
				if err == nil {
					err = w.enc.Encode(jobs)
				}
				if err == nil {
					err = w.bw.Flush()
				}
				if err == nil {
					err = w.dec.Decode(&res)
				}
				if err == nil && len(res) != len(jobs) {
					err = fmt.Errorf("worker returned %d results for %d jobs", len(res), len(jobs))
				}
				if err != nil {
					mu.Lock()
					if firstErr == nil {
						firstErr = fmt.Errorf("worker process failed: %w", err)
					}
					mu.Unlock()
					return
				}
				retired := false
				for i := range res {
					results[lo+i] = fromWire(&res[i])
					retired = retired || res[i].Retire
				}
				if retired {
					// the worker retires after a replay whose Synchronizer did not stop (see workerMain)
					w.in.Close()
					werr := w.cmd.Wait()
					w.out.Close()
					nw, serr := startWorker()
					if werr != nil || serr != nil {
						mu.Lock()
						if firstErr == nil {
							firstErr = fmt.Errorf("replacing a retired worker process: wait=%v start=%v", werr, serr)
						}
						mu.Unlock()
						return
					}
					*w = *nw
				}
			}
		}(w)
	}
	wg.Wait()
	return results, firstErr
}
