package c06

// Part F: the notification fan-out (feed.Feed) in isolation. The schedule search observes what the Synchronizer SENDS
// to its new-head / reorg feeds through one subscriber that lives for the whole run; what every OTHER subscriber gets
// is the feed's business: exhaustive enumeration of all operation sequences up to a bound over {subscribe, subscribe
// keep-last, unsubscribe the i-th live subscriber, unsubscribe a dead one again, send, i-th live subscriber receives},
// with at most three live subscribers, against a reference model written from the documented contract (one-slot
// buffer; a plain subscriber skips a value when its slot is full, a keep-last subscriber replaces it; a subscriber gets
// exactly the values sent while it is subscribed and its slot is free / replaceable, in order; an unsubscribed channel
// is closed).

import (
	"fmt"

	"verif/mc/ev"

	"github.com/NethermindEth/juno/feed"
)

type fsub struct {
	s        *feed.Subscription[int]
	keepLast bool
	has      bool
	val      int
}

func feedFanout(r *ev.Run) {
	maxLen := ev.Pick(r, 6, 8)
	type op struct {
		k byte
		i int
	}
	alphabet := []op{{'S', 0}, {'K', 0}, {'E', 0}, {'U', 0}, {'U', 1}, {'U', 2}, {'R', 0}, {'R', 1}, {'R', 2}, {'D', 0}}
	var sequences, steps int64
	seq := make([]op, 0, maxLen)
	var run func()
	fail := func(what string, extra map[string]any) {
		names := make([]string, len(seq))
		for i, o := range seq {
			names[i] = fmt.Sprintf("%c%d", o.k, o.i)
		}
		extra["sequence"] = fmt.Sprint(names)
		r.Violate("feed: "+what, extra)
	}
	// replay executes seq on a fresh feed against the model; false = the last op is not enabled (prune)
	replay := func() bool {
		f := feed.New[int]()
		var live []*fsub
		var dead []*fsub
		next := 1
		for oi, o := range seq {
			last := oi == len(seq)-1
			switch o.k {
			case 'S', 'K':
				if len(live) == 3 {
					return false
				}
				s := &fsub{keepLast: o.k == 'K'}
				if s.keepLast {
					s.s = f.SubscribeKeepLast()
				} else {
					s.s = f.Subscribe()
				}
				live = append(live, s)
			case 'E':
				f.Send(next)
				for _, s := range live {
					if !s.has || s.keepLast {
						s.has, s.val = true, next
					}
				}
				next++
			case 'U':
				if o.i >= len(live) {
					return false
				}
				s := live[o.i]
				s.s.Unsubscribe()
				live = append(live[:o.i:o.i], live[o.i+1:]...)
				dead = append(dead, s)
			case 'D':
				if len(dead) == 0 {
					return false
				}
				dead[len(dead)-1].s.Unsubscribe() // idempotent
			case 'R':
				if o.i >= len(live) {
					return false
				}
				s := live[o.i]
				select {
				case v, ok := <-s.s.Recv():
					if last {
						switch {
						case !ok:
							fail("live subscriber's channel is closed", map[string]any{"subscriber": o.i})
						case !s.has:
							fail("subscriber receives a value it should not have", map[string]any{"subscriber": o.i, "got": v})
						case v != s.val:
							fail("subscriber receives the wrong value", map[string]any{"subscriber": o.i, "got": v, "want": s.val})
						}
					}
				default:
					if last && s.has {
						fail("subscribed consumer misses a value sent while it was subscribed", map[string]any{"subscriber": o.i, "want": s.val, "keep_last": s.keepLast})
					}
				}
				s.has = false
			}
		}
		// a dead subscription's channel is closed (after draining at most its one buffered value)
		for _, s := range dead {
			for k := 0; k < 2; k++ {
				select {
				case _, ok := <-s.s.Recv():
					if !ok {
						k = 2
					}
				default:
					fail("unsubscribed channel is not closed", map[string]any{})
					k = 2
				}
			}
		}
		return true
	}
	run = func() {
		if len(seq) > 0 {
			if !replay() {
				return
			}
			sequences++
			steps += int64(len(seq))
		}
		if len(seq) == maxLen {
			return
		}
		for _, o := range alphabet {
			seq = append(seq, o)
			run()
			seq = seq[:len(seq)-1]
		}
	}
	run()
	r.Set("feed_sequences", sequences)
	r.Add("evaluations", sequences)
	_ = steps
}
