package c09

// C09 — event queries return exactly the matching events, in order, for any paging.
//
// Explicit-state search over histories of a REAL node: alphabet {store(block shape), revertHead, query
// (warms the LRU of aggregated filters), restart-graceful (running-filter snapshot written),
// restart-ungraceful}. Every history is replayed from a base image on ONE long-lived Blockchain object
// (restarts are explicit ops), so in-memory index state (running window, LRU) persists across ops
// exactly as in a running node. Base images: empty store, a 2-block chain, and three chains around the
// real 8192-block window boundary (heads 8189, 8190, 8191) so that window [0,8191] rolls over, is
// persisted, cached, rolled back by a reorg and re-created inside the explored depth.
// The alphabet also holds FAILED operations after which the node keeps running (store / revert whose k-th
// durable commit fails; a self-consistent block that does not connect and is refused by Store): they may
// stand at any position of a history (bounds: searchCfg.faultDepth / maxFaults), e.g. "query, failed store,
// store across the window boundary" - whatever the failure leaves behind in the in-memory index (running
// window rebuilt as a new object, LRU not purged) has to show in a later state's query grid.
// Rejected blocks come in every kind Store can refuse by succession: number head+1 that does not connect, number <= head
// (the head again, a sibling of the head, a stale canonical block) and number > head+1 (node_test.go); the rejected-store
// sweep (rejectedstore_test.go) puts each of them on a node whose running filter is already initialised and follows it
// with every tail of <= 2 further ops before the grid.
// In every distinct state every filter x range x chunk size x scan limit is paged to the end through the
// real Blockchain.EventFilter and compared with a naive scan of the reference receipts.

import (
	"errors"
	"fmt"
	"maps"
	"math"
	"os"
	"runtime"
	"sort"
	"strings"
	"sync"
	"sync/atomic"
	"testing"
	"time"

	"verif/mc/chain"
	"verif/mc/ev"
	"verif/mc/hist"

	"github.com/NethermindEth/juno/blockchain"
	"github.com/NethermindEth/juno/core"
	"github.com/NethermindEth/juno/db/memory"
)

var chunkSizes = []uint64{100, 1, 2, 3}
var scanLimits = []uint{0, 1, 2} // 0 = unlimited
const longRange = 16

// pre-confirmed chains are attached to every state reached by at most this many ops (0 in the quick tier)
var pcDepth = 1

type harness struct {
	r                     *ev.Run
	filters               []filter
	queries               atomic.Int64
	pages                 atomic.Int64
	nonEmpty              atomic.Int64
	pcQueries             atomic.Int64
	tReplay, tKey, tCheck atomic.Int64
	sem                   chan struct{} // global CPU slots shared by the concurrent searches
	qseen                 sync.Map      // base label + query key -> true: states whose whole grid has been run (search and rejected-store sweep)
}

// firstQuery reports whether the query key qk of a state over base label is new (and marks it): states with equal
// query keys (same store image, same live index objects) answer every query identically, the grid is run once.
func (h *harness) firstQuery(label, qk string) bool {
	_, dup := h.qseen.LoadOrStore(label+"|"+qk, true)
	return !dup
}

// buildBases stores the boundary chain once per backend and freezes images at the wanted heads.
// The boundary images carry the running-filter snapshot of a graceful stop at that head (snap=true) or
// none (a node that only ever crashed).
func buildBases(r *ev.Run, newState bool, want map[string]bool) []*base {
	var out []*base
	freeze := func(name string, d *memory.Database, ch []*chain.Entry) {
		if !want[name] {
			return
		}
		img := maps.Clone(d.Copy().Impl().(map[string][]byte))
		out = append(out, &base{name: name, newState: newState, img: img, sum: imageSum(img), chain: append([]*chain.Entry{}, ch...)})
	}
	freeze("empty", memory.New(), nil)
	// 2blocks: [empty block, X]
	{
		d := memory.New()
		bc := chain.NewNode(d, newState)
		var ch []*chain.Entry
		for _, sh := range []int{shEmpty, shX} {
			var p *chain.Entry
			if len(ch) > 0 {
				p = ch[len(ch)-1]
			}
			e := buildEntry(p, sh)
			if err := chain.StoreSync(bc, e.Fresh(p)); err != nil {
				r.Infra("base 2blocks: %v", err)
			}
			ch = append(ch, e)
		}
		freeze("2blocks", d, ch)
	}
	needBoundary := false
	for k := range want {
		if strings.HasPrefix(k, "head8") {
			needBoundary = true
		}
	}
	if !needBoundary {
		return out
	}
	d := memory.New()
	bc := chain.NewNode(d, newState)
	var ch []*chain.Entry
	var parent *chain.Entry
	for n := uint64(0); n <= 8191; n++ {
		e := buildEntry(parent, baseShapeAt(n))
		fe := e
		if len(e.Block.Receipts) > 0 {
			fe = e.Fresh(parent) // juno never gets the reference copy of a block whose receipts the oracle reads
		}
		if err := chain.StoreSync(bc, fe); err != nil {
			r.Infra("base chain block %d: %v", n, err)
		}
		ch = append(ch, e)
		parent = e
		if n >= 8189 {
			name := fmt.Sprintf("head%d", n)
			freeze(name+"-nosnap", d, ch)
			if want[name] {
				// graceful stop of a twin at this head: the snapshot goes into the frozen image only
				t := d.Copy()
				tb := chain.NewNode(t, newState)
				if err := tb.WriteRunningEventFilter(); err != nil {
					r.Infra("base %s: snapshot: %v", name, err)
				}
				freeze(name, t, ch)
			}
		}
	}
	return out
}

type state struct {
	path []op
}

type searchCfg struct {
	base     string
	newState bool
	depth    int
	// fault histories: histories that contain a fault op (see node_test.go) are explored to length faultDepth,
	// with at most maxFaults fault ops each, the fault(s) at ANY position
	faultDepth, maxFaults int
}

func TestCheck(t *testing.T) {
	r := ev.Start("C09", "model_checking")
	r.SetBudget(ev.Pick(r, 160, 1600))
	alphabet := []op{opStoreX, opStoreY, opRevert, opQuery, opRestartG, opRestartU}
	var cfgs []searchCfg
	if r.Quick() {
		for _, b := range []string{"empty", "2blocks", "head8190", "head8191"} {
			cfgs = append(cfgs, searchCfg{base: b, depth: 4})
		}
		for _, b := range []string{"2blocks", "head8190"} {
			cfgs = append(cfgs, searchCfg{base: b, newState: true, depth: 4})
		}
	} else {
		alphabet = []op{opStoreX, opStoreY, opStoreZ, opRevert, opQuery, opRestartG, opRestartU}
		for _, ns := range []bool{false, true} {
			for _, b := range []string{"empty", "2blocks", "head8189", "head8190", "head8191", "head8189-nosnap", "head8190-nosnap", "head8191-nosnap"} {
				cfgs = append(cfgs, searchCfg{base: b, newState: ns, depth: 5})
			}
		}
	}
	if s := os.Getenv("C09_DEPTH"); s != "" {
		var d int
		fmt.Sscan(s, &d)
		for i := range cfgs {
			cfgs[i].depth = d
		}
	}
	for i := range cfgs {
		// quick: one failed op anywhere in a history of <= 3 ops; thorough: up to two in <= 4 ops
		cfgs[i].faultDepth, cfgs[i].maxFaults = ev.Pick(r, 3, 4), ev.Pick(r, 1, 2)
		if cfgs[i].faultDepth > cfgs[i].depth {
			cfgs[i].faultDepth = cfgs[i].depth
		}
	}
	if s := os.Getenv("C09_FAULT_DEPTH"); s != "" {
		var d int
		fmt.Sscan(s, &d)
		for i := range cfgs {
			cfgs[i].faultDepth = d
		}
	}
	alphabet = append(alphabet, faultOps...)
	alphabet = append(alphabet, rejectedByNumberOps(r.Thorough())...)
	if only := os.Getenv("C09_BASE"); only != "" {
		var keep []searchCfg
		for _, c := range cfgs {
			if strings.Contains(c.base+hist.Backend(c.newState), only) {
				keep = append(keep, c)
			}
		}
		cfgs = keep
	}
	h := &harness{r: r, filters: allFilters(r.Thorough())}
	pcDepth = ev.Pick(r, 0, 1)

	want := [2]map[string]bool{{}, {}}
	for _, c := range cfgs {
		i := 0
		if c.newState {
			i = 1
		}
		want[i][c.base] = true
		if strings.HasPrefix(c.base, "head8") && !strings.HasSuffix(c.base, "-nosnap") {
			want[i][c.base+"-nosnap"] = true // failed-commit sweep: the same head without a snapshot on disk
		}
	}
	var bases [2][]*base
	ev.Par(2, 2, func(i int) {
		if len(want[i]) > 0 {
			bases[i] = buildBases(r, i == 1, want[i])
		}
	})
	find := func(c searchCfg) *base {
		i := 0
		if c.newState {
			i = 1
		}
		for _, b := range bases[i] {
			if b.name == c.base {
				return b
			}
		}
		r.Infra("base %s not built", c.base)
		return nil
	}

	var denseQ [2]int64
	denseDone := make(chan struct{})
	go func() {
		defer close(denseDone)
		if os.Getenv("C09_NO_DENSE") != "" {
			r.Incomplete("dense-block sweep switched off (C09_NO_DENSE, development aid)")
			return
		}
		ev.Par(2, 2, func(i int) { denseQ[i] = h.denseSweep(i == 1) })
	}()
	type result struct {
		st, tr, md, qs int64
		per            []int
		fs             faultStats
	}
	res := make([]result, len(cfgs))
	h.sem = make(chan struct{}, runtime.NumCPU())
	var wg sync.WaitGroup
	for i, c := range cfgs {
		wg.Add(1)
		go func() {
			defer wg.Done()
			b := find(c)
			st, tr, md, qs, per, fs := h.search(b, alphabet, c)
			res[i] = result{st, tr, md, qs, per, fs}
			if imageSum(b.img) != b.sum {
				r.Infra("frozen base image %s was modified during the run", b.name)
			}
		}()
	}
	wg.Wait()
	var fcCases atomic.Int64
	done := map[*base]bool{}
	var sweepBases []*base
	for _, c := range cfgs {
		sweepBases = append(sweepBases, find(c))
		if strings.HasPrefix(c.base, "head8") && !strings.HasSuffix(c.base, "-nosnap") {
			sweepBases = append(sweepBases, find(searchCfg{base: c.base + "-nosnap", newState: c.newState, depth: c.depth}))
		}
	}
	for _, b := range sweepBases {
		if b == nil || done[b] || b.name == "empty" {
			continue
		}
		done[b] = true
		wg.Add(1)
		go func() {
			defer wg.Done()
			h.sem <- struct{}{}
			defer func() { <-h.sem }()
			fcCases.Add(h.failedCommitSweep(b))
		}()
	}
	// rejected-store sweep (rejectedstore_test.go), after the searches: states the searches have checked are not re-queried
	var rej rejStats
	var rejMu sync.Mutex
	if os.Getenv("C09_NO_REJ") != "" {
		r.Incomplete("rejected-store sweep switched off (C09_NO_REJ, development aid)")
	} else {
		for b := range done {
			wg.Add(1)
			go func() {
				defer wg.Done()
				s := h.rejectedStoreSweep(b)
				rejMu.Lock()
				rej.add(s)
				rejMu.Unlock()
			}()
		}
	}
	wg.Wait()
	r.Set("failed_commit_cases", fcCases.Load())
	r.Set("rejected_store_histories", rej.cases)
	r.Set("rejected_store_histories_by_kind", rej.byKind)
	r.Set("rejected_store_histories_op_not_enabled", rej.skipped)
	r.Set("rejected_store_states_checked", rej.gridsRun)
	<-denseDone
	r.Set("dense_block_queries", denseQ[0]+denseQ[1])
	h.queries.Add(denseQ[0] + denseQ[1])
	var states, transitions, maxDepth, qstates int64
	var cfgNames []string
	var fs faultStats
	for i, c := range cfgs {
		x := res[i]
		states += x.st
		transitions += x.tr
		qstates += x.qs
		if x.md > maxDepth {
			maxDepth = x.md
		}
		fs.add(x.fs)
		name := fmt.Sprintf("%s%s depth<=%d (with <=%d failed ops: depth<=%d)", c.base, hist.Backend(c.newState), c.depth, c.maxFaults, c.faultDepth)
		cfgNames = append(cfgNames, name)
		r.Sample(map[string]any{"search": name, "states": x.st, "transitions": x.tr, "query_distinct_states_checked": x.qs, "new_states_per_depth": x.per,
			"fault_histories": x.fs.histories, "fault_history_states": x.fs.states, "fault_history_states_checked": x.fs.checked})
	}
	// fault histories: measured counts (a history = one op sequence containing >= 1 failed op, replayed on one node)
	r.Set("fault_histories", fs.histories)
	r.Set("fault_histories_by_failed_op", fs.byOp)
	r.Set("fault_history_states", fs.states)
	r.Set("fault_history_states_checked", fs.checked)
	r.Set("fault_op_not_enabled", fs.disabled)
	r.Set("searches", cfgNames)
	r.Set("states", states)
	r.Set("transitions", transitions)
	r.Set("max_depth", maxDepth)
	r.Set("traces_validated_against_impl", transitions)
	r.Set("distinct_nontrivial", qstates)
	r.Set("query_distinct_states_checked", qstates)
	r.Set("evaluations", h.queries.Load())
	r.Set("paged_queries", h.queries.Load())
	r.Set("pages", h.pages.Load())
	r.Set("queries_with_nonempty_answer", h.nonEmpty.Load())
	r.Set("filters", int64(len(h.filters)))
	r.Set("pre_confirmed_queries", h.pcQueries.Load())
	r.Set("cpu_s_replay_key_check", fmt.Sprintf("%.1f %.1f %.1f", float64(h.tReplay.Load())/1e9, float64(h.tKey.Load())/1e9, float64(h.tCheck.Load())/1e9))
	r.Set("rule", fmt.Sprintf("BFS over histories of ops %v from each base image (see searches), every history replayed on ONE long-lived real Blockchain (restarts are ops; "+
		"the query op = full-range query for everything and for everything emitted by A or B, both compared with the naive scan on the node as the history left it); "+
		"ops named '!...' FAIL (k-th durable commit of the op returns an error / the block does not connect and is rejected), leave the chain unchanged and the node running: "+
		"histories with such ops are explored with the failed op(s) at any position up to the bounds given per search, and are never cut by the internal deadline; "+
		"state = KV image + reflective dump of running filter and LRU; in every state that is distinct for queries (image without the snapshot key + the two index objects): "+
		"%d filters x all ranges over endpoints {0,8191,8192,head-2..head+1} x chunk %v x scan limit %v (on ranges > %d blocks a fully wildcard filter is only run pattern-less, unlimited, chunk 100 and chunk 1) "+
		"in every state of depth <= %d additionally 3 pre-confirmed chains (1-2 blocks) above the head x all filters x ranges reaching above the head incl. the pre_confirmed tag at either end; "+
		"failed-commit sweep: every base (window-boundary bases also without a snapshot on disk) x {store:X, store:Y, revert} x k-th commit fails -> same node answers the grid; "+
		"a new node on that image (= crash before commit k) answers the grid and performs the op; retry on the same node succeeds and answers the grid, "+
		"then every continuation of <= 2 further ops followed by an ungraceful restart answers the grid; "+
		"rejected-store sweep: every base (as above) x running filter initialised by {snapshot write, full-range query} x rejected block %v x every tail of <= 2 ops over %v on one long-lived node, "+
		"then the grid unless a state with the same query key already had it; "+
		"dense blocks: chains with two blocks of 100..6000 single-key events from distinct emitters (a quarter to nearly all of the 8192 bloom bits set), one query per event key and per emitter on the long-lived node and after both kinds of restart; "+
		"paged to the end (tokens round-tripped through their string form, must advance) and compared event by event with the naive scan of the reference receipts",
		opList(alphabet), len(h.filters), chunkSizes, scanLimits, longRange, pcDepth, opList(rejectedKinds(r.Thorough())), opList(rejectedTailLetters(r.Thorough()))))
	r.Assume = append(r.Assume,
		"blocks are produced by verif/mc/chain (valid hashes/commitments); event layouts come from the 4-shape set of universe_test.go",
		"a key pattern ending in a wildcard position is compared under juno's reading (event needs a key at every pattern position); counted in outcome 'trailing-wildcard-excludes-shorter-event'",
		"crash = loss of the process (new Blockchain on the same store); a failing commit (fault ops of the search, failed-commit sweep) returns an error and applies nothing (verif/mc/faultdb)",
		"rejected blocks are self-consistent (they pass SanityCheckNewHeight) and fail inside Store: parent is a sibling of the head / state update's old root is not the head's root / "+
			"block number is head-2..head (a canonical block offered again, a sibling of the head) or head+2..head+3 (descendant of a valid block that was never stored)",
		"base images are reached by plain sequential sync (no enumeration below them)")
	r.Finish()
}

func opList(a []op) []string {
	var s []string
	for _, o := range a {
		s = append(s, opNames[o])
	}
	return s
}

// faultStats: measured counts of the fault-history part of a search.
type faultStats struct {
	histories int64            // replayed histories that contain >= 1 failed op
	byOp      map[string]int64 // ... of those, histories that END in the failed op, by op
	states    int64            // new states (by key and fault layer) such histories reach
	checked   int64            // ... of those, states with a new query key: the whole grid was run
	disabled  int64            // (state, failed op) pairs where the op has fewer commits than the fault asks for
}

func (f *faultStats) add(o faultStats) {
	f.histories += o.histories
	f.states += o.states
	f.checked += o.checked
	f.disabled += o.disabled
	if f.byOp == nil {
		f.byOp = map[string]int64{}
	}
	for k, v := range o.byOp {
		f.byOp[k] += v
	}
}

// search: breadth-first over op sequences, deduplicated by the concrete state key.
//
// Fault ops (isFault) are ordinary letters of the alphabet with two bounds: a history holds at most c.maxFaults of
// them and a history that holds one is at most c.faultDepth ops long - so a failed commit / rejected block stands at
// EVERY position of every history of <= faultDepth ops, the node lives on, and every state reached afterwards gets
// the whole query grid (unless a state with the same query key - same store, same index objects - already had it).
// States are kept apart by the number of faults spent ("layer"): a state is pruned only if the same key was reached
// before with at most as many faults (that one has at least the same futures left). Levels below faultDepth are not
// subject to the internal deadline: a slow machine cuts the deepest clean level, never the fault histories.
func (h *harness) search(b *base, alphabet []op, c searchCfg) (states, transitions, maxDepth, qstates int64, perDepth []int, fs faultStats) {
	r := h.r
	depth := c.depth
	fs.byOp = map[string]int64{}
	label := b.name + hist.Backend(b.newState)
	seenPrev := map[string]uint8{} // key -> fault layers (bit f = reached with f faults) in earlier levels
	seenNow := map[string]uint8{}  // ... in the level being expanded
	var mu sync.Mutex
	visit := func(n *node, p []op) {
		// the check forces the lazy running filter by writing its snapshot (this node is discarded
		// afterwards); the image before that is kept for the restart diagnosis
		n.pre = maps.Clone(n.db.Impl().(map[string][]byte))
		if len(n.chain) > 0 {
			if err := n.bc.WriteRunningEventFilter(); err != nil {
				r.Violate("running-filter-unusable"+hist.Backend(b.newState)+faultTag(p), map[string]any{"base": label, "path": pathString(p), "err": err.Error()})
				return
			}
		}
		qk := n.queryKey()
		dup := !h.firstQuery(label, qk)
		mu.Lock()
		if !dup {
			qstates++
			if faults(p) > 0 {
				fs.checked++
			}
		}
		mu.Unlock()
		if !dup {
			t0 := time.Now()
			h.checkState(n, p, label)
			if len(p) <= pcDepth {
				h.checkPreConfirmed(n, p, label)
			}
			h.tCheck.Add(int64(time.Since(t0)))
		}
	}
	h.sem <- struct{}{}
	root, _, err := b.replay(nil)
	if err != nil {
		r.Infra("open base %s: %v", label, err)
	}
	rk := root.key()
	// determinism self-test: the same replay twice gives the same key
	if r2, _, _ := b.replay(nil); r2.key() != rk {
		r.Infra("state key is not deterministic on base %s", label)
	}
	seenPrev[rk] = 1
	states = 1
	visit(root, nil)
	<-h.sem
	frontier := []state{{}}
	for d := 0; d < depth && len(frontier) > 0; d++ {
		var next []state
		type job struct {
			s state
			o op
		}
		var jobs []job
		for _, s := range frontier {
			f := faults(s.path)
			for _, o := range alphabet {
				nf := f
				if isFault(o) {
					nf++
				}
				if nf > c.maxFaults || (nf > 0 && d+1 > c.faultDepth) {
					continue
				}
				jobs = append(jobs, job{s, o})
			}
		}
		protected := d < c.faultDepth
		ev.Par(len(jobs), runtime.NumCPU(), func(i int) {
			if (!protected && r.OutOfTime()) || r.WayOutOfTime() {
				// levels that may contain a failed operation are exempt from the ordinary deadline, not from the hard stop
				r.Incomplete(fmt.Sprintf("%s: search stopped at depth %d", label, d))
				return
			}
			h.sem <- struct{}{}
			defer func() { <-h.sem }()
			j := jobs[i]
			p := append(append([]op{}, j.s.path...), j.o)
			nf := faults(p)
			t0 := time.Now()
			n, at, err := b.replay(p)
			h.tReplay.Add(int64(time.Since(t0)))
			if err == errDisabled {
				if isFault(j.o) {
					mu.Lock()
					fs.disabled++
					mu.Unlock()
				}
				return
			}
			if err != nil {
				if at != len(p)-1 {
					r.Infra("replay of a known-good prefix failed: %s at %d: %v", pathString(p), at, err)
				}
				r.Outcome("op-fails " + opNames[j.o])
				if err == errFaultSwallowed {
					return // (as in the failed-commit sweep: counted as an outcome; what the store holds then is C05's subject)
				}
				if errors.Is(err, errHistoryQueryWrong) {
					r.Violate("query-op-of-history wrong (node as the history left it, running filter not forced)"+hist.Backend(b.newState)+faultTag(p),
						map[string]any{"base": label, "path": pathString(p), "err": err.Error()})
					return
				}
				if errors.Is(err, errHarnessBlock) {
					r.Infra("%s: %s: %v", label, pathString(p), err)
				}
				if err == errAccepted {
					r.Violate("non-connecting block accepted"+hist.Backend(b.newState), map[string]any{"base": label, "path": pathString(p)})
					return
				}
				what := opNames[j.o]
				if i := strings.Index(what, ":"); i > 0 {
					what = what[:i]
				}
				cause := ""
				if strings.Contains(err.Error(), "block number is not within range") {
					cause = " (block outside the running filter window)"
				}
				r.Violate("op-fails "+what+cause+hist.Backend(b.newState)+faultTag(p), map[string]any{"base": label, "path": pathString(p), "err": err.Error()})
				return
			}
			if isFault(j.o) {
				r.Outcome("failed op leaves the node running: " + opNames[j.o])
			}
			t0 = time.Now()
			k := n.key()
			h.tKey.Add(int64(time.Since(t0)))
			bit := uint8(1) << nf
			mu.Lock()
			transitions++
			if nf > 0 {
				fs.histories++
				if isFault(j.o) {
					fs.byOp[opNames[j.o]]++
				}
			}
			fresh := seenPrev[k]&(bit<<1-1) == 0 && seenNow[k]&bit == 0
			if fresh {
				seenNow[k] |= bit
				next = append(next, state{p})
				if nf > 0 {
					fs.states++
				}
			}
			mu.Unlock()
			if fresh {
				visit(n, p)
			}
		})
		for k, m := range seenNow {
			seenPrev[k] |= m
		}
		clear(seenNow)
		// deterministic order of the next frontier
		sort.Slice(next, func(i, j int) bool { return pathLess(next[i].path, next[j].path) })
		states += int64(len(next))
		perDepth = append(perDepth, len(next))
		if len(next) > 0 {
			maxDepth = int64(d + 1)
		}
		frontier = next
	}
	return
}

func pathLess(a, b []op) bool {
	for i := range a {
		if i >= len(b) {
			return false
		}
		if a[i] != b[i] {
			return a[i] < b[i]
		}
	}
	return len(a) < len(b)
}

// ---- the per-state check ----------------------------------------------------------------------

type pagedResult struct {
	evs   []blockchain.FilteredEvent
	pages int
	err   string
}

// runPaged follows continuation tokens to the end. Tokens are round-tripped through their string form
// (what an RPC client holds) and must strictly advance.
func runPaged(ef blockchain.EventFilterer, chunk uint64) pagedResult {
	var res pagedResult
	var tok *blockchain.ContinuationToken
	last := ""
	for {
		res.pages++
		if res.pages > 20000 {
			res.err = "paging does not terminate (20000 pages)"
			return res
		}
		evs, next, err := ef.Events(tok, chunk)
		if err != nil {
			res.err = "error: " + err.Error()
			return res
		}
		if uint64(len(evs)) > chunk {
			res.err = fmt.Sprintf("page of %d events exceeds chunk size %d", len(evs), chunk)
			return res
		}
		res.evs = append(res.evs, evs...)
		if next.IsEmpty() {
			return res
		}
		s := next.String()
		if last != "" && !tokenAdvances(last, s) {
			res.err = fmt.Sprintf("continuation token does not advance: %s -> %s", last, s)
			return res
		}
		last = s
		t := new(blockchain.ContinuationToken)
		if err := t.FromString(s); err != nil {
			res.err = "token does not parse: " + s
			return res
		}
		tok = t
	}
}

func tokenAdvances(a, b string) bool {
	var ab, ap, bb, bp uint64
	fmt.Sscanf(a, "%d-%d", &ab, &ap)
	fmt.Sscanf(b, "%d-%d", &bb, &bp)
	return bb > ab || (bb == ab && bp > ap)
}

func sameEvent(g *blockchain.FilteredEvent, e *refEvent) bool {
	if g.BlockNumber != e.Block || g.TransactionIndex != e.TxIndex || g.EventIndex != e.EvIndex {
		return false
	}
	if g.BlockHash == nil || !g.BlockHash.Equal(e.Hash) || g.TransactionHash == nil || !g.TransactionHash.Equal(e.TxHash) {
		return false
	}
	if g.Event == nil || !g.Event.From.Equal(e.Ev.From) || len(g.Event.Keys) != len(e.Ev.Keys) || len(g.Event.Data) != len(e.Ev.Data) {
		return false
	}
	for i := range e.Ev.Keys {
		if g.Event.Keys[i] != e.Ev.Keys[i] {
			return false
		}
	}
	for i := range e.Ev.Data {
		if g.Event.Data[i] != e.Ev.Data[i] {
			return false
		}
	}
	return true
}

func equalLists(got []blockchain.FilteredEvent, exp []*refEvent) bool {
	if len(got) != len(exp) {
		return false
	}
	for i := range got {
		if !sameEvent(&got[i], exp[i]) {
			return false
		}
	}
	return true
}

func gotStrings(got []blockchain.FilteredEvent) []string {
	out := []string{}
	for i := range got {
		g := &got[i]
		bh, th := "nil", "nil"
		if g.BlockHash != nil {
			bh = g.BlockHash.String()
		}
		if g.TransactionHash != nil {
			th = g.TransactionHash.String()
		}
		out = append(out, fmt.Sprintf("b%d/tx%d/ev%d block=%.12s tx=%.12s", g.BlockNumber, g.TransactionIndex, g.EventIndex, bh, th))
	}
	return out
}

func expStrings(exp []*refEvent) []string {
	out := []string{}
	for _, e := range exp {
		out = append(out, fmt.Sprintf("b%d/tx%d/ev%d block=%.12s tx=%.12s", e.Block, e.TxIndex, e.EvIndex, e.Hash.String(), e.TxHash.String()))
	}
	return out
}

// classify names how got differs from exp; for a missing event it also returns its block.
func classify(got []blockchain.FilteredEvent, exp []*refEvent) (kind string, block uint64) {
	id := func(b uint64, t, e uint) string { return fmt.Sprintf("%d/%d/%d", b, t, e) }
	gm := map[string]int{}
	for i := range got {
		gm[id(got[i].BlockNumber, got[i].TransactionIndex, got[i].EventIndex)]++
	}
	em := map[string]bool{}
	for _, e := range exp {
		k := id(e.Block, e.TxIndex, e.EvIndex)
		em[k] = true
		if gm[k] == 0 {
			return "event-missing", e.Block
		}
	}
	for k, c := range gm {
		if !em[k] {
			return "event-extra", 0
		}
		if c > 1 {
			return "event-duplicated", 0
		}
	}
	for i := range got {
		if i < len(exp) && id(got[i].BlockNumber, got[i].TransactionIndex, got[i].EventIndex) != id(exp[i].Block, exp[i].TxIndex, exp[i].EvIndex) {
			return "wrong-order", 0
		}
	}
	return "wrong-tags", 0
}

// queryFinds: does the unpaged, unlimited query on bc return exactly exp?
func queryFinds(bc *blockchain.Blockchain, f *filter, from, to uint64, exp []*refEvent) bool {
	efI, err := bc.EventFilter(f.addrs, f.keys, noPreConfirmed)
	if err != nil {
		return false
	}
	ef := efI.(*blockchain.EventFilter)
	ef.SetRangeEndBlockByNumber(blockchain.EventFilterFrom, from)
	ef.SetRangeEndBlockByNumber(blockchain.EventFilterTo, to)
	var res pagedResult
	if p, _ := ev.Guard(func() { res = runPaged(ef, 100) }); p {
		return false
	}
	return res.err == "" && equalLists(res.evs, exp)
}

func limitName(l uint) string {
	if l == 0 {
		return "unlimited"
	}
	return fmt.Sprint(l)
}

// checkState runs the whole query grid on the live node n (reached by path from its base).
func (h *harness) checkState(n *node, path []op, label string) {
	r := h.r
	if len(n.chain) == 0 {
		// no block: EventFilter must refuse (no chain height), not panic
		var err error
		if p, msg := ev.Guard(func() { _, err = n.bc.EventFilter(nil, nil, noPreConfirmed) }); p {
			r.Violate("event-filter-panics on empty chain", map[string]any{"base": label, "path": pathString(path), "panic": msg})
		} else if err == nil {
			r.Outcome("empty-chain: filter created")
		} else {
			r.Outcome("empty-chain: " + err.Error())
		}
		return
	}
	head := uint64(len(n.chain) - 1)
	ends := endpoints(head)
	all := allEvents(n.chain)
	backend := hist.Backend(n.b.newState)
	var q, pg, ne int64
	for fi := range h.filters {
		f := &h.filters[fi]
		efI, err := n.bc.EventFilter(f.addrs, f.keys, noPreConfirmed)
		if err != nil {
			r.Violate("event-filter-error"+backend, map[string]any{"base": label, "path": pathString(path), "err": err.Error()})
			return
		}
		ef := efI.(*blockchain.EventFilter)
		for _, from := range ends {
			for _, to := range ends {
				if from > to && !(to == 0 || from == head+1) {
					continue // inverted ranges: only a few representatives
				}
				ef.SetRangeEndBlockByNumber(blockchain.EventFilterFrom, from)
				ef.SetRangeEndBlockByNumber(blockchain.EventFilterTo, to)
				exp := naive(all, f, from, to, true)
				if f.trailingEmpty && len(naive(all, f, from, to, false)) != len(exp) {
					r.Outcome("trailing-wildcard-excludes-shorter-event (tolerated: oracle follows juno's reading)")
				}
				if len(exp) > 0 {
					ne++
				}
				baseOK := true // did the unpaged, unlimited query of this (filter, range) agree?
				for _, lim := range scanLimits {
					if lim != 0 && f.wildcard && to > from && to-from > longRange {
						// a scan limit of 1 or 2 on a fully wildcard filter costs one page per block of
						// the range (every block is a candidate): only short ranges get it
						continue
					}
					if lim == 0 {
						ef.WithLimit(math.MaxUint)
					} else {
						ef.WithLimit(lim)
					}
					for _, chunk := range chunkSizes {
						if f.wildcard && to > from && to-from > longRange && !(f.keys == nil && (chunk == 100 || (chunk == 1 && to == head))) {
							// every block of a long range is a candidate of a wildcard filter (one store
							// read each, ~8192 per query): only the pattern-less filter scans long ranges,
							// unpaged for every range and with chunk 1 up to the head
							continue
						}
						q++
						var res pagedResult
						if p, msg := ev.Guard(func() { res = runPaged(ef, chunk) }); p {
							res.err = "panic: " + msg
						}
						pg += int64(res.pages)
						if res.err == "" && equalLists(res.evs, exp) {
							continue
						}
						if lim == 0 && chunk == 100 {
							baseOK = false
						}
						h.report(n, path, label, f, from, to, chunk, lim, res, exp, baseOK)
					}
				}
			}
		}
	}
	h.queries.Add(q)
	h.pages.Add(pg)
	h.nonEmpty.Add(ne)
	r.Outcome(fmt.Sprintf("state with %d events in chain", len(all)))
}

func (h *harness) report(n *node, path []op, label string, f *filter, from, to, chunk uint64, lim uint, res pagedResult, exp []*refEvent, baseOK bool) {
	r := h.r
	backend := hist.Backend(n.b.newState) + n.ctx + faultTag(path)
	detail := map[string]any{"base": label, "path": pathString(path), "filter": f.name, "from": from, "to": to, "chunk": chunk, "scan_limit": limitName(lim),
		"head": len(n.chain) - 1, "expected": expStrings(exp), "got": gotStrings(res.evs)}
	if res.err != "" {
		detail["err"] = res.err
		kind := res.err
		if i := strings.Index(kind, ":"); i > 0 {
			kind = kind[:i]
		}
		if strings.HasPrefix(kind, "page of") {
			kind = "page exceeds chunk size"
		}
		r.Outcome("query-fails")
		r.Violate("query-fails ("+kind+")"+backend, detail)
		return
	}
	kind, blk := classify(res.evs, exp)
	r.Outcome(kind)
	if kind == "event-missing" {
		head := uint64(len(n.chain) - 1)
		runningStart := ((head + 1) / core.NumBlocksPerFilter) * core.NumBlocksPerFilter
		window := "completed-window"
		if blk >= runningStart {
			window = "running-window"
		}
		detail["missing_block"] = blk
		if baseOK {
			// the unpaged, unlimited query of the same (state, filter, range) is right: paging defect
			r.Violate("paging-only event-missing (unpaged unlimited query of the same state is right)"+backend, detail)
			return
		}
		// Diagnosis, part of the key so that defect classes stay apart:
		// (1) does the omission survive a process restart (persisted index state) or not (in-memory)?
		if n.diag == nil {
			n.diag = chain.NewNode(fastCopy(n.pre), n.b.newState)
		}
		persist := "until-restart(in-memory index)"
		if !queryFinds(n.diag, f, from, to, exp) {
			persist = "survives-restart(persisted index)"
		}
		// (2) is the block also missed when asked for alone (index entry of the block is wrong) or only
		// inside the wider range (iteration over windows / ranges is wrong)?
		scope := "also-for-single-block-range"
		if queryFinds(n.bc, f, blk, blk, naive(allEvents(n.chain), f, blk, blk, true)) {
			scope = "range-dependent"
		}
		// (3) did the history replace blocks? (a stale index entry needs a reorg)
		reorg := "no-reorg-in-history"
		for _, o := range path {
			if o == opRevert && n.ctx == "" {
				reorg = "after-reorg"
			}
		}
		r.Violate(fmt.Sprintf("event-missing block-in-%s %s %s %s%s", window, persist, scope, reorg, backend), detail)
		return
	}
	if !baseOK {
		r.Violate(fmt.Sprintf("%s%s", kind, backend), detail)
		return
	}
	r.Violate(fmt.Sprintf("paging-only %s (unpaged unlimited query of the same state is right)%s", kind, backend), detail)
}
