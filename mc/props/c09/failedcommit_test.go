package c09

// DESIGN §6 item 2, third suspect: "insert / onReorg mutate the in-memory window before the batch
// commits". Enumerated here: base image x op in {store:X, store:Y, revert} x k (the k-th durable commit of
// that op returns an error and applies nothing, via verif/mc/faultdb) on ONE long-lived node; the op must
// fail, the chain is unchanged, and the same node must still answer the whole query grid exactly; then the
// op is retried (must succeed) and the grid is run again.

import (
	"fmt"
	"maps"
	"strings"

	"verif/mc/chain"
	"verif/mc/faultdb"
	"verif/mc/hist"
)

func (h *harness) failedCommitSweep(b *base) (cases int64) {
	r := h.r
	label := b.name + hist.Backend(b.newState)
	for _, o := range []op{opStoreX, opStoreY, opRevert} {
		for k := 1; k <= 8; k++ {
			inner := fastCopy(b.img)
			fdb := faultdb.Wrap(inner)
			n := &node{b: b, db: inner, bc: chain.NewNode(fdb, b.newState), chain: append([]*chain.Entry{}, b.chain...)}
			if !n.enabled(o) {
				break
			}
			// a node that has been running: its running filter is initialised (the snapshot write is
			// also what a periodic/graceful flush does; it is not the commit that fails). On the "-nosnap" bases no
			// snapshot is ever written: the node was started on an image without one and initialises its running
			// filter lazily from the persisted windows + blocks, and so does the rebuild after the failed commit.
			if err := b.initFilter(n.bc); err != nil {
				r.Infra("failed-commit sweep: init on %s: %v", label, err)
			}
			c0 := fdb.Commits()
			fdb.FailAt(c0+k, nil)
			err := n.apply(o)
			if fdb.Commits() < c0+k {
				break // the op has fewer than k commits
			}
			cases++
			n.ctx = fmt.Sprintf(" [same node after commit #%d of %s failed]", k, opKind(o))
			if err == nil {
				r.Outcome("op reports success although one of its commits failed")
				continue
			}
			r.Outcome("op fails cleanly on injected commit error")
			n.pre = maps.Clone(inner.Impl().(map[string][]byte))
			h.checkState(n, []op{o}, label)
			// the process dies instead of retrying: a new node on the image as the failed commit left it (= a crash
			// right before commit k, after the op's earlier commits) answers the grid and can perform the op
			{
				cd := fastCopy(inner.Impl().(map[string][]byte))
				m := &node{b: b, db: cd, bc: chain.NewNode(cd, b.newState), chain: append([]*chain.Entry{}, n.chain...)}
				m.ctx = fmt.Sprintf(" [crash before commit #%d of %s, restarted]", k, opKind(o))
				m.pre = maps.Clone(cd.Impl().(map[string][]byte))
				h.checkState(m, []op{o, opRestartU}, label)
				if err := m.apply(o); err != nil {
					r.Violate("op-fails after a crash inside "+opKind(o)+hist.Backend(b.newState),
						map[string]any{"base": label, "op": opNames[o], "crash_before_commit": k, "err": err.Error()})
				} else {
					m.pre = maps.Clone(cd.Impl().(map[string][]byte))
					m.diag = nil
					m.ctx = fmt.Sprintf(" [crash before commit #%d of %s, restarted, op redone]", k, opKind(o))
					h.checkState(m, []op{o, opRestartU, o}, label)
				}
				cases++
			}
			if err := n.apply(o); err != nil {
				r.Violate("retry-fails after failed commit of "+opKind(o)+hist.Backend(b.newState),
					map[string]any{"base": label, "op": opNames[o], "failed_commit": k, "err": err.Error()})
				continue
			}
			n.ctx = fmt.Sprintf(" [same node after commit #%d of %s failed, then retried]", k, opKind(o))
			n.pre = maps.Clone(inner.Impl().(map[string][]byte))
			n.diag = nil
			h.checkState(n, []op{o}, label)
			// The node keeps living: every continuation of up to two further ops, then an ungraceful restart
			// (whatever the failed attempt left behind in memory or in the store must not survive the process).
			cont := []op{opStoreX, opStoreY, opRevert}
			if r.Thorough() {
				cont = []op{opStoreX, opStoreY, opStoreZ, opRevert, opRestartG}
			}
			var tails [][]op
			for _, a := range cont {
				tails = append(tails, []op{a})
				for _, b := range cont {
					tails = append(tails, []op{a, b})
				}
			}
			retried := maps.Clone(inner.Impl().(map[string][]byte))
			retriedChain := append([]*chain.Entry{}, n.chain...)
			for _, tail := range tails {
				// rebuild the same history on a fresh store copy (the live node's index objects cannot be cloned)
				m := h.afterFailedCommit(b, o, k)
				if m == nil {
					r.Infra("failed-commit sweep: history %s k=%d did not reproduce on %s", opNames[o], k, label)
					break
				}
				if imageSum(m.db.Impl().(map[string][]byte)) != imageSum(retried) || len(m.chain) != len(retriedChain) {
					r.Infra("failed-commit sweep: replay of %s k=%d on %s reached another store image", opNames[o], k, label)
					break
				}
				okTail := true
				for _, t := range tail {
					if !m.enabled(t) || m.apply(t) != nil {
						okTail = false
						break
					}
				}
				if !okTail {
					continue
				}
				if err := m.apply(opRestartU); err != nil {
					continue
				}
				cases++
				m.ctx = fmt.Sprintf(" [commit #%d of %s failed, retried, continued, ungraceful restart]", k, opKind(o))
				m.pre = maps.Clone(m.db.Impl().(map[string][]byte))
				h.checkState(m, append(append([]op{o}, tail...), opRestartU), label)
			}
		}
	}
	return
}

// afterFailedCommit rebuilds: initialised long-lived node, the k-th commit of op o fails, o retried successfully.
func (h *harness) afterFailedCommit(b *base, o op, k int) *node {
	inner := fastCopy(b.img)
	fdb := faultdb.Wrap(inner)
	n := &node{b: b, db: inner, bc: chain.NewNode(fdb, b.newState), chain: append([]*chain.Entry{}, b.chain...)}
	if err := b.initFilter(n.bc); err != nil {
		return nil
	}
	fdb.FailAt(fdb.Commits()+k, nil)
	if err := n.apply(o); err == nil {
		return nil
	}
	if err := n.apply(o); err != nil {
		return nil
	}
	return n
}

func opKind(o op) string {
	if o == opRevert {
		return "revert"
	}
	return "store"
}

func (b *base) initFilter(bc interface{ WriteRunningEventFilter() error }) error {
	if strings.HasSuffix(b.name, "-nosnap") {
		return nil
	}
	return bc.WriteRunningEventFilter()
}
