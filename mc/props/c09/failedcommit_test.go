package c09

// DESIGN §6 item 2, third suspect: "insert / onReorg mutate the in-memory window before the batch
// commits". Enumerated here: base image x op in {store:X, store:Y, revert} x k (the k-th durable commit of
// that op returns an error and applies nothing, via verif/mc/faultdb) on ONE long-lived node; the op must
// fail, the chain is unchanged, and the same node must still answer the whole query grid exactly; then the
// op is retried (must succeed) and the grid is run again.

import (
	"fmt"
	"maps"

	"verif/mc/chain"
	"verif/mc/faultdb"
	"verif/mc/hist"
)

func (h *harness) failedCommitSweep(b *base) (cases int64) {
	r := h.r
	label := b.name + hist.Backend(b.newState)
	for _, o := range []op{opStoreX, opStoreY, opRevert} {
		for k := 1; k <= 8; k++ {
			inner := fastCopy(b.img)
			fdb := faultdb.Wrap(inner)
			n := &node{b: b, db: inner, bc: chain.NewNode(fdb, b.newState), chain: append([]*chain.Entry{}, b.chain...)}
			if !n.enabled(o) {
				break
			}
			// a node that has been running: its running filter is initialised (the snapshot write is
			// also what a periodic/graceful flush does; it is not the commit that fails)
			if err := n.bc.WriteRunningEventFilter(); err != nil {
				r.Infra("failed-commit sweep: init on %s: %v", label, err)
			}
			c0 := fdb.Commits()
			fdb.FailAt(c0+k, nil)
			err := n.apply(o)
			if fdb.Commits() < c0+k {
				break // the op has fewer than k commits
			}
			cases++
			n.ctx = fmt.Sprintf(" [same node after commit #%d of %s failed]", k, opKind(o))
			if err == nil {
				r.Outcome("op reports success although one of its commits failed")
				continue
			}
			r.Outcome("op fails cleanly on injected commit error")
			n.pre = maps.Clone(inner.Impl().(map[string][]byte))
			h.checkState(n, []op{o}, label)
			if err := n.apply(o); err != nil {
				r.Violate("retry-fails after failed commit of "+opKind(o)+hist.Backend(b.newState),
					map[string]any{"base": label, "op": opNames[o], "failed_commit": k, "err": err.Error()})
				continue
			}
			n.ctx = fmt.Sprintf(" [same node after commit #%d of %s failed, then retried]", k, opKind(o))
			n.pre = maps.Clone(inner.Impl().(map[string][]byte))
			n.diag = nil
			h.checkState(n, []op{o}, label)
		}
	}
	return
}

func opKind(o op) string {
	if o == opRevert {
		return "revert"
	}
	return "store"
}
