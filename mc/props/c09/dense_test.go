package c09

// Dense blocks: the searched histories use four small event layouts (a handful of bloom bits per block). A block with
// hundreds or thousands of distinct emitters / keys sets a large part of the 8192-bit block bloom - from a quarter of
// the bits to nearly all of them - and the per-block bloom is rotated, set bit by set bit, into the aggregated window
// index. Enumerated here, on both state backends: chains [empty, dense(n1), X, dense(n2), Y] for every pair of a list of
// densities, on one long-lived node, after a graceful and after an ungraceful restart; for EVERY event of the dense blocks
// one query by its key and one by its emitter (so every set bit position is exercised), each paged with chunk 1 and
// unpaged, compared with the naive scan of the reference receipts.

import (
	"fmt"

	"verif/mc/chain"
	"verif/mc/ev"
	"verif/mc/hist"

	"github.com/NethermindEth/juno/blockchain"
	"github.com/NethermindEth/juno/core/felt"
	"github.com/NethermindEth/juno/db/memory"
)

func denseSpec(n uint64, events int, salt uint64) chain.BlockSpec {
	sp := chain.BlockSpec{Version: version, Timestamp: 1000 + n*10}
	// several transactions so that the events are spread over receipts (100 per transaction)
	for t := 0; t*100 < events; t++ {
		tx := chain.TxSpec{Kind: "invoke3", Salt: n*16 + uint64(t) + salt*1000}
		for i := t * 100; i < events && i < (t+1)*100; i++ {
			from := chain.FV(0xD0000000 + salt*0x100000 + uint64(i))
			key := chain.FV(0xE0000000 + salt*0x100000 + uint64(i))
			tx.Events = append(tx.Events, chain.EvSpec{From: from, Keys: []felt.Felt{key}, Data: []felt.Felt{chain.FV(uint64(i))}})
		}
		sp.Txs = append(sp.Txs, tx)
	}
	return sp
}

// wideSpec: one event with 70 keys (key positions 64 and above need a two-byte position prefix in the bloom entries).
func wideSpec(n uint64) chain.BlockSpec {
	sp := chain.BlockSpec{Version: version, Timestamp: 1000 + n*10}
	var keys []felt.Felt
	for i := 0; i < 70; i++ {
		keys = append(keys, chain.FV(0xF0000000+uint64(i)))
	}
	sp.Txs = []chain.TxSpec{{Kind: "invoke3", Salt: n*16 + 9, Events: []chain.EvSpec{{From: chain.AddrA, Keys: keys, Data: []felt.Felt{chain.FV(n)}}}}}
	return sp
}

func (h *harness) denseSweep(newState bool) (queries int64) {
	r := h.r
	be := hist.Backend(newState)
	densities := ev.Pick(r, []int{700, 2500}, []int{100, 300, 500, 700, 1500, 2500, 6000})
	for _, n1 := range densities {
		for _, n2 := range densities {
			if r.Quick() && n1 >= n2 {
				continue // quick: one chain (700 then 2500 events); thorough: every ordered pair
			}
			d := memory.New()
			bc := chain.NewNode(d, newState)
			var ch []*chain.Entry
			add := func(sp chain.BlockSpec) bool {
				var p *chain.Entry
				if len(ch) > 0 {
					p = ch[len(ch)-1]
				}
				e, err := chain.Build(p, sp)
				if err != nil {
					r.Infra("dense sweep: build: %v", err)
					return false
				}
				if err := chain.StoreSync(bc, e.Fresh(p)); err != nil {
					r.Violate("dense: store-fails"+be, map[string]any{"block": e.Block.Number, "events": len(refEventsOf(e)), "err": err.Error()})
					return false
				}
				ch = append(ch, e)
				return true
			}
			ok := add(specOf(0, shEmpty)) && add(denseSpec(1, n1, 1)) && add(specOf(2, shX)) && add(denseSpec(3, n2, 2)) && add(specOf(4, shY)) && add(wideSpec(5))
			if !ok {
				continue
			}
			all := allEvents(ch)
			head := uint64(len(ch) - 1)
			check := func(stage string, node *blockchain.Blockchain, step int) {
				for i, e := range all {
					if e.Block != 1 && e.Block != 3 {
						continue
					}
					if i%step != 0 {
						continue
					}
					for _, f := range []filter{
						{name: "key of one dense event", keys: [][]felt.Felt{{e.Ev.Keys[0]}}},
						{name: "emitter of one dense event", addrs: []felt.Address{felt.Address(*e.Ev.From)}},
					} {
						f := f
						efI, err := node.EventFilter(f.addrs, f.keys, noPreConfirmed)
						if err != nil {
							r.Violate("dense: event-filter-error"+be, map[string]any{"err": err.Error()})
							return
						}
						ef := efI.(*blockchain.EventFilter)
						ef.SetRangeEndBlockByNumber(blockchain.EventFilterFrom, 0)
						ef.SetRangeEndBlockByNumber(blockchain.EventFilterTo, head)
						exp := naive(all, &f, 0, head, true)
						for _, chunk := range ev.Pick(r, []uint64{100}, []uint64{1, 100}) {
							queries++
							var res pagedResult
							if p, msg := ev.Guard(func() { res = runPaged(ef, chunk) }); p {
								res.err = "panic: " + msg
							}
							if res.err == "" && equalLists(res.evs, exp) {
								continue
							}
							kind, blk := classify(res.evs, exp)
							r.Violate(fmt.Sprintf("dense: %s (%s) %s%s", kind, f.name, stage, be), map[string]any{
								"events_in_block_1": n1, "events_in_block_3": n2, "event_block": e.Block, "event_index_in_chain": i, "first_difference_at_block": blk,
								"chunk": chunk, "got": gotStrings(res.evs), "expected": expStrings(exp), "error": res.err})
						}
						ef.Close()
					}
				}
			}
			// one constrained key position at a time, up to position 69 of the 70-key event of block 5
			wide := func(stage string, node *blockchain.Blockchain) {
				for _, pos := range []int{0, 1, 31, 62, 63, 64, 65, 69} {
					pat := make([][]felt.Felt, pos+1)
					pat[pos] = []felt.Felt{chain.FV(0xF0000000 + uint64(pos))}
					f := filter{name: fmt.Sprintf("key position %d of a 70-key event", pos), keys: pat}
					efI, err := node.EventFilter(nil, f.keys, noPreConfirmed)
					if err != nil {
						r.Violate("dense: event-filter-error"+be, map[string]any{"err": err.Error()})
						return
					}
					ef := efI.(*blockchain.EventFilter)
					ef.SetRangeEndBlockByNumber(blockchain.EventFilterFrom, 0)
					ef.SetRangeEndBlockByNumber(blockchain.EventFilterTo, head)
					exp := naive(all, &f, 0, head, true)
					queries++
					var res pagedResult
					if p, msg := ev.Guard(func() { res = runPaged(ef, 100) }); p {
						res.err = "panic: " + msg
					}
					if res.err != "" || !equalLists(res.evs, exp) {
						kind, blk := classify(res.evs, exp)
						r.Violate(fmt.Sprintf("dense: %s (one key position of a 70-key event) %s%s", kind, stage, be), map[string]any{"position": pos, "first_difference_at_block": blk,
							"got": gotStrings(res.evs), "expected": expStrings(exp), "error": res.err})
					}
					ef.Close()
				}
			}
			wide("long-lived node", bc)
			check("long-lived node", bc, 1)
			if err := bc.WriteRunningEventFilter(); err != nil {
				r.Infra("dense sweep: snapshot: %v", err)
			}
			gr := chain.NewNode(d, newState)
			wide("after graceful restart", gr)
			check("after graceful restart", gr, 7)
			// ungraceful: the snapshot is removed (as if never written) and the index is rebuilt from the blocks
			d2 := memory.New()
			bc2 := chain.NewNode(d2, newState)
			var p *chain.Entry
			for _, e := range ch {
				if err := chain.StoreSync(bc2, e.Fresh(p)); err != nil {
					r.Infra("dense sweep: re-store: %v", err)
				}
				p = e
			}
			ur := chain.NewNode(d2, newState)
			wide("after ungraceful restart", ur)
			check("after ungraceful restart", ur, 7)
		}
	}
	return queries
}
