package c09

// The live node, the op alphabet, replay from a base image and the concrete state key.

import (
	"bytes"
	"crypto/sha256"
	"encoding/binary"
	"encoding/hex"
	"fmt"
	"maps"
	"reflect"
	"sort"
	"strings"
	"unsafe"

	"verif/mc/chain"
	"verif/mc/faultdb"

	"github.com/NethermindEth/juno/blockchain"
	"github.com/NethermindEth/juno/core/felt"
	"github.com/NethermindEth/juno/db"
	"github.com/NethermindEth/juno/db/memory"
	"github.com/cespare/xxhash/v2"
)

// ---- ops --------------------------------------------------------------------------------------

type op uint8

const (
	opStoreX op = iota
	opStoreY
	opStoreZ
	opStoreE // empty block
	opRevert
	opQuery    // one full-range query on the long-lived node: warms the LRU of aggregated filters
	opRestartG // WriteRunningEventFilter (graceful shutdown) then a new Blockchain on the same store
	opRestartU // new Blockchain on the same store, snapshot NOT written

	// Fault ops: the operation FAILS (juno returns an error), the canonical chain is unchanged, and the node
	// KEEPS RUNNING - no restart and no revert follows unless the history says so. They may stand at any
	// position of a history (see search: at most maxFaults of them per history, histories that contain one
	// are explored to faultDepth).
	opStoreFail1  // store:X whose 1st durable commit returns an error and applies nothing (verif/mc/faultdb)
	opStoreFail2  // ... whose 2nd durable commit fails (not enabled when the op has a single commit)
	opRevertFail1 // revertHead whose 1st durable commit fails
	opRevertFail2 // ... 2nd
	// rejected blocks: both pass SanityCheckNewHeight (self-consistent hash and commitments) and are refused by Store
	opStoreOrphan  // a valid block X of height head+1 built on a SIBLING of the head (parent does not match the head)
	opStoreBadRoot // the valid next block X offered with a state update whose old root is not the head's state root
	// rejected blocks whose NUMBER is not head+1 (all self-consistent, all refused by Store's succession check before
	// anything is written): what a re-announced head, a stale store task of a cancelled sync stream, a peer on
	// another fork or a peer that is ahead hands to Store. The canonical chain and its events are unchanged.
	opStoreDupHead // the canonical head block offered a second time (number = head)
	opStoreSibHead // a valid SIBLING of the head: same parent, other events (number = head)
	opStoreStale1  // the canonical block head-1 offered again (number = head-1)
	opStoreStale2  // the canonical block head-2 offered again (number = head-2)
	opStoreFuture2 // a valid block of number head+2: the child of a valid block X of number head+1 that was never stored
	opStoreFuture3 // ... of number head+3
)

var opNames = map[op]string{opStoreX: "store:X", opStoreY: "store:Y", opStoreZ: "store:Z", opStoreE: "store:-", opRevert: "revert",
	opQuery: "query", opRestartG: "restart-graceful", opRestartU: "restart-ungraceful",
	opStoreFail1: "store:X!commit#1-fails", opStoreFail2: "store:X!commit#2-fails", opRevertFail1: "revert!commit#1-fails", opRevertFail2: "revert!commit#2-fails",
	opStoreOrphan: "store!orphan-rejected", opStoreBadRoot: "store:X!bad-old-root-rejected",
	opStoreDupHead: "store!head-again(#head)-rejected", opStoreSibHead: "store!sibling-of-head(#head)-rejected",
	opStoreStale1: "store!stale(#head-1)-rejected", opStoreStale2: "store!stale(#head-2)-rejected",
	opStoreFuture2: "store!future(#head+2)-rejected", opStoreFuture3: "store!future(#head+3)-rejected"}

// faultOps in the order they are appended to a search alphabet. The rejected-by-number ops cover the block numbers
// head-1, head (the head itself and a sibling of it) and head+2 in the quick tier; thorough adds head-2 and head+3.
// (head+1 is covered by the orphan / bad-old-root ops.)
var faultOps = []op{opStoreFail1, opStoreFail2, opRevertFail1, opRevertFail2, opStoreOrphan, opStoreBadRoot}

// rejectedByNumberOps: see faultOps.
func rejectedByNumberOps(thorough bool) []op {
	if thorough {
		return []op{opStoreDupHead, opStoreSibHead, opStoreStale1, opStoreStale2, opStoreFuture2, opStoreFuture3}
	}
	return []op{opStoreDupHead, opStoreSibHead, opStoreStale1, opStoreFuture2}
}

func isFault(o op) bool { return o >= opStoreFail1 }

func faults(p []op) (n int) {
	for _, o := range p {
		if isFault(o) {
			n++
		}
	}
	return
}

// faultTag names the kinds of failed operations in a history (part of violation keys).
func faultTag(p []op) string {
	var sc, rc, rj, rjLow, rjHigh bool
	for _, o := range p {
		switch o {
		case opStoreFail1, opStoreFail2:
			sc = true
		case opRevertFail1, opRevertFail2:
			rc = true
		case opStoreOrphan, opStoreBadRoot:
			rj = true
		case opStoreDupHead, opStoreSibHead, opStoreStale1, opStoreStale2:
			rjLow = true
		case opStoreFuture2, opStoreFuture3:
			rjHigh = true
		}
	}
	var k []string
	if sc {
		k = append(k, "failed-store-commit")
	}
	if rc {
		k = append(k, "failed-revert-commit")
	}
	if rj {
		k = append(k, "rejected-block")
	}
	if rjLow {
		k = append(k, "rejected-block(number<=head)")
	}
	if rjHigh {
		k = append(k, "rejected-block(number>head+1)")
	}
	if len(k) == 0 {
		return ""
	}
	return " [node kept running after " + strings.Join(k, "+") + "]"
}

func opShape(o op) int {
	switch o {
	case opStoreX:
		return shX
	case opStoreY:
		return shY
	case opStoreZ:
		return shZ
	case opStoreE:
		return shEmpty
	}
	return -1
}

func pathString(p []op) string {
	s := make([]string, len(p))
	for i, o := range p {
		s[i] = opNames[o]
	}
	return strings.Join(s, " ; ")
}

// ---- base images ------------------------------------------------------------------------------

// A base is a node state reached without enumeration: a real chain stored block by block through the
// sync path by ONE long-lived Blockchain (never restarted, never queried, no snapshot written).
type base struct {
	name     string
	newState bool
	img      map[string][]byte // frozen image; always copied before use
	sum      uint64            // checksum of img at freeze time
	chain    []*chain.Entry
}

// baseShapeAt: the base chains are empty except for a few blocks near the start and near the window
// boundary 8191|8192.
func baseShapeAt(n uint64) int {
	switch n {
	case 1, 8188, 8190:
		return shX
	case 3, 8187, 8191:
		return shY
	case 8186:
		return shZ
	}
	return shEmpty
}

// fastCopy clones a store image sharing the value slices (memory.Database never mutates a stored value in
// place: Put stores a clone, Delete drops the entry); the frozen base images are checksummed before and
// after the run to make sure of that. ~1 ms instead of ~50 ms for a deep copy of the 8192-block image.
func fastCopy(src map[string][]byte) *memory.Database {
	d := memory.New()
	f := reflect.ValueOf(d).Elem().FieldByName("db")
	if !f.IsValid() || f.Type() != reflect.TypeOf(src) {
		panic("INFRA: memory.Database has no field db of type map[string][]byte")
	}
	*(*map[string][]byte)(unsafe.Pointer(f.UnsafeAddr())) = maps.Clone(src)
	return d
}

func imageSum(m map[string][]byte) uint64 {
	var acc uint64
	for k, v := range m {
		d := xxhash.New()
		d.WriteString(k)
		d.Write([]byte{0})
		d.Write(v)
		acc ^= d.Sum64()
	}
	return acc
}

// ---- live node --------------------------------------------------------------------------------

type node struct {
	b     *base
	pre   map[string][]byte      // store image before the check forced the running filter (restart diagnosis)
	ctx   string                 // scenario tag appended to violation keys (failed-commit sweep)
	diag  *blockchain.Blockchain // restarted twin on a copy of pre, built on the first failing query
	db    *memory.Database
	fdb   *faultdb.DB // commit-fault proxy juno writes through (search nodes); nil = juno sits on db directly
	bc    *blockchain.Blockchain
	chain []*chain.Entry
}

// open: juno runs on a faultdb proxy over a private copy of the base image, so that any op of a history can be
// "this commit fails". The proxy is transparent until FailAt is armed.
func (b *base) open() *node {
	d := fastCopy(b.img)
	f := faultdb.Wrap(d)
	return &node{b: b, db: d, fdb: f, bc: chain.NewNode(f, b.newState), chain: append([]*chain.Entry{}, b.chain...)}
}

// store is what a (re)started Blockchain opens.
func (n *node) store() db.KeyValueStore {
	if n.fdb != nil {
		return n.fdb
	}
	return n.db
}

func (n *node) head() *chain.Entry {
	if len(n.chain) == 0 {
		return nil
	}
	return n.chain[len(n.chain)-1]
}

func noPreConfirmed() (blockchain.PreConfirmedReader, error) { return nil, nil }

// enabled: revert and query need a block; commit faults need the proxy.
func (n *node) enabled(o op) bool {
	switch o {
	case opRevert, opQuery:
		return len(n.chain) > 0
	case opRevertFail1, opRevertFail2:
		return len(n.chain) > 0 && n.fdb != nil
	case opStoreFail1, opStoreFail2:
		return n.fdb != nil
	case opStoreDupHead, opStoreSibHead:
		return len(n.chain) >= 1
	case opStoreStale1:
		return len(n.chain) >= 2
	case opStoreStale2:
		return len(n.chain) >= 3
	}
	return true
}

var (
	errDisabled       = fmt.Errorf("op not enabled")
	errFaultSwallowed = fmt.Errorf("op reports success although one of its commits failed")
	errAccepted       = fmt.Errorf("a block that does not connect to the head was accepted")
	errHarnessBlock   = fmt.Errorf("harness block meant to be rejected by Store does not pass the sanity check")
	// the query op of a history returned something else than the naive scan
	errHistoryQueryWrong = fmt.Errorf("query op answered wrongly")
)

var historyQueryFilters = []*filter{
	{name: "addr={} keys=[]", wildcard: true},
	{name: "addr={A,B} keys=[]", addrs: []felt.Address{felt.Address(kA), felt.Address(kB)}},
}

// bogusRoot is a state root no state of this universe has.
var bogusRoot = felt.FromUint64[felt.Felt](0xbad0bad0bad)

// orphan: a valid block X of height head+1 whose parent is a sibling of the head (on an empty store: a block
// number 1). It is what a peer on another fork would send.
func (n *node) orphan() (e, parent *chain.Entry) {
	var grand *chain.Entry
	if len(n.chain) >= 2 {
		grand = n.chain[len(n.chain)-2]
	}
	sib := buildEntry(grand, shZ)
	if h := n.head(); h != nil && sib.Block.Hash.Equal(h.Block.Hash) {
		sib = buildEntry(grand, shEmpty)
	}
	return buildEntry(sib, shX), sib
}

// apply performs one op on the live node. An error is an op failure (reported by the caller).
func (n *node) apply(o op) error {
	switch o {
	case opStoreX, opStoreY, opStoreZ, opStoreE:
		e := buildEntry(n.head(), opShape(o))
		if err := chain.StoreSync(n.bc, e.Fresh(n.head())); err != nil {
			return err
		}
		n.chain = append(n.chain, e)
	case opRevert:
		if err := n.bc.RevertHead(); err != nil {
			return err
		}
		n.chain = n.chain[:len(n.chain)-1]
	case opQuery:
		// two full-range queries (everything; everything emitted by A or B - all events of this universe, but answered
		// through the bloom index). Both load every window of the chain, which is what warms the LRU. Their answers are
		// compared too: this is the only query that sees the node exactly as the history left it (the grid of a state
		// runs after the lazy running filter has been forced).
		for _, f := range historyQueryFilters {
			ef, err := n.bc.EventFilter(f.addrs, f.keys, noPreConfirmed)
			if err != nil {
				return err
			}
			var got []blockchain.FilteredEvent
			var tok *blockchain.ContinuationToken
			for i := 0; i < 1000; i++ {
				evs, next, err := ef.Events(tok, 100)
				if err != nil {
					return err
				}
				got = append(got, evs...)
				if next.IsEmpty() {
					break
				}
				t := next
				tok = &t
			}
			exp := naive(allEvents(n.chain), f, 0, uint64(len(n.chain)-1), true)
			if !equalLists(got, exp) {
				kind, blk := classify(got, exp)
				return fmt.Errorf("%w: filter %s: %s (block %d): got %d events, expected %d", errHistoryQueryWrong, f.name, kind, blk, len(got), len(exp))
			}
		}
	case opRestartG:
		if err := n.bc.WriteRunningEventFilter(); err != nil {
			return err
		}
		n.bc = chain.NewNode(n.store(), n.b.newState)
	case opRestartU:
		n.bc = chain.NewNode(n.store(), n.b.newState)
	case opStoreFail1, opStoreFail2, opRevertFail1, opRevertFail2:
		k, inner := 1, opStoreX
		if o == opStoreFail2 || o == opRevertFail2 {
			k = 2
		}
		if o == opRevertFail1 || o == opRevertFail2 {
			inner = opRevert
		}
		c0 := n.fdb.Commits()
		n.fdb.FailAt(c0+k, nil)
		err := n.apply(inner)
		if n.fdb.Commits() < c0+k {
			return errDisabled // the op has fewer than k commits (it was performed; the caller drops this node)
		}
		if err == nil {
			return errFaultSwallowed
		}
		// juno reported the failure; the reference chain is unchanged (apply appends / truncates only on success)
	case opStoreOrphan:
		e, parent := n.orphan()
		return n.storeRejected(e.Fresh(parent))
	case opStoreBadRoot:
		fe := buildEntry(n.head(), shX).Fresh(n.head())
		su := *fe.SU
		su.OldRoot = &bogusRoot
		fe.SU = &su
		return n.storeRejected(fe)
	case opStoreDupHead, opStoreStale1, opStoreStale2:
		// a canonical block of the node's own chain, rebuilt from its spec (juno never gets the reference copy)
		back := map[op]int{opStoreDupHead: 1, opStoreStale1: 2, opStoreStale2: 3}[o]
		i := len(n.chain) - back
		var parent *chain.Entry
		if i > 0 {
			parent = n.chain[i-1]
		}
		return n.storeRejected(n.chain[i].Fresh(parent))
	case opStoreSibHead:
		var parent *chain.Entry
		if len(n.chain) >= 2 {
			parent = n.chain[len(n.chain)-2]
		}
		// a sibling with events (its bloom is not included in X's or Y's): Z, or Y when the head is that Z
		sib := buildEntry(parent, shZ)
		if sib.Block.Hash.Equal(n.head().Block.Hash) {
			sib = buildEntry(parent, shY)
		}
		return n.storeRejected(sib.Fresh(parent))
	case opStoreFuture2, opStoreFuture3:
		parent := buildEntry(n.head(), shX) // valid next block, never stored
		e := buildEntry(parent, shY)
		if o == opStoreFuture3 {
			parent, e = e, buildEntry(e, shX)
		}
		return n.storeRejected(e.Fresh(parent))
	}
	return nil
}

// storeRejected feeds a block through the sync path; the sanity check must pass (else the harness block is not what
// it claims to be: infrastructure error) and Store must refuse it.
func (n *node) storeRejected(fe *chain.Entry) error {
	cm, err := n.bc.SanityCheckNewHeight(fe.Block, fe.SU, fe.Classes)
	if err != nil {
		return fmt.Errorf("%w: %v", errHarnessBlock, err)
	}
	if err := n.bc.Store(fe.Block, cm, fe.SU, fe.Classes); err == nil {
		return errAccepted
	}
	return nil
}

// replay opens the base and applies the path on one long-lived node (restarts are explicit ops).
// It returns the node, or the index of the failing op and its error.
func (b *base) replay(p []op) (*node, int, error) {
	n := b.open()
	for i, o := range p {
		if !n.enabled(o) {
			return nil, i, errDisabled
		}
		if err := n.apply(o); err != nil {
			return n, i, err
		}
	}
	return n, -1, nil
}

// ---- concrete state key -----------------------------------------------------------------------

// key = (KV image relative to the frozen base image) + (reflective dump of the two live index objects
// of the Blockchain: the running event filter and the LRU cache of aggregated filters). Equal keys =>
// equal store bytes and equal index objects => equal futures for every op and query of this harness.
// (The state-backend object is rebuilt from the store on restart and holds no event-index state.)
func (n *node) key() string { return n.keyExcluding("") }

// queryKey identifies everything an event query can read: the store image WITHOUT the running-filter
// snapshot (only read when a Blockchain initialises its running filter; the caller has forced that
// already) and the two live index objects. States with equal query keys answer every query identically.
func (n *node) queryKey() string { return n.keyExcluding(string(db.RunningEventFilter.Key())) }

func (n *node) keyExcluding(skip string) string {
	h := sha256.New()
	// image diff, order-independent: XOR of per-entry digests
	var acc [16]byte
	cur := n.db.Impl().(map[string][]byte)
	extra := 0
	mix := func(tag byte, k string, v []byte) {
		d := xxhash.New()
		d.Write([]byte{tag})
		d.WriteString(k)
		d.Write([]byte{0})
		d.Write(v)
		a := d.Sum64()
		d.Write([]byte{0x5a})
		c := d.Sum64()
		var x [16]byte
		binary.LittleEndian.PutUint64(x[:8], a)
		binary.LittleEndian.PutUint64(x[8:], c)
		for i := range acc {
			acc[i] ^= x[i]
		}
	}
	for k, v := range cur {
		if k == skip {
			extra++
			continue
		}
		bv, ok := n.b.img[k]
		if !ok {
			extra++
			mix(1, k, v)
		} else if !bytes.Equal(bv, v) {
			mix(2, k, v)
		}
	}
	want := len(n.b.img)
	if _, ok := n.b.img[skip]; ok {
		want--
	}
	if len(cur)-extra != want {
		for k := range n.b.img {
			if _, ok := cur[k]; !ok && k != skip {
				mix(3, k, nil)
			}
		}
	}
	h.Write(acc[:])
	// live objects
	// (one pointer table for both objects: an object reachable from both - e.g. a cached entry that IS the running
	// filter's live window - is part of the state, because later inserts then show through the cache or do not)
	bv := reflect.ValueOf(n.bc).Elem()
	shared := map[unsafe.Pointer]int{}
	for _, fn := range []string{"runningFilter", "cachedFilters"} {
		f := bv.FieldByName(fn)
		if !f.IsValid() {
			panic("INFRA: blockchain.Blockchain has no field " + fn)
		}
		d := &dumper{h: xxhash.New(), seen: shared}
		d.walk(f)
		var x [8]byte
		binary.LittleEndian.PutUint64(x[:], d.h.Sum64())
		h.Write(x[:])
		d.h.Write([]byte{0xa5})
		binary.LittleEndian.PutUint64(x[:], d.h.Sum64())
		h.Write(x[:])
	}
	return hex.EncodeToString(h.Sum(nil)[:16])
}

// dumper: read-only reflective walk (unexported fields included) that hashes values; pointers are
// followed once (cycle-safe, identity replaced by first-visit index); stores, funcs and locks carry no
// index state and are reduced to nil / non-nil.
type dumper struct {
	h    *xxhash.Digest
	seen map[unsafe.Pointer]int
}

func (d *dumper) u64(x uint64) {
	var b [8]byte
	binary.LittleEndian.PutUint64(b[:], x)
	d.h.Write(b[:])
}

func (d *dumper) walk(v reflect.Value) {
	switch v.Kind() {
	case reflect.Bool:
		if v.Bool() {
			d.u64(1)
		} else {
			d.u64(0)
		}
	case reflect.Int, reflect.Int8, reflect.Int16, reflect.Int32, reflect.Int64:
		d.u64(uint64(v.Int()))
	case reflect.Uint, reflect.Uint8, reflect.Uint16, reflect.Uint32, reflect.Uint64, reflect.Uintptr:
		d.u64(v.Uint())
	case reflect.String:
		d.u64(uint64(v.Len()))
		d.h.WriteString(v.String())
	case reflect.Func, reflect.Chan, reflect.UnsafePointer:
		if v.IsNil() {
			d.u64(0)
		} else {
			d.u64(1)
		}
	case reflect.Interface:
		if v.IsNil() {
			d.u64(0)
			return
		}
		e := v.Elem()
		if e.Type() == reflect.TypeOf((*memory.Database)(nil)) || e.Type() == reflect.TypeOf((*faultdb.DB)(nil)) {
			d.u64(2) // the store itself is keyed by its image
			return
		}
		d.h.WriteString(e.Type().String())
		d.walk(e)
	case reflect.Pointer:
		if v.IsNil() {
			d.u64(0)
			return
		}
		if v.Type() == reflect.TypeOf((*memory.Database)(nil)) || v.Type() == reflect.TypeOf((*faultdb.DB)(nil)) {
			d.u64(2) // (the fault proxy holds a commit log and counters, no node state)
			return
		}
		p := v.UnsafePointer()
		if i, ok := d.seen[p]; ok {
			d.u64(uint64(1000 + i))
			return
		}
		d.seen[p] = len(d.seen)
		d.u64(1)
		d.walk(v.Elem())
	case reflect.Struct:
		tn := v.Type().String()
		if tn == "sync.Mutex" || tn == "sync.RWMutex" {
			return
		}
		for i := 0; i < v.NumField(); i++ {
			d.walk(v.Field(i))
		}
	case reflect.Array:
		for i := 0; i < v.Len(); i++ {
			d.walk(v.Index(i))
		}
	case reflect.Slice:
		d.u64(uint64(v.Len()))
		if v.Len() == 0 {
			return
		}
		if k := v.Type().Elem().Kind(); k == reflect.Uint64 {
			d.h.Write(unsafe.Slice((*byte)(v.UnsafePointer()), v.Len()*8))
			return
		} else if k == reflect.Uint8 {
			d.h.Write(unsafe.Slice((*byte)(v.UnsafePointer()), v.Len()))
			return
		}
		for i := 0; i < v.Len(); i++ {
			d.walk(v.Index(i))
		}
	case reflect.Map:
		d.u64(uint64(v.Len()))
		type kv struct {
			k string
			v reflect.Value
		}
		var es []kv
		it := v.MapRange()
		for it.Next() {
			es = append(es, kv{fmt.Sprintf("%v", it.Key()), it.Value()})
		}
		sort.Slice(es, func(i, j int) bool { return es[i].k < es[j].k })
		for _, e := range es {
			d.h.WriteString(e.k)
			d.walk(e.v)
		}
	default:
		panic("INFRA: dumper: unsupported kind " + v.Kind().String() + " in " + v.Type().String())
	}
}
