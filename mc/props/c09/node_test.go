package c09

// The live node, the op alphabet, replay from a base image and the concrete state key.

import (
	"bytes"
	"crypto/sha256"
	"encoding/binary"
	"encoding/hex"
	"fmt"
	"maps"
	"reflect"
	"sort"
	"strings"
	"unsafe"

	"verif/mc/chain"

	"github.com/NethermindEth/juno/blockchain"
	"github.com/NethermindEth/juno/db"
	"github.com/NethermindEth/juno/db/memory"
	"github.com/cespare/xxhash/v2"
)

// ---- ops --------------------------------------------------------------------------------------

type op uint8

const (
	opStoreX op = iota
	opStoreY
	opStoreZ
	opStoreE // empty block
	opRevert
	opQuery    // one full-range query on the long-lived node: warms the LRU of aggregated filters
	opRestartG // WriteRunningEventFilter (graceful shutdown) then a new Blockchain on the same store
	opRestartU // new Blockchain on the same store, snapshot NOT written
)

var opNames = map[op]string{opStoreX: "store:X", opStoreY: "store:Y", opStoreZ: "store:Z", opStoreE: "store:-", opRevert: "revert",
	opQuery: "query", opRestartG: "restart-graceful", opRestartU: "restart-ungraceful"}

func opShape(o op) int {
	switch o {
	case opStoreX:
		return shX
	case opStoreY:
		return shY
	case opStoreZ:
		return shZ
	case opStoreE:
		return shEmpty
	}
	return -1
}

func pathString(p []op) string {
	s := make([]string, len(p))
	for i, o := range p {
		s[i] = opNames[o]
	}
	return strings.Join(s, " ; ")
}

// ---- base images ------------------------------------------------------------------------------

// A base is a node state reached without enumeration: a real chain stored block by block through the
// sync path by ONE long-lived Blockchain (never restarted, never queried, no snapshot written).
type base struct {
	name     string
	newState bool
	img      map[string][]byte // frozen image; always copied before use
	sum      uint64            // checksum of img at freeze time
	chain    []*chain.Entry
}

// baseShapeAt: the base chains are empty except for a few blocks near the start and near the window
// boundary 8191|8192.
func baseShapeAt(n uint64) int {
	switch n {
	case 1, 8188, 8190:
		return shX
	case 3, 8187, 8191:
		return shY
	case 8186:
		return shZ
	}
	return shEmpty
}

// fastCopy clones a store image sharing the value slices (memory.Database never mutates a stored value in
// place: Put stores a clone, Delete drops the entry); the frozen base images are checksummed before and
// after the run to make sure of that. ~1 ms instead of ~50 ms for a deep copy of the 8192-block image.
func fastCopy(src map[string][]byte) *memory.Database {
	d := memory.New()
	f := reflect.ValueOf(d).Elem().FieldByName("db")
	if !f.IsValid() || f.Type() != reflect.TypeOf(src) {
		panic("INFRA: memory.Database has no field db of type map[string][]byte")
	}
	*(*map[string][]byte)(unsafe.Pointer(f.UnsafeAddr())) = maps.Clone(src)
	return d
}

func imageSum(m map[string][]byte) uint64 {
	var acc uint64
	for k, v := range m {
		d := xxhash.New()
		d.WriteString(k)
		d.Write([]byte{0})
		d.Write(v)
		acc ^= d.Sum64()
	}
	return acc
}

// ---- live node --------------------------------------------------------------------------------

type node struct {
	b     *base
	pre   map[string][]byte      // store image before the check forced the running filter (restart diagnosis)
	ctx   string                 // scenario tag appended to violation keys (failed-commit sweep)
	diag  *blockchain.Blockchain // restarted twin on a copy of pre, built on the first failing query
	db    *memory.Database
	bc    *blockchain.Blockchain
	chain []*chain.Entry
}

func (b *base) open() *node {
	d := fastCopy(b.img)
	return &node{b: b, db: d, bc: chain.NewNode(d, b.newState), chain: append([]*chain.Entry{}, b.chain...)}
}

func (n *node) head() *chain.Entry {
	if len(n.chain) == 0 {
		return nil
	}
	return n.chain[len(n.chain)-1]
}

func noPreConfirmed() (blockchain.PreConfirmedReader, error) { return nil, nil }

// enabled: revert and query need a block.
func (n *node) enabled(o op) bool {
	if o == opRevert || o == opQuery {
		return len(n.chain) > 0
	}
	return true
}

// apply performs one op on the live node. An error is an op failure (reported by the caller).
func (n *node) apply(o op) error {
	switch o {
	case opStoreX, opStoreY, opStoreZ, opStoreE:
		e := buildEntry(n.head(), opShape(o))
		if err := chain.StoreSync(n.bc, e.Fresh(n.head())); err != nil {
			return err
		}
		n.chain = append(n.chain, e)
	case opRevert:
		if err := n.bc.RevertHead(); err != nil {
			return err
		}
		n.chain = n.chain[:len(n.chain)-1]
	case opQuery:
		ef, err := n.bc.EventFilter(nil, nil, noPreConfirmed)
		if err != nil {
			return err
		}
		var tok *blockchain.ContinuationToken
		for i := 0; i < 1000; i++ {
			_, next, err := ef.Events(tok, 100)
			if err != nil {
				return err
			}
			if next.IsEmpty() {
				break
			}
			t := next
			tok = &t
		}
	case opRestartG:
		if err := n.bc.WriteRunningEventFilter(); err != nil {
			return err
		}
		n.bc = chain.NewNode(n.db, n.b.newState)
	case opRestartU:
		n.bc = chain.NewNode(n.db, n.b.newState)
	}
	return nil
}

// replay opens the base and applies the path on one long-lived node (restarts are explicit ops).
// It returns the node, or the index of the failing op and its error.
func (b *base) replay(p []op) (*node, int, error) {
	n := b.open()
	for i, o := range p {
		if !n.enabled(o) {
			return nil, i, errDisabled
		}
		if err := n.apply(o); err != nil {
			return n, i, err
		}
	}
	return n, -1, nil
}

var errDisabled = fmt.Errorf("op not enabled")

// ---- concrete state key -----------------------------------------------------------------------

// key = (KV image relative to the frozen base image) + (reflective dump of the two live index objects
// of the Blockchain: the running event filter and the LRU cache of aggregated filters). Equal keys =>
// equal store bytes and equal index objects => equal futures for every op and query of this harness.
// (The state-backend object is rebuilt from the store on restart and holds no event-index state.)
func (n *node) key() string { return n.keyExcluding("") }

// queryKey identifies everything an event query can read: the store image WITHOUT the running-filter
// snapshot (only read when a Blockchain initialises its running filter; the caller has forced that
// already) and the two live index objects. States with equal query keys answer every query identically.
func (n *node) queryKey() string { return n.keyExcluding(string(db.RunningEventFilter.Key())) }

func (n *node) keyExcluding(skip string) string {
	h := sha256.New()
	// image diff, order-independent: XOR of per-entry digests
	var acc [16]byte
	cur := n.db.Impl().(map[string][]byte)
	extra := 0
	mix := func(tag byte, k string, v []byte) {
		d := xxhash.New()
		d.Write([]byte{tag})
		d.WriteString(k)
		d.Write([]byte{0})
		d.Write(v)
		a := d.Sum64()
		d.Write([]byte{0x5a})
		c := d.Sum64()
		var x [16]byte
		binary.LittleEndian.PutUint64(x[:8], a)
		binary.LittleEndian.PutUint64(x[8:], c)
		for i := range acc {
			acc[i] ^= x[i]
		}
	}
	for k, v := range cur {
		if k == skip {
			extra++
			continue
		}
		bv, ok := n.b.img[k]
		if !ok {
			extra++
			mix(1, k, v)
		} else if !bytes.Equal(bv, v) {
			mix(2, k, v)
		}
	}
	want := len(n.b.img)
	if _, ok := n.b.img[skip]; ok {
		want--
	}
	if len(cur)-extra != want {
		for k := range n.b.img {
			if _, ok := cur[k]; !ok && k != skip {
				mix(3, k, nil)
			}
		}
	}
	h.Write(acc[:])
	// live objects
	bv := reflect.ValueOf(n.bc).Elem()
	for _, fn := range []string{"runningFilter", "cachedFilters"} {
		f := bv.FieldByName(fn)
		if !f.IsValid() {
			panic("INFRA: blockchain.Blockchain has no field " + fn)
		}
		d := &dumper{h: xxhash.New(), seen: map[unsafe.Pointer]int{}}
		d.walk(f)
		var x [8]byte
		binary.LittleEndian.PutUint64(x[:], d.h.Sum64())
		h.Write(x[:])
		d.h.Write([]byte{0xa5})
		binary.LittleEndian.PutUint64(x[:], d.h.Sum64())
		h.Write(x[:])
	}
	return hex.EncodeToString(h.Sum(nil)[:16])
}

// dumper: read-only reflective walk (unexported fields included) that hashes values; pointers are
// followed once (cycle-safe, identity replaced by first-visit index); stores, funcs and locks carry no
// index state and are reduced to nil / non-nil.
type dumper struct {
	h    *xxhash.Digest
	seen map[unsafe.Pointer]int
}

func (d *dumper) u64(x uint64) {
	var b [8]byte
	binary.LittleEndian.PutUint64(b[:], x)
	d.h.Write(b[:])
}

func (d *dumper) walk(v reflect.Value) {
	switch v.Kind() {
	case reflect.Bool:
		if v.Bool() {
			d.u64(1)
		} else {
			d.u64(0)
		}
	case reflect.Int, reflect.Int8, reflect.Int16, reflect.Int32, reflect.Int64:
		d.u64(uint64(v.Int()))
	case reflect.Uint, reflect.Uint8, reflect.Uint16, reflect.Uint32, reflect.Uint64, reflect.Uintptr:
		d.u64(v.Uint())
	case reflect.String:
		d.u64(uint64(v.Len()))
		d.h.WriteString(v.String())
	case reflect.Func, reflect.Chan, reflect.UnsafePointer:
		if v.IsNil() {
			d.u64(0)
		} else {
			d.u64(1)
		}
	case reflect.Interface:
		if v.IsNil() {
			d.u64(0)
			return
		}
		e := v.Elem()
		if e.Type() == reflect.TypeOf((*memory.Database)(nil)) {
			d.u64(2) // the store itself is keyed by its image
			return
		}
		d.h.WriteString(e.Type().String())
		d.walk(e)
	case reflect.Pointer:
		if v.IsNil() {
			d.u64(0)
			return
		}
		if v.Type() == reflect.TypeOf((*memory.Database)(nil)) {
			d.u64(2)
			return
		}
		p := v.UnsafePointer()
		if i, ok := d.seen[p]; ok {
			d.u64(uint64(1000 + i))
			return
		}
		d.seen[p] = len(d.seen)
		d.u64(1)
		d.walk(v.Elem())
	case reflect.Struct:
		tn := v.Type().String()
		if tn == "sync.Mutex" || tn == "sync.RWMutex" {
			return
		}
		for i := 0; i < v.NumField(); i++ {
			d.walk(v.Field(i))
		}
	case reflect.Array:
		for i := 0; i < v.Len(); i++ {
			d.walk(v.Index(i))
		}
	case reflect.Slice:
		d.u64(uint64(v.Len()))
		if v.Len() == 0 {
			return
		}
		if k := v.Type().Elem().Kind(); k == reflect.Uint64 {
			d.h.Write(unsafe.Slice((*byte)(v.UnsafePointer()), v.Len()*8))
			return
		} else if k == reflect.Uint8 {
			d.h.Write(unsafe.Slice((*byte)(v.UnsafePointer()), v.Len()))
			return
		}
		for i := 0; i < v.Len(); i++ {
			d.walk(v.Index(i))
		}
	case reflect.Map:
		d.u64(uint64(v.Len()))
		type kv struct {
			k string
			v reflect.Value
		}
		var es []kv
		it := v.MapRange()
		for it.Next() {
			es = append(es, kv{fmt.Sprintf("%v", it.Key()), it.Value()})
		}
		sort.Slice(es, func(i, j int) bool { return es[i].k < es[j].k })
		for _, e := range es {
			d.h.WriteString(e.k)
			d.walk(e.v)
		}
	default:
		panic("INFRA: dumper: unsupported kind " + v.Kind().String() + " in " + v.Type().String())
	}
}
