package c09

// Pre-confirmed inclusion: "(plus pre-confirmed blocks when asked)". A harness PreConfirmedReader holds a
// chain of 1..2 blocks above the canonical head; ranges reaching above the head (explicit numbers or the
// pre_confirmed sentinel at either end) must return canonical events followed by the pre-confirmed ones.

import (
	"fmt"
	"iter"
	"math"

	"verif/mc/chain"
	"verif/mc/ev"
	"verif/mc/hist"

	"github.com/NethermindEth/juno/blockchain"
	"github.com/NethermindEth/juno/core/pending"
)

type pcChain struct{ blocks []*pending.PreConfirmed } // oldest first

func (p *pcChain) Length() int                 { return len(p.blocks) }
func (p *pcChain) Head() *pending.PreConfirmed { return p.blocks[len(p.blocks)-1] }
func (p *pcChain) OldestFirst() iter.Seq[*pending.PreConfirmed] {
	return func(yield func(*pending.PreConfirmed) bool) {
		for _, b := range p.blocks {
			if !yield(b) {
				return
			}
		}
	}
}

var pcLayouts = [][]int{{shY}, {shX, shZ}, {shEmpty, shY}}

func (h *harness) checkPreConfirmed(n *node, path []op, label string) {
	r := h.r
	if len(n.chain) == 0 {
		return
	}
	head := uint64(len(n.chain) - 1)
	backend := hist.Backend(n.b.newState)
	canon := allEvents(n.chain)
	const sentinel = blockchain.PreConfirmedFilterSentinel
	var q, pg int64
	for li, lay := range pcLayouts {
		pc := &pcChain{}
		var pcEvents []*refEvent
		parent := n.head()
		for _, sh := range lay {
			e := buildEntry(parent, sh)
			fe := e.Fresh(parent)
			pre := pending.NewPreConfirmed(fe.Block, fe.SU, nil, "")
			pc.blocks = append(pc.blocks, &pre)
			pcEvents = append(pcEvents, refEventsOf(e)...)
			parent = e
		}
		tip := head + uint64(len(lay))
		all := append(append([]*refEvent{}, canon...), pcEvents...)
		fn := func() (blockchain.PreConfirmedReader, error) { return pc, nil }
		froms := []uint64{0, head, head + 1, tip, sentinel}
		if head > 0 {
			froms = append(froms, head-1)
		}
		tos := []uint64{head + 1, tip, tip + 1, sentinel}
		for fi := range h.filters {
			f := &h.filters[fi]
			efI, err := n.bc.EventFilter(f.addrs, f.keys, fn)
			if err != nil {
				r.Violate("event-filter-error"+backend, map[string]any{"base": label, "path": pathString(path), "err": err.Error()})
				return
			}
			ef := efI.(*blockchain.EventFilter)
			for _, from := range froms {
				for _, to := range tos {
					if f.wildcard && from+longRange < head && f.keys != nil {
						continue
					}
					lo := from
					if from == sentinel {
						lo = tip // the pre_confirmed tag names the most recent block
					}
					exp := naive(all, f, lo, to, true)
					ef.SetRangeEndBlockByNumber(blockchain.EventFilterFrom, from)
					ef.SetRangeEndBlockByNumber(blockchain.EventFilterTo, to)
					for _, lim := range []uint{0, 1} {
						if lim == 0 {
							ef.WithLimit(math.MaxUint)
						} else {
							if f.wildcard && from+longRange < head {
								continue
							}
							ef.WithLimit(lim)
						}
						for _, chunk := range chunkSizes {
							if f.wildcard && from+longRange < head && chunk != 100 {
								continue
							}
							q++
							var res pagedResult
							if p, msg := ev.Guard(func() { res = runPaged(ef, chunk) }); p {
								res.err = "panic: " + msg
							}
							pg += int64(res.pages)
							if res.err == "" && equalLists(res.evs, exp) {
								continue
							}
							kind := "query-fails"
							if res.err == "" {
								kind, _ = classify(res.evs, exp)
							}
							r.Outcome("pre-confirmed " + kind)
							fs, ts := fmt.Sprint(from), fmt.Sprint(to)
							if from == sentinel {
								fs = "pre_confirmed"
							}
							if to == sentinel {
								ts = "pre_confirmed"
							}
							r.Violate(fmt.Sprintf("pre-confirmed %s (from %s head, to %s)%s", kind, rel(from, head, sentinel), rel(to, head, sentinel), backend),
								map[string]any{"base": label, "path": pathString(path), "pre_confirmed_layout": li, "filter": f.name, "from": fs, "to": ts, "head": head,
									"chunk": chunk, "scan_limit": limitName(lim), "err": res.err, "expected": expStrings(exp), "got": gotStrings(res.evs)})
						}
					}
				}
			}
		}
	}
	h.queries.Add(q)
	h.pages.Add(pg)
	h.pcQueries.Add(q)
}

func rel(x, head, sentinel uint64) string {
	switch {
	case x == sentinel:
		return "= tag"
	case x <= head:
		return "<="
	}
	return ">"
}

var _ = chain.Net
