package c09

// Universe of C09: block shapes (event layouts), filters, ranges and the naive reference scan.

import (
	"fmt"
	"sort"
	"strings"
	"sync"

	"verif/mc/chain"

	"github.com/NethermindEth/juno/core"
	"github.com/NethermindEth/juno/core/felt"
)

const version = "0.14.0"

var (
	kA = chain.AddrA
	kB = chain.AddrB
	kC = chain.AddrC // never emits
	k1 = chain.Key1
	k2 = chain.Key2
)

// A shape is the event layout of one block. The layouts are chosen so that their per-block blooms are
// mutually NOT included in one another (X: only A / k1@0; Y: only B / k2@0,k1@1,k2@1): when a reorg
// replaces an X block by a Y block (or vice versa) a stale index entry for the old block cannot cover
// the new events by accident, so a missed invalidation becomes a visible false negative.
type shape struct {
	name string
	txs  [][][]felt.Felt // tx -> event -> [from, keys...]
	kind []string
}

var shapes = []shape{
	{name: "-"}, // no transactions at all
	{name: "X", kind: []string{"invoke3"}, txs: [][][]felt.Felt{{{kA, k1}}}},
	{name: "Y", kind: []string{"invoke1", "l1handler0", "invoke0"}, txs: [][][]felt.Felt{
		{{kB, k2}, {kB, k2, k1}}, // two events in one tx
		{},                       // a tx without events in the middle
		{{kB, k2, k2}, {kB, k2}},
	}},
	{name: "Z", kind: []string{"invoke0", "invoke3", "invoke1"}, txs: [][][]felt.Felt{
		{},                                 // leading tx without events
		{{kA}, {kA, k1, k2, k1}, {kB, k1}}, // an event with no keys, one with three keys
		{{kA, k2, k1}},
	}},
}

const (
	shEmpty = 0
	shX     = 1
	shY     = 2
	shZ     = 3
)

func specOf(n uint64, sh int) chain.BlockSpec {
	s := shapes[sh]
	sp := chain.BlockSpec{Version: version, Timestamp: 1000 + n*10}
	for ti, evs := range s.txs {
		tx := chain.TxSpec{Kind: s.kind[ti], Salt: n*16 + uint64(sh)*4 + uint64(ti)}
		for ei, e := range evs {
			tx.Events = append(tx.Events, chain.EvSpec{From: e[0], Keys: append([]felt.Felt{}, e[1:]...),
				Data: []felt.Felt{chain.FV(n), chain.FV(uint64(ti*8 + ei))}})
		}
		sp.Txs = append(sp.Txs, tx)
	}
	return sp
}

// entries are memoised by (parent hash, number, shape): the same block is the same *Entry everywhere.
var (
	entMu   sync.Mutex
	entMemo = map[string]*chain.Entry{}
)

func buildEntry(parent *chain.Entry, sh int) *chain.Entry {
	var n uint64
	pk := "genesis"
	if parent != nil {
		n = parent.Block.Number + 1
		pk = parent.Block.Hash.String()
	}
	key := fmt.Sprintf("%s/%d/%d", pk, n, sh)
	entMu.Lock()
	e := entMemo[key]
	entMu.Unlock()
	if e != nil {
		return e
	}
	e, err := chain.Build(parent, specOf(n, sh))
	if err != nil {
		panic(err)
	}
	entMu.Lock()
	entMemo[key] = e
	entMu.Unlock()
	return e
}

// ---- reference events -------------------------------------------------------------------------

type refEvent struct {
	Block   uint64
	Hash    *felt.Felt
	TxHash  *felt.Felt
	TxIndex uint
	EvIndex uint
	Ev      *core.Event
}

func (e *refEvent) String() string {
	ks := make([]string, len(e.Ev.Keys))
	for i := range e.Ev.Keys {
		ks[i] = e.Ev.Keys[i].String()
	}
	return fmt.Sprintf("b%d/tx%d/ev%d from=%s keys=[%s]", e.Block, e.TxIndex, e.EvIndex, e.Ev.From.String(), strings.Join(ks, ","))
}

var refMemo sync.Map // *chain.Entry -> []*refEvent

// refEventsOf lists the events of one reference block in protocol order, read from the receipts.
func refEventsOf(e *chain.Entry) []*refEvent {
	if v, ok := refMemo.Load(e); ok {
		return v.([]*refEvent)
	}
	out := []*refEvent{}
	for ti, rc := range e.Block.Receipts {
		for ei, evt := range rc.Events {
			out = append(out, &refEvent{Block: e.Block.Number, Hash: e.Block.Hash, TxHash: rc.TransactionHash, TxIndex: uint(ti), EvIndex: uint(ei), Ev: evt})
		}
	}
	refMemo.Store(e, out)
	return out
}

// ---- filters ----------------------------------------------------------------------------------

type filter struct {
	name  string
	addrs []felt.Address
	keys  [][]felt.Felt
	// trailingEmpty: the key pattern ends in an empty position. juno requires an event to have at least
	// as many keys as the pattern has positions even when the trailing positions are wildcards; the
	// property statement does not settle that corner, so the oracle follows juno there (see matches).
	trailingEmpty bool
	wildcard      bool // no address and no key constraint: every block is a candidate
}

func nm(f felt.Felt) string {
	switch f {
	case kA:
		return "A"
	case kB:
		return "B"
	case kC:
		return "C"
	case k1:
		return "k1"
	case k2:
		return "k2"
	}
	return f.String()
}

func allFilters(thorough bool) []filter {
	addrSets := [][]felt.Felt{nil, {kA}, {kB}, {kA, kB}, {kC}}
	pos := [][]felt.Felt{{}, {k1}, {k2}, {k1, k2}}
	var pats [][][]felt.Felt
	pats = append(pats, nil)
	for _, p := range pos {
		pats = append(pats, [][]felt.Felt{p})
	}
	for _, p := range pos {
		for _, q := range pos {
			pats = append(pats, [][]felt.Felt{p, q})
		}
	}
	// three positions: a few (all 64 only matter for the matcher, which is stateless)
	pats = append(pats, [][]felt.Felt{{}, {}, {k1}}, [][]felt.Felt{{k1}, {k2}, {k1}})
	if thorough {
		pats = append(pats, [][]felt.Felt{{}, {k2}, {k1, k2}}, [][]felt.Felt{{k2}, {}, {}})
	}
	var out []filter
	for _, as := range addrSets {
		for pi, pt := range pats {
			if len(as) == 1 && as[0] == kC && pi > 1 {
				continue // the silent address: only with no pattern and with [[]]
			}
			f := filter{}
			var an []string
			for _, a := range as {
				f.addrs = append(f.addrs, felt.Address(a))
				an = append(an, nm(a))
			}
			var pn []string
			for _, p := range pt {
				f.keys = append(f.keys, append([]felt.Felt{}, p...))
				var kn []string
				for _, k := range p {
					kn = append(kn, nm(k))
				}
				pn = append(pn, "["+strings.Join(kn, "|")+"]")
			}
			f.wildcard = len(as) == 0
			for _, p := range pt {
				if len(p) > 0 {
					f.wildcard = false
				}
			}
			f.trailingEmpty = len(pt) > 0 && len(pt[len(pt)-1]) == 0
			f.name = "addr={" + strings.Join(an, ",") + "} keys=[" + strings.Join(pn, ",") + "]"
			out = append(out, f)
		}
	}
	return out
}

// matches is the reference predicate, written from the statement: the event's emitter is in the address
// set (empty set = any) and, for every pattern position i that lists alternatives, the event has an
// i-th key and it is one of them. strictLen adds juno's reading of wildcard positions ("the event has a
// key at every pattern position").
func (f *filter) matches(e *core.Event, strictLen bool) bool {
	if len(f.addrs) > 0 {
		ok := false
		for i := range f.addrs {
			if felt.Felt(f.addrs[i]) == *e.From {
				ok = true
			}
		}
		if !ok {
			return false
		}
	}
	if strictLen && len(e.Keys) < len(f.keys) {
		return false
	}
	for i, alts := range f.keys {
		if len(alts) == 0 {
			continue
		}
		if i >= len(e.Keys) {
			return false
		}
		ok := false
		for _, a := range alts {
			if a == e.Keys[i] {
				ok = true
			}
		}
		if !ok {
			return false
		}
	}
	return true
}

// allEvents lists every event of the reference chain in chain order (the receipts, block by block).
func allEvents(ch []*chain.Entry) []*refEvent {
	out := []*refEvent{}
	for _, e := range ch {
		if len(e.Block.Receipts) > 0 {
			out = append(out, refEventsOf(e)...)
		}
	}
	return out
}

// naive scans the reference events (all, in chain order) for those in [from,to] that match f.
func naive(all []*refEvent, f *filter, from, to uint64, strictLen bool) []*refEvent {
	out := []*refEvent{}
	for _, e := range all {
		if e.Block >= from && e.Block <= to && f.matches(e.Ev, strictLen) {
			out = append(out, e)
		}
	}
	return out
}

// endpoints: the block numbers used as range ends in a state with head h: the chain start, the 8192
// window boundary (both sides), and the last three blocks up to one past the head.
func endpoints(h uint64) []uint64 {
	w := core.NumBlocksPerFilter
	cand := []uint64{0, w - 1, w, h + 1}
	for d := uint64(0); d <= 2; d++ {
		if h >= d {
			cand = append(cand, h-d)
		}
	}
	m := map[uint64]bool{}
	var out []uint64
	for _, c := range cand {
		if c <= h+1 && !m[c] {
			m[c] = true
			out = append(out, c)
		}
	}
	sort.Slice(out, func(i, j int) bool { return out[i] < out[j] })
	return out
}
