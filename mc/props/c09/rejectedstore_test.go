package c09

// Rejected-store sweep: REJECTED stores of every kind on a node that has been running and keeps running.
//
// The search (c09_test.go) has the rejected blocks in its alphabet, but there a history starts on a freshly opened
// node (running filter not yet built) and one failed op leaves room for two more ops in the quick tier. Here the
// enumeration is centred on the rejected store:
//
//	base image x how the node's running filter came to be initialised {flush = snapshot write, query = a full-range
//	query, which also warms the LRU} x rejected block kind {head again, sibling of the head, stale head-1 (head-2),
//	future head+2 (head+3), orphan of head+1, next block with a bad old root} x every tail of <= 2 further ops
//	over {store, revert, graceful restart, query (, store:X, ungraceful restart)}
//
// all on ONE long-lived node. After the tail the state gets the whole query grid of checkState (all address / key
// filters x ranges x chunk sizes x scan limits against the naive scan) unless a state with the same query key (same
// store image, same running filter and LRU objects => same answers) already had it - on a correct juno a rejected
// store leaves nothing behind, so nearly every state of this sweep equals one the search has checked and the sweep
// costs its replays only; whatever a rejected store does leave behind (a cleared or stale column of the running
// window, a moved `next`, a stale cache entry) makes the key new and the grid is run on it.

import (
	"errors"
	"fmt"
	"maps"
	"runtime"
	"strings"
	"sync"

	"verif/mc/ev"
	"verif/mc/hist"
)

type rejStats struct {
	cases    int64            // (base, init, kind, tail) histories replayed to the end
	byKind   map[string]int64 // ... by rejected block kind
	skipped  int64            // histories with an op that is not enabled (no block to revert / no block head-1)
	gridsRun int64            // states whose query key was new: whole grid run
}

func (s *rejStats) add(o rejStats) {
	s.cases += o.cases
	s.skipped += o.skipped
	s.gridsRun += o.gridsRun
	if s.byKind == nil {
		s.byKind = map[string]int64{}
	}
	for k, v := range o.byKind {
		s.byKind[k] += v
	}
}

func rejectedKinds(thorough bool) []op {
	return append(rejectedByNumberOps(thorough), opStoreOrphan, opStoreBadRoot)
}

func rejectedTailLetters(thorough bool) []op {
	if thorough {
		return []op{opStoreX, opStoreY, opRevert, opRestartG, opRestartU, opQuery}
	}
	return []op{opStoreY, opRevert, opRestartG, opQuery}
}

func rejectedTails(thorough bool) [][]op {
	letters := rejectedTailLetters(thorough)
	tails := [][]op{{}}
	for _, a := range letters {
		tails = append(tails, []op{a})
	}
	for _, a := range letters {
		for _, b := range letters {
			tails = append(tails, []op{a, b})
		}
	}
	return tails
}

func (h *harness) rejectedStoreSweep(b *base) rejStats {
	r := h.r
	label := b.name + hist.Backend(b.newState)
	// the "-nosnap" twin of a base differs from it in the snapshot key only, which the query key leaves out: their
	// query keys are comparable
	dedup := strings.TrimSuffix(b.name, "-nosnap") + hist.Backend(b.newState)
	inits := []string{"flush", "query"}
	if strings.HasSuffix(b.name, "-nosnap") {
		inits = []string{"query"} // a node that never writes a snapshot
	}
	type job struct {
		init string
		kind op
		tail []op
	}
	var jobs []job
	for _, in := range inits {
		for _, k := range rejectedKinds(r.Thorough()) {
			for _, t := range rejectedTails(r.Thorough()) {
				jobs = append(jobs, job{in, k, t})
			}
		}
	}
	st := rejStats{byKind: map[string]int64{}}
	var mu sync.Mutex
	ev.Par(len(jobs), runtime.NumCPU(), func(i int) {
		h.sem <- struct{}{}
		defer func() { <-h.sem }()
		j := jobs[i]
		n := b.open()
		var path []op
		fail := func(at op, err error) {
			what := opNames[at]
			if i := strings.Index(what, ":"); i > 0 {
				what = what[:i]
			}
			p := append(append([]op{}, path...), at)
			if errors.Is(err, errHistoryQueryWrong) {
				r.Violate("query-op-of-history wrong (node as the history left it, running filter not forced)"+hist.Backend(b.newState)+faultTag(p),
					map[string]any{"base": label, "init": j.init, "path": pathString(p), "err": err.Error()})
				return
			}
			r.Violate("op-fails "+what+hist.Backend(b.newState)+faultTag(p), map[string]any{"base": label, "init": j.init, "path": pathString(p), "err": err.Error()})
		}
		// the node has been running: its running filter is initialised
		if j.init == "flush" {
			if err := n.bc.WriteRunningEventFilter(); err != nil {
				r.Infra("rejected-store sweep: init on %s: %v", label, err)
			}
		} else {
			if !n.enabled(opQuery) {
				return
			}
			if err := n.apply(opQuery); err != nil {
				fail(opQuery, err)
				return
			}
			path = append(path, opQuery)
		}
		if !n.enabled(j.kind) {
			mu.Lock()
			st.skipped++
			mu.Unlock()
			return
		}
		if err := n.apply(j.kind); err != nil {
			switch {
			case err == errAccepted:
				r.Violate("block that must be rejected was accepted"+hist.Backend(b.newState), map[string]any{"base": label, "path": pathString(append(path, j.kind))})
			case errors.Is(err, errHarnessBlock):
				r.Infra("%s: %s: %v", label, opNames[j.kind], err)
			default:
				fail(j.kind, err)
			}
			return
		}
		path = append(path, j.kind)
		for _, t := range j.tail {
			if !n.enabled(t) {
				mu.Lock()
				st.skipped++
				mu.Unlock()
				return
			}
			if err := n.apply(t); err != nil {
				fail(t, err)
				return
			}
			path = append(path, t)
		}
		r.Outcome("rejected store leaves the node running: " + opNames[j.kind])
		// as visit() of the search: keep the image, force the lazy running filter, key, grid
		n.pre = maps.Clone(n.db.Impl().(map[string][]byte))
		if err := n.bc.WriteRunningEventFilter(); err != nil {
			r.Violate("running-filter-unusable"+hist.Backend(b.newState)+faultTag(path), map[string]any{"base": label, "init": j.init, "path": pathString(path), "err": err.Error()})
			return
		}
		first := h.firstQuery(dedup, n.queryKey())
		mu.Lock()
		st.cases++
		st.byKind[opNames[j.kind]]++
		if first {
			st.gridsRun++
		}
		mu.Unlock()
		if first {
			h.checkState(n, path, fmt.Sprintf("%s (rejected-store sweep, init=%s)", label, j.init))
		}
	})
	return st
}
