package c18

// Which empty blocks may lack a combined entry, and under which key the others are reported.
//
// The one defect of the unchanged tree in this area (known finding "b/unreadable: empty block below the first
// migrated range ...") is precise: a process start begins its pass at the first block that STILL has legacy entries
// (rounded down to the 10-block range), so an empty block below that start is never visited by that run. It may
// only excuse a block that no run of the explored history was obliged to ingest. The obligation is derived from the
// history itself (start images, observed reads, recorded bits), not from a model of the migration's control flow.
// (The property as stated wants EVERY block readable after the upgrade; the floor only delimits what the known finding
// may excuse, it never adds a demand: a run that died abruptly - crash, failed commit, read fault - obliges nothing.)
//
//   - the image a run starts from determines its start range: legacyStart(image);
//   - a run that records the migration as applied (bit 0 clear in its start image, set in the image it produced)
//     finished a pass over [start, tip]: every block in there must have a combined entry in that image and in every
//     image derived from it;
//   - a run that was cancelled gracefully after it had been OBSERVED to ingest every block of [start, tip] (the header
//     of each of them was read through the store) finished its pass too, although the bit is only set by the next
//     start: its last image carries the same obligation.
//
// obligation floor of a state = the lowest start of such a run in its history (len(shape) = none so far). An empty
// block without an entry below the floor keeps the known key; at or above the floor it is a different defect (a range
// the run had to ingest was lost: dropped batch, skipped range, write forgotten) and gets its own key.

import (
	"encoding/binary"
	"errors"
	"fmt"

	"github.com/NethermindEth/juno/core"
	"github.com/NethermindEth/juno/db"
	"github.com/NethermindEth/juno/db/memory"
	"github.com/NethermindEth/juno/migration"
)

const (
	keyNeverVisited = "b/unreadable: empty block below the first migrated range gets no combined entry"
	keyLostInPass   = "b/unreadable: empty block at or above a run's start range gets no combined entry (that run finished its pass / recorded the migration as applied)"
)

// legacyStart: the first block of the 10-block range holding the lowest block that still has entries in one of the
// two legacy buckets; none = len(shape) (nothing left to visit).
func (c *chain) legacyStart(img *memory.Database) int {
	first := uint64(1) << 62
	for k := range img.Impl().(map[string][]byte) {
		if len(k) == 17 && (k[0] == byte(db.TransactionsByBlockNumberAndIndex) || k[0] == byte(db.ReceiptsByBlockNumberAndIndex)) {
			first = min(first, binary.BigEndian.Uint64([]byte(k[1:9])))
		}
	}
	if first >= uint64(len(c.shape)) {
		return len(c.shape)
	}
	return int(first - first%10)
}

func btApplied(img *memory.Database) bool {
	md, err := migration.GetSchemaMetadata(img)
	return err == nil && md.CurrentVersion.Has(0)
}

// missingEmpty: the empty blocks >= lower that the current accessor cannot read (no combined entry), split at the
// obligation floor.
func (c *chain) missingEmpty(r db.KeyValueReader, lower, floor int) (excused, unexcused []int) {
	for b := lower; b < len(c.shape); b++ {
		if c.shape[b] != 0 {
			continue
		}
		if _, err := core.GetTransactionsByBlockNumber(r, uint64(b)); errors.Is(err, db.ErrKeyNotFound) {
			if b < floor {
				excused = append(excused, b)
			} else {
				unexcused = append(unexcused, b)
			}
		}
	}
	return
}

// firstUnexcused is part of a state's identity: two histories reaching the same image are the same state unless one
// of them obliges a block the image lacks (never on the unchanged tree).
func (c *chain) firstUnexcused(img *memory.Database, lower, floor int) int {
	if floor >= len(c.shape) {
		return len(c.shape)
	}
	if _, un := c.missingEmpty(img, max(lower, floor), floor); len(un) > 0 {
		return un[0]
	}
	return len(c.shape)
}

// floorAfter: the obligation floor of an image produced by a run that started from `from` (floor fromFloor, start
// range start): lowered to start when that run recorded the migration as applied or was seen to finish its pass.
func floorAfter(fromFloor, start int, fromApplied bool, produced *memory.Database, passFinished bool) int {
	if fromApplied {
		return fromFloor
	}
	if passFinished || btApplied(produced) {
		return min(fromFloor, start)
	}
	return fromFloor
}

// reportMissing files the two classes under their keys and returns the set of blocks dealt with.
func (bc *bCtx) reportMissing(inv string, sp shapeSpec, trace string, excused, unexcused []int, floor int) map[int]bool {
	if len(excused)+len(unexcused) == 0 {
		return nil
	}
	skip := map[int]bool{}
	for _, b := range excused {
		skip[b] = true
	}
	for _, b := range unexcused {
		skip[b] = true
	}
	fl := any(floor)
	if floor >= len(sp.Shape) {
		fl = "none (no run of this history had legacy entries to start from and completed)"
	}
	if len(excused) > 0 {
		// the two faces of the known finding: below the start range of the ORIGINAL database (no start ever visits them;
		// all of an all-empty chain) / skipped because a resumed start found its first legacy block above them
		if excused[len(excused)-1] < mkChainStart(sp) {
			bc.r.Add("b_never_visited_cases_below_the_original_start_range", 1)
		} else {
			bc.r.Add("b_never_visited_cases_skipped_by_a_resumed_start", 1)
		}
		bc.r.Violate(keyNeverVisited, map[string]any{"shape": sp.Name, "tx_per_block": sp.Shape, "trace": trace, "invariant": inv,
			"first_discrepancy": fmt.Sprintf("block %d: GetTransactionsByBlockNumber: key not found", excused[0]),
			"blocks":            excused, "lowest_block_some_run_had_to_ingest": fl})
	}
	if len(unexcused) > 0 {
		bc.r.Violate(keyLostInPass, map[string]any{"shape": sp.Name, "tx_per_block": sp.Shape, "trace": trace, "invariant": inv,
			"first_discrepancy": fmt.Sprintf("block %d: GetTransactionsByBlockNumber: key not found", unexcused[0]),
			"blocks":            unexcused, "lowest_block_some_run_had_to_ingest": fl})
	}
	return skip
}

// mkChainStart: the start range of the untouched old-layout database of a shape (first non-empty block, rounded down).
func mkChainStart(sp shapeSpec) int {
	for b, n := range sp.Shape {
		if n > 0 && b >= sp.Pruned {
			return b - b%10
		}
	}
	return len(sp.Shape)
}
