package c18

// node.migrateIfNeeded runs the whole upgrade either directly or, with --http, inside migration.RunWithServer (a status
// HTTP server around it). The wrapper must be transparent: for every kind of start - completed, cancelled with and
// without a resume token, failed migration, failed Before, failed commit, refused database (binary lacking an applied
// migration, dropped optional flag) - the caller must get exactly the error the direct path returns and the database must
// end in the same image. Enumerated: every scripted behaviour of the first pending migration x flag combinations x
// {no fault, first commit fails} on a fresh database and on databases left by a newer / differently configured binary,
// each start executed twice (direct, through the real RunWithServer on 127.0.0.1:0) and compared.

import (
	"context"
	"errors"
	"fmt"

	"verif/mc/ev"
	"verif/mc/faultdb"

	"github.com/NethermindEth/juno/blockchain/networks"
	"github.com/NethermindEth/juno/db/memory"
	"github.com/NethermindEth/juno/migration"
	"github.com/NethermindEth/juno/utils/log"
)

func startVia(img *memory.Database, n int, e1, e2 bool, acts []act, failAt int, viaServer bool) (error, [32]byte) {
	d := faultdb.Wrap(img.Copy())
	if failAt > 0 {
		d.FailAt(failAt, nil)
	}
	ctx, cancel := context.WithCancel(context.Background())
	defer cancel()
	e := &env{acts: acts, cancel: cancel, ctx: ctx, d: d}
	migrateFn := func() error {
		r, err := migration.NewRunner(buildRegistry(e, n, e1, e2), d, &networks.Mainnet, log.NewNopZapLogger())
		if err != nil {
			return fmt.Errorf("creating migration runner: %w", err)
		}
		return r.Run(ctx)
	}
	var err error
	if viaServer {
		err = migration.RunWithServer(log.NewNopZapLogger(), "127.0.0.1", 0, migrateFn)
	} else {
		err = migrateFn()
	}
	return err, faultdb.Hash(d.Inner())
}

func errShape(err error) string {
	switch {
	case err == nil:
		return "nil"
	case errors.Is(err, context.Canceled):
		return "context.Canceled: " + err.Error()
	}
	return err.Error()
}

func httpPath(r *ev.Run) {
	bases := map[string]*memory.Database{"fresh": memory.New()}
	// a database fully upgraded by the full registry with both optional migrations on
	if res := doRun(memory.New(), nMig, true, true, nil, 0); res.newErr == nil && res.runErr == nil {
		bases["upgraded by the full registry, both optional flags on"] = res.d.Inner().Copy()
	} else {
		r.Infra("http path: cannot build the upgraded base: %v %v", res.newErr, res.runErr)
	}
	var cases int64
	for bname, base := range bases {
		for n := 1; n <= nMig; n++ {
			for _, e1 := range []bool{false, true} {
				for _, e2 := range []bool{false, true} {
					scripts := [][]act{nil}
					for _, a := range allActs() {
						scripts = append(scripts, []act{a})
					}
					for _, sc := range scripts {
						for _, failAt := range []int{0, 1} {
							dErr, dImg := startVia(base, n, e1, e2, sc, failAt, false)
							sErr, sImg := startVia(base, n, e1, e2, sc, failAt, true)
							cases++
							r.Add("evaluations", 1)
							if errShape(dErr) != errShape(sErr) || dImg != sImg {
								what := "error"
								if errShape(dErr) == errShape(sErr) {
									what = "database image"
								}
								kind := "failed"
								switch {
								case dErr == nil:
									kind = "completed"
								case errors.Is(dErr, context.Canceled):
									kind = "cancelled"
								case len(dErr.Error()) > 26 && dErr.Error()[:26] == "creating migration runner:":
									kind = "refused"
								}
								r.Violate(fmt.Sprintf("http-path: status-server wrapper changes the %s of a %s start", what, kind), map[string]any{
									"base": bname, "registry_size": n, "optional_1": e1, "optional_2": e2, "script": fmt.Sprint(sc), "failing_commit": failAt,
									"direct": errShape(dErr), "through_RunWithServer": errShape(sErr)})
							} else {
								r.Outcome("http-path: same result as the direct path (" + map[bool]string{true: "nil", false: "error"}[dErr == nil] + ")")
							}
						}
					}
				}
			}
		}
	}
	r.Set("http_path_starts_compared", cases)
}
