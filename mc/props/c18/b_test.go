package c18

// Part (b): the REAL migrations (blocktransactions -> statedifflength, in the production order, through the
// real MigrationRunner) on old-layout databases, with every interruption pattern enumerated.
//
// Schedule control without a juno hook: the ingest workers of blocktransactions read the header of the first
// block of their range through the store, so the faultdb read callback parks each worker there; the run is
// executed inside a testing/synctest bubble, synctest.Wait() detects quiescence (every worker parked, source
// finished, committer idle) and the harness releases ONE parked range at a time in the order given by a
// permutation. With <= 4 ranges and 4 workers every range has its own worker and its own batch, so the commit
// order is exactly the chosen permutation and the crash images after k commits cover every subset of migrated
// ranges.

import (
	"context"
	"encoding/binary"
	"errors"
	"fmt"
	"runtime"
	"sort"
	"sync"
	"sync/atomic"
	"testing"
	"testing/synctest"

	"github.com/NethermindEth/juno/blockchain/networks"
	"github.com/NethermindEth/juno/db"
	"github.com/NethermindEth/juno/db/memory"
	"github.com/NethermindEth/juno/migration"
	"github.com/NethermindEth/juno/migration/blocktransactions"
	"github.com/NethermindEth/juno/migration/historyprunner"
	"github.com/NethermindEth/juno/migration/statedifflength"
	"github.com/NethermindEth/juno/utils/log"
	"verif/mc/ev"
	"verif/mc/faultdb"
)

type noopMigration struct{}

func (noopMigration) Before([]byte) error { return nil }
func (noopMigration) Migrate(context.Context, db.KeyValueStore, *networks.Network, log.StructuredLogger) ([]byte, error) {
	return nil, nil
}

// prodRegistry mirrors node/migration.go (asserted by checkProductionRegistry) with the two optional
// migrations disabled; fresh Migrator values per process start, like a real restart.
// The history-prune slot holds the REAL migration/historyprunner migrator (retainedBlocks as --prune-mode would
// configure it, no wall-clock floor); the head-state slot stays a disabled placeholder.
func prodRegistry(prune bool, retained uint64) *migration.Registry {
	return migration.NewRegistry().
		With(&blocktransactions.Migrator{}).
		WithOptional(historyprunner.New(retained, 0), prune, "prune-mode").
		WithOptional(noopMigration{}, false, "new-state").
		With(&statedifflength.Migrator{})
}

const (
	inNone         = "none"
	inCancelCommit = "cancel-at-commit" // ctx cancelled inside the k-th commit's completion callback
	inCancelGate   = "cancel-at-read"   // ctx cancelled when the k-th work item (bt ingest range / sdl block) is first read by a worker
	inFail         = "fail-commit"      // the k-th commit returns an error and applies nothing
	inFailRead     = "fail-read"        // the k-th point read on the store returns an error once (transient read fault)
	inCancelStart  = "cancel-before-run"
)

type interrupt struct {
	Kind string
	K    int
}

type runOut struct {
	newErr, runErr error
	d              *faultdb.DB
	arrivals       int
	btArrivals     int             // ... of which ingest ranges of blocktransactions
	hdr            map[uint64]bool // blocks whose header was read through the store (= blocks an ingest worker visited)
	getsAt         map[int]int     // point reads issued when the k-th commit completed
	deadlock       bool
}

// ingestedAll: the run was seen to visit every block of [start, tip].
func (o *runOut) ingestedAll(start, n int) bool {
	for b := start; b < n; b++ {
		if !o.hdr[uint64(b)] {
			return false
		}
	}
	return start < n
}

func isRangeStartHeader(key []byte) (uint64, bool) {
	if len(key) != 9 || key[0] != byte(db.BlockHeadersByNumber) {
		return 0, false
	}
	b := binary.BigEndian.Uint64(key[1:])
	return b / 10, b%10 == 0
}

// execRun starts a fresh runner (= a process start) on a copy of img and drives it to the end.
// startCfg: the optional flags of one process start.
type startCfg struct {
	Prune    bool
	Retained uint64
}

func execRun(t *testing.T, img *memory.Database, cfg startCfg, perm [4]int, in interrupt) (out runOut) {
	synctest.Test(t, func(t *testing.T) {
		d := faultdb.Wrap(img.Copy())
		d.SnapshotAll()
		out.d = d
		ctx, cancel := context.WithCancel(context.Background())
		defer cancel()
		var mu sync.Mutex
		parked := map[uint64]chan struct{}{}
		out.hdr, out.getsAt = map[uint64]bool{}, map[int]int{}
		d.OnRead(func(op string, key []byte) {
			if op != "get" {
				return
			}
			if len(key) == 9 && key[0] == byte(db.BlockHeadersByNumber) {
				mu.Lock()
				out.hdr[binary.BigEndian.Uint64(key[1:])] = true
				mu.Unlock()
			}
			// an ingest worker of blocktransactions parks at the first header of its range, identified by the range index:
			// with <= 4 ranges in a pass every range has its own worker; on longer chains a released worker ingests its
			// range, takes the next one from the source and parks again, so the release policy also decides which ranges end
			// up together in one worker's batch
			id, ok := isRangeStartHeader(key)
			if ok {
				mu.Lock()
				out.btArrivals++
				mu.Unlock()
			} else if len(key) == 9 && key[0] == byte(db.StateUpdatesByBlockNumber) {
				// a statedifflength worker, or a stager / restorer worker of the history-prune migration, reading the
				// state update of its block: parked too, so that the assignment of blocks to the per-worker batches
				// (hence every crash image) is a function of the release policy, not of the scheduler
				id, ok = 1000+binary.BigEndian.Uint64(key[1:]), true
			}
			if !ok {
				return
			}
			mu.Lock()
			out.arrivals++ // ingest ranges of blocktransactions and blocks of statedifflength alike
			if in.Kind == inCancelGate && out.arrivals == in.K {
				cancel()
			}
			ch := make(chan struct{})
			parked[id] = ch
			mu.Unlock()
			<-ch
		})
		d.OnCommit(func(c faultdb.Commit) {
			g := d.Gets()
			mu.Lock()
			out.getsAt[c.N] = g
			mu.Unlock()
			if in.Kind == inCancelCommit && c.N == in.K {
				cancel()
			}
		})
		switch in.Kind {
		case inFail:
			d.FailAt(in.K, nil)
		case inFailRead:
			d.FailGetAt(in.K, nil)
		case inCancelStart:
			cancel()
		}
		r, err := migration.NewRunner(prodRegistry(cfg.Prune, cfg.Retained), d, &networks.Mainnet, log.NewNopZapLogger())
		if err != nil {
			out.newErr = err
			return
		}
		done := make(chan error, 1)
		go func() { done <- r.Run(ctx) }()
		for {
			synctest.Wait()
			select {
			case out.runErr = <-done:
				return
			default:
			}
			mu.Lock()
			best, bestRank := uint64(0), 1<<30
			for id := range parked {
				rank := 0
				switch {
				case id < 1000: // ranges r, r+4, r+8.. share a priority class, the lower one first (<= 4 ranges: the order IS perm)
					rank = perm[id%4]*100 + int(id)
				case perm[0] < perm[3]: // statedifflength blocks: lowest parked block first ...
					rank = int(id)
				default: // ... or highest first
					rank = 5000 - int(id)
				}
				if rank < bestRank {
					best, bestRank = id, rank
				}
			}
			var ch chan struct{}
			if bestRank != 1<<30 {
				ch = parked[best]
				delete(parked, best)
			}
			mu.Unlock()
			if ch == nil {
				out.deadlock = true // nothing to release and not finished
				cancel()
				synctest.Wait()
				select {
				case out.runErr = <-done:
				default:
				}
				return
			}
			close(ch)
		}
	})
	return out
}

func perms4() [][4]int {
	var out [][4]int
	var rec func(p []int, used int)
	rec = func(p []int, used int) {
		if len(p) == 4 {
			out = append(out, [4]int{p[0], p[1], p[2], p[3]})
			return
		}
		for i := 0; i < 4; i++ {
			if used&(1<<i) == 0 {
				rec(append(p, i), used|1<<i)
			}
		}
	}
	rec(nil, 0)
	return out
}

type shapeSpec struct {
	Name   string
	Shape  []int
	PruneR int  // >= 0: the --prune-mode flag is toggled between process starts, retaining PruneR blocks; -1: never enabled
	Pruned int  // blocks below are absent (statedifflength's pruned prefix); blocktransactions part is then already migrated
	BTOnly bool // interruption points are enumerated in the blocktransactions phase only (quiet chains)
	L1Lag  int  // the recorded L1 head lags the tip by this many blocks (the prune pivot is min(L1 head, height))
}

func mkShape(n int, pat string) []int {
	s := make([]int, n)
	for i := range s {
		switch pat {
		case "mixed": // empty blocks interleaved
			s[i] = (i*7 + 1) % 4
		case "dense":
			s[i] = 1 + i%3
		case "sparse": // mostly empty, whole empty ranges, empty leading blocks
			if i%13 == 12 {
				s[i] = 2
			}
		case "lead-empty": // block 0 empty but inside the first range that has transactions
			if i > 0 {
				s[i] = 1 + i%2
			}
		case "quiet": // non-empty first block, transactions in the first range only: every range above it is all-empty
			if i < 10 {
				s[i] = (i + 1) % 3
			}
		case "quiet-mid": // quiet, plus one busy block in a middle range (a second, later start range for a resumed run)
			if i < 10 {
				s[i] = (i + 1) % 3
			} else if i == (n/20)*10+5 {
				s[i] = 2
			}
		case "tail-empty": // busy up to the last range, which holds empty blocks only (quiet period at the chain head)
			if i < 10*((n-1)/10) {
				s[i] = 1 + i%2
			}
		}
	}
	return s
}

type imgState struct {
	img   *memory.Database
	depth int    // interruptions so far
	trace string // how it was reached
	taint bool   // reached through the half-pruned no-op-prune case already reported under its own key
	floor int    // lowest block some run of the history was obliged to have ingested (visit_test.go); len(shape) = none
}

type bCtx struct {
	r   *ev.Run
	t   *testing.T
	mu  sync.Mutex
	fin map[[32]byte]int
}

// cutoff: the block below which the history-prune migration deletes: pivot - retained with pivot = min(L1 head, height);
// nothing when the pivot is below the retention window.
func (sp shapeSpec) cutoff() int {
	pivot := len(sp.Shape) - 1 - sp.L1Lag
	if sp.PruneR < 0 || pivot < sp.PruneR {
		return 0
	}
	return pivot - sp.PruneR
}

// Prune classes of a chain's final image.
const (
	clsNone   = "no-prune"      // --prune-mode never recorded
	clsPruned = "pruned-with-R" // history pruned below cutoff() (the shape's retained value R)
	clsNoop   = "no-op-prune"   // prune applied with a retention window longer than the chain: nothing deleted
)

// pruneInfo: what an image says about the history-prune migration.
type pruneInfo struct {
	recorded bool   // LastTargetVersion has bit 1
	done     bool   // applied bit 1
	token    bool   // a historyprunner intermediate-state token (cutoff pinned) is stored
	pinned   int    // the cutoff in the token
	started  bool   // its first commit happened: blocks below the cutoff deleted, reverse lookups wiped
	lower    int    // blocks below may legitimately be gone
	relax    bool   // by-hash lookups may legitimately be missing (wiped at its start, rebuilt at its end)
	class    string // of an image with the bit applied (or never recorded)
}

// pruneState derives everything from the image itself: "started" = the oldest block with commitments is above 0
// (the migration's first commit deletes the cold range and wipes the reverse lookups atomically).
func pruneState(sp shapeSpec, img *memory.Database, md migration.SchemaMetadata) (pi pruneInfo) {
	pi.lower, pi.class = sp.Pruned, clsNone
	if sp.PruneR < 0 {
		return
	}
	pi.recorded, pi.done = md.LastTargetVersion.Has(1), md.CurrentVersion.Has(1)
	if tok, err := migration.GetIntermediateState(img, 1); err == nil && len(tok) == 24 {
		pi.token, pi.pinned = true, int(binary.BigEndian.Uint64(tok[16:24]))
	}
	if ks := faultdb.Keys(img, []byte{byte(db.BlockCommitments)}); len(ks) > 0 && len(ks[0]) == 9 {
		pi.started = binary.BigEndian.Uint64([]byte(ks[0][1:])) > 0
	}
	if pi.started || pi.token {
		pi.lower = max(pi.lower, sp.cutoff())
	}
	pi.relax = (pi.started || pi.token) && !pi.done
	switch {
	case pi.done && pi.started:
		pi.class = clsPruned
	case pi.done:
		pi.class = clsNoop
	}
	return
}

// expectedClass: the class of the final image a COMPLETED run must reach from an image, given this start's flags.
func expectedClass(sp shapeSpec, from pruneInfo, cfg startCfg) string {
	switch {
	case !cfg.Prune:
		return clsNone
	case from.done:
		return from.class // nothing to do any more
	case from.token:
		return clsPruned // cutoff pinned: configuration changes are documented to be ignored until completion
	case cfg.Retained == uint64(sp.PruneR) && sp.cutoff() > 0:
		return clsPruned
	default:
		return clsNoop // window longer than the chain and nothing pinned: every block stays
	}
}

// checkImage: invariants that must hold in EVERY durable image (crash images included).
func (bc *bCtx) checkImage(sp shapeSpec, c *chain, img *memory.Database, trace string, floor int) {
	md, err := migration.GetSchemaMetadata(img)
	applied0 := err == nil && md.CurrentVersion.Has(0)
	applied3 := err == nil && md.CurrentVersion.Has(3)
	pi := pruneState(sp, img, md)
	lower, relax := pi.lower, pi.relax
	if pi.token && pi.pinned != sp.cutoff() {
		bc.r.Violate("b/prune-token-pins-unexpected-cutoff", map[string]any{"shape": sp.Name, "trace": trace, "pinned": pi.pinned, "want": sp.cutoff()})
	}
	if applied0 && oldLayoutRemains(img) {
		bc.r.Violate("b/applied-bit-with-old-layout-data blocktransactions", map[string]any{"shape": sp.Name, "trace": trace})
	}
	if applied0 {
		exc, unexc := c.missingEmpty(img, lower, floor)
		skip := bc.reportMissing("applied-bit-but-content-wrong blocktransactions", sp, trace, exc, unexc, floor)
		if msg := c.checkContentSkip(img, lower, false, relax, skip); msg != "" {
			bc.contentViolation("applied-bit-but-content-wrong blocktransactions", sp, c, trace, msg)
		}
	}
	if applied3 {
		if msg := c.checkSDL(img, lower); msg != "" {
			bc.contentViolation("applied-bit-but-content-wrong statedifflength", sp, c, trace, msg)
		}
	}
	if pi.done && pi.token {
		bc.r.Violate("b/applied-bit-with-resume-token historyprunner", map[string]any{"shape": sp.Name, "trace": trace})
	}
	if pi.done && pi.class == clsPruned {
		if msg := c.checkPruned(img, sp.cutoff()); msg != "" {
			bc.r.Violate("b/applied-bit-but-content-wrong historyprunner", map[string]any{"shape": sp.Name, "trace": trace, "first_discrepancy": msg})
		}
	}
	// no block may be lost at any time: a combined entry, when present, must hold the original content
	// unless the block's legacy entries are still there.
	if msg := c.noBlockLost(img, lower, relax); msg != "" {
		bc.contentViolation("block-data-lost-in-durable-image", sp, c, trace, msg)
	}
}

// contentViolation maps a discrepancy to a defect-class key: the two classes observed on the unchanged tree get
// one key each whatever invariant saw them first; anything else is keyed by invariant + symptom.
func (bc *bCtx) contentViolation(inv string, sp shapeSpec, c *chain, trace, msg string) {
	var b int
	fmt.Sscanf(msg, "block %d", &b)
	cls := classify(msg)
	key := "b/" + inv + ": " + cls
	switch {
	case cls == "migrated block rewritten without its transactions":
		key = "b/data-loss: already-migrated block rewritten as empty on restart (ranges committed out of order, then crash or failed commit)"
	case cls == "block has no combined entry" && b < len(c.shape) && c.shape[b] == 0:
		// empty blocks without an entry are classified by reportMissing (never visited / lost in a pass) before the
		// content check and skipped by it; one that still arrives here was seen by an invariant that has no history
		key = "b/" + inv + ": empty block has no combined entry"
	}
	bc.r.Violate(key, map[string]any{"shape": sp.Name, "tx_per_block": sp.Shape, "trace": trace, "first_discrepancy": msg, "invariant": inv})
}

func classify(msg string) string {
	switch {
	case contains(msg, ": 0 transactions / 0 receipts readable, original had"):
		return "migrated block rewritten without its transactions"
	case contains(msg, "GetTransactionsByBlockNumber"):
		return "block has no combined entry"
	case contains(msg, "StateDiffLength"):
		return "state diff length not backfilled"
	}
	return "content differs"
}

func contains(s, sub string) bool { return len(sub) <= len(s) && (indexOf(s, sub) >= 0) }
func indexOf(s, sub string) int {
	for i := 0; i+len(sub) <= len(s); i++ {
		if s[i:i+len(sub)] == sub {
			return i
		}
	}
	return -1
}

// stateID: the durable image plus the first block the history obliges and the image lacks (len(shape) when there is
// none: always, on the unchanged tree), see firstUnexcused.
type stateID struct {
	h [32]byte
	u int
}

type bShape struct {
	r        *ev.Run
	sp       shapeSpec
	c        *chain
	mu       sync.Mutex
	seen     map[stateID]uint8 // bit 0: seen untainted, bit 1: seen tainted
	next     []imgState
	refFinal map[string][32]byte // one final image per chain and per prune class
	stripped map[string][32]byte // the same without the schema-metadata key (no-op prune == no prune modulo metadata)
	images   int
}

// memory guard: the BFS frontiers hold database images; when the live heap passes memLimit the exploration stops
// expanding (reported through r.Incomplete -> exhaustive:false) instead of being killed by the OS.
const memLimit = 2 << 30

var (
	memAdds atomic.Int64
	memFull atomic.Bool
)

func memGuard(r *ev.Run) bool {
	if memFull.Load() {
		return true
	}
	if memAdds.Add(1)%512 == 0 {
		var ms runtime.MemStats
		runtime.ReadMemStats(&ms)
		if ms.HeapAlloc > memLimit {
			runtime.GC()
			runtime.ReadMemStats(&ms)
			if ms.HeapAlloc > memLimit {
				memFull.Store(true)
				r.Incomplete(fmt.Sprintf("memory guard: live heap above %d MiB, no further images were added to the frontier", memLimit>>20))
				return true
			}
		}
	}
	return false
}

func (sh *bShape) add(img *memory.Database, depth int, trace string, taint bool, floor int) {
	if memGuard(sh.r) {
		return
	}
	lower := sh.sp.Pruned
	if sh.sp.PruneR >= 0 && floor < len(sh.sp.Shape) { // blocks the history-prune migration deleted are not "missing"
		md, _ := migration.GetSchemaMetadata(img)
		lower = pruneState(sh.sp, img, md).lower
	}
	h := stateID{faultdb.Hash(img), sh.c.firstUnexcused(img, lower, floor)}
	sh.mu.Lock()
	defer sh.mu.Unlock()
	bit := uint8(1)
	if taint {
		bit = 2
	}
	if sh.seen[h]&1 != 0 || sh.seen[h]&bit != 0 {
		return
	}
	sh.seen[h] |= bit
	sh.next = append(sh.next, imgState{img: img, depth: depth, trace: trace, taint: taint, floor: floor})
}

type bItem struct {
	sh    *bShape
	st    imgState
	pm    [4]int
	cfg   startCfg
	first bool
}

// exploreShapes: level-synchronous BFS over the durable images of every shape; one work item = (image, commit order).
func exploreShapes(bc *bCtx, specs []shapeSpec, permsL0, permsDeep [][4]int, maxDepth int, failInj bool, workers int) {
	// shapes are explored in groups so that the images held in the BFS frontier stay bounded in memory
	group := 3
	if bc.r.Quick() {
		group = 16
	}
	for i := 0; i < len(specs); i += group {
		exploreShapeGroup(bc, specs[i:min(i+group, len(specs))], permsL0, permsDeep, maxDepth, failInj, workers)
		// the group's frontier is garbage now: a guard that tripped for this group must not starve the next one
		runtime.GC()
		memFull.Store(false)
	}
}

func exploreShapeGroup(bc *bCtx, specs []shapeSpec, permsL0, permsDeep [][4]int, maxDepth int, failInj bool, workers int) {
	r, t := bc.r, bc.t
	var shapes []*bShape
	for _, sp := range specs {
		ch := mkChain(sp.Shape)
		ch.l1lag = sp.L1Lag
		sh := &bShape{r: r, sp: sp, c: ch, seen: map[stateID]uint8{}, refFinal: map[string][32]byte{}, stripped: map[string][32]byte{}}
		base := sh.c.oldLayoutDB(0)
		if sp.Pruned > 0 {
			// A pruned database cannot be in the per-transaction layout (pruning came later). Build it from the
			// fully migrated image: drop the prefix the way the pruner leaves it, put back the pre-backfill
			// commitments (StateDiffLength 0) and clear statedifflength's applied bit.
			o := execRun(t, base, startCfg{}, [4]int{0, 1, 2, 3}, interrupt{Kind: inNone})
			if o.newErr != nil || o.runErr != nil {
				r.Violate("b/uninterrupted-run-fails: "+errClass(o.newErr, o.runErr), map[string]any{"shape": sp.Name, "trace": "setup of pruned shape"})
				continue
			}
			base = o.d.Inner().Copy()
			kv := base.Impl().(map[string][]byte)
			for k := range kv {
				if len(k) == 9 && (k[0] == byte(db.BlockCommitments) || k[0] == byte(db.StateUpdatesByBlockNumber) ||
					k[0] == byte(db.BlockTransactions) || k[0] == byte(db.BlockHeadersByNumber)) &&
					binary.BigEndian.Uint64([]byte(k[1:])) < uint64(sp.Pruned) {
					delete(kv, k)
				}
			}
			for k, v := range sh.c.oldLayoutDB(sp.Pruned).Impl().(map[string][]byte) {
				if k[0] == byte(db.BlockCommitments) {
					kv[k] = v
				}
			}
			must(migration.WriteSchemaMetadata(base, migration.SchemaMetadata{CurrentVersion: 0b0001, LastTargetVersion: 0b1001}))
		}
		sh.add(base, 0, "old-layout", false, len(sp.Shape))
		shapes = append(shapes, sh)
	}
	for depth := 0; ; depth++ {
		var items []bItem
		for _, sh := range shapes {
			level := sh.next
			sh.next = nil
			sort.Slice(level, func(i, j int) bool { return level[i].trace < level[j].trace })
			sh.images += len(level)
			perms := permsDeep
			if depth == 0 {
				perms = permsL0
			}
			for _, st := range level {
				cfgs := []startCfg{{}}
				if sh.sp.PruneR >= 0 { // every process start chooses the --prune-mode flag freely
					// ... and, when on, its retained value: the shape's R or a window longer than the chain
					cfgs = []startCfg{{false, uint64(sh.sp.PruneR)}, {true, uint64(sh.sp.PruneR)}, {true, uint64(len(sh.sp.Shape) + 100)}}
				}
				for ci, cfg := range cfgs {
					for i, pm := range perms {
						items = append(items, bItem{sh, st, pm, cfg, i == 0 && ci == 0})
					}
				}
			}
		}
		if len(items) == 0 {
			break
		}
		ev.Par(len(items), workers, func(i int) {
			if r.OutOfTime() {
				r.Incomplete(fmt.Sprintf("part b: time budget reached at interruption depth %d", depth))
				return
			}
			exploreItem(bc, items[i], maxDepth, failInj)
		})
	}
	for _, sh := range shapes {
		r.Add("b_distinct_images", int64(sh.images))
		r.Add("states", int64(sh.images))
	}
}

func exploreItem(bc *bCtx, it bItem, maxDepth int, failInj bool) {
	r, t := bc.r, bc.t
	sh, st, pm, sp, c, cfg := it.sh, it.st, it.pm, it.sh.sp, it.sh.c, it.cfg
	if it.first && !st.taint {
		bc.checkImage(sp, c, st.img, st.trace, st.floor)
	}
	md0, _ := migration.GetSchemaMetadata(st.img)
	from := pruneState(sp, st.img, md0)
	// what this process start has to visit: everything from the range of the first block that still has legacy entries
	start, fromApplied := c.legacyStart(st.img), md0.CurrentVersion.Has(0)
	// The one prune-related defect class of the unchanged tree that a raised retained value exposes: after an ABRUPT
	// interruption (no token persisted) of a started prune, a start whose window exceeds the chain is a no-op that sets
	// the applied bit on the half-pruned database. It is reported once under its own key; the images behind it are
	// tainted (explored for crashes/refusals, but their content is not judged again).
	halfPruned := cfg.Prune && cfg.Retained != uint64(max(sp.PruneR, 0)) && from.started && !from.token && !from.done
	taint := st.taint || halfPruned
	if taint {
		r.Add("b_tainted_items", 1)
	}
	runName := fmt.Sprintf("run(order=%v)", pm)
	if sp.PruneR >= 0 {
		runName = fmt.Sprintf("run(prune-mode=%v retain %d, order=%v)", cfg.Prune, cfg.Retained, pm)
	}
	want := migration.SchemaVersion(0b1001)
	if cfg.Prune {
		want = 0b1011
	}
	// 0. a start that switches off a previously recorded --prune-mode must be refused and must not write
	if md0, err := migration.GetSchemaMetadata(st.img); err == nil && md0.LastTargetVersion.Has(1) && !cfg.Prune {
		if !it.first && pm != [4]int{0, 1, 2, 3} {
			return // the refusal does not depend on the commit order
		}
		o := execRun(t, st.img, cfg, pm, interrupt{Kind: inNone})
		r.Add("evaluations", 1)
		r.Add("b_runs", 1)
		r.Add("transitions", 1)
		if o.newErr == nil || o.d.Commits() != 0 {
			r.Outcome("b: opt-out of recorded prune flag ACCEPTED")
			r.Violate("b/opt-out-of-recorded-prune-flag-accepted", map[string]any{"shape": sp.Name, "trace": st.trace + " -> " + runName, "commits": o.d.Commits()})
		} else {
			r.Outcome("b: opt-out of recorded prune flag refused")
		}
		return
	}
	// 1. uninterrupted run: must complete and reach THE final image
	o := execRun(t, st.img, cfg, pm, interrupt{Kind: inNone})
	r.Add("evaluations", 1)
	r.Add("b_runs", 1)
	r.Add("transitions", 1)
	tr := fmt.Sprintf("%s -> %s", st.trace, runName)
	if o.deadlock {
		r.Infra("part b: schedule control deadlocked (%s %s)", sp.Name, tr)
	}
	if o.newErr != nil || o.runErr != nil {
		r.Outcome("b: uninterrupted run fails")
		key := "b/uninterrupted-run-fails: " + errClass(o.newErr, o.runErr) + " [" + failingMigration(o.runErr) + "; history: " + historyKinds(st.trace) + "]"
		if o.runErr != nil && failingMigration(o.runErr) == "historyprunner" &&
			contains(o.runErr.Error(), " history at block") && contains(o.runErr.Error(), "key not found") &&
			(contains(st.trace, "crash-after-commit") || contains(st.trace, inFail) || contains(st.trace, inFailRead)) {
			// one defect class on the unchanged tree (known finding): an ABRUPT interruption (crash / failed commit) left
			// the database there; the same failure after graceful cancellations only keeps its own key and is reported
			key = "b/restart-fails: historyprunner cannot resume after a crash or failed commit in its restore phase (history or scratch already wiped, progress only persisted on graceful cancel)"
		}
		r.Violate(key, map[string]any{"interruptions_before": historyKinds(st.trace), "shape": sp.Name, "tx_per_block": sp.Shape, "trace": tr, "newRunnerErr": fmt.Sprint(o.newErr), "runErr": fmt.Sprint(o.runErr)})
		return
	}
	fin := o.d.Inner()
	fh := faultdb.Hash(fin)
	md, _ := migration.GetSchemaMetadata(fin)
	if md.CurrentVersion != want {
		r.Violate("b/run-returned-nil-but-not-applied", map[string]any{"shape": sp.Name, "trace": tr, "version": md.CurrentVersion.String(), "want": want.String()})
	}
	wantCls := expectedClass(sp, from, cfg)
	got := pruneState(sp, fin, md)
	if got.class != wantCls && (halfPruned || !st.taint) {
		key := "b/prune-class-wrong: want " + wantCls + " got " + got.class
		if halfPruned {
			key = "b/no-op-prune-applied-on-half-pruned-database (retained value raised after an abrupt interruption; cutoff only persisted on graceful cancel)"
		}
		r.Violate(key, map[string]any{"shape": sp.Name, "trace": tr, "interruptions_before": historyKinds(st.trace)})
	}
	lower := sp.Pruned
	if wantCls == clsPruned {
		lower = max(lower, sp.cutoff())
	}
	msg := ""
	missing := false
	if !taint {
		// the run returned nil: the migration is recorded as applied, its pass over [start, tip] is finished
		floorFin := floorAfter(st.floor, start, fromApplied, fin, false)
		exc, unexc := c.missingEmpty(fin, lower, floorFin)
		const inv = "final-content-differs-from-original (core.Get* accessors after a Run that returned nil)"
		skip := bc.reportMissing(inv, sp, tr, exc, unexc, floorFin)
		if len(exc) > 0 {
			r.Outcome("b: final content wrong (empty block no run had to visit has no combined entry)")
		}
		if len(unexc) > 0 {
			r.Outcome("b: final content wrong (empty block of a range the run had to ingest has no combined entry)")
		}
		missing = len(skip) > 0
		msg = c.checkContentSkip(fin, lower, true, false, skip)
		if msg == "" && missing {
			msg = c.checkSDL(fin, lower) // the skipped blocks' commitments are judged all the same
		}
	}
	if msg == "" && wantCls == clsPruned && !taint {
		if pm := c.checkPruned(fin, sp.cutoff()); pm != "" {
			r.Violate("b/final-content-differs-from-original: history-prune result wrong", map[string]any{"shape": sp.Name, "trace": tr, "first_discrepancy": pm})
		}
	}
	if msg != "" {
		r.Outcome("b: final content wrong (" + classify(msg) + ")")
		bc.contentViolation("final-content-differs-from-original (core.Get* accessors after a Run that returned nil)", sp, c, tr, msg)
	} else if !missing { // a final image that lacks entries is not THE final image: reported above, not compared
		if taint {
			r.Outcome("b: completed on a tainted (already reported) database")
			goto afterFinal
		}
		r.Outcome("b: completed, content equal [" + wantCls + "]")
		strip := fin.Copy()
		must(strip.Delete(db.SchemaMetadata.Key()))
		sth := faultdb.Hash(strip)
		sh.mu.Lock()
		if _, ok := sh.refFinal[wantCls]; !ok {
			sh.refFinal[wantCls] = fh
			sh.stripped[wantCls] = sth
		}
		same := fh == sh.refFinal[wantCls]
		// a no-op prune leaves exactly the no-prune final database, schema metadata apart
		other, has := sh.stripped[map[string]string{clsNoop: clsNone, clsNone: clsNoop}[wantCls]]
		sameStripped := !has || wantCls == clsPruned || other == sth
		sh.mu.Unlock()
		if !same {
			r.Violate("b/final-image-depends-on-interruption-pattern", map[string]any{"shape": sp.Name, "trace": tr, "class": wantCls})
		}
		if !sameStripped {
			r.Violate("b/no-op-prune-final-differs-from-no-prune-final", map[string]any{"shape": sp.Name, "trace": tr})
		}
	}
afterFinal:
	bc.mu.Lock()
	bc.fin[fh]++
	bc.mu.Unlock()
	n := o.d.Commits()
	r.Add("b_commit_points", int64(n))
	if st.depth == 0 && it.first {
		r.Sample(map[string]any{"part": "b", "shape": sp.Name, "trace": tr, "commits": fmt.Sprint(o.d.Log()), "ingest_ranges_gated": o.arrivals})
	}
	if st.depth >= maxDepth {
		return
	}
	// BTOnly chains: the interruption points of the blocktransactions phase only = up to and including the commit that
	// records it as applied (the later phases are enumerated on the other chains of <= 36 blocks)
	nCommit, nArrive, nGets := n, o.arrivals, o.d.Gets()
	if sp.BTOnly {
		nCommit = 0
		for k := 1; k <= n && !fromApplied; k++ {
			if nCommit = k; btApplied(o.d.Image(k)) {
				break
			}
		}
		nArrive, nGets = min(nArrive, o.btArrivals), o.getsAt[nCommit]
		if fromApplied {
			nArrive = 0
		}
		r.Add("b_items_interrupted_in_blocktransactions_phase_only", 1)
	}
	// 2. crash after every commit of that run (the image becomes a new start state)
	for k := 1; k < n && k <= nCommit; k++ {
		img := o.d.Image(k)
		sh.add(img, st.depth+1, fmt.Sprintf("%s crash-after-commit %d/%d", tr, k, n), taint, floorAfter(st.floor, start, fromApplied, img, false))
		r.Add("b_crash_images", 1)
	}
	// 3. cancellation at every commit and at every first read of an ingest range; 4. failed commit
	var ins []interrupt
	ins = append(ins, interrupt{inCancelStart, 0})
	full := failInj || st.depth == 0 // quick tier: failed commits and cancel-at-read only on the first process start
	for k := 1; k <= nCommit; k++ {
		ins = append(ins, interrupt{inCancelCommit, k})
		if full {
			ins = append(ins, interrupt{inFail, k})
		}
	}
	for k := 1; k <= nArrive && full; k++ {
		ins = append(ins, interrupt{inCancelGate, k})
	}
	// 5. a transient read fault at every point read of the first process start (the run dies with an error; whatever
	// its workers had queued may or may not have been committed on the way out)
	for k := 1; k <= nGets && st.depth == 0 && pm == [4]int{0, 1, 2, 3}; k++ {
		ins = append(ins, interrupt{inFailRead, k})
	}
	ev.Par(len(ins), 4, func(ii int) {
		in := ins[ii]
		oi := execRun(t, st.img, cfg, pm, in)
		r.Add("evaluations", 1)
		r.Add("b_runs", 1)
		r.Add("transitions", 1)
		tri := fmt.Sprintf("%s %s %d", tr, in.Kind, in.K)
		if oi.deadlock {
			r.Infra("part b: schedule control deadlocked (%s %s)", sp.Name, tri)
		}
		if oi.newErr != nil {
			if in.Kind == inFailRead && oi.d.Commits() == 0 {
				r.Outcome("b: fail-read -> the start fails before anything is written") // the fault hit NewRunner's own reads
				return
			}
			r.Violate("b/restart-refused", map[string]any{"shape": sp.Name, "trace": tri, "err": oi.newErr.Error()})
			return
		}
		switch {
		case oi.runErr == nil:
			r.Outcome("b: " + in.Kind + " -> run completed anyway")
			m2, _ := migration.GetSchemaMetadata(oi.d.Inner())
			if m2.CurrentVersion != want {
				r.Violate("b/run-returned-nil-but-not-applied", map[string]any{"shape": sp.Name, "trace": tri, "version": m2.CurrentVersion.String()})
			}
		case errors.Is(oi.runErr, context.Canceled):
			r.Outcome("b: " + in.Kind + " -> ctx error")
		default:
			r.Outcome("b: " + in.Kind + " -> other error")
			if in.Kind != inFail && in.Kind != inFailRead {
				r.Violate("b/interrupted-run-fails: "+errClass(nil, oi.runErr), map[string]any{"shape": sp.Name, "trace": tri, "err": oi.runErr.Error()})
			}
		}
		// a run that ended in a graceful cancellation after it was seen to visit every block from its start range to the
		// tip has finished its pass: its last image has to hold what it ingested (visit_test.go)
		graceful := (in.Kind == inCancelCommit || in.Kind == inCancelGate) && errors.Is(oi.runErr, context.Canceled)
		passFinished := graceful && !fromApplied && oi.ingestedAll(start, len(c.shape))
		if passFinished {
			r.Add("b_cancelled_runs_with_finished_pass", 1)
		}
		// every image that run went through is a possible durable state as well
		for k := 1; k <= oi.d.Commits(); k++ {
			// the last image is where the interrupted run gracefully ended; an earlier one means the process also died there
			last := k == oi.d.Commits()
			lbl := fmt.Sprintf("%s [image %d/%d]", tri, k, oi.d.Commits())
			if !last {
				lbl = fmt.Sprintf("%s then crash-after-commit %d/%d", tri, k, oi.d.Commits())
			}
			img := oi.d.Image(k)
			sh.add(img, st.depth+1, lbl, taint, floorAfter(st.floor, start, fromApplied, img, last && passFinished))
		}
	})
}

func errClass(a, b error) string {
	e := a
	if e == nil {
		e = b
	}
	if e == nil {
		return "nil"
	}
	s := e.Error()
	for _, pat := range []string{"key not found", "missing transactions and receipts", "invalid transactions", "invalid receipts", "different first block", "injected", "opt out", "newer"} {
		if contains(s, pat) {
			return pat
		}
	}
	return "other"
}

// noBlockLost: in any durable image each retained block's transactions are still present in one of the two layouts.
func (c *chain) noBlockLost(img *memory.Database, pruned int, relax bool) string {
	kv := img.Impl().(map[string][]byte)
	oldTx := map[uint64]int{}
	for k := range kv {
		if len(k) == 17 && k[0] == byte(db.TransactionsByBlockNumberAndIndex) {
			oldTx[binary.BigEndian.Uint64([]byte(k[1:9]))]++
		}
	}
	var bad []string
	for b := pruned; b < len(c.shape); b++ {
		if c.shape[b] == 0 || oldTx[uint64(b)] == c.shape[b] {
			continue
		}
		one := &chain{shape: c.shape, txs: c.txs, rcs: c.rcs, encTx: c.encTx, encRc: c.encRc}
		if msg := one.checkBlock(img, b, relax); msg != "" {
			bad = append(bad, msg)
		}
	}
	sort.Strings(bad)
	if len(bad) > 0 {
		return bad[0]
	}
	return ""
}

func (c *chain) checkBlock(r db.KeyValueReader, b int, relax bool) string {
	sub := &chain{shape: c.shape[:b+1], txs: c.txs, rcs: c.rcs, encTx: c.encTx, encRc: c.encRc}
	return sub.checkContentOpt(r, b, false, relax)
}

// historyKinds summarises which kinds of interruption precede a state (part of the violation key: a restart that
// fails after a plain crash or cancellation is a different defect class from one that needs an I/O error first).
func historyKinds(trace string) string {
	var ks []string
	for _, k := range []string{"crash-after-commit", inCancelCommit, inCancelGate, inCancelStart, inFail, inFailRead} {
		if contains(trace, k) {
			ks = append(ks, k)
		}
	}
	if len(ks) == 0 {
		return "none"
	}
	return fmt.Sprint(ks)
}

func failingMigration(err error) string {
	if err == nil {
		return "start"
	}
	var i int
	if _, e := fmt.Sscanf(err.Error(), "running migration at index %d", &i); e == nil && i < nMig {
		return prodNames[i]
	}
	return "runner"
}
