// Package c18 checks property C18: schema migrations preserve all chain data and survive interruption at
// any point. See a_test.go (runner discipline), b_test.go (real migrations), /verif/mc/faultdb (crash seam).
package c18

import (
	"fmt"
	"os"
	"path/filepath"
	"regexp"
	"runtime"
	"runtime/debug"
	"sync"
	"testing"
	"time"

	"verif/mc/ev"
)

// checkProductionRegistry parses $VERIF_REPO/node/migration.go (package node cannot be imported: jemalloc)
// and asserts that the order / optionality of the production registry is what the harness mirrors.
func checkProductionRegistry(r *ev.Run) {
	src, err := os.ReadFile(filepath.Join(ev.Repo(), "node", "migration.go"))
	if err != nil {
		r.Infra("cannot read node/migration.go: %v", err)
	}
	body := regexp.MustCompile(`(?s)migration\.NewRegistry\(\)(.*?)return registry`).FindSubmatch(src)
	if body == nil {
		r.Infra("node/migration.go: registerMigrations not recognised; update the mirror in props/c18")
	}
	calls := regexp.MustCompile(`(?s)\.\s*(With|WithOptional)\(\s*&?([a-z]+)\.`).FindAllSubmatch(body[1], -1)
	var got []string
	for _, c := range calls {
		got = append(got, fmt.Sprintf("%s:%v", c[2], string(c[1]) == "WithOptional"))
	}
	var want []string
	for i := 0; i < nMig; i++ {
		want = append(want, fmt.Sprintf("%s:%v", prodNames[i], prodOptional[i]))
	}
	if fmt.Sprint(got) != fmt.Sprint(want) {
		r.Infra("production registry changed: node/migration.go has %v, harness mirrors %v; update props/c18", got, want)
	}
	r.Set("production_registry", got)
}

func TestCheck(t *testing.T) {
	r := ev.Start("C18", "fault_enumeration")
	// the frontiers hold many small maps: collect eagerly and cap the runtime well below the box's share
	// (bin/check exports GOGC=600 / GOMEMLIMIT=10GiB; this harness wants less)
	debug.SetGCPercent(50)
	debug.SetMemoryLimit(4 << 30)
	r.SetBudget(ev.Pick(r, 140, 1500))
	r.Assume = append(r.Assume,
		"one batch commit is atomic (backend contract, C15); a crash is modelled between commits of the db.KeyValueStore seam (faultdb over db/memory)",
		"old-layout databases are produced with the frozen legacy writer migration/blocktransactions/txlayout (TransactionLayoutPerTx) and commitments without StateDiffLength",
		"blocktransactions commit orders: on chains of <= 4 ingest ranges each range has its own worker and batch, all orders; on the long quiet chains (more ranges than the 4 ingest workers) a released worker takes the next range from the source, so a batch holds several ranges: which ones is decided by the release policy rank = perm[range mod 4], lower range first (24 policies on the first process start, 2 quick / 4 thorough later), not by all assignments; interruption points on those chains, and on the quiet chains of <= 36 blocks, are enumerated for the blocktransactions phase only (up to the commit that records it as applied); the later phases do not depend on the transaction pattern and are interrupted on the other chains",
		"an empty block without a combined entry is excused (known finding: start-block discovery) only below the obligation floor of its history = the lowest start range (first block with legacy entries in the start image, rounded down to 10) of a run that recorded blocktransactions as applied or that ended in a graceful cancellation after it was observed to read the header of every block from its start range to the tip; at or above the floor it is reported under its own key; the floor is part of a state's identity only when it makes a difference (image lacks an obliged block)",
		"a transient read fault (the k-th point read on the store fails once) is injected at every point read of the first process start under the canonical commit order; the run then dies with an error and every image it passed is a start state",
		"cancel-at-read injections race with the source goroutine (free-running after the injection); outcomes are checked, not the exact emission count",
		"statedifflength: the assignment of blocks to the per-worker batches follows two release policies (lowest / highest parked block first), not all assignments; its writes are per-block idempotent",
		"part b runs the real historyprunner (retainedBlocks as configured, min-age 0, L1 head = chain tip, or lagging it on the chains that say so) on the chains named 'prune-mode toggled', where each process start chooses off / on with the chain's retained value R / on with a window longer than the chain (len+100); other retained values (cutoff moving up or down by a few blocks between starts) are not enumerated; headstate is a disabled placeholder (its flag combinations are covered on the runner in part a)",
		"images behind the reported half-pruned no-op case (abrupt interruption of a started prune, then a start with the long window) are tainted: explored for crashes / refusals, their content is not judged again",
		"old-layout chains carry one legacy history entry per storage / nonce diff (the layout pruner/testutils writes), which the history-prune migration stages and restores",
	)
	checkProductionRegistry(r)
	httpPath(r)

	// ---------- part (a)

	// ---------- part (b)
	var shapes []shapeSpec
	addShape := func(n int, pat string, pruned int) {
		shapes = append(shapes, shapeSpec{Name: fmt.Sprintf("%d blocks %s pruned<%d", n, pat, pruned), Shape: mkShape(n, pat), Pruned: pruned, PruneR: -1})
	}
	// chains on which every process start also chooses the --prune-mode flag (real history-prune migration, retaining
	// `retained` blocks below the L1 head = tip): the cutoff tip-retained lies above the blocks where an interrupted
	// statedifflength run leaves its checkpoint (its 8 workers take blocks 0..7 first).
	addPruneShape := func(n int, pat string, retained int) {
		shapes = append(shapes, shapeSpec{Name: fmt.Sprintf("%d blocks %s prune-mode toggled, retain %d", n, pat, retained), Shape: mkShape(n, pat), PruneR: retained})
	}
	// the same with the recorded L1 head lagging the tip: the pivot is the L1 head; below the retention window = no-op
	addPruneShapeLag := func(n int, pat string, retained, lag int) {
		shapes = append(shapes, shapeSpec{Name: fmt.Sprintf("%d blocks %s prune-mode toggled, retain %d, L1 head %d below the tip", n, pat, retained, lag),
			Shape: mkShape(n, pat), PruneR: retained, L1Lag: lag})
	}
	// quiet chains: whole 10-block ranges of empty blocks ABOVE a non-empty first block, which every run starting below
	// them has to ingest (a worker's share then consists of empty-block entries only); the long ones have more ranges
	// than ingest workers, so a worker's batch holds several ranges (which ones: the release policy) and a graceful
	// cancellation stops the source before every range was handed out (partial pass without a crash).
	// addBT: interruption points of the blocktransactions phase only: the later phases do not depend on the transaction
	// pattern and are interrupted on the other chains (interrupting them here as well multiplies the frontier by the
	// number of distinct partly-visited images, 75 CPU-minutes for 5 chains when it was tried).
	addBT := func(n int, pat string) {
		shapes = append(shapes, shapeSpec{Name: fmt.Sprintf("%d blocks %s (%d ingest ranges, blocktransactions-phase interruptions)", n, pat, (n+9)/10),
			Shape: mkShape(n, pat), PruneR: -1, BTOnly: true})
	}
	if r.Quick() {
		addPruneShape(14, "dense", 3)
		addPruneShapeLag(14, "dense", 3, 11) // L1 head 2 < retained 3 <= height 13: nothing may be pruned
		for _, n := range []int{0, 1, 10, 11, 36} {
			addShape(n, "mixed", 0)
		}
		addShape(36, "sparse", 0)
		addShape(12, "lead-empty", 0)
		addShape(23, "mixed", 7)
		addBT(31, "quiet")      // ranges 1..3 all-empty above a busy first range, the last one a single block
		addBT(25, "tail-empty") // two busy ranges, then an all-empty range at the head
		addBT(52, "quiet")      // 6 ranges for 4 workers
	} else {
		// special shapes first so that a budget cut never drops them
		addPruneShape(14, "dense", 3)
		addPruneShape(14, "mixed", 0)
		addPruneShape(23, "mixed", 6)
		addPruneShape(5, "dense", 9)         // chain shorter than the retention window: the prune migration is a no-op
		addPruneShapeLag(14, "dense", 3, 11) // L1 head 2 < retained 3 <= height 13: nothing may be pruned
		addPruneShapeLag(14, "dense", 3, 4)  // L1 head 9: cutoff 6
		for _, n := range []int{12, 36} {
			addShape(n, "sparse", 0)
			addShape(n, "lead-empty", 0)
		}
		addBT(31, "quiet")
		addBT(36, "quiet")
		addBT(36, "quiet-mid")
		addBT(25, "tail-empty")
		addBT(36, "tail-empty")
		addBT(52, "quiet")
		addBT(52, "quiet-mid")
		addBT(75, "quiet")
		for _, p := range []int{7, 10} {
			addShape(23, "mixed", p)
			addShape(36, "mixed", p)
		}
		// chain lengths around every ingest-range boundary (ranges of 10 blocks): n mod 10 in {0,1,5,9}, and 36
		for _, n := range []int{36, 35, 31, 30, 29, 25, 21, 20, 19, 15, 11, 10, 9, 5, 1, 0} {
			addShape(n, "mixed", 0)
		}
		for _, n := range []int{1, 10, 11, 36} {
			addShape(n, "dense", 0)
		}
	}
	all := perms4()
	few := [][4]int{{0, 1, 2, 3}, {3, 2, 1, 0}}
	// thorough, second process start: identity, reverse and their half rotations (4 of the 24)
	rot := [][4]int{{0, 1, 2, 3}, {2, 3, 0, 1}, {3, 2, 1, 0}, {1, 0, 3, 2}}
	bc := &bCtx{r: r, t: t, fin: map[[32]byte]int{}}
	ncpu := runtime.GOMAXPROCS(0)
	var wg sync.WaitGroup
	wg.Add(1)
	go func() { // part (a) runs beside part (b)
		defer wg.Done()
		t0 := time.Now()
		failDepth = ev.Pick(r, 1, 99)
		exploreRunner(r, ev.Pick(r, 3, 4), max(2, ncpu/4))
		r.Set("a_wall_s", time.Since(t0).Seconds())
	}()
	exploreShapes(bc, shapes, all, ev.Pick(r, few, rot), 2, r.Thorough(), ncpu)
	wg.Wait()
	r.Set("b_shapes", int64(len(shapes)))
	r.Set("b_distinct_final_images", int64(len(bc.fin)))
	r.Set("distinct_nontrivial", r.Get("states"))
	r.Set("traces_validated_against_impl", r.Get("evaluations"))
	r.Set("rule", "a: BFS over (durable image, completed set): every process start = registry (1..4 migrations x optional flags) x one scripted outcome per Migrate/Before call (19 outcomes) x crash after / failure of every commit; "+
		"b: BFS over durable images of old-layout chains (incl. quiet chains: all-empty 10-block ranges above a busy first range / at the head, and chains with more ranges than ingest workers): every commit order of the ingest ranges x {uninterrupted, crash after each commit, cancel at each commit, cancel at first read of each work item (bt range, sdl / stager / restorer block), cancel before run, failure of each commit} x prune configuration {off, on R, on window > chain} per process start on the prune chains, <=2 interruptions then a clean run (second process start: 4 commit orders thorough; quick tier: 2 orders and only crash / cancel-at-commit; runner BFS depth 3 quick / 4 thorough process starts); non-trivial = distinct durable images")
	r.Finish()
}
