// Package c18 checks property C18: schema migrations preserve all chain data and survive interruption at
// any point. See a_test.go (runner discipline), b_test.go (real migrations), /verif/mc/faultdb (crash seam).
package c18

import (
	"fmt"
	"os"
	"path/filepath"
	"regexp"
	"runtime"
	"runtime/debug"
	"sync"
	"testing"
	"time"

	"verif/mc/ev"
)

// checkProductionRegistry parses $VERIF_REPO/node/migration.go (package node cannot be imported: jemalloc)
// and asserts that the order / optionality of the production registry is what the harness mirrors.
func checkProductionRegistry(r *ev.Run) {
	src, err := os.ReadFile(filepath.Join(ev.Repo(), "node", "migration.go"))
	if err != nil {
		r.Infra("cannot read node/migration.go: %v", err)
	}
	body := regexp.MustCompile(`(?s)migration\.NewRegistry\(\)(.*?)return registry`).FindSubmatch(src)
	if body == nil {
		r.Infra("node/migration.go: registerMigrations not recognised; update the mirror in props/c18")
	}
	calls := regexp.MustCompile(`(?s)\.\s*(With|WithOptional)\(\s*&?([a-z]+)\.`).FindAllSubmatch(body[1], -1)
	var got []string
	for _, c := range calls {
		got = append(got, fmt.Sprintf("%s:%v", c[2], string(c[1]) == "WithOptional"))
	}
	var want []string
	for i := 0; i < nMig; i++ {
		want = append(want, fmt.Sprintf("%s:%v", prodNames[i], prodOptional[i]))
	}
	if fmt.Sprint(got) != fmt.Sprint(want) {
		r.Infra("production registry changed: node/migration.go has %v, harness mirrors %v; update props/c18", got, want)
	}
	r.Set("production_registry", got)
}

func TestCheck(t *testing.T) {
	r := ev.Start("C18", "fault_enumeration")
	// the frontiers hold many small maps: collect eagerly and cap the runtime well below the box's share
	// (bin/check exports GOGC=600 / GOMEMLIMIT=10GiB; this harness wants less)
	debug.SetGCPercent(50)
	debug.SetMemoryLimit(4 << 30)
	r.SetBudget(ev.Pick(r, 140, 1500))
	r.Assume = append(r.Assume,
		"one batch commit is atomic (backend contract, C15); a crash is modelled between commits of the db.KeyValueStore seam (faultdb over db/memory)",
		"old-layout databases are produced with the frozen legacy writer migration/blocktransactions/txlayout (TransactionLayoutPerTx) and commitments without StateDiffLength",
		"blocktransactions commit orders: each ingest range in its own batch, all orders; batches holding several ranges produce a subset of these crash images",
		"a transient read fault (the k-th point read on the store fails once) is injected at every point read of the first process start under the canonical commit order; the run then dies with an error and every image it passed is a start state",
		"cancel-at-read injections race with the source goroutine (free-running after the injection); outcomes are checked, not the exact emission count",
		"statedifflength: the assignment of blocks to the per-worker batches follows two release policies (lowest / highest parked block first), not all assignments; its writes are per-block idempotent",
		"part b runs the real historyprunner (retainedBlocks as configured, min-age 0, L1 head = chain tip, or lagging it on the chains that say so) on the chains named 'prune-mode toggled', where each process start chooses off / on with the chain's retained value R / on with a window longer than the chain (len+100); other retained values (cutoff moving up or down by a few blocks between starts) are not enumerated; headstate is a disabled placeholder (its flag combinations are covered on the runner in part a)",
		"images behind the reported half-pruned no-op case (abrupt interruption of a started prune, then a start with the long window) are tainted: explored for crashes / refusals, their content is not judged again",
		"old-layout chains carry one legacy history entry per storage / nonce diff (the layout pruner/testutils writes), which the history-prune migration stages and restores",
	)
	checkProductionRegistry(r)
	httpPath(r)

	// ---------- part (a)

	// ---------- part (b)
	var shapes []shapeSpec
	addShape := func(n int, pat string, pruned int) {
		shapes = append(shapes, shapeSpec{Name: fmt.Sprintf("%d blocks %s pruned<%d", n, pat, pruned), Shape: mkShape(n, pat), Pruned: pruned, PruneR: -1})
	}
	// chains on which every process start also chooses the --prune-mode flag (real history-prune migration, retaining
	// `retained` blocks below the L1 head = tip): the cutoff tip-retained lies above the blocks where an interrupted
	// statedifflength run leaves its checkpoint (its 8 workers take blocks 0..7 first).
	addPruneShape := func(n int, pat string, retained int) {
		shapes = append(shapes, shapeSpec{Name: fmt.Sprintf("%d blocks %s prune-mode toggled, retain %d", n, pat, retained), Shape: mkShape(n, pat), PruneR: retained})
	}
	// the same with the recorded L1 head lagging the tip: the pivot is the L1 head; below the retention window = no-op
	addPruneShapeLag := func(n int, pat string, retained, lag int) {
		shapes = append(shapes, shapeSpec{Name: fmt.Sprintf("%d blocks %s prune-mode toggled, retain %d, L1 head %d below the tip", n, pat, retained, lag),
			Shape: mkShape(n, pat), PruneR: retained, L1Lag: lag})
	}
	if r.Quick() {
		addPruneShape(14, "dense", 3)
		addPruneShapeLag(14, "dense", 3, 11) // L1 head 2 < retained 3 <= height 13: nothing may be pruned
		for _, n := range []int{0, 1, 10, 11, 36} {
			addShape(n, "mixed", 0)
		}
		addShape(36, "sparse", 0)
		addShape(12, "lead-empty", 0)
		addShape(23, "mixed", 7)
	} else {
		// special shapes first so that a budget cut never drops them
		addPruneShape(14, "dense", 3)
		addPruneShape(14, "mixed", 0)
		addPruneShape(23, "mixed", 6)
		addPruneShape(5, "dense", 9)         // chain shorter than the retention window: the prune migration is a no-op
		addPruneShapeLag(14, "dense", 3, 11) // L1 head 2 < retained 3 <= height 13: nothing may be pruned
		addPruneShapeLag(14, "dense", 3, 4)  // L1 head 9: cutoff 6
		for _, n := range []int{12, 36} {
			addShape(n, "sparse", 0)
			addShape(n, "lead-empty", 0)
		}
		for _, p := range []int{7, 10} {
			addShape(23, "mixed", p)
			addShape(36, "mixed", p)
		}
		// chain lengths around every ingest-range boundary (ranges of 10 blocks): n mod 10 in {0,1,5,9}, and 36
		for _, n := range []int{36, 35, 31, 30, 29, 25, 21, 20, 19, 15, 11, 10, 9, 5, 1, 0} {
			addShape(n, "mixed", 0)
		}
		for _, n := range []int{1, 10, 11, 36} {
			addShape(n, "dense", 0)
		}
	}
	all := perms4()
	few := [][4]int{{0, 1, 2, 3}, {3, 2, 1, 0}}
	// thorough, second process start: identity, reverse and their half rotations (4 of the 24)
	rot := [][4]int{{0, 1, 2, 3}, {2, 3, 0, 1}, {3, 2, 1, 0}, {1, 0, 3, 2}}
	bc := &bCtx{r: r, t: t, fin: map[[32]byte]int{}}
	ncpu := runtime.GOMAXPROCS(0)
	var wg sync.WaitGroup
	wg.Add(1)
	go func() { // part (a) runs beside part (b)
		defer wg.Done()
		t0 := time.Now()
		failDepth = ev.Pick(r, 1, 99)
		exploreRunner(r, ev.Pick(r, 3, 4), max(2, ncpu/4))
		r.Set("a_wall_s", time.Since(t0).Seconds())
	}()
	exploreShapes(bc, shapes, all, ev.Pick(r, few, rot), 2, r.Thorough(), ncpu)
	wg.Wait()
	r.Set("b_shapes", int64(len(shapes)))
	r.Set("b_distinct_final_images", int64(len(bc.fin)))
	r.Set("distinct_nontrivial", r.Get("states"))
	r.Set("traces_validated_against_impl", r.Get("evaluations"))
	r.Set("rule", "a: BFS over (durable image, completed set): every process start = registry (1..4 migrations x optional flags) x one scripted outcome per Migrate/Before call (19 outcomes) x crash after / failure of every commit; "+
		"b: BFS over durable images of old-layout chains: every commit order of the ingest ranges x {uninterrupted, crash after each commit, cancel at each commit, cancel at first read of each work item (bt range, sdl / stager / restorer block), cancel before run, failure of each commit} x prune configuration {off, on R, on window > chain} per process start on the prune chains, <=2 interruptions then a clean run (second process start: 4 commit orders thorough; quick tier: 2 orders and only crash / cancel-at-commit; runner BFS depth 3 quick / 4 thorough process starts); non-trivial = distinct durable images")
	r.Finish()
}
