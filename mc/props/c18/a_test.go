package c18

// Part (a): runner discipline. The REAL migration.MigrationRunner / Registry / metadata code is driven with
// harness migrations whose every Before/Migrate call returns a scripted outcome. Explicit-state BFS over
// durable images: a state is (database image, set of migrations that ever returned (nil,nil)); a transition
// is one process start = NewRunner + Run with a registry (optional flags chosen freely, or an older binary
// with fewer migrations) and one scripted outcome per call; every image after every commit of every run
// (crash after that commit) is a state too, and every commit of every run is also made to fail once.

import (
	"bytes"
	"context"
	"errors"
	"fmt"
	"sort"
	"sync"
	"sync/atomic"

	"github.com/NethermindEth/juno/blockchain/networks"
	"github.com/NethermindEth/juno/db"
	"github.com/NethermindEth/juno/db/memory"
	"github.com/NethermindEth/juno/migration"
	"github.com/NethermindEth/juno/utils/log"
	"verif/mc/ev"
	"verif/mc/faultdb"
)

const nMig = 4

// mirror of node/migration.go: index -> optional?
var prodOptional = [nMig]bool{false, true, true, false}
var prodNames = [nMig]string{"blocktransactions", "historyprunner", "headstate", "statedifflength"}

type act struct {
	St     int  // returned state: 0 nil, 1 empty non-nil, 2 fresh token
	Err    int  // 0 nil, 1 ctx.Err(), 2 wrapped ctx.Err(), 3 other error, 4 Before() fails
	Cancel bool // context gets cancelled while Migrate runs
}

func (a act) String() string {
	st := [...]string{"nil", "[]byte{}", "token"}[a.St]
	er := [...]string{"nil", "ctx.Err()", "wrapped ctx.Err()", "other error", "Before fails"}[a.Err]
	c := ""
	if a.Cancel {
		c = " +cancel"
	}
	return "(" + st + "," + er + ")" + c
}
func (a act) continuing() bool { return a.Err == 0 && !a.Cancel }

func allActs() (out []act) {
	for st := 0; st < 3; st++ {
		out = append(out, act{st, 0, false}, act{st, 0, true}, act{st, 1, true}, act{st, 2, true}, act{st, 3, false}, act{st, 3, true})
	}
	return append(out, act{0, 4, false})
}

type call struct {
	Idx     int
	Before  []byte
	Act     act
	Commits int // commits numbered when Migrate returned
	Migrate bool
}

type env struct {
	acts       []act
	next       int
	cancel     context.CancelFunc
	ctx        context.Context
	d          *faultdb.DB
	calls      []call
	unexpected int
}

type hmig struct {
	idx    int
	e      *env
	before []byte
	a      act
}

var errOther = errors.New("harness: other error")

func (m *hmig) Before(s []byte) error {
	m.before = append([]byte(nil), s...)
	if m.e.next < len(m.e.acts) {
		m.a = m.e.acts[m.e.next]
	} else {
		m.a = act{}
		m.e.unexpected++
	}
	m.e.next++
	if m.a.Err == 4 {
		m.e.calls = append(m.e.calls, call{Idx: m.idx, Before: m.before, Act: m.a, Commits: m.e.d.Commits()})
		return errOther
	}
	return nil
}

func (m *hmig) Migrate(ctx context.Context, _ db.KeyValueStore, _ *networks.Network, _ log.StructuredLogger) ([]byte, error) {
	a := m.a
	if a.Cancel {
		m.e.cancel()
	}
	var st []byte
	switch a.St {
	case 1:
		st = []byte{}
	case 2:
		gen := byte('a')
		if len(m.before) == 3 && m.before[2] == 'a' {
			gen = 'b'
		}
		st = []byte{'T', byte('0' + m.idx), gen}
	}
	var err error
	switch a.Err {
	case 1:
		err = ctx.Err()
	case 2:
		err = fmt.Errorf("harness migration %d: %w", m.idx, ctx.Err())
	case 3:
		err = errOther
	}
	m.e.calls = append(m.e.calls, call{Idx: m.idx, Before: m.before, Act: a, Commits: m.e.d.Commits(), Migrate: true})
	return st, err
}

func buildRegistry(e *env, n int, e1, e2 bool) *migration.Registry {
	reg := migration.NewRegistry()
	en := [nMig]bool{true, e1, e2, true}
	for i := 0; i < n; i++ {
		if prodOptional[i] {
			reg.WithOptional(&hmig{idx: i, e: e}, en[i], prodNames[i])
		} else {
			reg.With(&hmig{idx: i, e: e})
		}
	}
	return reg
}

// meta is the decoded durable bookkeeping.
type meta struct {
	A, L  uint64
	Has   [nMig]bool
	S     [nMig]string
	Extra int // keys that are neither metadata nor intermediate state of migrations 0..3
}

func decodeMeta(img *memory.Database) meta {
	var m meta
	md, err := migration.GetSchemaMetadata(img)
	keys := 0
	if err == nil {
		m.A, m.L = uint64(md.CurrentVersion), uint64(md.LastTargetVersion)
		keys++
	}
	for i := 0; i < nMig; i++ {
		s, err := migration.GetIntermediateState(img, uint8(i))
		if err == nil {
			m.Has[i], m.S[i] = true, string(s)
			keys++
		}
	}
	m.Extra = len(img.Impl().(map[string][]byte)) - keys
	return m
}

func (m meta) String() string {
	s := fmt.Sprintf("applied=%04b lastTarget=%04b", m.A, m.L)
	for i := 0; i < nMig; i++ {
		if m.Has[i] {
			s += fmt.Sprintf(" state[%d]=%q", i, m.S[i])
		}
	}
	return s
}

type aState struct {
	img   *memory.Database
	C     uint64 // migrations that returned (nil,nil) at least once
	depth int
	trace string
}

type runResult struct {
	newErr, runErr error
	e              *env
	d              *faultdb.DB
}

func doRun(img *memory.Database, n int, e1, e2 bool, acts []act, failAt int) runResult {
	d := faultdb.Wrap(img.Copy())
	d.SnapshotAll()
	if failAt > 0 {
		d.FailAt(failAt, nil)
	}
	ctx, cancel := context.WithCancel(context.Background())
	defer cancel()
	e := &env{acts: acts, cancel: cancel, ctx: ctx, d: d}
	r, err := migration.NewRunner(buildRegistry(e, n, e1, e2), d, &networks.Mainnet, log.NewNopZapLogger())
	if err != nil {
		return runResult{newErr: err, e: e, d: d}
	}
	return runResult{runErr: r.Run(ctx), e: e, d: d}
}

func targetBits(n int, e1, e2 bool) uint64 {
	en := [nMig]bool{true, e1, e2, true}
	var t uint64
	for i := 0; i < n; i++ {
		if en[i] {
			t |= 1 << i
		}
	}
	return t
}

// failDepth: commit failures are injected into the runs started from states reached by < failDepth process starts.
var failDepth = 99

func exploreRunner(r *ev.Run, maxDepth, workers int) {
	acts := allActs()
	start := aState{img: memory.New(), trace: "empty db"}
	type key struct {
		h [32]byte
		c uint64
	}
	seen := map[key]bool{{faultdb.Hash(start.img), 0}: true}
	var mu sync.Mutex
	var next []aState
	var nStates atomic.Int64
	add := func(img *memory.Database, c uint64, depth int, trace string) {
		// (no memory guard here: runner images hold <= 5 keys; the guard protects part b's frontiers)
		k := key{faultdb.Hash(img), c}
		mu.Lock()
		defer mu.Unlock()
		if seen[k] {
			return
		}
		seen[k] = true
		next = append(next, aState{img, c, depth, trace})
	}
	level := []aState{start}
	for len(level) > 0 {
		next = nil
		ev.Par(len(level), workers, func(i int) { exploreRunnerState(r, level[i], acts, maxDepth, add, &nStates) })
		// deterministic order of the next level whatever the worker interleaving was
		sort.Slice(next, func(i, j int) bool { return next[i].trace < next[j].trace })
		level = next
	}
	r.Set("a_states", nStates.Load())
}

func exploreRunnerState(r *ev.Run, st aState, acts []act, maxDepth int, add func(*memory.Database, uint64, int, string), nStates *atomic.Int64) {
	{
		nStates.Add(1)
		r.Add("states", 1)
		if r.OutOfTime() {
			r.Incomplete("part a: time budget reached")
			return
		}
		m0 := decodeMeta(st.img)
		// --- older binaries (registry prefixes) and every optional-flag combination: refusal oracle
		for n := 1; n <= nMig; n++ {
			for fl := 0; fl < 4; fl++ {
				e1, e2 := fl&1 != 0, fl&2 != 0
				if (n < 2 && e1) || (n < 3 && e2) {
					continue
				}
				T := targetBits(n, e1, e2)
				appliedMissing := m0.A&^T != 0
				var optedInMissing uint64
				for i := 0; i < nMig; i++ {
					if prodOptional[i] && m0.L&(1<<i) != 0 && T&(1<<i) == 0 {
						optedInMissing |= 1 << i
					}
				}
				mustRefuse := appliedMissing || optedInMissing != 0
				res := doRun(st.img, n, e1, e2, nil, 0) // all calls default to (nil,nil)
				r.Add("evaluations", 1)
				r.Add("transitions", 1)
				tr := fmt.Sprintf("%s | start binary with %d migrations, optional flags (%v,%v)", st.trace, n, e1, e2)
				switch {
				case mustRefuse && res.newErr == nil:
					r.Outcome("a: lacking migration ACCEPTED")
					what := "applied migration missing"
					if !appliedMissing {
						what = "opted-in unapplied optional migration missing"
						if optedInMissing>>uint(n) != 0 {
							what += " (index beyond the binary's registry)"
						} else {
							what += " (flag switched off)"
						}
					}
					r.Violate("a/downgrade-or-opt-out-accepted: "+what, map[string]any{"trace": tr, "db": m0.String(), "target": fmt.Sprintf("%04b", T),
						"after_run": decodeMeta(res.d.Inner()).String()})
				case mustRefuse:
					r.Outcome("a: lacking migration refused")
					if res.d.Commits() != 0 {
						r.Violate("a/refused-start-wrote-to-db", map[string]any{"trace": tr})
					}
				case res.newErr != nil && m0.L>>uint(n) != 0:
					// Tolerance: the recorded target names migrations beyond this binary's registry. The binary cannot
					// tell an unapplied mandatory migration from an opted-in optional one it does not know, so refusing
					// is the safe answer and is neither required nor a violation; it must still not write anything.
					r.Outcome("a: unknown future migration in the recorded target refused (tolerated)")
					if res.d.Commits() != 0 {
						r.Violate("a/refused-start-wrote-to-db", map[string]any{"trace": tr})
					}
				case res.newErr != nil:
					r.Outcome("a: start refused without reason")
					r.Violate("a/legitimate-start-refused", map[string]any{"trace": tr, "db": m0.String(), "err": res.newErr.Error()})
				}
			}
		}
		if st.depth >= maxDepth {
			return
		}
		// --- current binary, every flag combination that must be accepted, every outcome script
		for fl := 0; fl < 4; fl++ {
			e1, e2 := fl&1 != 0, fl&2 != 0
			T := targetBits(nMig, e1, e2)
			if m0.L&^T != 0 || m0.A&^T != 0 {
				continue
			}
			var pending []int
			for i := 0; i < nMig; i++ {
				if T&(1<<i) != 0 && m0.A&(1<<i) == 0 {
					pending = append(pending, i)
				}
			}
			var rec func(prefix []act)
			rec = func(prefix []act) {
				if len(prefix) == len(pending) || (len(prefix) > 0 && !prefix[len(prefix)-1].continuing()) {
					checkRunnerRun(r, st, m0, e1, e2, T, pending, prefix, add)
					return
				}
				for _, a := range acts {
					rec(append(prefix[:len(prefix):len(prefix)], a))
				}
			}
			rec(nil)
		}
	}
}

type expStep struct {
	m meta
	C uint64
}

func checkRunnerRun(r *ev.Run, st aState, m0 meta, e1, e2 bool, T uint64, pending []int, script []act,
	add func(*memory.Database, uint64, int, string),
) {
	res := doRun(st.img, nMig, e1, e2, script, 0)
	r.Add("evaluations", 1)
	r.Add("transitions", 1)
	tr := fmt.Sprintf("%s | run flags(%v,%v) script %v", st.trace, e1, e2, script)
	detail := func(extra map[string]any) map[string]any {
		d := map[string]any{"trace": tr, "db_before": m0.String(), "db_after": decodeMeta(res.d.Inner()).String(), "run_err": fmt.Sprint(res.runErr)}
		for k, v := range extra {
			d[k] = v
		}
		return d
	}
	if res.newErr != nil {
		r.Violate("a/legitimate-start-refused", detail(map[string]any{"err": res.newErr.Error()}))
		return
	}
	// ---- reference model of the documented contract
	cur := m0
	cur.L = T
	C := st.C
	exp := []expStep{{cur, C}} // after commit 1 (LastTargetVersion)
	wantCalls := 0
	cancelled := false
	wantErr := "nil"
	dontCare := false
	for j, i := range pending {
		if j >= len(script) {
			break
		}
		a := script[j]
		wantCalls++
		if a.Cancel {
			cancelled = true
		}
		stop := false
		switch {
		case a.Err == 4 || a.Err == 3:
			wantErr, stop = "other", true
		case a.St != 0: // state returned with nil / ctx error: saved
			cur.Has[i] = true
			cur.S[i] = tokenFor(a, i, m0.S[i])
			exp = append(exp, expStep{cur, C})
			if cancelled {
				wantErr, stop = "ctx", true
			}
		case a.Err == 0: // (nil,nil): completed
			C |= 1 << i
			cur.A |= 1 << i
			cur.Has[i], cur.S[i] = false, ""
			exp = append(exp, expStep{cur, C})
			if cancelled {
				wantErr, stop = "ctx", true
			}
		default: // (nil, ctx error): NOT completed -> the bit must stay clear; state handling unspecified
			wantErr, stop, dontCare = "ctx", true, true
			if decodeMeta(res.d.Inner()).A&(1<<i) != 0 {
				r.Outcome("a: applied bit set after (nil, ctx error)")
				r.Violate(fmt.Sprintf("a/applied-bit-set-without-completion: Migrate returned (nil, %s)", [...]string{"", "ctx.Err()", "wrapped ctx.Err()"}[a.Err]),
					detail(map[string]any{"migration_index": i, "where": "migration/runner.go runMigration: a nil state falls through to CurrentVersion.Set even when err is the context error"}))
			} else {
				r.Outcome("a: (nil, ctx error) leaves bit clear")
			}
		}
		if stop {
			break
		}
	}
	// ---- compare calls: each pending migration once, in order, token handed back
	if res.e.unexpected > 0 || len(res.e.calls) != wantCalls {
		r.Violate("a/migrate-call-sequence-wrong", detail(map[string]any{"calls": fmt.Sprint(res.e.calls), "want_calls": wantCalls, "pending": pending}))
	} else {
		for j, c := range res.e.calls {
			if c.Idx != pending[j] {
				r.Violate("a/migrations-run-out-of-order-or-twice", detail(map[string]any{"calls": fmt.Sprint(res.e.calls), "pending": pending}))
				break
			}
			if !bytes.Equal(c.Before, []byte(m0.S[c.Idx])) {
				r.Violate("a/resume-token-not-handed-back", detail(map[string]any{"migration_index": c.Idx, "got": string(c.Before), "want": m0.S[c.Idx]}))
			}
		}
	}
	for _, c := range res.e.calls {
		if m0.A&(1<<c.Idx) != 0 {
			r.Violate("a/applied-migration-run-again", detail(map[string]any{"migration_index": c.Idx}))
		}
	}
	// ---- compare Run's result
	gotErr := "nil"
	switch {
	case res.runErr == nil:
	case errors.Is(res.runErr, context.Canceled):
		gotErr = "ctx"
	default:
		gotErr = "other"
	}
	if gotErr != wantErr {
		if wantErr != "nil" && gotErr == "nil" {
			r.Violate("a/run-reports-success-after-"+wantErr+"-error", detail(nil))
		} else {
			r.Violate("a/run-result-class-wrong want "+wantErr+" got "+gotErr, detail(nil))
		}
	}
	r.Outcome("a: run -> " + gotErr)
	// ---- every durable image of the run, in order (atomicity of bit + state clearing; nothing else written)
	n := res.d.Commits()
	if !dontCare {
		if n != len(exp) {
			r.Violate("a/unexpected-number-of-commits", detail(map[string]any{"got": n, "want": len(exp), "log": fmt.Sprint(res.d.Log())}))
		} else {
			for k := 1; k <= n; k++ {
				got := decodeMeta(res.d.Image(k))
				if got != exp[k-1].m {
					key := "a/durable-image-differs-from-contract"
					if got.A&^exp[k-1].m.A != 0 {
						key = "a/applied-bit-set-without-completion: image"
					}
					r.Violate(key, detail(map[string]any{"commit": k, "got": got.String(), "want": exp[k-1].m.String()}))
					break
				}
			}
		}
	}
	// the run in which some migrations were not brought to completion without cancellation still returns nil and
	// later migrations are started: recorded, tolerated (see report) -- the statement's "in order" is kept.
	if res.runErr == nil && decodeMeta(res.d.Inner()).A != T {
		r.Add("a_runs_returning_nil_with_unapplied_migration", 1)
	}
	// ---- crash after every commit: the image (with the completions known at that time) is a new state;
	for k := 1; k <= n; k++ {
		Ck := st.C
		for _, c := range res.e.calls {
			if c.Migrate && c.Act.St == 0 && c.Act.Err == 0 && c.Commits < k {
				Ck |= 1 << c.Idx
			}
		}
		img := res.d.Image(k)
		mk := decodeMeta(img)
		if mk.Extra != 0 {
			r.Violate("a/runner-wrote-foreign-keys", detail(map[string]any{"commit": k}))
		}
		add(img, Ck, st.depth+1, fmt.Sprintf("%s [crash after commit %d/%d]", tr, k, n))
	}
	// ---- every commit of the run fails once: Run must report an error and the image must be the previous one
	for k := 1; k <= n && st.depth < failDepth; k++ {
		rf := doRun(st.img, nMig, e1, e2, script, k)
		r.Add("evaluations", 1)
		r.Add("a_failed_commit_runs", 1)
		if rf.runErr == nil {
			r.Violate("a/failed-commit-swallowed", detail(map[string]any{"failed_commit": k}))
		}
		if faultdb.Hash(rf.d.Inner()) != faultdb.Hash(res.d.Image(k-1)) {
			r.Violate("a/writes-after-failed-commit", detail(map[string]any{"failed_commit": k, "got": decodeMeta(rf.d.Inner()).String()}))
		}
	}
	if len(res.e.calls) > 0 {
		r.Sample(map[string]any{"part": "a", "trace": tr, "calls": fmt.Sprint(res.e.calls), "run_err": fmt.Sprint(res.runErr), "db_after": decodeMeta(res.d.Inner()).String()})
	}
}

func tokenFor(a act, i int, before string) string {
	if a.St == 1 {
		return ""
	}
	gen := byte('a')
	if len(before) == 3 && before[2] == 'a' {
		gen = 'b'
	}
	return string([]byte{'T', byte('0' + i), gen})
}
