package c18

import (
	"bytes"
	"encoding/binary"
	"errors"
	"fmt"

	"github.com/NethermindEth/juno/core"
	"github.com/NethermindEth/juno/core/felt"
	"github.com/NethermindEth/juno/db"
	"github.com/NethermindEth/juno/db/memory"
	"github.com/NethermindEth/juno/encoder"
	_ "github.com/NethermindEth/juno/encoder/registry"
	"github.com/NethermindEth/juno/migration/blocktransactions/txlayout"
)

// ---- deterministic old-layout chain ----

func f(u uint64) *felt.Felt { return felt.NewFromUint64[felt.Felt](u) }
func fs(us ...uint64) []felt.Felt {
	out := make([]felt.Felt, len(us))
	for i, u := range us {
		out[i] = felt.FromUint64[felt.Felt](u)
	}
	return out
}

// mkTx builds one transaction; the kind rotates so that all five variants (and v0/v1/v3 shapes) occur.
func mkTx(block, idx uint64) core.Transaction {
	id := block*1000 + idx + 1
	h := f(0xabc000000 + id)
	switch (block + idx) % 6 {
	case 0:
		return &core.InvokeTransaction{TransactionHash: h, CallData: fs(id, 2, 3), TransactionSignature: fs(7, id),
			MaxFee: f(id), Version: new(core.TransactionVersion).SetUint64(1), Nonce: f(idx), SenderAddress: f(0xa)}
	case 1:
		return &core.InvokeTransaction{TransactionHash: h, CallData: fs(id), TransactionSignature: fs(1),
			Version: new(core.TransactionVersion).SetUint64(3), Nonce: f(idx), SenderAddress: f(0xb), Tip: id,
			ResourceBounds: map[core.Resource]core.ResourceBounds{
				core.ResourceL1Gas: {MaxAmount: id, MaxPricePerUnit: f(5)},
				core.ResourceL2Gas: {MaxAmount: 0, MaxPricePerUnit: f(0)},
			}, PaymasterData: fs(), AccountDeploymentData: fs()}
	case 2:
		return &core.DeclareTransaction{TransactionHash: h, ClassHash: f(0xc1a55 + id), SenderAddress: f(0xa), MaxFee: f(9),
			TransactionSignature: fs(3, 4), Nonce: f(idx), Version: new(core.TransactionVersion).SetUint64(2), CompiledClassHash: f(0xca5 + id)}
	case 3:
		return &core.DeployAccountTransaction{DeployTransaction: core.DeployTransaction{TransactionHash: h, ContractAddressSalt: f(id),
			ContractAddress: f(0xd0 + id), ClassHash: f(0xc1a55), ConstructorCallData: fs(1, id), Version: new(core.TransactionVersion).SetUint64(1)},
			MaxFee: f(11), TransactionSignature: fs(5), Nonce: f(0)}
	case 4:
		return &core.L1HandlerTransaction{TransactionHash: h, ContractAddress: f(0xe0), EntryPointSelector: f(0x5e1), Nonce: f(id),
			CallData: fs(0x11, id), Version: new(core.TransactionVersion).SetUint64(0)}
	default:
		return &core.DeployTransaction{TransactionHash: h, ContractAddressSalt: f(id), ContractAddress: f(0xd1 + id),
			ClassHash: f(0xc1a56), ConstructorCallData: fs(id), Version: new(core.TransactionVersion).SetUint64(0)}
	}
}

func mkReceipt(block, idx uint64, tx core.Transaction) *core.TransactionReceipt {
	id := block*1000 + idx + 1
	r := &core.TransactionReceipt{Fee: f(id * 3), FeeUnit: core.WEI, TransactionHash: tx.Hash(),
		ExecutionResources: &core.ExecutionResources{Steps: id, MemoryHoles: idx,
			BuiltinInstanceCounter: core.BuiltinInstanceCounter{Pedersen: id, RangeCheck: 2}}}
	for e := uint64(0); e < (id % 3); e++ {
		r.Events = append(r.Events, &core.Event{From: f(0xa + e), Keys: fs(id, e), Data: fs(e, e+1)})
	}
	if id%4 == 0 {
		r.Reverted, r.RevertReason = true, fmt.Sprintf("reverted-%d", id)
	}
	if id%5 == 0 {
		r.L2ToL1Message = []*core.L2ToL1Message{{From: f(0xa), Payload: fs(id)}}
	}
	return r
}

// shape = number of transactions of each block (len = number of blocks; height = len-1).
type chain struct {
	l1lag int // the recorded L1 head is this many blocks below the tip (0: at the tip)
	shape []int
	txs   [][]core.Transaction
	rcs   [][]*core.TransactionReceipt
	encTx [][][]byte // canonical encodings of the originals
	encRc [][][]byte
}

func mkChain(shape []int) *chain {
	c := &chain{shape: shape}
	for b, n := range shape {
		var txs []core.Transaction
		var rcs []*core.TransactionReceipt
		var et, er [][]byte
		for i := 0; i < n; i++ {
			tx := mkTx(uint64(b), uint64(i))
			rc := mkReceipt(uint64(b), uint64(i), tx)
			txs, rcs = append(txs, tx), append(rcs, rc)
			et, er = append(et, mustEnc(tx)), append(er, mustEnc(rc))
		}
		c.txs, c.rcs, c.encTx, c.encRc = append(c.txs, txs), append(c.rcs, rcs), append(c.encTx, et), append(c.encRc, er)
	}
	return c
}

func mustEnc(v any) []byte {
	b, err := encoder.Marshal(v)
	if err != nil {
		panic(err)
	}
	return b
}

// oldLayoutDB writes the chain the way a pre-migration node stored it: headers, the per-transaction
// buckets (TransactionsByBlockNumberAndIndex / ReceiptsByBlockNumberAndIndex) + hash lookup through the
// frozen legacy writer txlayout.TransactionLayoutPerTx, state updates and commitments without
// StateDiffLength. prunedBelow > 0 drops commitments/state updates/headers/txs of blocks below it.
func (c *chain) oldLayoutDB(prunedBelow int) *memory.Database {
	m := memory.New()
	if len(c.shape) == 0 {
		return m
	}
	must(core.WriteChainHeight(m, uint64(len(c.shape)-1)))
	tip := uint64(len(c.shape) - 1)
	l1 := tip - uint64(min(c.l1lag, int(tip)))
	must(core.WriteL1Head(m, &core.L1Head{BlockNumber: l1, BlockHash: f(0xb10c000 + l1), StateRoot: f(0x57a7e)}))
	for b := range c.shape {
		if b < prunedBelow {
			continue
		}
		bn := uint64(b)
		hdr := core.Header{Number: bn, Hash: f(0xb10c000 + bn), TransactionCount: uint64(c.shape[b])}
		must(core.BlockHeadersByNumberBucket.Put(m, bn, &hdr))
		must(txlayout.TransactionLayoutPerTx.WriteTransactionsAndReceipts(m, bn, c.txs[b], c.rcs[b]))
		sd := c.stateDiff(b)
		must(core.WriteStateUpdateByBlockNum(m, bn, &core.StateUpdate{BlockHash: hdr.Hash, StateDiff: sd}))
		must(core.WriteBlockHeaderNumberByHash(m, hdr.Hash, bn))
		// legacy per-contract history logs, one entry per storage / nonce diff of the block (what the legacy state
		// wrote and what the history-prune migration stages and restores): [bucket][addr][slot?][block BE] -> 32 bytes
		var be [8]byte
		binary.BigEndian.PutUint64(be[:], bn)
		for addr, slots := range sd.StorageDiffs {
			ab := addr.Bytes()
			for slot := range slots {
				sb := slot.Bytes()
				k := append([]byte{byte(db.DeprecatedContractStorageHistory)}, ab[:]...)
				k = append(append(k, sb[:]...), be[:]...)
				v := f(0x01d000 + bn).Bytes()
				must(m.Put(k, v[:]))
			}
		}
		for addr := range sd.Nonces {
			ab := addr.Bytes()
			k := append(append([]byte{byte(db.DeprecatedContractNonceHistory)}, ab[:]...), be[:]...)
			v := f(0x0e0000 + bn).Bytes()
			must(m.Put(k, v[:]))
		}
		must(core.WriteBlockCommitment(m, bn, &core.BlockCommitments{TransactionCommitment: f(0x7c0 + bn),
			EventCommitment: f(0xe70 + bn), ReceiptCommitment: f(0x4ec + bn), StateDiffCommitment: f(0x5d0 + bn)}))
	}
	return m
}

// stateDiff of block b: length varies with b (0 for every 4th block).
func (c *chain) stateDiff(b int) *core.StateDiff {
	n := uint64(b % 4)
	inner := map[felt.Felt]*felt.Felt{}
	for i := uint64(0); i < n; i++ {
		inner[felt.FromUint64[felt.Felt](i)] = f(i + 1)
	}
	sd := &core.StateDiff{StorageDiffs: map[felt.Felt]map[felt.Felt]*felt.Felt{}}
	if n > 0 {
		sd.StorageDiffs[felt.FromUint64[felt.Felt](uint64(b)+1)] = inner
	}
	if b%3 == 1 {
		sd.Nonces = map[felt.Felt]*felt.Felt{felt.FromUint64[felt.Felt](uint64(b)): f(1)}
	}
	return sd
}

func (c *chain) stateDiffLen(b int) uint64 {
	n := uint64(b % 4)
	if b%3 == 1 {
		n++
	}
	return n
}

func must(err error) {
	if err != nil {
		panic(err)
	}
}

// checkContent reads every retained block through the CURRENT accessors and compares with the original
// content. It returns the first discrepancy ("" if none).
func (c *chain) checkContent(r db.KeyValueReader, prunedBelow int, wantSDL bool) string {
	return c.checkContentOpt(r, prunedBelow, wantSDL, false)
}

// checkContentOpt: noHashLookups skips the by-hash lookups (the history-prune migration wipes the reverse-lookup
// buckets at its start and rebuilds them at its end, so they are legitimately absent while it is in flight).
func (c *chain) checkContentOpt(r db.KeyValueReader, prunedBelow int, wantSDL, noHashLookups bool) string {
	return c.checkContentSkip(r, prunedBelow, wantSDL, noHashLookups, nil)
}

// checkContentSkip: the blocks in skip (empty blocks without a combined entry, already reported by the caller under
// the key of their class, see missingEmpty) are not judged again, so that they cannot hide a later discrepancy.
func (c *chain) checkContentSkip(r db.KeyValueReader, prunedBelow int, wantSDL, noHashLookups bool, skip map[int]bool) string {
	for b := prunedBelow; b < len(c.shape); b++ {
		if skip[b] {
			continue
		}
		bn := uint64(b)
		txs, err := core.GetTransactionsByBlockNumber(r, bn)
		if err != nil {
			return fmt.Sprintf("block %d: GetTransactionsByBlockNumber: %v", b, err)
		}
		rcs, err := core.GetReceiptsByBlockNumber(r, bn)
		if err != nil {
			return fmt.Sprintf("block %d: GetReceiptsByBlockNumber: %v", b, err)
		}
		if len(txs) != c.shape[b] || len(rcs) != c.shape[b] {
			return fmt.Sprintf("block %d: %d transactions / %d receipts readable, original had %d", b, len(txs), len(rcs), c.shape[b])
		}
		blk, err := core.GetBlockByNumber(r, bn)
		if err != nil || len(blk.Transactions) != c.shape[b] {
			return fmt.Sprintf("block %d: GetBlockByNumber: %v", b, err)
		}
		for i := range txs {
			if !bytes.Equal(mustEnc(txs[i]), c.encTx[b][i]) {
				return fmt.Sprintf("block %d tx %d: content differs", b, i)
			}
			if !bytes.Equal(mustEnc(rcs[i]), c.encRc[b][i]) {
				return fmt.Sprintf("block %d receipt %d: content differs", b, i)
			}
			// derived lookups: by hash, by (block,index), pair, status
			h := (*felt.TransactionHash)(c.txs[b][i].Hash())
			if !noHashLookups {
				t2, err := core.GetTransactionByHash(r, h)
				if err != nil || !bytes.Equal(mustEnc(t2), c.encTx[b][i]) {
					return fmt.Sprintf("block %d tx %d: GetTransactionByHash: %v", b, i, err)
				}
			}
			t3, r3, err := core.GetTransactionAndReceiptByBlockAndIndex(r, bn, uint64(i))
			if err != nil || !bytes.Equal(mustEnc(t3), c.encTx[b][i]) || !bytes.Equal(mustEnc(r3), c.encRc[b][i]) {
				return fmt.Sprintf("block %d tx %d: GetTransactionAndReceiptByBlockAndIndex: %v", b, i, err)
			}
			st, err := core.GetTransactionExecutionStatusByBlockAndIndex(r, bn, uint64(i))
			if err != nil || st.Reverted != c.rcs[b][i].Reverted || st.RevertReason != c.rcs[b][i].RevertReason {
				return fmt.Sprintf("block %d tx %d: execution status: %v", b, i, err)
			}
		}
		hs, err := core.GetTransactionHashesByBlockNumber(r, bn)
		if err != nil || len(hs) != c.shape[b] {
			return fmt.Sprintf("block %d: GetTransactionHashesByBlockNumber: %v (%d)", b, err, len(hs))
		}
		for i := range hs {
			if !hs[i].Equal(c.txs[b][i].Hash()) {
				return fmt.Sprintf("block %d: tx hash %d differs", b, i)
			}
		}
		evs, err := core.GetTransactionEventsByBlockNumber(r, bn)
		if err != nil || len(evs) != c.shape[b] {
			return fmt.Sprintf("block %d: GetTransactionEventsByBlockNumber: %v", b, err)
		}
		for i := range evs {
			if len(evs[i].Events) != len(c.rcs[b][i].Events) {
				return fmt.Sprintf("block %d: events of tx %d differ", b, i)
			}
		}
		if wantSDL {
			cm, err := core.GetBlockCommitmentByBlockNum(r, bn)
			if err != nil {
				return fmt.Sprintf("block %d: commitments: %v", b, err)
			}
			if cm.StateDiffLength != c.stateDiffLen(b) {
				return fmt.Sprintf("block %d: StateDiffLength %d, state update has %d", b, cm.StateDiffLength, c.stateDiffLen(b))
			}
			if !cm.TransactionCommitment.Equal(f(0x7c0+bn)) || !cm.EventCommitment.Equal(f(0xe70+bn)) ||
				!cm.ReceiptCommitment.Equal(f(0x4ec+bn)) || !cm.StateDiffCommitment.Equal(f(0x5d0+bn)) {
				return fmt.Sprintf("block %d: commitments changed", b)
			}
		}
	}
	return ""
}

// oldLayoutRemains reports whether any entry is left in the two legacy buckets.
func oldLayoutRemains(m *memory.Database) bool {
	kv := m.Impl().(map[string][]byte)
	for k := range kv {
		if len(k) > 0 && (k[0] == byte(db.TransactionsByBlockNumberAndIndex) || k[0] == byte(db.ReceiptsByBlockNumberAndIndex)) {
			return true
		}
	}
	return false
}

// checkSDL: every retained block's commitments carry the state diff length of its state update, other fields untouched.
func (c *chain) checkSDL(r db.KeyValueReader, prunedBelow int) string {
	for b := prunedBelow; b < len(c.shape); b++ {
		bn := uint64(b)
		cm, err := core.GetBlockCommitmentByBlockNum(r, bn)
		if err != nil {
			return fmt.Sprintf("block %d: commitments: %v", b, err)
		}
		if cm.StateDiffLength != c.stateDiffLen(b) {
			return fmt.Sprintf("block %d: StateDiffLength %d, state update has %d", b, cm.StateDiffLength, c.stateDiffLen(b))
		}
		if !cm.TransactionCommitment.Equal(f(0x7c0+bn)) || !cm.EventCommitment.Equal(f(0xe70+bn)) ||
			!cm.ReceiptCommitment.Equal(f(0x4ec+bn)) || !cm.StateDiffCommitment.Equal(f(0x5d0+bn)) {
			return fmt.Sprintf("block %d: commitments changed", b)
		}
	}
	return ""
}

// checkPruned: every block below the prune cutoff is reported as pruned (not found) by the current accessors, and
// the retained blocks' hash -> number index was rebuilt.
func (c *chain) checkPruned(r db.KeyValueReader, cutoff int) string {
	for b := 0; b < cutoff && b < len(c.shape); b++ {
		bn := uint64(b)
		if _, err := core.GetTransactionsByBlockNumber(r, bn); !errors.Is(err, db.ErrKeyNotFound) {
			return fmt.Sprintf("pruned block %d: transactions still readable or wrong error (%v)", b, err)
		}
		if _, err := core.GetBlockCommitmentByBlockNum(r, bn); !errors.Is(err, db.ErrKeyNotFound) {
			return fmt.Sprintf("pruned block %d: commitments still there (%v)", b, err)
		}
		if _, err := core.GetStateUpdateByBlockNum(r, bn); !errors.Is(err, db.ErrKeyNotFound) {
			return fmt.Sprintf("pruned block %d: state update still there (%v)", b, err)
		}
		for i := range c.txs[b] {
			if _, err := core.GetTransactionByHash(r, (*felt.TransactionHash)(c.txs[b][i].Hash())); !errors.Is(err, db.ErrKeyNotFound) {
				return fmt.Sprintf("pruned block %d tx %d: still found by hash (%v)", b, i, err)
			}
		}
	}
	for b := cutoff; b < len(c.shape); b++ {
		n, err := core.GetBlockHeaderNumberByHash(r, f(0xb10c000+uint64(b)))
		if err != nil || n != uint64(b) {
			return fmt.Sprintf("retained block %d: hash -> number index not rebuilt (%v)", b, err)
		}
	}
	return ""
}
