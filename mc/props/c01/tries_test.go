package c01

// Trie layer of C01: both trie implementations as pure functions of their key/value set.

import (
	"bytes"
	"fmt"
	"math/big"
	"sync"

	"verif/mc/chain"
	"verif/mc/ev"
	"verif/mc/reftrie"

	"github.com/NethermindEth/juno/core/crypto"
	"github.com/NethermindEth/juno/core/felt"
	"github.com/NethermindEth/juno/core/trie"
	"github.com/NethermindEth/juno/core/trie2"
	"github.com/NethermindEth/juno/core/trie2/triedb/rawdb"
	"github.com/NethermindEth/juno/core/trie2/trienode"
	"github.com/NethermindEth/juno/core/trie2/trieutils"
	"github.com/NethermindEth/juno/db/memory"
)

// impl abstracts "open a trie on a persisted image, apply writes, commit, persist".
type impl struct {
	name string
	// apply opens the trie stored in d (root = current commitment), applies the writes in order inside ONE
	// commit and persists; returns the new root.
	apply func(d *memory.Database, height uint8, poseidon bool, root felt.Felt, writes []kv) (felt.Felt, error)
}

type kv struct {
	k, v felt.Felt
}

var legacyPrefix = []byte{0xEE}

func legacyApply(d *memory.Database, height uint8, poseidon bool, _ felt.Felt, writes []kv) (felt.Felt, error) {
	b := d.NewIndexedBatch()
	var t *trie.Trie
	var err error
	if poseidon {
		t, err = trie.NewTriePoseidon(b, legacyPrefix, height)
	} else {
		t, err = trie.NewTriePedersen(b, legacyPrefix, height)
	}
	if err != nil {
		return felt.Zero, err
	}
	for i := range writes {
		if _, err := t.Put(&writes[i].k, &writes[i].v); err != nil {
			return felt.Zero, err
		}
	}
	if err := t.Commit(); err != nil {
		return felt.Zero, err
	}
	root, err := t.Hash()
	if err != nil {
		return felt.Zero, err
	}
	return root, b.Write()
}

func trie2Apply(d *memory.Database, height uint8, poseidon bool, root felt.Felt, writes []kv) (felt.Felt, error) {
	hf := crypto.Pedersen
	if poseidon {
		hf = crypto.Poseidon
	}
	tdb := rawdb.New(d)
	t, err := trie2.New(trieutils.NewContractTrieID(felt.StateRootHash(root)), height, hf, tdb)
	if err != nil {
		return felt.Zero, err
	}
	for i := range writes {
		if err := t.Update(&writes[i].k, &writes[i].v); err != nil {
			return felt.Zero, err
		}
	}
	newRoot, nodes := t.Commit()
	b := d.NewBatch()
	var merged *trienode.MergeNodeSet
	if nodes != nil {
		merged = trienode.NewMergeNodeSet(nodes)
	}
	nr, pr := felt.StateRootHash(newRoot), felt.StateRootHash(root)
	if err := tdb.Update(&nr, &pr, 0, nil, merged, b); err != nil {
		return felt.Zero, err
	}
	return newRoot, b.Write()
}

var impls = []impl{{"legacy-trie", legacyApply}, {"trie2", trie2Apply}}

func refRoot(m map[uint64]uint64, height int, poseidon bool) felt.Felt {
	var kvs []reftrie.KV
	for k, v := range m {
		if v != 0 {
			kvs = append(kvs, reftrie.KV{K: new(big.Int).SetUint64(k), V: chain.FV(v)})
		}
	}
	h := reftrie.Pedersen
	if poseidon {
		h = reftrie.Poseidon
	}
	return reftrie.Root(kvs, height, h)
}

// stateCode: base-3 code of the value assignment over 2^h keys.
func decode(code, nkeys int) map[uint64]uint64 {
	m := map[uint64]uint64{}
	for k := 0; k < nkeys; k++ {
		d := code % 3
		code /= 3
		if d != 0 {
			m[uint64(k)] = valueOf(d)
		}
	}
	return m
}

func valueOf(d int) uint64 {
	switch d {
	case 1:
		return 0xA
	case 2:
		return 0xB
	}
	return 0
}

func encode(m map[uint64]uint64, nkeys int) int {
	code, mul := 0, 1
	for k := 0; k < nkeys; k++ {
		switch m[uint64(k)] {
		case 0xA:
			code += mul
		case 0xB:
			code += 2 * mul
		}
		mul *= 3
	}
	return code
}

// normalise strips history-dependent cache fields from a persisted image: the legacy trie stores optional
// LeftHash/RightHash caches inside inner nodes (present or not depending on which code path last wrote
// the node). They do not belong to the logical node set; their CORRECTNESS is still checked because every
// distinct raw image is explored as its own state and all its successors' roots are compared.
func normalise(im impl, d *memory.Database) string {
	if im.name != "legacy-trie" {
		return chain.ImageHash(d)
	}
	n := memory.New()
	for _, e := range chain.Image(d) {
		v := e.V
		if len(e.K) > len(legacyPrefix) && len(v) > felt.Bytes { // inner node (root-key pointer has the bare prefix as key)
			var node trie.Node
			if err := node.UnmarshalBinary(v); err == nil {
				node.LeftHash, node.RightHash = nil, nil
				var buf bytes.Buffer
				if _, err := node.WriteTo(&buf); err == nil {
					v = buf.Bytes()
				}
			}
		}
		n.Put(e.K, v)
	}
	return chain.ImageHash(n)
}

// exploreSmall: explicit-state search over ALL kv-maps of a height-h trie and all concrete persisted images
// that represent them. From every concrete state, every single write (and, if pairs, every ordered pair of
// writes inside one commit) is applied to a trie opened on that persisted image. Checks: root == reference;
// normalised persisted image == the one first recorded for the target kv-map (path independence, no leaked
// or stale nodes).
func exploreSmall(r *ev.Run, im impl, h int, poseidon, pairs, concrete bool) (states, transitions int) {
	nkeys := 1 << h
	label := fmt.Sprintf("%s h=%d %s", im.name, h, hashName(poseidon))
	type cstate struct {
		db   *memory.Database
		root felt.Felt
		code int
	}
	seen := map[string]bool{}          // raw image hash -> explored
	normOf := map[int]string{}         // abstract kv-map -> normalised image hash
	abstract := map[int]bool{0: true}  // abstract states reached
	root0 := &cstate{db: memory.New()}
	seen[chain.ImageHash(root0.db)] = true
	normOf[0] = normalise(im, root0.db)
	frontier := []*cstate{root0}
	states = 1
	type op struct{ k, d int }
	var ops []op
	for k := 0; k < nkeys; k++ {
		for d := 0; d < 3; d++ {
			ops = append(ops, op{k, d})
		}
	}
	var mu sync.Mutex
	for len(frontier) > 0 {
		var next []*cstate
		ev.Par(len(frontier), 14, func(fi int) {
			s := frontier[fi]
			cur := decode(s.code, nkeys)
			try := func(seq []op) {
				tgt := map[uint64]uint64{}
				for k, v := range cur {
					tgt[k] = v
				}
				var ws []kv
				for _, o := range seq {
					ws = append(ws, kv{chain.FV(uint64(o.k)), chain.FV(valueOf(o.d))})
					if o.d == 0 {
						delete(tgt, uint64(o.k))
					} else {
						tgt[uint64(o.k)] = valueOf(o.d)
					}
				}
				d := s.db.Copy()
				root, err := im.apply(d, uint8(h), poseidon, s.root, ws)
				desc := func() map[string]any {
					return map[string]any{"from": cur, "writes": fmt.Sprint(seq), "impl": label}
				}
				if err != nil {
					r.Violate("trie-op-fails "+label, map[string]any{"case": desc(), "err": err.Error()})
					return
				}
				want := refRoot(tgt, h, poseidon)
				if !root.Equal(&want) {
					r.Violate(fmt.Sprintf("trie-root-differs-from-commitment %s %s", label, shape(len(seq))), map[string]any{"case": desc(), "got": root.String(), "want": want.String()})
					return
				}
				t := encode(tgt, nkeys)
				raw, norm := chain.ImageHash(d), normalise(im, d)
				if !concrete {
					raw = norm // quick tier: one representative per normalised image (the thorough tier explores every raw image)
				}
				mu.Lock()
				transitions++
				abstract[t] = true
				known, had := normOf[t]
				if !had {
					normOf[t] = norm
				}
				fresh := !seen[raw]
				if fresh {
					seen[raw] = true
					states++
					next = append(next, &cstate{d, root, t})
				}
				mu.Unlock()
				if had && known != norm {
					r.Violate(fmt.Sprintf("persisted-nodes-depend-on-history %s %s", label, shape(len(seq))), map[string]any{"case": desc()})
				}
			}
			for _, o := range ops {
				try([]op{o})
			}
			if pairs {
				for _, o1 := range ops {
					for _, o2 := range ops {
						try([]op{o1, o2})
					}
				}
			}
			if pairs && h == 2 {
				// three writes inside one commit (height-2 tries only): the shortest sequences in which one key - or the
				// whole trie - goes away, comes back and goes away again before anything is persisted
				for _, o1 := range ops {
					for _, o2 := range ops {
						for _, o3 := range ops {
							try([]op{o1, o2, o3})
						}
					}
				}
			}
		})
		frontier = next
		if r.OutOfTime() {
			r.Incomplete("trie small-state search " + label)
			break
		}
	}
	r.Add("abstract_kv_maps_reached", int64(len(abstract)))
	return states, transitions
}

type opd struct{ k, d int }


func shape(n int) string {
	if n == 1 {
		return "single-write"
	}
	return fmt.Sprintf("%d-writes-one-commit", n)
}

func hashName(p bool) string {
	if p {
		return "poseidon"
	}
	return "pedersen"
}

// craftedKeys: height-251 keys with long shared prefixes, extremes, and neighbours.
func craftedKeys() []*big.Int {
	one := big.NewInt(1)
	p250 := new(big.Int).Lsh(one, 250)
	max := new(big.Int).Sub(new(big.Int).Lsh(one, 251), one)
	return []*big.Int{
		big.NewInt(0), big.NewInt(1), big.NewInt(2),
		p250, new(big.Int).Add(p250, one),
		max, new(big.Int).Sub(max, one),
		new(big.Int).Add(new(big.Int).Lsh(big.NewInt(5), 3), big.NewInt(1)), // 0b101001: shares a 248-bit prefix with 0..7
		new(big.Int).Add(new(big.Int).Lsh(one, 125), big.NewInt(3)),
	}
}

// prefixSweep: path arithmetic at every split position. For every length L of the common prefix of two 251-bit keys
// (L = 0..250) and three bit patterns of the keys (all ones, alternating, a hash-like constant; high bits set so that
// carries across the 64-bit words of a path matter): a third key that splits off higher up (when L > 0); every order of
// inserting the keys (one commit each, trie re-opened), then every single delete and every pair of deletes, the root
// compared with the reference commitment after every step. A delete collapses a binary node and merges two edges, so
// the lengths of both merged paths take every value.
func prefixSweep(r *ev.Run, im impl, poseidon bool) int {
	label := fmt.Sprintf("%s h=251 %s", im.name, hashName(poseidon))
	one := big.NewInt(1)
	full := new(big.Int).Sub(new(big.Int).Lsh(one, 251), one)
	alt, _ := new(big.Int).SetString("2aaaaaaaaaaaaaaaaaaaaaaaaaaaaaaaaaaaaaaaaaaaaaaaaaaaaaaaaaaaaaa", 16)
	hashy, _ := new(big.Int).SetString("49ee3eba8c1600700ee1b87eb599f16716b0b1022947733551fde4050ca6804", 16)
	hf := reftrie.Pedersen
	if poseidon {
		hf = reftrie.Poseidon
	}
	type cas struct {
		pat  int
		l    int
		keys []*big.Int
	}
	var cases []cas
	for pi, base := range []*big.Int{full, alt, hashy} {
		for l := 0; l <= 250; l++ {
			// k1 = base; k2 = base with bit (250-l) flipped and the bits below it complemented: common prefix exactly l bits
			k1 := new(big.Int).Set(base)
			low := new(big.Int).Sub(new(big.Int).Lsh(one, uint(250-l)), one)
			k2 := new(big.Int).Xor(base, new(big.Int).Lsh(one, uint(250-l)))
			k2.Xor(k2, low)
			ks := []*big.Int{k1, k2}
			if l > 0 {
				// k3 shares only the first l/2 bits
				m := l / 2
				k3 := new(big.Int).Xor(base, new(big.Int).Lsh(one, uint(250-m)))
				ks = append(ks, k3)
			}
			cases = append(cases, cas{pi, l, ks})
		}
	}
	var steps int64
	var mu sync.Mutex
	ev.Par(len(cases), 14, func(ci int) {
		c := cases[ci]
		n := len(c.keys)
		perms := [][]int{{0, 1}, {1, 0}}
		if n == 3 {
			perms = [][]int{{0, 1, 2}, {0, 2, 1}, {1, 0, 2}, {1, 2, 0}, {2, 0, 1}, {2, 1, 0}}
		}
		var local int64
		for _, perm := range perms {
			// delete sets: every non-empty proper subset, in index order and reversed
			for mask := 1; mask < 1<<n; mask++ {
				for _, rev := range []bool{false, true} {
					d := memory.New()
					var root felt.Felt
					live := map[int]bool{}
					check := func(step string) bool {
						var kvs []reftrie.KV
						for i := range live {
							kvs = append(kvs, reftrie.KV{K: c.keys[i], V: chain.FV(uint64(100 + i))})
						}
						want := reftrie.Root(kvs, 251, hf)
						local++
						if !root.Equal(&want) {
							r.Violate("trie-root-differs-from-commitment "+label+" prefix-sweep", map[string]any{"pattern": c.pat, "common_prefix_bits": c.l, "insert_order": perm,
								"delete_mask": mask, "reverse": rev, "step": step, "got": root.String(), "want": want.String()})
							return false
						}
						return true
					}
					ok := true
					write := func(i int, v felt.Felt, step string) {
						if !ok {
							return
						}
						var k felt.Felt
						k.SetBigInt(c.keys[i])
						nr, err := im.apply(d, 251, poseidon, root, []kv{{k, v}})
						if err != nil {
							r.Violate("trie-op-fails "+label, map[string]any{"common_prefix_bits": c.l, "step": step, "err": err.Error()})
							ok = false
							return
						}
						root = nr
						ok = check(step)
					}
					for _, i := range perm {
						live[i] = true
						write(i, chain.FV(uint64(100+i)), fmt.Sprintf("insert key %d", i))
					}
					var dels []int
					for i := 0; i < n; i++ {
						if mask>>i&1 == 1 {
							dels = append(dels, i)
						}
					}
					if rev {
						for a, b := 0, len(dels)-1; a < b; a, b = a+1, b-1 {
							dels[a], dels[b] = dels[b], dels[a]
						}
					}
					if rev && len(dels) < 2 {
						continue
					}
					for _, i := range dels {
						delete(live, i)
						write(i, felt.Zero, fmt.Sprintf("delete key %d", i))
					}
				}
			}
		}
		mu.Lock()
		steps += local
		mu.Unlock()
	})
	return int(steps)
}

// exploreCrafted: height 251, all ordered sequences of distinct keys up to maxLen inserted one commit each,
// then deleted in forward and reverse order; root checked after every step on both hash functions.
func exploreCrafted(r *ev.Run, im impl, maxLen int, poseidon bool) int {
	keys := craftedKeys()
	label := fmt.Sprintf("%s h=251 %s", im.name, hashName(poseidon))
	var seqs [][]int
	var gen func(cur []int, used int)
	gen = func(cur []int, used int) {
		if len(cur) > 0 {
			seqs = append(seqs, append([]int{}, cur...))
		}
		if len(cur) == maxLen {
			return
		}
		for i := range keys {
			if used>>i&1 == 0 {
				gen(append(cur, i), used|1<<i)
			}
		}
	}
	gen(nil, 0)
	var steps int64
	var mu sync.Mutex
	ev.Par(len(seqs), 14, func(si int) {
		if r.OutOfTime() {
			r.Incomplete("crafted-key sequences " + label)
			return
		}
		seq := seqs[si]
		for _, delOrder := range []string{"forward", "reverse"} {
			d := memory.New()
			var root felt.Felt
			live := map[int]bool{}
			check := func(step string) bool {
				var kvs []reftrie.KV
				for i := range live {
					kvs = append(kvs, reftrie.KV{K: keys[i], V: chain.FV(uint64(100 + i))})
				}
				hf := reftrie.Pedersen
				if poseidon {
					hf = reftrie.Poseidon
				}
				want := reftrie.Root(kvs, 251, hf)
				if !root.Equal(&want) {
					r.Violate("trie-root-differs-from-commitment "+label+" crafted-keys", map[string]any{"seq": seq, "step": step, "delete_order": delOrder, "got": root.String(), "want": want.String()})
					return false
				}
				return true
			}
			n := 0
			ok := true
			for _, i := range seq {
				var k felt.Felt
				k.SetBigInt(keys[i])
				nr, err := im.apply(d, 251, poseidon, root, []kv{{k, chain.FV(uint64(100 + i))}})
				if err != nil {
					r.Violate("trie-op-fails "+label, map[string]any{"seq": seq, "err": err.Error()})
					ok = false
					break
				}
				root = nr
				live[i] = true
				n++
				if !check(fmt.Sprintf("insert %d", i)) {
					ok = false
					break
				}
			}
			if !ok {
				break
			}
			order := append([]int{}, seq...)
			if delOrder == "reverse" {
				for a, b := 0, len(order)-1; a < b; a, b = a+1, b-1 {
					order[a], order[b] = order[b], order[a]
				}
			}
			for _, i := range order {
				var k felt.Felt
				k.SetBigInt(keys[i])
				nr, err := im.apply(d, 251, poseidon, root, []kv{{k, felt.Zero}})
				if err != nil {
					r.Violate("trie-op-fails "+label, map[string]any{"seq": seq, "err": err.Error()})
					break
				}
				root = nr
				delete(live, i)
				n++
				if !check(fmt.Sprintf("delete %d", i)) {
					break
				}
			}
			if len(live) == 0 && len(chain.Image(d)) != 0 && ok {
				r.Violate("emptied-trie-leaves-nodes-behind "+label, map[string]any{"seq": seq, "delete_order": delOrder, "left": len(chain.Image(d))})
			}
			mu.Lock()
			steps += int64(n)
			mu.Unlock()
		}
	})
	return int(steps)
}
