package c01

// Layer 3 - READS interleaved with UPDATES on ONE LONG-LIVED node.
//
// Layers 1 and 2 open a fresh trie / a fresh Blockchain for every operation and never read anything while an update
// is in flight, so whatever lives for the life of the process below the state layer (trie-node caches, state-object
// caches, memoised roots) is empty whenever a root is computed, and no read ever lands between "the update has been
// applied to the in-memory structures" and "its batch is committed to the key/value store". The property quantifies
// over interleavings and says the root does not depend on restarts, so here:
//
//	history   every path b0..b(D-1) of the state diffs of the shared block alphabet (D = 3 quick / 4 thorough; the
//	          blocks carry no transactions - the tx/receipt commitments are not what this layer is about), executed on
//	          ONE Blockchain instance over ONE store, driven either through SanityCheckNewHeight+Store (sync path:
//	          the block carries the reference root, acceptance == juno computed it) or through Finalise (sequencer
//	          path: juno derives the root that gets signed; it must be the reference root);
//	point     for one block bj of the history, j <= D-2 (so at least one more block follows on the same process):
//	          every durable write the store proxy sees during that Store/Finalise (Put / Delete / DeleteRange /
//	          batch.Write, numbered 1..c) is a scheduling point "right BEFORE the k-th durable write is applied";
//	          plus the sequential point "after the call returned" (thorough);
//	reader    one reader runs to completion at that point (what an RPC goroutine serving `latest` does), on a trie T in
//	          {ClassTrie, ContractTrie, ContractStorageTrie(a) for every address a that exists in some state of the
//	          history - also when it does not exist yet at the point}: quick - T.all = Hash, then Get and Prove of
//	          every key of the universe of T; thorough - additionally T.Hash, T.Get, T.Prove on their own and
//	          T.Get(k) / T.Prove(k) for every single key k; and the flat reads (class hash, nonce, storage slots,
//	          classes) of every address of the universe.
//
// Oracles: (1) the reader's answers are those of the state it can see (reference dictionary state of the current head);
// (2) every later block of the history is accepted / finalised with the reference root; (3) after every later block the
// tries of the long-lived node hash to the reference roots; (4) the store image equals the image of the same history executed
// without any read (a read leaves no durable trace), whose restarted twin is checked against the reference as well.
// A history whose undisturbed long-lived run is refused is replayed with a restart before every block: if that is
// refused too it is layer 2's finding (e.g. the known sys1.clear case of the legacy backend), otherwise it is a
// long-lived-node defect reported here.

import (
	"fmt"
	"os"
	"sort"
	"strconv"
	"strings"
	"sync"
	"time"

	"verif/mc/chain"
	"verif/mc/ev"
	"verif/mc/hist"
	"verif/mc/reftrie"

	"github.com/NethermindEth/juno/blockchain"
	"github.com/NethermindEth/juno/core"
	"github.com/NethermindEth/juno/core/felt"
	"github.com/NethermindEth/juno/core/trie"
	"github.com/NethermindEth/juno/core/trie2"
	"github.com/NethermindEth/juno/db"
	"github.com/NethermindEth/juno/db/memory"
)

// ---- store proxy: a callback right before every durable write ----

type commitDB struct {
	db.KeyValueStore // the in-memory backend (reads go straight through)
	inner            *memory.Database
	n                int         // durable writes seen since arm()
	hook             func(n int) // runs right before the n-th durable write is applied (nil = none)
}

func newCommitDB() *commitDB {
	m := memory.New()
	return &commitDB{KeyValueStore: m, inner: m}
}

func (d *commitDB) arm(hook func(n int)) { d.n, d.hook = 0, hook }

func (d *commitDB) pre() {
	d.n++
	if h := d.hook; h != nil {
		d.hook = nil // the reader itself must not re-enter
		h(d.n)
		d.hook = h
	}
}

func (d *commitDB) Put(k, v []byte) error         { d.pre(); return d.inner.Put(k, v) }
func (d *commitDB) Delete(k []byte) error         { d.pre(); return d.inner.Delete(k) }
func (d *commitDB) DeleteRange(s, e []byte) error { d.pre(); return d.inner.DeleteRange(s, e) }
func (d *commitDB) NewBatch() db.Batch            { return &commitBatch{d.inner.NewIndexedBatch(), d} }
func (d *commitDB) NewBatchWithSize(int) db.Batch { return d.NewBatch() }
func (d *commitDB) NewIndexedBatch() db.IndexedBatch {
	return &commitBatch{d.inner.NewIndexedBatch(), d}
}
func (d *commitDB) NewIndexedBatchWithSize(int) db.IndexedBatch {
	return d.NewIndexedBatch()
}
func (d *commitDB) WithListener(db.EventListener) db.KeyValueStore { return d }
func (d *commitDB) Update(fn func(db.IndexedBatch) error) error {
	b := d.NewIndexedBatch()
	if err := fn(b); err != nil {
		return err
	}
	return b.Write()
}

func (d *commitDB) Write(fn func(db.Batch) error) error {
	b := d.NewBatch()
	if err := fn(b); err != nil {
		return err
	}
	return b.Write()
}

type commitBatch struct {
	db.IndexedBatch
	d *commitDB
}

func (b *commitBatch) Write() error { b.d.pre(); return b.IndexedBatch.Write() }

// ---- memoised reference commitments of the dictionary states (the entries of the history tree are shared) ----

type stRef struct {
	class, contract felt.Felt
	storage         map[felt.Felt]felt.Felt
}

var (
	refMemo    sync.Map // *chain.State -> *stRef
	rootMemo   sync.Map // rootKey -> felt.Felt
	emptyState = chain.NewState()
)

type rootKey struct {
	st      *chain.State
	version string
}

func refOf(st *chain.State) *stRef {
	if v, ok := refMemo.Load(st); ok {
		return v.(*stRef)
	}
	ref := &stRef{class: st.ClassRoot(), contract: st.ContractRoot(), storage: map[felt.Felt]felt.Felt{}}
	for a, c := range st.Contracts {
		ref.storage[a] = st.StorageRoot(c)
	}
	refMemo.Store(st, ref)
	return ref
}

func rootOf(st *chain.State, version string) felt.Felt {
	if v, ok := rootMemo.Load(rootKey{st, version}); ok {
		return v.(felt.Felt)
	}
	root := st.Root(version)
	rootMemo.Store(rootKey{st, version}, root)
	return root
}

// ---- reader operations ----

var (
	ilAddrs = []felt.Felt{chain.AddrA, chain.AddrB, chain.AddrC, chain.Sys1, chain.Sys2}
	// slots the alphabet writes (Slot0, Slot1, block numbers 0..3 in 0x1, 7 in 0x2) and one never written
	ilSlots = []felt.Felt{chain.Slot0, chain.Slot1, chain.FV(0), chain.FV(1), chain.FV(2), chain.FV(7), chain.FV(0x777)}
)

func ilClasses() []felt.Felt {
	_, h0 := chain.Cairo0(0)
	_, h1, _, _ := chain.Sierra(1)
	_, h2, _, _ := chain.Sierra(2)
	return []felt.Felt{h0, h1, h2, chain.FV(0xBADC1A55)}
}

type readerOp struct {
	family string     // "ClassTrie" | "ContractTrie" | "ContractStorageTrie" | "flat"  (goes into violation keys)
	addr   *felt.Felt // storage trie owner
	kind   string     // "all" (Hash, then Get and Prove of every key) | "Hash" | "Get" | "Prove" | "reads"
	key    *felt.Felt // nil = every key of the universe of that trie
}

func (o readerOp) String() string {
	s := o.family
	if o.addr != nil {
		s += "(" + o.addr.ShortString() + ")"
	}
	s += "." + o.kind
	if o.key != nil {
		s += "(" + o.key.ShortString() + ")"
	}
	return s
}

func (o readerOp) class() string { return o.family + "." + o.kind }

func readerOps(perKey bool, addrs []felt.Felt) []readerOp {
	var out []readerOp
	tries := []readerOp{{family: "ClassTrie"}, {family: "ContractTrie"}}
	for i := range addrs {
		tries = append(tries, readerOp{family: "ContractStorageTrie", addr: &addrs[i]})
	}
	for _, t := range tries {
		kinds := []string{"all"}
		if perKey {
			kinds = []string{"all", "Hash", "Get", "Prove"}
		}
		for _, kind := range kinds {
			o := t
			o.kind = kind
			out = append(out, o)
			if perKey && (kind == "Get" || kind == "Prove") {
				keys := o.keys()
				for i := range keys {
					ok := o
					ok.key = &keys[i]
					out = append(out, ok)
				}
			}
		}
	}
	out = append(out, readerOp{family: "flat", kind: "reads"})
	return out
}

func (o readerOp) keys() []felt.Felt {
	if o.key != nil {
		return []felt.Felt{*o.key}
	}
	switch o.family {
	case "ClassTrie":
		return ilClasses()
	case "ContractTrie":
		return append(append([]felt.Felt{}, ilAddrs...), chain.FV(0xDEAD))
	}
	return ilSlots
}

func proveKey(tr core.TrieReader, key *felt.Felt) error {
	switch t := tr.(type) {
	case *trie.Trie:
		return t.Prove(key, trie.NewProofNodeSet())
	case *trie2.Trie:
		return t.Prove(key, trie2.NewProofNodeSet())
	}
	return fmt.Errorf("unknown trie type %T", tr)
}

// run executes the reader on the node's current head state; st is the reference state the head state must show
// (nil = no expectation: the point lies between two durable writes of one call). It returns "" or what was wrong.
func (o readerOp) run(bc *blockchain.Blockchain, st *chain.State) (bad string) {
	panicked, msg := ev.Guard(func() { bad = o.run0(bc, st) })
	if panicked {
		return "panic: " + msg
	}
	return bad
}

func (o readerOp) run0(bc *blockchain.Blockchain, st *chain.State) string {
	sr, closer, err := bc.HeadState()
	if err != nil {
		// empty chain: the state before genesis
		sr, closer, err = bc.StateAtBlockHash(&felt.Zero)
		if err != nil {
			return "no state reader: " + err.Error()
		}
	}
	defer closer()
	if o.family == "flat" {
		return o.flat(sr, st)
	}
	var tr core.TrieReader
	var wantRoot felt.Felt
	leaf := func(k *felt.Felt) felt.Felt { return felt.Zero }
	switch o.family {
	case "ClassTrie":
		tr, err = sr.ClassTrie()
		if st != nil {
			wantRoot = refOf(st).class
			leaf = func(k *felt.Felt) felt.Felt {
				if c, ok := st.Classes[*k]; ok && c.Sierra {
					casm := c.Casm()
					return reftrie.ClassLeaf(&casm)
				}
				return felt.Zero
			}
		}
	case "ContractTrie":
		tr, err = sr.ContractTrie()
		if st != nil {
			wantRoot = refOf(st).contract
			leaf = func(k *felt.Felt) felt.Felt {
				if c, ok := st.Contracts[*k]; ok {
					sroot := refOf(st).storage[*k]
					return reftrie.ContractLeaf(&c.Class, &sroot, &c.Nonce)
				}
				return felt.Zero
			}
		}
	default:
		tr, err = sr.ContractStorageTrie(o.addr)
		if st != nil {
			if c, ok := st.Contracts[*o.addr]; ok {
				wantRoot = refOf(st).storage[*o.addr]
				leaf = func(k *felt.Felt) felt.Felt { return c.Storage[*k] }
			} else if err != nil {
				return "" // no such contract in the visible state: refusing is the right answer
			}
		}
	}
	if err != nil {
		if st == nil {
			return ""
		}
		return "trie not available: " + err.Error()
	}
	if o.kind == "Hash" || o.kind == "all" {
		got, err := tr.Hash()
		if err != nil {
			return "Hash: " + err.Error()
		}
		if st != nil && !got.Equal(&wantRoot) {
			return fmt.Sprintf("Hash = %s, reference root of the visible state = %s", got.String(), wantRoot.String())
		}
	}
	if o.kind == "Get" || o.kind == "all" {
		keys := o.keys()
		for i := range keys {
			got, err := tr.Get(&keys[i])
			if err != nil {
				return "Get: " + err.Error()
			}
			if want := leaf(&keys[i]); st != nil && !got.Equal(&want) {
				return fmt.Sprintf("Get(%s) = %s, reference leaf of the visible state = %s", keys[i].ShortString(), got.String(), want.String())
			}
		}
	}
	if o.kind == "Prove" || o.kind == "all" {
		keys := o.keys()
		for i := range keys {
			if err := proveKey(tr, &keys[i]); err != nil {
				return fmt.Sprintf("Prove(%s): %s", keys[i].ShortString(), err.Error())
			}
		}
	}
	return ""
}

func (o readerOp) flat(sr core.StateReader, st *chain.State) string {
	for i := range ilAddrs {
		a := &ilAddrs[i]
		var c *chain.Contract
		if st != nil {
			c = st.Contracts[*a]
		}
		ch, err1 := sr.ContractClassHash(a)
		nc, err2 := sr.ContractNonce(a)
		if st != nil && c != nil && !c.System {
			if err1 != nil || err2 != nil || !ch.Equal(&c.Class) || !nc.Equal(&c.Nonce) {
				return fmt.Sprintf("class hash / nonce of %s = %s / %s (%v %v), reference %s / %s", a.ShortString(), ch.String(), nc.String(), err1, err2, c.Class.String(), c.Nonce.String())
			}
		}
		for j := range ilSlots {
			v, err := sr.ContractStorage(a, &ilSlots[j])
			if err != nil {
				v = felt.Zero // nonexistent contract: error and zero are the same observation
			}
			if st != nil {
				var want felt.Felt
				if c != nil {
					want = c.Storage[ilSlots[j]]
				}
				if !v.Equal(&want) {
					return fmt.Sprintf("storage %s[%s] = %s, reference %s", a.ShortString(), ilSlots[j].ShortString(), v.String(), want.String())
				}
			}
		}
	}
	for _, h := range ilClasses() {
		h := h
		_, err := sr.Class(&h)
		if st != nil {
			if _, declared := st.Classes[h]; declared != (err == nil) {
				return fmt.Sprintf("class %s: declared in the reference = %v, read error = %v", h.ShortString(), declared, err)
			}
		}
	}
	return ""
}

// ---- histories ----

type ilHistory struct {
	entries []*chain.Entry
	names   []string
	exotic  string
	addrs   []felt.Felt // every address that exists in some state of the history (sorted)
	// filled by the undisturbed run
	ok      bool
	commits []int  // durable writes per block
	image   string // store image after the whole history
}

func (h *ilHistory) path() string { return "store:" + strings.Join(h.names, " ; store:") }

func (h *ilHistory) stateBefore(j int) *chain.State {
	if j == 0 {
		return emptyState
	}
	return h.entries[j-1].State
}

// ilHistories: every path of exactly `depth` blocks over the state diffs of the shared alphabet (no transactions).
func ilHistories(r *ev.Run, at func(uint64) string, depth int) []*ilHistory {
	var out []*ilHistory
	var rec func(parent *chain.Entry, es []*chain.Entry, names []string)
	rec = func(parent *chain.Entry, es []*chain.Entry, names []string) {
		if len(es) == depth {
			h := &ilHistory{entries: append([]*chain.Entry{}, es...), names: append([]string{}, names...)}
			seen := map[felt.Felt]bool{}
			for i, n := range names {
				if n == "sys1.clear" {
					h.exotic = " [history clears system contract 0x1]"
				}
				for a := range es[i].State.Contracts {
					if !seen[a] {
						seen[a] = true
						h.addrs = append(h.addrs, a)
					}
				}
			}
			sort.Slice(h.addrs, func(i, j int) bool { return h.addrs[i].Cmp(&h.addrs[j]) < 0 })
			out = append(out, h)
			return
		}
		var number uint64
		var st *chain.State
		if parent != nil {
			number, st = parent.Block.Number+1, parent.State
		}
		for _, nm := range chain.Alphabet(st, number, at(number)) {
			sp := nm.Spec
			sp.Txs = nil
			e, err := chain.Build(parent, sp)
			if err != nil {
				r.Infra("layer 3: alphabet produced an invalid block %s: %v", nm.Name, err)
			}
			rec(e, append(es, e), append(names, nm.Name))
		}
	}
	rec(nil, nil, nil)
	return out
}

type rootDiffers struct{ got, want string }

func (e *rootDiffers) Error() string {
	return "finalised root " + e.got + " differs from the reference commitment " + e.want
}

// drive feeds a private copy of the entry's block and state update (header and update copied; the blocks carry no
// transactions) to the node through the chosen path.
func drive(bc *blockchain.Blockchain, e *chain.Entry, finalise bool) (err error) {
	hdr := *e.Block.Header
	blk := &core.Block{Header: &hdr, Transactions: []core.Transaction{}, Receipts: []*core.TransactionReceipt{}}
	su := *e.SU
	panicked, msg := ev.Guard(func() {
		if !finalise {
			var cm *core.BlockCommitments
			if cm, err = bc.SanityCheckNewHeight(blk, &su, e.Classes); err == nil {
				err = bc.Store(blk, cm, &su, e.Classes)
			}
			return
		}
		want := *e.Block.GlobalStateRoot
		blk.GlobalStateRoot, blk.Hash, su.NewRoot, su.BlockHash = nil, nil, nil, nil
		if err = bc.Finalise(blk, &su, e.Classes, nil); err != nil {
			return
		}
		if blk.GlobalStateRoot == nil || !blk.GlobalStateRoot.Equal(&want) {
			got := "<nil>"
			if blk.GlobalStateRoot != nil {
				got = blk.GlobalStateRoot.String()
			}
			err = &rootDiffers{got, want.String()}
		}
	})
	if panicked {
		return fmt.Errorf("panic: %s", msg)
	}
	return err
}

// triesAgainstReference: the stored head root and the roots hashed from the node's tries equal the reference.
func triesAgainstReference(bc *blockchain.Blockchain, st *chain.State, version string) string {
	want := rootOf(st, version)
	hdr, err := bc.HeadsHeader()
	if err != nil {
		return "no head header: " + err.Error()
	}
	if !hdr.GlobalStateRoot.Equal(&want) {
		return fmt.Sprintf("stored root %s, reference commitment %s", hdr.GlobalStateRoot.String(), want.String())
	}
	ops := []readerOp{{family: "ClassTrie", kind: "Hash"}, {family: "ContractTrie", kind: "Hash"}}
	for _, a := range st.Addresses() {
		a := a
		ops = append(ops, readerOp{family: "ContractStorageTrie", addr: &a, kind: "Hash"})
	}
	for _, o := range ops {
		if bad := o.run(bc, st); bad != "" {
			return o.String() + ": " + bad
		}
	}
	return ""
}

type ilMode struct {
	newState bool
	finalise bool
	version  string
	at       func(uint64) string
}

func (m ilMode) label() string {
	how := "store"
	if m.finalise {
		how = "finalise"
	}
	return how + " " + m.version + hist.Backend(m.newState) + " [long-lived node]"
}

const pointAfter = 0 // scheduling point "after the call returned"; k >= 1 = right before the k-th durable write

func pointName(k int) string {
	if k == pointAfter {
		return "after-the-call-returned"
	}
	return "before-commit"
}

var (
	ilDeadline    time.Time
	ilClassesMu   sync.Mutex
	ilClassesSeen = map[string]bool{} // reader class @ point, over all configurations
)

// interleavedReads is layer 3 for one (backend, drive path, protocol version).
func interleavedReads(r *ev.Run, m ilMode, depth int, perKey, withAfter bool) (histories, scenarios int) {
	label := m.label()
	hs := ilHistories(r, m.at, depth)
	var mu sync.Mutex

	// undisturbed run of every history on one long-lived node: commit points per block, final image; twin check
	ev.Par(len(hs), 12, func(i int) {
		h := hs[i]
		if r.OutOfTime() || time.Now().After(ilDeadline) {
			r.Incomplete("layer 3 " + label + ": undisturbed runs cut")
			return
		}
		d := newCommitDB()
		bc := chain.NewNode(d, m.newState)
		for j, e := range h.entries {
			d.arm(nil)
			if err := drive(bc, e, m.finalise); err != nil {
				// whose finding is it? replay with a restart before every block
				d2 := memory.New()
				var err2 error
				for _, e2 := range h.entries[:j+1] {
					if err2 = drive(chain.NewNode(d2, m.newState), e2, m.finalise); err2 != nil {
						break
					}
				}
				if err2 != nil {
					r.Outcome("L3: history refused with restarts too (layer 2's finding)")
				} else {
					r.Violate("valid-block-rejected-only-without-restart "+label+h.exotic, map[string]any{"history": h.path(), "block": j, "err": err.Error()})
				}
				return
			}
			h.commits = append(h.commits, d.n)
			if bad := triesAgainstReference(bc, e.State, e.Block.ProtocolVersion); bad != "" {
				r.Violate("trie-roots-differ-from-commitment "+label+h.exotic, map[string]any{"history": h.path(), "after_block": j, "what": bad})
				return
			}
		}
		last := h.entries[len(h.entries)-1]
		r.Add("evaluations", 1)
		r.Add("longlived_histories_without_reads", 1)
		if bad := triesAgainstReference(chain.NewNode(d.inner.Copy(), m.newState), last.State, last.Block.ProtocolVersion); bad != "" {
			r.Violate("trie-roots-differ-from-commitment-after-restart "+label+h.exotic, map[string]any{"history": h.path(), "what": bad})
			return
		}
		h.image = chain.ImageHash(d.inner)
		h.ok = true
	})

	type job struct {
		h    *ilHistory
		j, k int
		op   readerOp
	}
	var jobs []job
	maxCommits := 0
	for _, h := range hs {
		if !h.ok {
			continue
		}
		histories++
		ops := readerOps(perKey, h.addrs)
		for j := 0; j+1 < len(h.entries); j++ {
			if h.commits[j] > maxCommits {
				maxCommits = h.commits[j]
			}
			lo := 1
			if withAfter {
				lo = pointAfter
			}
			for k := lo; k <= h.commits[j]; k++ {
				for _, op := range ops {
					jobs = append(jobs, job{h, j, k, op})
				}
			}
		}
	}
	ev.Par(len(jobs), 12, func(i int) {
		jb := jobs[i]
		h := jb.h
		if r.OutOfTime() || time.Now().After(ilDeadline) {
			r.Incomplete("layer 3 " + label + ": interleavings cut")
			return
		}
		keySuffix := fmt.Sprintf(" %s reader=%s point=%s%s", label, jb.op.class(), pointName(jb.k), h.exotic)
		detail := func(extra map[string]any) map[string]any {
			out := map[string]any{"history": h.path(), "read_during_block": jb.j, "point": fmt.Sprintf("%s (durable write %d of %d)", pointName(jb.k), jb.k, h.commits[jb.j]),
				"reader": jb.op.String(), "all_on_one_blockchain_instance": true}
			for k, v := range extra {
				out[k] = v
			}
			return out
		}
		d := newCommitDB()
		bc := chain.NewNode(d, m.newState)
		readBad := ""
		for j, e := range h.entries {
			d.arm(nil)
			if j == jb.j && jb.k != pointAfter {
				// the head the reader can see is the parent of bj as long as nothing of this call is durable; after the
				// first durable write of a call with several, no expectation is attached to the answers
				vis := h.stateBefore(j)
				if jb.k > 1 {
					vis = nil
				}
				d.arm(func(n int) {
					if n == jb.k {
						readBad = jb.op.run(bc, vis)
					}
				})
			}
			err := drive(bc, e, m.finalise)
			d.arm(nil)
			if err != nil {
				key := "valid-block-rejected-after-interleaved-read"
				if _, isRoot := err.(*rootDiffers); isRoot {
					key = "finalised-root-differs-from-commitment-after-interleaved-read"
				}
				r.Violate(key+keySuffix, detail(map[string]any{"block": j, "err": err.Error()}))
				return
			}
			if j == jb.j && jb.k == pointAfter {
				readBad = jb.op.run(bc, e.State)
			}
			if j == jb.j && readBad != "" {
				r.Violate("interleaved-read-wrong-answer"+keySuffix, detail(map[string]any{"what": readBad}))
				return
			}
			if j > jb.j {
				if bad := triesAgainstReference(bc, e.State, e.Block.ProtocolVersion); bad != "" {
					r.Violate("trie-roots-differ-from-commitment-after-interleaved-read"+keySuffix, detail(map[string]any{"after_block": j, "what": bad}))
					return
				}
			}
		}
		if img := chain.ImageHash(d.inner); img != h.image {
			r.Violate("interleaved-read-changes-durable-state"+keySuffix, detail(map[string]any{"image": img, "image_without_read": h.image}))
			return
		}
		r.Add("evaluations", 1)
		r.Add("interleaved_read_scenarios", 1)
		mu.Lock()
		scenarios++
		mu.Unlock()
		ilClassesMu.Lock()
		ilClassesSeen[jb.op.class()+"@"+pointName(jb.k)] = true
		ilClassesMu.Unlock()
	})
	r.Add("interleaved_read_histories", int64(histories))
	if histories > 0 {
		r.Outcome(fmt.Sprintf("L3: at most %d durable write(s) per Store/Finalise call", maxCommits))
	}
	return histories, scenarios
}

// interleavedLayer runs layer 3 over its configurations and returns (histories, scenarios).
func interleavedLayer(r *ev.Run) (states, transitions int) {
	v0132 := func(uint64) string { return "0.13.2" }
	v014 := func(n uint64) string {
		if n < 2 {
			return "0.14.0"
		}
		return "0.14.1"
	}
	type cfg struct {
		m             ilMode
		depth         int
		perKey, after bool
	}
	var cfgs []cfg
	for _, newState := range []bool{true, false} {
		for _, finalise := range []bool{false, true} {
			if r.Quick() {
				cfgs = append(cfgs, cfg{ilMode{newState, finalise, "0.13.2", v0132}, 3, false, false})
				continue
			}
			cfgs = append(cfgs,
				cfg{ilMode{newState, finalise, "0.13.2", v0132}, 3, true, true},
				cfg{ilMode{newState, finalise, "0.13.2", v0132}, 4, false, true})
			if !finalise {
				cfgs = append(cfgs, cfg{ilMode{newState, finalise, "0.14.0->0.14.1@2", v014}, 3, false, true})
			}
		}
	}
	// the layer runs first so that the hash-heavy layers cannot starve it; in turn it may use at most 35% of the run's
	// budget (a deadline like the run's own: what is cut is reported as incomplete, never judged)
	ilDeadline = time.Now().Add(time.Duration(0.35 * float64(ev.Pick(r, 170, 2700)) * float64(time.Second)))
	if n, err := strconv.Atoi(os.Getenv("VERIF_C01_L3_FROM")); err == nil && n < len(cfgs) { // development aid
		cfgs = cfgs[n:]
	}
	for _, c := range cfgs {
		t0 := time.Now()
		h, s := interleavedReads(r, c.m, c.depth, c.perKey, c.after)
		states += h
		transitions += s
		// wall_s is reporting only (cost accounting), never an oracle
		r.Sample(map[string]any{"layer": "interleaved-reads", "config": c.m.label(), "depth": c.depth, "reader_per_key": c.perKey, "point_after_call": c.after,
			"histories": h, "scenarios": s, "wall_s": time.Since(t0).Seconds()})
	}
	r.Set("interleaved_reader_classes", int64(len(ilClassesSeen)))
	return states, transitions
}
