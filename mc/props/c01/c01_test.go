package c01

// C01 — the state root is the protocol commitment of the resulting abstract state; every trie root is a
// pure function of its key/value set; independent of order, batching, restarts and implementation.

import (
	"fmt"
	"os"
	"testing"

	"verif/mc/chain"
	"verif/mc/ev"
	"verif/mc/hist"
	"verif/mc/reftrie"

	"context"

	"github.com/NethermindEth/juno/blockchain"
	"github.com/NethermindEth/juno/core/state"
	"github.com/NethermindEth/juno/db/memory"
	"github.com/NethermindEth/juno/migration/state/headstate"
	"github.com/NethermindEth/juno/utils/log"
	"github.com/NethermindEth/juno/core"
	"github.com/NethermindEth/juno/core/felt"
)

func TestCheck(t *testing.T) {
	r := ev.Start("C01", "model_checking")
	r.SetBudget(ev.Pick(r, 170, 2700))
	var states, transitions int64

	// ---- layer 3 (interleave_test.go): reads at every commit point of a Store/Finalise on one long-lived node.
	// It runs first: it is cheap, and the hash-heavy trie layer must not be able to starve it on a loaded machine.
	{
		s, tr := interleavedLayer(r)
		states += int64(s)
		transitions += int64(tr)
		if os.Getenv("VERIF_C01_ONLY_L3") != "" { // development aid: layer 3 alone (use with VERIF_OUT=<scratch dir>)
			r.Set("states", states)
			r.Set("transitions", transitions)
			r.Set("traces_validated_against_impl", transitions)
			r.Set("distinct_nontrivial", states)
			r.Set("rule", "layer 3 only (development run)")
			r.Incomplete("VERIF_C01_ONLY_L3: layers 1 and 2 skipped")
			r.Finish()
		}
	}

	// ---- layer 1a: all kv-maps of small tries, both implementations, both hash functions ----
	for _, im := range impls {
		for _, poseidon := range []bool{false, true} {
			s, tr := exploreSmall(r, im, 2, poseidon, true, true)
			states += int64(s)
			transitions += int64(tr)
			r.Sample(map[string]any{"layer": "trie", "impl": im.name, "height": 2, "hash": hashName(poseidon), "states": s, "transitions": tr, "pairs": true})
		}
		if !(r.Quick() && im.name == "legacy-trie") || true {
			pairs := r.Thorough()
			s, tr := exploreSmall(r, im, 3, false, pairs, r.Thorough())
			states += int64(s)
			transitions += int64(tr)
			r.Sample(map[string]any{"layer": "trie", "impl": im.name, "height": 3, "hash": "pedersen", "states": s, "transitions": tr, "pairs": pairs})
		}
	}
	// ---- layer 1b: crafted 251-bit keys ----
	for _, im := range impls {
		for _, poseidon := range []bool{false, true} {
			if r.Quick() && poseidon {
				continue
			}
			n := exploreCrafted(r, im, ev.Pick(r, 3, 5), poseidon)
			transitions += int64(n)
			r.Add("crafted_key_steps", int64(n))
			n = prefixSweep(r, im, poseidon)
			transitions += int64(n)
			r.Add("prefix_sweep_steps", int64(n))
		}
	}
	// ---- layer 1c: temporary tries used for tx/event/receipt commitments, both backends ----
	tempTries(r)

	// ---- layer 2: state commitment through the real Blockchain, both backends ----
	type backendCfg struct {
		newState  bool
		transform func(*memory.Database) error
		tag       string
	}
	for _, bk := range []backendCfg{{false, nil, ""}, {true, nil, ""}, {true, remigrateHeadState, " +head-state-migration-between-updates"}} {
		newState := bk.newState
		for ci, vc := range []struct {
			name string
			at   func(uint64) string
		}{
			{"0.13.2", func(uint64) string { return "0.13.2" }},
			{"0.14.0->0.14.1@2", func(n uint64) string {
				if n < 2 {
					return "0.14.0"
				}
				return "0.14.1"
			}},
			{"0.14.0", func(uint64) string { return "0.14.0" }},
			// the commitment formula switches on the header's protocol version: versions whose textual order differs
			// from their numeric order (0.9.x > 0.14.0 as strings), the unversioned era, a four-part version, the last
			// version line before the switch (versions above the supported maximum 0.14.1 are refused by design)
			{"0.9.1", func(uint64) string { return "0.9.1" }},
			{"unversioned", func(uint64) string { return "" }},
			{"0.13.1.1", func(uint64) string { return "0.13.1.1" }},
			{"0.13.6", func(uint64) string { return "0.13.6" }},
			{"0.2.0->0.11.0@1", func(n uint64) string {
				if n < 1 {
					return "0.2.0"
				}
				return "0.11.0"
			}},
		} {
			depth := ev.Pick(r, 3, 4)
			if ci >= 3 {
				depth = ev.Pick(r, 2, 3) // formula sweep: short chains (deploy + write, declare + deploy) are enough
			}
			if r.Quick() && ci == 2 {
				continue
			}
			if bk.transform != nil && ci != 0 {
				continue // the migrated-records configuration runs on one protocol version
			}
			label := vc.name + hist.Backend(newState) + bk.tag
			st := hist.Explore(hist.Config{
				NewState: newState, Depth: depth, VersionAt: vc.at, Run: r, Label: label, NoRevert: true, Transform: bk.transform,
				OnStoreFail: func(p *hist.Node, nm chain.Named, err error) {
					// the block's root IS the reference commitment of the dictionary state: refusing it means juno computed another root
					r.Violate("valid-block-rejected "+nm.Name+" "+label+exoticName(p, nm), map[string]any{"path": p.PathString(), "block": nm.Name, "err": err.Error()})
				},
				Visit: func(n *hist.Node, bc *blockchain.Blockchain) {
					r.Add("evaluations", 1)
					checkStateNode(r, n, bc, label)
				},
				OnStore: func(p, c *hist.Node, nm chain.Named) {
					// split independence: two blocks vs one merged block give the same root (same protocol version only)
					checkMerge(r, p, c, vc.at, newState, label)
				},
			})
			states += int64(st.States)
			transitions += int64(st.Transitions)
			r.Sample(map[string]any{"layer": "state", "config": label, "states": st.States, "transitions": st.Transitions})
		}
	}
	r.Set("states", states)
	r.Set("transitions", transitions)
	r.Set("traces_validated_against_impl", transitions)
	r.Set("distinct_nontrivial", states)
	r.Set("rule", "layer 1: explicit-state search over ALL kv-maps of height-2/3 tries x every single write (and every ordered pair inside one commit) on a trie re-opened from the persisted image, "+
		"both trie implementations, Pedersen and Poseidon: root == independent reference commitment AND persisted node image == image first recorded for that kv-map; all ordered insert/delete sequences over crafted 251-bit keys; pairs / triples of 251-bit keys with every common-prefix length 0..250 (three bit patterns) inserted in every order and deleted in every subset; "+
		"temporary commitment tries for 0..17 items on both backends. layer 2: BFS over chains of state diffs through the real Blockchain (both backends, 0.13.2 / 0.14.0 / 0.14.1), stored root and the commitment recomputed from the stored tries == reference commitment of the dictionary state; two-blocks-vs-merged-block root equality. "+
		"layer 3: every path of D state diffs on ONE long-lived Blockchain (Store and Finalise, both backends) x every block with a successor x every durable write of that call (a trie reader of the head state runs right before it is applied) x every reader (class / contract / storage tries: Hash, Get, Prove; flat reads): reader answers, acceptance and roots of all later blocks, final store image == the run without reads")
	r.Assume = append(r.Assume, "Pedersen/Poseidon primitives and felt arithmetic trusted (pinned by the suite's known-answer tests)", "Go map iteration order inside juno is not controlled")
	r.Finish()
}

// remigrateHeadState puts every consolidated contract record of a new-state image back into the deprecated
// per-field layout and runs the REAL head-state migrator over it, so that the next update operates on records as
// the schema migration leaves them (e.g. with the storage root not yet backfilled). A node that was upgraded
// from the legacy layout must compute the same roots as one that never was.
func remigrateHeadState(d *memory.Database) error {
	touched := false
	for _, a := range []felt.Felt{chain.AddrA, chain.AddrB, chain.AddrC, chain.Sys1, chain.Sys2} {
		a := a
		rec, err := state.GetContract(d, &a)
		if err != nil {
			continue
		}
		if err := state.DeleteContract(d, &a); err != nil {
			return err
		}
		if err := core.WriteContractClassHash(d, &a, &rec.ClassHash); err != nil {
			return err
		}
		if !rec.Nonce.IsZero() {
			if err := core.WriteContractNonce(d, &a, &rec.Nonce); err != nil {
				return err
			}
		}
		if err := core.WriteContractDeploymentHeight(d, &a, rec.DeployedHeight); err != nil {
			return err
		}
		touched = true
	}
	if !touched {
		return nil
	}
	_, err := headstate.Migrator{}.Migrate(context.Background(), d, chain.Net, log.NewNopZapLogger())
	return err
}

func tempTries(r *ev.Run) {
	for n := 0; n <= 17; n++ {
		for _, poseidon := range []bool{false, true} {
			var kvs []reftrie.KV
			vals := make([]felt.Felt, n)
			for i := 0; i < n; i++ {
				vals[i] = chain.FV(uint64(0x7000 + 13*i))
				kvs = append(kvs, reftrie.KVOf(chain.F(uint64(i)), &vals[i]))
			}
			hf := reftrie.Pedersen
			if poseidon {
				hf = reftrie.Poseidon
			}
			want := reftrie.Root(kvs, 64, hf)
			for bi, be := range []core.TempTrieBackend{core.DeprecatedTrieBackend, core.TrieBackend} {
				run := be.RunOnTempTriePedersen
				if poseidon {
					run = be.RunOnTempTriePoseidon
				}
				var got felt.Felt
				err := run(64, func(t core.Trie) error {
					for i := 0; i < n; i++ {
						if err := t.Update(chain.F(uint64(i)), &vals[i]); err != nil {
							return err
						}
					}
					var e error
					got, e = t.Hash()
					return e
				})
				r.Add("evaluations", 1)
				r.Add("temp_trie_cases", 1)
				if err != nil || !got.Equal(&want) {
					r.Violate(fmt.Sprintf("temp-trie-commitment-wrong backend=%d %s", bi, hashName(poseidon)), map[string]any{"items": n, "got": got.String(), "want": want.String(), "err": fmt.Sprint(err)})
				}
			}
		}
	}
}

// checkStateNode: the stored header root and the commitment recomputed from the stored tries both equal the
// reference commitment of the dictionary state, and the per-contract storage roots match.
func checkStateNode(r *ev.Run, n *hist.Node, bc *blockchain.Blockchain, label string) {
	h := n.Head()
	if h == nil {
		return
	}
	want := h.State.Root(h.Block.ProtocolVersion)
	hdr, err := bc.HeadsHeader()
	if err != nil || !hdr.GlobalStateRoot.Equal(&want) {
		r.Violate("stored-root-differs-from-commitment "+label+n.Exotic(), map[string]any{"path": n.PathString(), "err": fmt.Sprint(err)})
		return
	}
	sr, cl, err := bc.HeadState()
	if err != nil {
		r.Violate("head-state-fails "+label, map[string]any{"path": n.PathString(), "err": err.Error()})
		return
	}
	defer cl()
	ct, err := sr.ContractTrie()
	if err == nil {
		got, e := ct.Hash()
		wantC := h.State.ContractRoot()
		if e != nil || !got.Equal(&wantC) {
			r.Violate("contract-trie-root-differs "+label+n.Exotic(), map[string]any{"path": n.PathString(), "got": got.String(), "want": wantC.String()})
		}
	}
	kt, err := sr.ClassTrie()
	if err == nil {
		got, e := kt.Hash()
		wantK := h.State.ClassRoot()
		if e != nil || !got.Equal(&wantK) {
			r.Violate("class-trie-root-differs "+label+n.Exotic(), map[string]any{"path": n.PathString(), "got": got.String(), "want": wantK.String()})
		}
	}
	for a, c := range h.State.Contracts {
		a := a
		st, err := sr.ContractStorageTrie(&a)
		if err != nil {
			continue
		}
		got, e := st.Hash()
		wantS := h.State.StorageRoot(c)
		if e != nil || !got.Equal(&wantS) {
			r.Violate("storage-trie-root-differs "+label+n.Exotic(), map[string]any{"path": n.PathString(), "addr": a.String(), "got": got.String(), "want": wantS.String()})
		}
	}
}

// checkMerge: for p --b1--> c and every b2 valid after c (same version), the merged diff b1+b2 applied to p
// as one block must give the same root as b1 then b2.
func checkMerge(r *ev.Run, p, c *hist.Node, at func(uint64) string, newState bool, label string) {
	b1 := c.Head()
	num := b1.Block.Number
	if at(num) != at(num+1) {
		return
	}
	for _, nm2 := range chain.Alphabet(b1.State, num+1, at(num+1)) {
		e2, err := chain.Build(b1, nm2.Spec)
		if err != nil {
			continue
		}
		merged, classes, ok := mergeDiffs(b1, e2)
		if !ok {
			continue
		}
		em, err := chain.Build(p.Head(), chain.BlockSpec{Version: at(num), Timestamp: b1.Spec.Timestamp, Diff: merged, Classes: classes})
		if err != nil {
			continue // the merge is not a legal single diff (e.g. declare + migrate of the same class)
		}
		r.Add("evaluations", 1)
		r.Add("merge_cases", 1)
		// the dictionary roots agree by construction of the model; what is checked is that juno accepts the merged block,
		// i.e. computes this root too, on a node at state p
		d := p.DB.Copy()
		if err := chain.StoreSync(chain.NewNode(d, newState), em); err != nil {
			r.Violate("merged-block-rejected "+label+exoticMerge(p, b1, nm2), map[string]any{"path": p.PathString(), "b1": b1.Spec.Diff, "b2": nm2.Name, "err": err.Error()})
			continue
		}
		// and storing b2 after b1 must be accepted as well (done by the search when c is expanded)
		rm := em.State.Root(at(num))
		r2 := e2.State.Root(at(num))
		if !rm.Equal(&r2) {
			r.Outcome("merge-not-equivalent-in-model") // e.g. system contract cleared in between; not comparable
		} else {
			r.Outcome("merged-root-equals-split-root")
		}
	}
}

func exoticName(p *hist.Node, nm chain.Named) string {
	if e := p.Exotic(); e != "" || nm.Name != "sys1.clear" {
		return e
	}
	return " [history clears system contract 0x1]"
}

func exoticMerge(p *hist.Node, b1 *chain.Entry, nm2 chain.Named) string {
	if e := p.Exotic(); e != "" {
		return e
	}
	if nm2.Name == "sys1.clear" {
		return " [history clears system contract 0x1]"
	}
	if m, ok := b1.Spec.Diff.StorageDiffs[chain.Sys1]; ok {
		all := len(m) > 0
		for _, v := range m {
			all = all && v.IsZero()
		}
		if all {
			return " [history clears system contract 0x1]"
		}
	}
	return ""
}

func mergeDiffs(a, b *chain.Entry) (*core.StateDiff, map[felt.Felt]core.ClassDefinition, bool) {
	d := core.EmptyStateDiff()
	classes := map[felt.Felt]core.ClassDefinition{}
	for _, e := range []*chain.Entry{a, b} {
		sd := e.Spec.Diff
		if sd == nil {
			continue
		}
		for addr, m := range sd.StorageDiffs {
			if d.StorageDiffs[addr] == nil {
				d.StorageDiffs[addr] = map[felt.Felt]*felt.Felt{}
			}
			for k, v := range m {
				d.StorageDiffs[addr][k] = v
			}
		}
		for addr, n := range sd.Nonces {
			d.Nonces[addr] = n
		}
		for addr, c := range sd.DeployedContracts {
			d.DeployedContracts[addr] = c
		}
		for addr, c := range sd.ReplacedClasses {
			if _, dep := d.DeployedContracts[addr]; dep {
				d.DeployedContracts[addr] = c // deployed and replaced inside the merged block
			} else {
				d.ReplacedClasses[addr] = c
			}
		}
		d.DeclaredV0Classes = append(d.DeclaredV0Classes, sd.DeclaredV0Classes...)
		for h, c := range sd.DeclaredV1Classes {
			d.DeclaredV1Classes[h] = c
		}
		if len(sd.MigratedClasses) > 0 {
			return nil, nil, false
		}
		for h, c := range e.Classes {
			classes[h] = c
		}
	}
	return &d, classes, true
}
