package c11

// Part G — the CHUNKING environment.
//
// What the transport answers to Read is part of the input: a socket, an HTTP body or a WebSocket message hands the
// request over in pieces of its own choosing, and the property quantifies over the BYTE SEQUENCE received, so how
// that sequence is cut into reads must not matter. Parts A-F deliver every input through bytes.Reader, which always
// fills the caller's buffer (one piece) and whose requests are far smaller than any buffer on the path. Part G
// delivers LARGE requests (sizes straddling the 512 / 640 / 1 Ki / 4 Ki buffer boundaries) through a reader whose
// Read returns harness-chosen pieces, staying within what net.Conn / http.Request.Body do: every Read returns
// >= 1 byte, split points are arbitrary, io.EOF comes together with the last bytes or on the following Read.
//
// Deviation-bounded view: the default delivery is ONE piece; every extra split point is one deviation.
//   k = 1  EVERY split offset 1..n-1 of every request (exhaustive),
//   k = 2  every pair of offsets over a grid (multiples of g2, plus first/last byte and 2^j-1, 2^j, 2^j+1, 640+-1),
//   k = 3  (thorough tier, requests below 1400 bytes) every triple over a coarser grid,
// each x 2 EOF modes x the 3 transports the harness drives (HandleReader, HandleReadWriter, HTTP.ServeHTTP).
//
// Oracle: (1) the one-piece delivery of every request is judged by the reference model (responses AND the handler
// invocation log with the exact argument values: the arguments the caller supplied); (2) every chunked delivery must
// give the same invocation log and the same canonical responses as the one-piece delivery of the same bytes through
// the same transport; on a difference the absolute oracle is applied to the chunked observation too, so that the
// report says what was wrong and not only that it moved.
// Tolerance: the property does not fix the bytes of a response beyond its JSON value, nor the message text of a
// -32700 answer (juno quotes a window of the input there). Differences in raw bytes with an equal canonical answer
// are counted (G_same_answer_different_bytes), not reported.

import (
	"fmt"
	"io"
	"sort"
	"strconv"
	"strings"
	"sync"
	"sync/atomic"

	"verif/mc/ev"
)

// chunkReader hands data out in the pieces delimited by cuts (ascending offsets, 0 < c < len(data)). A Read never
// crosses a cut; if the caller's buffer is smaller than the current piece the rest of the piece comes with the next
// Read, as on a socket.
type chunkReader struct {
	data        []byte
	cuts        []int
	pos         int
	reads       int
	eofWithLast bool // io.EOF is returned together with the final bytes (legal, and what http bodies often do)
}

func (c *chunkReader) Read(p []byte) (int, error) {
	if c.pos >= len(c.data) {
		return 0, io.EOF
	}
	if len(p) == 0 {
		return 0, nil
	}
	end := len(c.data)
	for _, k := range c.cuts {
		if k > c.pos {
			end = k
			break
		}
	}
	n := copy(p, c.data[c.pos:end])
	c.pos += n
	c.reads++
	if c.eofWithLast && c.pos == len(c.data) {
		return n, io.EOF
	}
	return n, nil
}

// ---------------------------------------------------------------------------------------------------
// large requests

// payload pieces; all are non-periodic so that bytes that are moved, dropped or repeated change the value
// 13-digit elements that differ in every position: a long body with few elements keeps the real server's per-element
// decoding cost (which dominates the run time of this part) low; prettyInts below keeps the short-element variant
func bigInts(n int) string {
	var sb strings.Builder
	for i := 0; i < n; i++ {
		if i > 0 {
			sb.WriteByte(',')
		}
		sb.WriteString(strconv.Itoa(1000000000000 + (i+1)*999999937%1000000000000))
	}
	return sb.String()
}

func bigWords(n int) string {
	var sb strings.Builder
	for i := 0; i < n; i++ {
		fmt.Fprintf(&sb, "%04d.", i)
	}
	return sb.String()
}

// raw multi-byte UTF-8 and every kind of escape, so that pieces end inside a rune / inside an escape sequence
var utf8Pieces = []string{"é", "€", "😀", `\n`, `\"`, `\\`, `\u00e9`, `\ud83d\ude00`, `\/`, `\t`, "ß", `\u20ac`}

func bigUTF8(n int) string {
	var sb strings.Builder
	for i := 0; i < n; i++ {
		fmt.Fprintf(&sb, "%03d%s", i, utf8Pieces[i%len(utf8Pieces)])
	}
	return sb.String()
}

func prettyInts(n int) string {
	var sb strings.Builder
	for i := 0; i < n; i++ {
		if i > 0 {
			sb.WriteString(",\n")
		}
		sb.WriteString("      " + strconv.Itoa(1000+i))
	}
	return sb.String()
}

// batch entry kinds with exactly one acceptable behaviour each; ids are unique per position
func smallEntry(i int) string {
	switch i % 8 {
	case 0:
		return fmt.Sprintf(`{"jsonrpc":"2.0","method":"m1","params":[%d],"id":%d}`, 100+i, 1000+i)
	case 1:
		return fmt.Sprintf(`{"jsonrpc":"2.0","method":"m3","params":{"b":"w%d","z":%d},"id":"s%d"}`, i, 200+i, i)
	case 2:
		return fmt.Sprintf(`{"jsonrpc":"2.0","method":"m1","params":[%d]}`, 300+i) // notification
	case 3:
		return fmt.Sprintf(`{"jsonrpc":"2.0","method":"me","params":[%d],"id":%d}`, 400+i, 1000+i)
	case 4:
		return fmt.Sprintf(`{"id":%d,"params":{"a":%d},"method":"mh","jsonrpc":"2.0"}`, 1000+i, 500+i)
	case 5:
		return fmt.Sprintf(`{"jsonrpc":"2.0","method":"m2","params":[%d,"q%d"],"id":%d}`, 600+i, i, 1000+i)
	case 6:
		return fmt.Sprintf(`{"jsonrpc":"2.0","method":"nope","id":%d}`, 1000+i)
	default:
		return fmt.Sprintf(`{"jsonrpc":"2.0","method":"m1","params":[],"id":%d}`, 1000+i)
	}
}

func manySmall(n int) string {
	parts := make([]string, n)
	for i := range parts {
		parts[i] = smallEntry(i)
	}
	return "\r\n  [" + strings.Join(parts, ", ") + "]"
}

type bigShape struct {
	name string
	gen  func(n int) string // n = number of payload elements
}

var bigShapes = []bigShape{
	{"mc-positional", func(n int) string {
		return `{"jsonrpc":"2.0","id":7,"method":"mc","params":[[` + bigInts(n) + `],5]}`
	}},
	{"mc-named-id-first", func(n int) string {
		return `{"id":"big","params":{"a":5,"l":[` + bigInts(n) + `]},"method":"mc","jsonrpc":"2.0"}`
	}},
	{"m2-long-string", func(n int) string {
		return `{"jsonrpc":"2.0","method":"m2","params":[11,"` + bigWords(n) + `"],"id":1}`
	}},
	{"mx-utf8-and-escapes-named", func(n int) string {
		return `{"jsonrpc":"2.0","method":"mx","params":{"z":"` + bigUTF8(n) + `","b":3},"id":"u"}`
	}},
	{"mc-notification", func(n int) string {
		return `{"jsonrpc":"2.0","method":"mc","params":[[` + bigInts(n) + `],5]}`
	}},
	{"mc-pretty-printed", func(n int) string {
		return "\n \t{\n  \"jsonrpc\": \"2.0\",\n  \"id\": 7,\n  \"method\": \"mc\",\n  \"params\": [\n    [\n" + prettyInts(n) + "\n    ],\n    5\n  ]\n}\n"
	}},
	{"batch-many-small", manySmall},
	{"batch-two-large", func(n int) string {
		h := (n + 1) / 2
		return `[{"jsonrpc":"2.0","method":"mc","params":{"l":[` + bigInts(h) + `],"a":1},"id":1},{"jsonrpc":"2.0","method":"m2","params":[2,"` + bigWords(h) + `"],"id":2}]`
	}},
	// requests that must be REFUSED, with the offending part behind a large body
	{"mc-ill-typed-last-element", func(n int) string {
		return `{"jsonrpc":"2.0","id":7,"method":"mc","params":[[` + bigInts(n) + `,"x"],5]}`
	}},
	{"unknown-method-large-params", func(n int) string {
		return `{"jsonrpc":"2.0","id":7,"params":[[` + bigInts(n) + `],5],"method":"nope"}`
	}},
	{"bad-version-after-large-params", func(n int) string {
		return `{"id":7,"params":[[` + bigInts(n) + `],5],"method":"mc","jsonrpc":"1.0"}`
	}},
	{"mc-truncated", func(n int) string {
		return `{"jsonrpc":"2.0","id":7,"method":"mc","params":[[` + bigInts(n) + `],5]`
	}},
	{"mc-stray-byte-inside", func(n int) string {
		return `{"jsonrpc":"2.0","id":7,"method":"mc","params":[[` + bigInts(n-n/4) + `,?,` + bigInts(n/4+1) + `],5]}`
	}},
}

// grow: the smallest member of the shape's family with at least target bytes
func grow(target int, gen func(n int) string) string {
	lo, hi := 1, 2
	for len(gen(hi)) < target {
		lo, hi = hi, hi*2
	}
	for lo < hi { // invariant: len(gen(hi)) >= target
		mid := (lo + hi) / 2
		if len(gen(mid)) >= target {
			hi = mid
		} else {
			lo = mid + 1
		}
	}
	return gen(hi)
}

type bigReq struct {
	shape  string
	target int
	text   []byte
	// one-piece reference, per transport
	ref [3]*chunkObs
}

type chunkObs struct {
	out     string
	calls   string // sorted, joined
	problem string
	canon   string // canonical responses (sorted), computed on demand
	canonOK bool
	label   string // outcome label of the reference run
}

func joinCalls(calls []string) string { return strings.Join(sortedCopy(calls), " ; ") }

// canonAnswer: the multiset of canonical responses of an output (ids, result values, error class; message texts of
// standard errors are not part of it), or the reason why it has none.
func canonAnswer(out string) string {
	if out == "" {
		return "<none>"
	}
	v, ok, trail, _, _ := parsePrefix([]byte(out))
	if !ok || trail {
		return "<not-json>"
	}
	elems := []*jv{v}
	pre := "single "
	if v.k == '[' {
		elems, pre = v.arr, "batch "
	}
	cs := make([]string, len(elems))
	for i, e := range elems {
		c, g := respCanon(e)
		if g != "" {
			c = "<grammar " + g + "> " + e.canonString()
		}
		cs[i] = c
	}
	sort.Strings(cs)
	return pre + strings.Join(cs, " ; ")
}

func (o *chunkObs) canonical() string {
	if !o.canonOK {
		o.canon, o.canonOK = canonAnswer(o.out), true
	}
	return o.canon
}

// chunkGrid: the candidate split offsets of a text of n bytes for grid step g (g = 1: every offset).
func chunkGrid(n, g int) []int {
	set := map[int]bool{}
	add := func(x int) {
		if x >= 1 && x <= n-1 {
			set[x] = true
		}
	}
	for x := g; x < n; x += g {
		add(x)
	}
	add(1)
	add(n - 1)
	for p := 64; p <= 2*n; p *= 2 {
		add(p - 1)
		add(p)
		add(p + 1)
	}
	for d := -1; d <= 1; d++ {
		add(640 + d) // 128 + 512: the two smallest buffers on the path filled once each
	}
	out := make([]int, 0, len(set))
	for x := range set {
		out = append(out, x)
	}
	sort.Ints(out)
	return out
}

func trim(s string, n int) string {
	if len(s) <= n {
		return s
	}
	return s[:n] + fmt.Sprintf("...(%d bytes)", len(s))
}

func firstDiff(a, b string) int {
	n := min(len(a), len(b))
	for i := 0; i < n; i++ {
		if a[i] != b[i] {
			return i
		}
	}
	if len(a) == len(b) {
		return -1
	}
	return n
}

func partG(r *ev.Run, b *book, runners chan *runner, W int) {
	sizes := ev.Pick(r, []int{520, 660, 1060, 1300, 4200}, []int{520, 660, 1060, 1300, 2100, 4200, 8300})
	const midMax = 1400 // "mid-size": fine grids for the multi-split enumeration
	// grid step for k split points: [k] -> {mid-size, large}, 0 = not enumerated; thorough grids refine the quick ones
	steps := ev.Pick(r,
		map[int][2]int{1: {1, 1}, 2: {32, 256}},
		map[int][2]int{1: {1, 1}, 2: {8, 128}, 3: {128, 0}})
	maxK := len(steps)

	var reqs []*bigReq
	for _, sh := range bigShapes {
		for _, t := range sizes {
			reqs = append(reqs, &bigReq{shape: sh.name, target: t, text: []byte(grow(t, sh.gen))})
		}
	}

	// ---- one-piece references, judged by the reference model -------------------------------------------------
	var totalBytes int64
	ev.Par(len(reqs), W, func(i int) {
		q := reqs[i]
		x := <-runners
		defer func() { runners <- x }()
		local := map[string]int64{}
		for via := viaReader; via <= viaHTTP; via++ {
			out, calls, prob := x.run(via, q.text)
			lab := b.check("G", transportName[via]+" one-piece "+q.shape, q.text, out, calls, prob)
			local[lab]++
			q.ref[via] = &chunkObs{out: string(out), calls: joinCalls(calls), problem: prob, label: lab}
		}
		atomic.AddInt64(&totalBytes, int64(len(q.text)))
		b.merge(local, 3)
	})

	// ---- every chunked delivery ---------------------------------------------------------------------------
	type task struct {
		q     *bigReq
		k     int
		grid  []int
		first int // index into grid of the first split point
	}
	var tasks []task
	gridPoints := map[int]int64{}
	for _, q := range reqs {
		n := len(q.text)
		for k := 1; k <= maxK; k++ {
			g := steps[k][0]
			if n > midMax {
				g = steps[k][1]
			}
			if g == 0 {
				continue
			}
			grid := chunkGrid(n, g)
			gridPoints[k] += int64(len(grid))
			for f := 0; f+k <= len(grid); f++ {
				tasks = append(tasks, task{q, k, grid, f})
			}
		}
	}
	// the single-split deliveries of every request first (smallest requests first), then two splits, ...: should the
	// time budget ever cut this part, what was completed is a whole deviation level
	sort.SliceStable(tasks, func(i, j int) bool {
		if tasks[i].k != tasks[j].k {
			return tasks[i].k < tasks[j].k
		}
		return len(tasks[i].q.text) < len(tasks[j].q.text)
	})
	var (
		execs       = make([]int64, maxK+1)
		reads       int64
		sameDiffB   int64
		cutShort    int32
		underSplit  int64
		sameMu      sync.Mutex
		sameByShape = map[string]int64{}
	)
	ev.Par(len(tasks), W, func(ti int) {
		if r.OutOfTime() {
			atomic.StoreInt32(&cutShort, 1)
			return
		}
		tk := tasks[ti]
		q := tk.q
		x := <-runners
		defer func() { runners <- x }()
		local := map[string]int64{}
		var n, nReads, nSame, nUnder int64
		sameBy := map[string]int64{}
		cuts := make([]int, tk.k)
		cuts[0] = tk.grid[tk.first]
		one := func() {
			for eofMode := 0; eofMode < 2; eofMode++ {
				for via := viaReader; via <= viaHTTP; via++ {
					src := &chunkReader{data: q.text, cuts: cuts, eofWithLast: eofMode == 1}
					out, calls, prob := x.runFrom(via, q.text, src)
					n++
					nReads += int64(src.reads)
					if src.reads < len(cuts)+1 && src.pos == len(q.text) {
						nUnder++ // cannot happen: every cut ends a Read
					}
					ref := q.ref[via]
					got := &chunkObs{out: string(out), calls: joinCalls(calls), problem: prob}
					local[ref.label]++
					if got.problem == ref.problem && got.calls == ref.calls && got.out == ref.out {
						continue
					}
					var aspects []string
					if got.problem != ref.problem {
						aspects = append(aspects, "failure")
					}
					if got.calls != ref.calls {
						aspects = append(aspects, "handler-arguments")
					}
					if got.out != ref.out {
						if got.canonical() != ref.canonical() {
							aspects = append(aspects, "response")
						} else {
							nSame++
							sameBy[q.shape]++
						}
					}
					if len(aspects) == 0 {
						continue
					}
					how := fmt.Sprintf("%s chunked shape=%s bytes=%d cuts=%v eof-with-last-bytes=%v", transportName[via], q.shape, len(q.text), cuts, eofMode == 1)
					// key: transport + the gravest aspect (arguments the caller never sent > panic / error return > response)
					primary := aspects[0]
					for _, a := range aspects {
						if a == "handler-arguments" {
							primary = a
						}
					}
					r.Violate("chunked-delivery-changes-answer "+transportName[via]+" "+primary, map[string]any{
						"aspects": strings.Join(aspects, "+"),
						"part":    "G", "via": how, "shape": q.shape, "request_bytes": len(q.text), "split_offsets": append([]int(nil), cuts...),
						"eof_with_last_bytes": eofMode == 1, "reads_served": src.reads,
						"one_piece_output": trim(ref.out, 400), "chunked_output": trim(got.out, 400),
						"one_piece_calls": trim(ref.calls, 400), "chunked_calls": trim(got.calls, 400),
						"calls_first_difference_at": firstDiff(ref.calls, got.calls),
						"one_piece_problem":         ref.problem, "chunked_problem": got.problem,
						"input": string(q.text),
					})
					// and what the reference model says about the chunked observation on its own
					b.check("G", how, q.text, out, calls, prob)
				}
			}
		}
		var rec func(depth, from int)
		rec = func(depth, from int) {
			if depth == tk.k {
				one()
				return
			}
			for i := from; i+(tk.k-depth) <= len(tk.grid); i++ {
				cuts[depth] = tk.grid[i]
				rec(depth+1, i+1)
			}
		}
		rec(1, tk.first+1)
		atomic.AddInt64(&execs[tk.k], n)
		atomic.AddInt64(&reads, nReads)
		atomic.AddInt64(&sameDiffB, nSame)
		atomic.AddInt64(&underSplit, nUnder)
		b.merge(local, n)
		if len(sameBy) > 0 {
			sameMu.Lock()
			for k, v := range sameBy {
				sameByShape[k] += v
			}
			sameMu.Unlock()
		}
	})
	if cutShort != 0 {
		r.Incomplete("G: chunked deliveries cut by the time budget")
	}
	if underSplit > 0 {
		r.Infra("part G: %d deliveries were served in fewer reads than pieces", underSplit)
	}

	r.Set("G_large_requests", int64(len(reqs)))
	r.Set("G_request_shapes", int64(len(bigShapes)))
	r.Set("G_request_sizes", fmt.Sprint(sizes))
	r.Set("G_request_bytes_total", totalBytes)
	var all int64
	for k := 1; k <= maxK; k++ {
		r.Set(fmt.Sprintf("G_split_points_%d_executions", k), execs[k])
		r.Set(fmt.Sprintf("G_split_points_%d_grid_offsets_total", k), gridPoints[k])
		all += execs[k]
	}
	r.Set("G_chunked_executions", all)
	r.Set("G_reads_served", reads)
	r.Set("G_same_answer_different_bytes", sameDiffB)
	r.Set("G_same_answer_different_bytes_by_shape", sameByShape)
	if cutShort == 0 {
		r.Set("G_deviation_bound_completed", fmt.Sprintf("1 split point: every offset of every request; 2..%d split points: every subset of the per-request grid (steps mid-size/large %v); x 2 EOF modes x 3 transports", maxK, steps))
	}
	r.Sample(map[string]any{"part": "G", "example": "shape " + reqs[2].shape + ", " + strconv.Itoa(len(reqs[2].text)) + " bytes, delivered in 2 pieces at every split offset, both EOF modes, 3 transports",
		"text_head": trim(string(reqs[2].text), 120)})
}
