package c11

// Reference model of the typed parameter classes of types_test.go: for a JSON value (the harness' own jv) and a
// parameter type it says whether the type ACCEPTS the value and, if so, how the handler must see it (the canonical
// text the handlers print). Written from what each type means, not from encoding/json or the server:
//   felt      a JSON string 0x<1..64 hex digits> denoting a number below the Stark prime; nothing else, not null
//   hblk      "latest" | "pending" | {"block_number": <unsigned 64-bit integer>}; nothing else, not null
//   pointers  null is the absent value (nil); otherwise the pointee's rule
//   structs   a JSON object, members by their declared names and types; an absent member keeps its zero value;
//             with a validator configured the decoded value must satisfy its tags (Page: 1 <= chunk_size <= 100,
//             opts: lim <= 9) - however the value came about (spelled out, defaulted from absent members, or from null)
//   slices / maps: arrays / objects of elements that each follow their rule (validated element structs included)
//   any       every JSON value, handed over as it is
// T9 (null where the Go type is not a pointer: zero value, or rejected) applies to the plain kinds at any depth
// (int, string, bool, uint64, slice, map, struct). It does NOT excuse a null for a by-value json.Unmarshaler that
// refuses null (the type said no), nor a zero value that the configured validator refuses.

import (
	"math/big"
	"sort"
	"strconv"
	"strings"
)

var starkPrime, _ = new(big.Int).SetString("800000000000011000000000000000000000000000000000000000000000001", 16)

// res of modelling one value: canonical text, accepted?, and whether a T9 tolerance was used on the way.
type mres struct {
	c   string
	ok  bool
	tol bool
}

var mReject = mres{}

func mFelt(v *jv) mres {
	if v.k != '"' || len(v.s) < 3 || len(v.s) > 66 || v.s[0] != '0' || (v.s[1] != 'x' && v.s[1] != 'X') {
		return mReject
	}
	n, ok := new(big.Int).SetString(v.s[2:], 16)
	if !ok || n.Sign() < 0 || n.Cmp(starkPrime) >= 0 || strings.ContainsAny(v.s[2:], "+-_") {
		return mReject
	}
	return mres{c: "0x" + n.Text(16), ok: true}
}

func mBlk(v *jv) mres {
	switch v.k {
	case '"':
		if v.s == "latest" || v.s == "pending" {
			return mres{c: v.s, ok: true}
		}
	case '{':
		if len(v.keys) == 1 && v.keys[0] == "block_number" && v.vals[0].k == '#' && plainInt(v.vals[0].s) && v.vals[0].s[0] != '-' {
			if n, err := strconv.ParseUint(v.vals[0].s, 10, 64); err == nil {
				return mres{c: "#" + strconv.FormatUint(n, 10), ok: true}
			}
		}
	}
	return mReject
}

func mPtr(v *jv, f func(*jv) mres) mres {
	if v.k == 'n' {
		return mres{c: "null", ok: true}
	}
	return f(v)
}

// plain kinds -----------------------------------------------------------------------------------------------

func mInt(v *jv) (n int64, r mres) {
	if v.k == 'n' {
		return 0, mres{c: "0", ok: true, tol: true}
	}
	if v.k == '#' && plainInt(v.s) {
		if x, err := strconv.ParseInt(v.s, 10, 64); err == nil {
			return x, mres{c: strconv.FormatInt(x, 10), ok: true}
		}
	}
	return 0, mReject
}

func mStr(v *jv) mres {
	if v.k == 'n' {
		return mres{c: `""`, ok: true, tol: true}
	}
	if v.k == '"' {
		return mres{c: qS(v.s), ok: true}
	}
	return mReject
}

func mBool(v *jv) mres {
	switch v.k {
	case 'n':
		return mres{c: "false", ok: true, tol: true}
	case 't':
		return mres{c: "true", ok: true}
	case 'f':
		return mres{c: "false", ok: true}
	}
	return mReject
}

func mU64(v *jv) mres {
	if v.k == 'n' {
		return mres{c: "0", ok: true, tol: true}
	}
	if v.k == '#' && plainInt(v.s) && v.s[0] != '-' {
		if x, err := strconv.ParseUint(v.s, 10, 64); err == nil {
			return mres{c: strconv.FormatUint(x, 10), ok: true}
		}
	}
	return mReject
}

// structs ----------------------------------------------------------------------------------------------------

// members checks that v is an object with distinct member names all in allowed.
func members(v *jv, allowed ...string) bool {
	if v.k != '{' {
		return false
	}
	seen := map[string]bool{}
	for _, k := range v.keys {
		if seen[k] || indexOf(allowed, k) < 0 {
			return false
		}
		seen[k] = true
	}
	return true
}

// pageFields models the two members of Page inside object v (Page itself, or a struct embedding it).
func pageFields(c cfg, v *jv) (cs int64, tok string, r mres) {
	r = mres{ok: true}
	tok = `""`
	if e := v.get("chunk_size"); e != nil {
		n, x := mInt(e)
		if !x.ok {
			return 0, "", mReject
		}
		cs, r.tol = n, r.tol || x.tol
	}
	if e := v.get("token"); e != nil {
		x := mStr(e)
		if !x.ok {
			return 0, "", mReject
		}
		tok, r.tol = x.c, r.tol || x.tol
	}
	if c.validator && (cs < 1 || cs > 100) {
		return 0, "", mReject
	}
	return cs, tok, r
}

func mPage(c cfg, v *jv) mres {
	tol := false
	if v.k == 'n' { // T9: the zero value - which then has to pass the validator like any other value
		v, tol = &jv{k: '{'}, true
	}
	if !members(v, "chunk_size", "token") {
		return mReject
	}
	cs, tok, r := pageFields(c, v)
	if !r.ok {
		return mReject
	}
	return mres{c: "{cs=" + strconv.FormatInt(cs, 10) + ",tok=" + tok + "}", ok: true, tol: tol || r.tol}
}

func mOpts(c cfg, v *jv) mres {
	tol := false
	if v.k == 'n' {
		v, tol = &jv{k: '{'}, true
	}
	if !members(v, "flag", "lim") {
		return mReject
	}
	flag, lim := "false", int64(0)
	if e := v.get("flag"); e != nil {
		x := mBool(e)
		if !x.ok {
			return mReject
		}
		flag, tol = x.c, tol || x.tol
	}
	if e := v.get("lim"); e != nil {
		n, x := mInt(e)
		if !x.ok {
			return mReject
		}
		lim, tol = n, tol || x.tol
	}
	if c.validator && lim > 9 {
		return mReject
	}
	return mres{c: "{flag=" + flag + ",lim=" + strconv.FormatInt(lim, 10) + "}", ok: true, tol: tol}
}

func mSlice(v *jv, elem func(*jv) mres) mres {
	if v.k == 'n' {
		return mres{c: "null", ok: true, tol: true}
	}
	if v.k != '[' {
		return mReject
	}
	out := mres{ok: true}
	s := make([]string, len(v.arr))
	for i, e := range v.arr {
		x := elem(e)
		if !x.ok {
			return mReject
		}
		s[i], out.tol = x.c, out.tol || x.tol
	}
	out.c = "[" + strings.Join(s, ",") + "]"
	return out
}

func mFilt(c cfg, v *jv) mres {
	tol := false
	if v.k == 'n' {
		v, tol = &jv{k: '{'}, true
	}
	if !members(v, "from", "addr", "keys", "chunk_size", "token") {
		return mReject
	}
	from, addr, keys := "null", "null", "null"
	if e := v.get("from"); e != nil {
		x := mPtr(e, mBlk)
		if !x.ok {
			return mReject
		}
		from = x.c
	}
	if e := v.get("addr"); e != nil {
		x := mPtr(e, mFelt)
		if !x.ok {
			return mReject
		}
		addr = x.c
	}
	if e := v.get("keys"); e != nil {
		x := mSlice(e, func(in *jv) mres { return mSlice(in, mFelt) })
		if !x.ok {
			return mReject
		}
		keys, tol = x.c, tol || x.tol
	}
	cs, tok, r := pageFields(c, v)
	if !r.ok {
		return mReject
	}
	return mres{c: "{from=" + from + ",addr=" + addr + ",keys=" + keys + ",cs=" + strconv.FormatInt(cs, 10) + ",tok=" + tok + "}",
		ok: true, tol: tol || r.tol}
}

func mPageMap(c cfg, v *jv) mres {
	if v.k == 'n' {
		return mres{c: "null", ok: true, tol: true}
	}
	if v.k != '{' {
		return mReject
	}
	idx := make([]int, len(v.keys))
	for i := range idx {
		idx[i] = i
		for j := 0; j < i; j++ {
			if v.keys[j] == v.keys[i] {
				return mReject // not enumerated (T10 covers duplicate names)
			}
		}
	}
	sort.Slice(idx, func(a, b int) bool { return v.keys[idx[a]] < v.keys[idx[b]] })
	out := mres{ok: true}
	s := make([]string, len(idx))
	for n, i := range idx {
		x := mPage(c, v.vals[i])
		if !x.ok {
			return mReject
		}
		s[n], out.tol = v.keys[i]+":"+x.c, out.tol || x.tol
	}
	out.c = "{" + strings.Join(s, ",") + "}"
	return out
}

// modelTyped dispatches on the typed classes; ok2=false when t is one of the four plain classes of oracle_test.go.
func modelTyped(c cfg, v *jv, t ptype) (r mres, typed bool) {
	switch t {
	case tFelt:
		return mFelt(v), true
	case tPFelt:
		return mPtr(v, mFelt), true
	case tBlk:
		return mBlk(v), true
	case tPBlk:
		return mPtr(v, mBlk), true
	case tPage:
		return mPage(c, v), true
	case tPPage:
		return mPtr(v, func(e *jv) mres { return mPage(c, e) }), true
	case tOpts:
		return mOpts(c, v), true
	case tFilt:
		return mFilt(c, v), true
	case tPFilt:
		return mPtr(v, func(e *jv) mres { return mFilt(c, e) }), true
	case tFelts:
		return mSlice(v, mFelt), true
	case tPages:
		return mSlice(v, func(e *jv) mres { return mPage(c, e) }), true
	case tPageMap:
		return mPageMap(c, v), true
	case tAny:
		return mres{c: v.canonString(), ok: true}, true
	case tBool:
		return mBool(v), true
	case tU64:
		return mU64(v), true
	}
	return mReject, false
}

// zeroTyped: what the handler sees for an ABSENT optional parameter (the Go zero value; never validated).
func zeroTyped(t ptype) string {
	switch t {
	case tFelt:
		return "0x0"
	case tBlk:
		return "blk?"
	case tPage:
		return `{cs=0,tok=""}`
	case tOpts:
		return "{flag=false,lim=0}"
	case tFilt:
		return `{from=null,addr=null,keys=null,cs=0,tok=""}`
	case tBool:
		return "false"
	case tU64:
		return "0"
	}
	return "null" // pointers, slices, maps, any
}
