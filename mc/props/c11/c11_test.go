package c11

// C11 — the JSON-RPC server answers any input with well-formed, correlated responses.
//
// System under test: the real jsonrpc.Server (HandleReader, HandleReadWriter, HTTP.ServeHTTP) with a harness
// method table (oracle_test.go). Enumerated exhaustively, no sampling:
//  A  every byte string of length <= 5 (quick) / 6 (thorough) over a 20-symbol structural alphabet;
//  B  every request object of the grid jsonrpc x method x params x id (x 2 member orders), through 3 transports;
//  C  every batch of <= 3 / <= 4 entries over a 15-entry sub-alphabet (free-running worker pool, pool sizes 1 and 4);
//  D  the same batches with handlers parked inside a testing/synctest bubble: at every quiescent point every
//     parked handler is tried as the next one to complete (all completion orders), pool sizes 1..batch length bound;
//  E  every <= 1 / <= 2 token edit (delete / substitute / insert over a 16-token alphabet) and every byte
//     truncation of 4 valid request texts;
//  F  positional == named: for every method and every admissible argument prefix both spellings must produce the
//     same invocation and the same result.
//  G  chunking environment (chunk_test.go): 13 shapes of LARGE requests x sizes straddling 512 / 640 / 1 Ki / 4 Ki
//     delivered through a reader that returns harness-chosen pieces: every 2-piece split, every 3- (thorough: 4-) piece
//     split over a grid, x 2 EOF modes x 3 transports; same invocation log and canonical answer as one-piece delivery.
//  H  whitespace runs of every length at every structural position (ws_test.go).
//  I  typed-argument grid (args_test.go): the method table also has methods whose parameters are the type classes real
//     juno handlers use (by-value json.Unmarshalers that refuse null - felt.Felt, a BlockID-like union -, pointers to
//     them, validated structs, an EventArgs-like nested struct, slices / maps of those, any, bool, uint64;
//     types_test.go); full product over the parameter positions of each type's value classes {right, wrong shapes,
//     null, absent, zero value, validator-violating, null one level down} x spellings x document forms x 3
//     transports x server {with, without} validator; what each type accepts is modelled in typemodel_test.go.
// Oracle: oracle_test.go (JSON-RPC 2.0 grammar + exactly-once invocation log), JSON read by json_test.go.
//
// Findings on the unchanged tree (each reproduced on the real code; keys are kept specific on purpose):
//  notification-answered (single|batch) E-32601 / E-32602
//      a notification (no "id") naming an unknown method or carrying bad params is answered with an error and
//      "id":null (server.go handleRequest returns the error response before looking at res.ID == nil).
//  parse-error-for-valid-json ill-typed=jsonrpc|method
//      a single request whose jsonrpc/method member has the wrong JSON type is answered -32700 "Parse error" although
//      the text is valid JSON (spec: -32600); the same object inside a batch gets -32600.
//  response-grammar id-not-string-number-null echoed-from-invalid-request
//      {"id":[]} (or {}, true) plus another defect: isSane stops at the first defect, the caller then echoes req.ID,
//      so the response carries an array/object/bool id.
//  response-grammar neither-result-nor-error handler-returned-nil
//      a handler returning (nil, nil) yields {"jsonrpc":"2.0","id":1}: `result` is dropped by omitempty.
// A free-running -race build of this same package (go test -race -c -tags verif ./props/c11; VERIF_TIER=quick) is the
// complementary pass for unsynchronised accesses; parts C (free-running pool) give it real concurrency.

import (
	"bytes"
	"context"
	"fmt"
	"io"
	"net/http"
	"net/http/httptest"
	"reflect"
	"regexp"
	"runtime"
	"sort"
	"strconv"
	"strings"
	"sync"
	"sync/atomic"
	"testing"
	"testing/synctest"
	"time"
	"unsafe"

	"verif/mc/ev"

	"github.com/NethermindEth/juno/jsonrpc"
	"github.com/NethermindEth/juno/utils/log"
	"github.com/sourcegraph/conc/pool"
)

// ---------------------------------------------------------------------------------------------------
// running one input through the real server

type runner struct {
	c    cfg
	h    *harness
	srv  *jsonrpc.Server
	http *jsonrpc.HTTP
	cur  atomic.Pointer[flight]
}

type flight struct {
	input string
	since time.Time
}

func newRunner(poolSize int) *runner { return newRunnerCfg(baseCfg, poolSize) }

func newRunnerCfg(c cfg, poolSize int) *runner {
	h := &harness{}
	s := newServerCfg(c, h, poolSize)
	return &runner{c: c, h: h, srv: s, http: jsonrpc.NewHTTP(s, log.NewNopZapLogger())}
}

type rwPair struct {
	io.Reader
	w      bytes.Buffer
	writes int
}

// Write counts calls: on a message-oriented transport (the WebSocket connection HandleReadWriter serves) every
// Write is one outgoing message, so an empty Write is output too.
func (p *rwPair) Write(b []byte) (int, error) { p.writes++; return p.w.Write(b) }

const (
	viaReader = iota
	viaReadWriter
	viaHTTP
)

var transportName = []string{"HandleReader", "HandleReadWriter", "HTTP"}

// run returns the bytes the transport emitted, the invocation log, and a non-empty problem for panic / error.
func (x *runner) run(via int, input []byte) (out []byte, calls []string, problem string) {
	return x.runFrom(via, input, bytes.NewReader(input))
}

// runFrom is run with the transport's byte source chosen by the caller (part G: a reader that hands the same bytes
// out in harness-chosen pieces); input is only used for the watchdog's report.
func (x *runner) runFrom(via int, input []byte, src io.Reader) (out []byte, calls []string, problem string) {
	x.h.take()
	x.cur.Store(&flight{string(input), time.Now()})
	defer x.cur.Store(nil)
	pan, msg := ev.Guard(func() {
		switch via {
		case viaReader:
			o, _, err := x.srv.HandleReader(context.Background(), src)
			if err != nil {
				problem = "error-return " + err.Error()
			}
			out = o
		case viaReadWriter:
			rw := &rwPair{Reader: src}
			if err := x.srv.HandleReadWriter(context.Background(), 0, rw); err != nil {
				problem = "error-return " + err.Error()
			}
			out = rw.w.Bytes()
			if len(out) == 0 && rw.writes > 0 {
				problem = "empty-message-written" // a zero-length message where the property demands no output
			}
		case viaHTTP:
			rec := httptest.NewRecorder()
			req := httptest.NewRequest(http.MethodPost, "/", src)
			x.http.ServeHTTP(rec, req)
			out = rec.Body.Bytes()
			if rec.Code != http.StatusOK {
				problem = "http-status " + strconv.Itoa(rec.Code)
			} else if ct := rec.Header().Get("Content-Type"); ct != "application/json" {
				problem = "http-content-type " + ct
			}
		}
	})
	if pan {
		problem = "panic " + msg
	}
	return out, x.h.take(), problem
}

// ---------------------------------------------------------------------------------------------------
// bookkeeping

type book struct {
	r        *ev.Run
	mu       sync.Mutex
	outcomes map[string]int64
	evals    int64
}

func (b *book) merge(local map[string]int64, n int64) {
	b.mu.Lock()
	for k, v := range local {
		b.outcomes[k] += v
	}
	b.evals += n
	b.mu.Unlock()
}

// check judges one observation and records violations. Returns the outcome label.
func (b *book) check(part, how string, input, out []byte, calls []string, problem string) string {
	return b.checkCfg(baseCfg, "", part, how, input, out, calls, problem)
}

// prefixed: a part that knows more about its input (part I: which value class sits in which parameter) puts that in
// front of the keys that say "the answer / the invocation is not what the model expects". Keys of other families
// (grammar, shape, panic, empty message, the known findings matched anchored by known_findings.jsonl) name defects
// that have nothing to do with the argument classes and keep their exact spelling.
func prefixed(prefix, key string) string {
	if prefix == "" || !strings.HasPrefix(key, "mismatch ") {
		return key
	}
	// the prefix already names the parameter class; the method that happened to carry it stays in the detail
	return prefix + " " + strayCallNames.ReplaceAllString(key, " stray-calls")
}

var strayCallNames = regexp.MustCompile(` stray-calls=\[[^\]]*\]`)

// checkCfg is check for a server configured as c; keyPrefix (may be "") is put in front of the violation keys.
func (b *book) checkCfg(c cfg, keyPrefix, part, how string, input, out []byte, calls []string, problem string) string {
	det := func(v verdict) map[string]any {
		return map[string]any{"part": part, "via": how, "input": string(input), "input_quoted": strconv.Quote(string(input)),
			"output": string(out), "calls": calls, "why": v.detail}
	}
	if problem != "" {
		kind := strings.SplitN(problem, " ", 2)[0]
		b.r.Violate(prefixed(keyPrefix, kind+" "+strings.Fields(how)[0]), map[string]any{"part": part, "input_quoted": strconv.Quote(string(input)), "via": how, "problem": problem})
		return kind
	}
	v := judgeCfg(c, input, out, calls, false)
	if v.key != "" {
		b.r.Violate(prefixed(keyPrefix, v.key), det(v))
		if strings.HasPrefix(v.key, "notification-answered") {
			// Do not let that finding mask anything else in the same document: judge again with it tolerated.
			if v2 := judgeCfg(c, input, out, calls, true); v2.key != "" {
				b.r.Violate(prefixed(keyPrefix, v2.key), det(v2))
			}
		}
	}
	return v.outcome
}

// ---------------------------------------------------------------------------------------------------
// input generators

var alphabet = []byte{'{', '}', '[', ']', '"', ':', ',', ' ', '-', '.', '0', '1', 'e', 'n', 'u', 'l', '\\', '\n', 'a', 0xff}

func goodVal(p pdesc, pos, salt int) string {
	if p.typ >= tFelt {
		return goodTyped(p.typ, pos, salt)
	}
	switch p.typ {
	case tInt, tPInt:
		return strconv.Itoa(11*(pos+1) + salt)
	case tStr:
		return `"v` + strconv.Itoa(pos+salt) + `"`
	default:
		return "[1," + strconv.Itoa(2+salt) + "]"
	}
}

func badVal(p pdesc) string {
	switch p.typ {
	case tAny:
		return "false" // no JSON value is ill-typed for `any`: this is just one more value
	case tFelt, tPFelt, tBlk, tPBlk, tBool, tU64:
		return "[1]"
	case tPage, tPPage, tOpts, tFilt, tPFilt, tFelts, tPages, tPageMap:
		return "5"
	}
	switch p.typ {
	case tStr:
		return "5"
	case tInts:
		return "{}"
	default:
		return `"x"`
	}
}

func named(m *mdesc, vals []string, order []int, extra bool) string {
	var parts []string
	for _, i := range order {
		if vals[i] != "" {
			parts = append(parts, `"`+m.params[i].name+`":`+vals[i])
		}
	}
	if extra {
		parts = append(parts, `"zz":1`)
	}
	return "{" + strings.Join(parts, ",") + "}"
}

// paramsVariants: raw text of the params member ("" = member absent).
func paramsVariants(m *mdesc) []string {
	out := []string{"", "null", `"s"`, "5", "true", "[]", "{}"}
	if m == nil {
		return append(out, "[1]", `{"a":1}`)
	}
	n := len(m.params)
	good := make([]string, n)
	decl := make([]int, n)
	rev := make([]int, n)
	for i, p := range m.params {
		good[i] = goodVal(p, i, 0)
		decl[i] = i
		rev[i] = n - 1 - i
	}
	for k := 1; k <= n+1; k++ {
		v := append([]string(nil), good[:min(k, n)]...)
		if k > n {
			v = append(v, "99")
		}
		out = append(out, "["+strings.Join(v, ",")+"]")
	}
	for i := range m.params {
		for _, sub := range []string{badVal(m.params[i]), "null"} {
			v := append([]string(nil), good...)
			v[i] = sub
			out = append(out, "["+strings.Join(v, ",")+"]", named(m, v, decl, false))
		}
	}
	for mask := 0; mask < 1<<n; mask++ {
		v := make([]string, n)
		for i := range v {
			if mask>>i&1 == 1 {
				v[i] = good[i]
			}
		}
		if mask != 0 {
			out = append(out, named(m, v, decl, false))
		}
		out = append(out, named(m, v, decl, true))
	}
	if n > 1 {
		out = append(out, named(m, good, rev, false))
	}
	return out
}

var (
	jsonrpcVariants = []string{"", `"2.0"`, `"1.0"`, `""`, "2", "null"}
	idVariants      = []string{"", "1", "0", "-3", `"s"`, `""`, "1.5", "1e2", "null", "[]", "{}", "true", "12345678901234567890123"}
)

func methodVariants() []string {
	out := []string{"", `"nope"`, `""`, "5", "null", `["m0"]`}
	for _, m := range methodTable {
		out = append(out, `"`+m.name+`"`)
	}
	// near misses of a registered name: they name NO method (a lookup that normalises the name - trims, folds case,
	// strips control characters - would resolve them)
	for _, base := range []string{"m0", "m1"} {
		out = append(out, `"`+base+`\n"`, `"\r`+base+`"`, `"`+base[:1]+`\r\n`+base[1:]+`"`, `" `+base+`"`, `"`+base+` "`, `"`+strings.ToUpper(base)+`"`,
			`"`+base+`\t"`, `"`+base+`\u0000"`, `"`+base[:1]+`\u006d`+base[1:]+`"`)
	}
	return out
}

func object(order int, jr, me, pa, id string) string {
	var parts []string
	add := func(k, v string) {
		if v != "" {
			parts = append(parts, `"`+k+`":`+v)
		}
	}
	if order == 0 {
		add("jsonrpc", jr)
		add("method", me)
		add("params", pa)
		add("id", id)
	} else {
		add("id", id)
		add("params", pa)
		add("method", me)
		add("jsonrpc", jr)
	}
	return "{" + strings.Join(parts, ",") + "}"
}

func gridInputs() []string {
	var out []string
	for _, me := range methodVariants() {
		var m *mdesc
		if len(me) > 2 && me[0] == '"' {
			m = methodByName(me[1 : len(me)-1])
		}
		for _, pa := range paramsVariants(m) {
			for _, jr := range jsonrpcVariants {
				for _, id := range idVariants {
					for order := 0; order < 2; order++ {
						out = append(out, object(order, jr, me, pa, id))
					}
				}
			}
		}
	}
	return out
}

// batch sub-alphabet; i = position in the batch (ids and arguments differ per position)
var batchEntries = []func(i int) string{
	func(i int) string { return fmt.Sprintf(`{"jsonrpc":"2.0","method":"m1","params":[%d],"id":%d}`, 100+i, i+1) },
	func(i int) string {
		return fmt.Sprintf(`{"jsonrpc":"2.0","method":"m3","params":{"b":"w%d","z":%d},"id":"s%d"}`, i, 200+i, i)
	},
	func(i int) string { return fmt.Sprintf(`{"jsonrpc":"2.0","method":"m1","params":[%d]}`, 300+i) }, // notification
	func(i int) string { return fmt.Sprintf(`{"jsonrpc":"2.0","method":"me","params":[%d],"id":%d}`, 400+i, i+11) },
	func(i int) string { return fmt.Sprintf(`{"jsonrpc":"2.0","method":"mh","params":{"a":%d},"id":%d}`, 500+i, i+21) },
	func(i int) string { return fmt.Sprintf(`{"jsonrpc":"2.0","method":"m2","params":[%d,"q"],"id":%d}`, 600+i, i+31) },
	func(i int) string { return fmt.Sprintf(`{"jsonrpc":"2.0","method":"nope","id":%d}`, i+41) },
	func(i int) string { return fmt.Sprintf(`{"jsonrpc":"2.0","method":"m1","params":[],"id":%d}`, i+51) },
	func(i int) string { return fmt.Sprintf(`{"jsonrpc":"1.0","method":"m0","id":%d}`, i+61) },
	func(i int) string { return "1" },
	func(i int) string { return "{}" },
	func(i int) string { return "[]" },
	func(i int) string { return `{"jsonrpc":"2.0","method":"nope"}` }, // notification, unknown method
	func(i int) string { return `{"jsonrpc":"2.0","method":"m0","id":null}` },
	func(i int) string { return `{"jsonrpc":"2.0","method":"m0","id":true}` },
}

func batchInputs(maxLen int) []string {
	out := []string{"[]", " [ ] "}
	n := len(batchEntries)
	var rec func(prefix []int)
	rec = func(prefix []int) {
		if len(prefix) > 0 {
			parts := make([]string, len(prefix))
			for i, e := range prefix {
				parts[i] = batchEntries[e](i)
			}
			out = append(out, "["+strings.Join(parts, ",")+"]")
		}
		if len(prefix) == maxLen {
			return
		}
		for e := 0; e < n; e++ {
			rec(append(prefix[:len(prefix):len(prefix)], e))
		}
	}
	rec(nil)
	return out
}

// token edits
var tokenAlphabet = []string{"{", "}", "[", "]", ",", ":", `"jsonrpc"`, `"2.0"`, `"method"`, `"m1"`, `"params"`, `"id"`, "1", "null", `"a"`, `"nope"`}

var editBases = []string{
	`{"jsonrpc":"2.0","method":"m1","params":[11],"id":1}`,
	`{"jsonrpc":"2.0","method":"m1","params":[11]}`,
	`{"jsonrpc":"2.0","method":"m2","params":{"z":11,"b":"v2"},"id":"s"}`,
	`[{"jsonrpc":"2.0","method":"m1","params":[11],"id":1},{"jsonrpc":"2.0","method":"m0"}]`,
}

func tokenize(s string) []string {
	var out []string
	for i := 0; i < len(s); {
		c := s[i]
		switch {
		case strings.IndexByte("{}[],:", c) >= 0:
			out = append(out, s[i:i+1])
			i++
		case c == '"':
			j := i + 1
			for j < len(s) && s[j] != '"' {
				j++
			}
			out = append(out, s[i:j+1])
			i = j + 1
		default:
			j := i
			for j < len(s) && strings.IndexByte("{}[],:\"", s[j]) < 0 {
				j++
			}
			out = append(out, s[i:j])
			i = j
		}
	}
	return out
}

// edits1 calls f with every token sequence one edit away from t.
func edits1(t []string, f func([]string)) {
	buf := make([]string, 0, len(t)+1)
	for i := range t { // delete
		buf = append(append(buf[:0], t[:i]...), t[i+1:]...)
		f(buf)
	}
	for i := range t { // substitute
		for _, a := range tokenAlphabet {
			if a == t[i] {
				continue
			}
			buf = append(append(append(buf[:0], t[:i]...), a), t[i+1:]...)
			f(buf)
		}
	}
	for i := 0; i <= len(t); i++ { // insert
		for _, a := range tokenAlphabet {
			buf = append(append(append(buf[:0], t[:i]...), a), t[i:]...)
			f(buf)
		}
	}
}

// ---------------------------------------------------------------------------------------------------
// part D: parked handlers inside a synctest bubble

func poolOf(s *jsonrpc.Server) *pool.Pool {
	f := reflect.ValueOf(s).Elem().FieldByName("pool")
	if !f.IsValid() || f.Kind() != reflect.Pointer {
		return nil
	}
	return *(**pool.Pool)(unsafe.Pointer(f.UnsafeAddr()))
}

type parkedCall struct {
	sig string
	seq int
	ch  chan struct{}
}

// runSchedule executes input with every handler parking; choices[d] selects which parked handler completes at the
// d-th quiescent point (0 beyond len(choices)). Returns the number of candidates at each decision.
func runSchedule(t *testing.T, r *ev.Run, input []byte, poolSize int, choices []int) (widths []int, out []byte, calls []string, problem string) {
	synctest.Test(t, func(t *testing.T) {
		h := &harness{}
		srv := newServer(h, poolSize)
		p := poolOf(srv)
		if p == nil {
			r.Infra("cannot reach jsonrpc.Server.pool to shut its workers down")
		}
		var (
			mu     sync.Mutex
			parked []*parkedCall
			seq    int
		)
		h.park = func(sig string) {
			c := &parkedCall{sig: sig, ch: make(chan struct{})}
			mu.Lock()
			c.seq = seq
			seq++
			parked = append(parked, c)
			mu.Unlock()
			<-c.ch
		}
		done := make(chan struct{})
		go func() {
			defer close(done)
			pan, msg := ev.Guard(func() {
				o, _, err := srv.HandleReader(context.Background(), bytes.NewReader(input))
				if err != nil {
					problem = "error-return " + err.Error()
				}
				out = o
			})
			if pan {
				problem = "panic " + msg
			}
		}()
		for step := 0; ; step++ {
			synctest.Wait() // every goroutine of the bubble is durably blocked (or gone)
			finished := false
			select {
			case <-done:
				finished = true
			default:
			}
			if finished {
				break
			}
			mu.Lock()
			cand := append([]*parkedCall(nil), parked...)
			mu.Unlock()
			if len(cand) == 0 {
				// nothing parked, not finished, nothing runnable: the server waits for something that will never come
				r.Violate("hang batch-dispatch", map[string]any{"input": string(input), "pool": poolSize, "choices": choices})
				r.Finish()
			}
			sort.Slice(cand, func(i, j int) bool {
				if cand[i].sig != cand[j].sig {
					return cand[i].sig < cand[j].sig
				}
				return cand[i].seq < cand[j].seq
			})
			d := len(widths)
			pick := 0
			if d < len(choices) {
				pick = choices[d]
			}
			widths = append(widths, len(cand))
			if pick >= len(cand) {
				r.Infra("schedule replay diverged: input=%q choices=%v widths=%v", input, choices, widths)
			}
			c := cand[pick]
			mu.Lock()
			for i, q := range parked {
				if q == c {
					parked = append(parked[:i], parked[i+1:]...)
					break
				}
			}
			mu.Unlock()
			close(c.ch)
		}
		mu.Lock()
		left := len(parked)
		mu.Unlock()
		if left > 0 {
			problem = "returned-before-handlers-completed"
			mu.Lock()
			for _, q := range parked {
				close(q.ch)
			}
			mu.Unlock()
		}
		// let the pool's worker goroutines exit so that the bubble can end; conc re-raises here a panic it caught
		// in a worker (the batch entry it belonged to was silently dropped)
		if pan, msg := ev.Guard(p.Wait); pan && problem == "" {
			if i := strings.IndexByte(msg, '\n'); i > 0 {
				msg = msg[:i]
			}
			problem = "panic in-batch-worker " + msg
		}
		calls = h.take()
	})
	return
}

// ---------------------------------------------------------------------------------------------------

func TestCheck(t *testing.T) {
	r := ev.Start("C11", "exploration")
	r.SetBudget(ev.Pick(r, 150, 1500))
	W := runtime.GOMAXPROCS(0)
	b := &book{r: r, outcomes: map[string]int64{}}

	runners := make(chan *runner, W)
	var all []*runner
	for i := 0; i < W; i++ {
		x := newRunner(4)
		all = append(all, x)
		runners <- x
	}
	// hang watchdog for the free-running parts: a call that does not return within 60 s of wall time is reported
	// as a hang (this is a liveness alarm with a huge margin, never an ordering oracle).
	go func() {
		for {
			time.Sleep(2 * time.Second)
			for _, x := range all {
				if f := x.cur.Load(); f != nil && time.Since(f.since) > 60*time.Second {
					r.Violate("hang free-running", map[string]any{"input_quoted": strconv.Quote(f.input)})
					r.Finish()
				}
			}
		}
	}()

	partStart := time.Now()
	lap := func(p string) {
		r.Set(p+"_wall_s", time.Since(partStart).Seconds())
		partStart = time.Now()
	}
	// ---- A: all byte strings -------------------------------------------------------------------
	maxLen := ev.Pick(r, 5, 6)
	{
		S := len(alphabet)
		type task struct{ k, a, c int }
		var tasks []task
		tasks = append(tasks, task{0, 0, 0})
		for k := 1; k <= maxLen; k++ {
			for a := 0; a < S; a++ {
				if k == 1 {
					tasks = append(tasks, task{1, a, 0})
					continue
				}
				for c := 0; c < S; c++ {
					tasks = append(tasks, task{k, a, c})
				}
			}
		}
		var nA int64
		ev.Par(len(tasks), W, func(ti int) {
			tk := tasks[ti]
			x := <-runners
			defer func() { runners <- x }()
			local := map[string]int64{}
			var n int64
			buf := make([]byte, tk.k)
			if tk.k >= 1 {
				buf[0] = alphabet[tk.a]
			}
			if tk.k >= 2 {
				buf[1] = alphabet[tk.c]
			}
			rest := tk.k - 2
			if rest < 0 {
				rest = 0
			}
			total := 1
			for i := 0; i < rest; i++ {
				total *= S
			}
			for idx := 0; idx < total; idx++ {
				v := idx
				for i := 0; i < rest; i++ {
					buf[2+i] = alphabet[v%S]
					v /= S
				}
				out, calls, prob := x.run(viaReader, buf)
				local[b.check("A", transportName[viaReader], buf, out, calls, prob)]++
				n++
			}
			atomic.AddInt64(&nA, n)
			b.merge(local, n)
		})
		r.Set("A_byte_strings", nA)
		r.Set("A_max_len", int64(maxLen))
	}

	lap("A")
	// ---- B: request grid x transports ----------------------------------------------------------
	grid := gridInputs()
	{
		var nB int64
		prod := make(chan *runner, W) // production configuration: server built WithValidator
		for i := 0; i < W; i++ {
			prod <- newRunnerCfg(prodCfg, 4)
		}
		ev.Par(len(grid), W, func(i int) {
			x := <-prod
			defer func() { prod <- x }()
			local := map[string]int64{}
			in := []byte(grid[i])
			var ref string
			for via := viaReader; via <= viaHTTP; via++ {
				out, calls, prob := x.run(via, in)
				o := b.checkCfg(x.c, "", "B", transportName[via], in, out, calls, prob)
				local[o]++
				if via == viaReader {
					ref = string(out)
				} else if prob == "" && string(out) != ref {
					r.Violate("transports-differ "+transportName[via], map[string]any{"input": grid[i], "reader": ref, "other": string(out)})
				}
			}
			atomic.AddInt64(&nB, 3)
			b.merge(local, 3)
		})
		r.Set("B_grid_requests", int64(len(grid)))
		r.Set("B_grid_executions", nB)
	}

	lap("B")
	// ---- F: positional == named ----------------------------------------------------------------
	{
		x := <-runners
		var nF int64
		for mi := range methodTable {
			m := &methodTable[mi]
			for k := max(m.required(), 1); k <= len(m.params); k++ {
				for salt := 0; salt < 2; salt++ {
					vals := make([]string, len(m.params))
					order := make([]int, len(m.params))
					var pos []string
					for i := range m.params {
						order[i] = len(m.params) - 1 - i
						if i < k {
							vals[i] = goodVal(m.params[i], i, salt)
							pos = append(pos, vals[i])
						}
					}
					inP := object(0, `"2.0"`, `"`+m.name+`"`, "["+strings.Join(pos, ",")+"]", "9")
					inN := object(0, `"2.0"`, `"`+m.name+`"`, named(m, vals, order, false), "9")
					oP, cP, pP := x.run(viaReader, []byte(inP))
					oN, cN, pN := x.run(viaReader, []byte(inN))
					b.check("F", "HandleReader", []byte(inP), oP, cP, pP)
					b.check("F", "HandleReader", []byte(inN), oN, cN, pN)
					vP, _, _, _, _ := parsePrefix(oP)
					vN, _, _, _, _ := parsePrefix(oN)
					if len(cP) != 1 || !eqStrs(cP, cN) || vP == nil || vN == nil || vP.canonString() != vN.canonString() {
						r.Violate("positional-named-differ "+m.name, map[string]any{"positional": inP, "named": inN,
							"calls_positional": cP, "calls_named": cN, "out_positional": string(oP), "out_named": string(oN)})
					}
					nF++
				}
			}
		}
		runners <- x
		b.merge(nil, 2*nF)
		r.Set("F_positional_named_pairs", nF)
	}

	lap("F")
	// ---- C: batches, free-running pool ---------------------------------------------------------
	maxBatch := ev.Pick(r, 3, 4)
	batches := batchInputs(maxBatch)
	{
		one := make(chan *runner, W) // pool of 1 goroutine: Go() blocks until the previous entry is done
		for i := 0; i < W; i++ {
			one <- newRunner(1)
		}
		var nC int64
		ev.Par(len(batches), W, func(i int) {
			in := []byte(batches[i])
			local := map[string]int64{}
			for _, src := range []chan *runner{runners, one} {
				x := <-src
				for via := viaReader; via <= viaHTTP; via += 2 {
					out, calls, prob := x.run(via, in)
					local[b.check("C", transportName[via], in, out, calls, prob)]++
					atomic.AddInt64(&nC, 1)
				}
				src <- x
			}
			b.merge(local, 4)
		})
		r.Set("C_batches", int64(len(batches)))
		r.Set("C_batch_executions", nC)
	}

	lap("C")
	// ---- E: token edits and truncations --------------------------------------------------------
	{
		var nE int64
		deep := ev.Pick(r, 2, len(editBases)) // bases explored to edit distance 2
		for bi, base := range editBases {
			toks := tokenize(base)
			var firsts [][]string
			firsts = append(firsts, toks)
			edits1(toks, func(t []string) { firsts = append(firsts, append([]string(nil), t...)) })
			ev.Par(len(firsts), W, func(i int) {
				if r.OutOfTime() {
					r.Incomplete("E: token edits cut by the time budget")
					return
				}
				x := <-runners
				defer func() { runners <- x }()
				local := map[string]int64{}
				var n int64
				do := func(t []string) {
					in := []byte(strings.Join(t, ""))
					out, calls, prob := x.run(viaReader, in)
					local[b.check("E", "HandleReader", in, out, calls, prob)]++
					n++
				}
				do(firsts[i])
				if bi < deep && i > 0 {
					edits1(firsts[i], do)
				}
				atomic.AddInt64(&nE, n)
				b.merge(local, n)
			})
			x := <-runners
			local := map[string]int64{}
			for cut := 0; cut < len(base); cut++ {
				in := []byte(base[:cut])
				out, calls, prob := x.run(viaReader, in)
				local[b.check("E", "HandleReader", in, out, calls, prob)]++
				nE++
			}
			b.merge(local, int64(len(base)))
			runners <- x
		}
		r.Set("E_token_edit_executions", nE)
	}

	lap("E")
	// ---- D: all completion orders of parked handlers ------------------------------------------
	{
		var nSched, nInputs, maxWidth int64
		local := map[string]int64{}
		inputs := append([]string(nil), batches...)
		// a few singles too: the handler then runs on the caller's goroutine
		inputs = append(inputs, batchEntries[0](0), batchEntries[2](0), batchEntries[5](0))
	outer:
		for _, in := range inputs {
			for ps := 1; ps <= maxBatch; ps++ {
				if ps > 1 && strings.Count(in, `"method":"m`) < 2 {
					continue // fewer than two handler invocations: the pool size cannot matter
				}
				if r.OutOfTime() {
					r.Incomplete("D: completion-order exploration cut by the time budget")
					break outer
				}
				nInputs++
				choices := []int{}
				for {
					widths, out, calls, prob := runSchedule(t, r, []byte(in), ps, choices)
					nSched++
					o := b.check("D", fmt.Sprintf("parked pool=%d order=%v", ps, choices), []byte(in), out, calls, prob)
					local[o]++
					for len(choices) < len(widths) {
						choices = append(choices, 0)
					}
					for _, w := range widths {
						if int64(w) > maxWidth {
							maxWidth = int64(w)
						}
					}
					i := len(choices) - 1
					for i >= 0 && choices[i]+1 >= widths[i] {
						i--
					}
					if i < 0 {
						break
					}
					choices = choices[:i+1]
					choices[i]++
				}
			}
		}
		b.merge(local, nSched)
		r.Set("D_inputs_x_poolsizes", nInputs)
		r.Set("D_schedules", nSched)
		r.Set("D_max_simultaneously_parked", maxWidth)
	}

	lap("D")
	// ---- G: large requests delivered in pieces (chunk_test.go) --------------------------------
	partG(r, b, runners, W)

	lap("G")
	// ---- H: runs of insignificant whitespace of every length at every structural position (ws_test.go) ----
	partH(r, b, runners, W)

	lap("H")
	// ---- I: typed-argument grid: every value class in every parameter position (args_test.go) ----------------
	partI(r, b, W)

	lap("I")
	// ---- evidence ------------------------------------------------------------------------------
	r.Set("evaluations", b.evals)
	r.Set("distinct_nontrivial", int64(len(b.outcomes)))
	r.Set("distinct_outcomes", int64(len(b.outcomes)))
	r.Set("rule", "A: all byte strings <= max_len over "+strconv.Itoa(len(alphabet))+" symbols; B: full product jsonrpc x method x params x id x 2 member orders x 3 transports; "+
		"C: all batches <= "+strconv.Itoa(maxBatch)+" entries over "+strconv.Itoa(len(batchEntries))+" entry kinds x pool sizes {4,1} x {HandleReader,HTTP}; "+
		"D: same batches, every choice of the next parked handler to complete at every quiescent point (synctest), pool sizes 1.."+strconv.Itoa(maxBatch)+"; "+
		"E: all <=1/<=2 token edits + all truncations of "+strconv.Itoa(len(editBases))+" request texts; F: positional vs named pairs; "+
		"G: "+strconv.Itoa(len(bigShapes))+" large-request shapes x sizes G_request_sizes, each delivered through a piecewise reader: every single split offset, every 2..k-subset of a per-request offset grid, x 2 EOF modes x 3 transports, compared with one-piece delivery (which is judged by the reference model); "+
		"H: a run of 0..H_max_run_length whitespace bytes (3 byte mixes) at every structural position of "+strconv.Itoa(len(wsBases))+" request texts x 3 transports; "+
		"I: for every method with parameters, the full product over its parameter positions of the value classes of each position's type (right values, every wrong JSON shape, null, absent, spelled-out zero value, validator-violating values; I_value_classes_by_type) x {positional, named (thorough: + named reversed)} x {request, notification, 2 (thorough: 5) batch arrangements} x 3 transports x server {with, without} validator. "+
		"An outcome is the (shape, multiset of response classes, invoked methods) triple; distinct_nontrivial counts different triples observed.")
	type kv struct {
		K string
		N int64
	}
	var top []kv
	for k, n := range b.outcomes {
		top = append(top, kv{k, n})
	}
	sort.Slice(top, func(i, j int) bool { return top[i].N > top[j].N || top[i].N == top[j].N && top[i].K < top[j].K })
	if len(top) > 16 {
		top = top[:16]
	}
	r.Set("outcome_histogram_top16", top)
	r.Sample(map[string]any{"part": "A", "example": strconv.Quote("[0,1]"), "expect": "array of two -32600/null"})
	r.Sample(map[string]any{"part": "B", "example": grid[len(grid)/2]})
	r.Sample(map[string]any{"part": "C/D", "example": batches[len(batches)/2]})
	r.Sample(map[string]any{"part": "E", "example": "every edit of " + editBases[0]})
	r.Sample(map[string]any{"part": "I", "example": `{"jsonrpc":"2.0","method":"xg","params":{"h":null,"id":{"block_number":5}},"id":7}`, "expect": "-32602, xg not invoked (felt.Felt refuses null)"})
	r.Assume = append(r.Assume,
		"encoding/json and reflect are trusted for value conversion; JSON well-formedness of inputs and outputs is decided by the harness' own RFC 8259 reader",
		"tolerances T1..T10 listed at the top of oracle_test.go",
		"part B runs on a server built WithValidator (as node.go builds every RPC server), part I on both configurations, parts A, C-H (plain parameter types only) on a server without one",
		"typed parameter classes: unknown / differently-cased member names inside struct arguments, duplicate member names, felt spellings with leading zeros and numbers with fraction/exponent inside `any` are not enumerated (encoding/json conversion is trusted)",
		"WebSocket transport not driven through a socket; HandleReadWriter, which it wraps, is driven with a message-counting writer (an empty Write is an emitted message)",
		"part G: every Read of the piecewise reader returns >= 1 byte and never fails other than with io.EOF at the end (what net.Conn / an HTTP body does); zero-byte reads and mid-stream transport errors are not enumerated",
		"handlers themselves do not panic and return marshalable values")
	r.Finish()
}
