package c11

// Reference model of a JSON-RPC 2.0 server over the harness method table, written from the specification
// (https://www.jsonrpc.org/specification) and the property statement, not from server.go.
//
// Tolerances (each one is a place where the specification or Go's decoding leaves room; nothing else is tolerated):
//  T1 `"id":null`            : accepted either as a notification (no response) or as a request answered with id null.
//  T2 top-level scalar/null  : a JSON text that is neither object nor array may be answered -32600 or -32700 (id null).
//  T3 trailing bytes         : bytes after the first complete JSON value need not be rejected (either -32700 or the
//                              answer for that first value).
//  T4 -32600 id              : an Invalid Request error may carry the request's (valid) id or null.
//  T5 invalid notification   : an object with a string "method", no "id" and another defect (bad version/params type)
//                              may be answered -32600/null or not at all.
//  T6 fractional/exponent id : `1.5`, `1e2` may be rejected (-32600) or accepted and echoed literally.
//  T7 `"method":""`          : -32600 or -32601.
//  T8 `"params":null`        : treated as absent, or rejected as invalid request (-32600).
//  T9 null for a non-pointer : bound as the Go zero value, or rejected -32602. Applies to the plain kinds (int, string,
//                              bool, uint64, slice, map, struct) at any depth; it does NOT excuse a null for a by-value
//                              json.Unmarshaler that refuses null, nor a zero value the configured validator refuses
//                              (typemodel_test.go).
//  T10 duplicate member names / non-UTF-8 bytes inside strings: only the response grammar is checked.
//  T11 -32602 vs -32601 order: n/a (unknown method is always -32601).

import (
	"context"
	"fmt"
	"net/http"
	"sort"
	"strconv"
	"strings"
	"sync"

	"github.com/NethermindEth/juno/jsonrpc"
	"github.com/NethermindEth/juno/utils/log"
)

// ---------------------------------------------------------------------------------------------------
// method table

type ptype int

const (
	tInt ptype = iota
	tStr
	tPInt
	tInts
	// typed classes (types_test.go / typemodel_test.go)
	tFelt    // felt.Felt by value: a json.Unmarshaler that refuses null
	tPFelt   // *felt.Felt
	tBlk     // hblk by value: harness union type with UnmarshalJSON, refuses null
	tPBlk    // *hblk
	tPage    // Page by value: validated struct whose zero value violates the validator
	tPPage   // *Page
	tOpts    // opts by value: validated struct whose zero value passes
	tFilt    // filt by value: embedded + nested members
	tPFilt   // *filt
	tFelts   // []felt.Felt
	tPages   // []Page
	tPageMap // map[string]Page
	tAny     // any
	tBool
	tU64
)

var ptypeName = map[ptype]string{tInt: "int", tStr: "string", tPInt: "*int", tInts: "[]int", tFelt: "felt", tPFelt: "*felt", tBlk: "hblk",
	tPBlk: "*hblk", tPage: "Page", tPPage: "*Page", tOpts: "opts", tFilt: "filt", tPFilt: "*filt", tFelts: "[]felt", tPages: "[]Page",
	tPageMap: "map[string]Page", tAny: "any", tBool: "bool", tU64: "uint64"}

type pdesc struct {
	name string
	typ  ptype
	opt  bool
}

type mkind int

const (
	kNormal mkind = iota
	kErr          // returns *jsonrpc.Error{Code:7,"boom",Data:a}
	kHdr          // 3-tuple with http.Header
	kNil          // returns (nil, nil)
	kEcho         // returns the signature it was invoked with (typed methods)
)

type mdesc struct {
	name   string
	params []pdesc
	kind   mkind
}

// declared parameter order is deliberately NOT alphabetical (z before b) so that a binder that follows the
// caller's / sorted key order instead of Method.Params is visible.
var methodTable = []mdesc{
	{"m0", nil, kNormal},
	{"m1", []pdesc{{"a", tInt, false}}, kNormal},
	{"m2", []pdesc{{"z", tInt, false}, {"b", tStr, false}}, kNormal},                     // + context
	{"m3", []pdesc{{"z", tInt, false}, {"b", tStr, false}, {"c", tPInt, true}}, kNormal}, // optional tail
	{"mo", []pdesc{{"z", tPInt, true}, {"b", tPInt, true}}, kNormal},                     // + context, all optional
	{"mx", []pdesc{{"z", tStr, false}, {"b", tPInt, true}}, kNormal},                     // + context, optional tail of ANOTHER type than its neighbour
	{"mc", []pdesc{{"l", tInts, false}, {"a", tInt, false}}, kNormal},                    // composite param
	{"me", []pdesc{{"a", tInt, false}}, kErr},
	{"mh", []pdesc{{"a", tInt, false}}, kHdr},
	{"mn", nil, kNil},
	// typed parameter classes, shaped after real juno handlers (types_test.go)
	{"xf", []pdesc{{"h", tFelt, false}}, kEcho},                                           // getClass(class_hash felt.Felt)
	{"xg", []pdesc{{"id", tBlk, false}, {"h", tFelt, false}, {"o", tPFelt, true}}, kEcho}, // + context; Class(id BlockID, hash felt.Felt)
	{"xr", []pdesc{{"id", tPBlk, false}, {"h", tPFelt, false}}, kEcho},                    // required pointers, as rpc/v10 declares them
	{"xp", []pdesc{{"p", tPage, false}}, kEcho},                                           // validated struct by value
	{"xq", []pdesc{{"z", tInt, false}, {"p", tPage, false}, {"o", tPPage, true}}, kEcho},  // ... next to a plain and an optional pointer one
	{"xn", []pdesc{{"f", tFilt, false}, {"g", tPFilt, true}}, kEcho},                      // + context; Events(args EventArgs)
	{"xs", []pdesc{{"l", tFelts, false}, {"ps", tPages, false}}, kEcho},                   // slices of unmarshalers / validated structs
	{"xm", []pdesc{{"mp", tPageMap, false}, {"v", tAny, false}}, kEcho},                   // map of validated structs, any
	{"xo", []pdesc{{"o", tOpts, false}, {"b", tBool, false}, {"n", tU64, false}}, kEcho},  // zero value passes the validator; bool; uint64
}

func methodByName(n string) *mdesc {
	for i := range methodTable {
		if methodTable[i].name == n {
			return &methodTable[i]
		}
	}
	return nil
}

func (m *mdesc) required() int {
	n := 0
	for _, p := range m.params {
		if !p.opt {
			n++
		}
	}
	return n
}

// harness side: invocation log (+ optional parking)
type harness struct {
	mu   sync.Mutex
	log  []string
	park func(sig string)
}

func (h *harness) rec(sig string) {
	h.mu.Lock()
	h.log = append(h.log, sig)
	h.mu.Unlock()
	if h.park != nil {
		h.park(sig)
	}
}

func (h *harness) take() []string {
	h.mu.Lock()
	l := h.log
	h.log = nil
	h.mu.Unlock()
	return l
}

func pintS(p *int) string {
	if p == nil {
		return "null"
	}
	return strconv.Itoa(*p)
}

func intsS(l []int) string {
	if l == nil {
		return "null"
	}
	s := make([]string, len(l))
	for i, x := range l {
		s[i] = strconv.Itoa(x)
	}
	return "[" + strings.Join(s, ",") + "]"
}

func qS(s string) string {
	var sb strings.Builder
	canonStr(&sb, s)
	return sb.String()
}

func ctxS(ctx context.Context) string {
	if ctx == nil {
		return "ctx=nil;"
	}
	return ""
}

func newServer(h *harness, poolSize int) *jsonrpc.Server { return newServerCfg(baseCfg, h, poolSize) }

func newServerCfg(c cfg, h *harness, poolSize int) *jsonrpc.Server {
	s := jsonrpc.NewServer(poolSize, log.NewNopZapLogger())
	if c.validator {
		s = s.WithValidator(newValidator())
	}
	P := func(ps ...pdesc) []jsonrpc.Parameter {
		var out []jsonrpc.Parameter
		for _, p := range ps {
			out = append(out, jsonrpc.Parameter{Name: p.name, Optional: p.opt})
		}
		return out
	}
	T := func(n string) []jsonrpc.Parameter { return P(methodByName(n).params...) }
	if err := s.RegisterMethods(typedMethods(h, T)...); err != nil {
		panic("register typed: " + err.Error())
	}
	err := s.RegisterMethods(
		jsonrpc.Method{Name: "m0", Params: T("m0"), Handler: func() (any, *jsonrpc.Error) {
			h.rec("m0()")
			return "m0", nil
		}},
		jsonrpc.Method{Name: "m1", Params: T("m1"), Handler: func(a int) (any, *jsonrpc.Error) {
			h.rec(fmt.Sprintf("m1(%d)", a))
			return map[string]any{"a": a}, nil
		}},
		jsonrpc.Method{Name: "m2", Params: T("m2"), Handler: func(ctx context.Context, z int, b string) (any, *jsonrpc.Error) {
			h.rec(fmt.Sprintf("m2(%s%d,%s)", ctxS(ctx), z, qS(b)))
			return map[string]any{"z": z, "b": b}, nil
		}},
		jsonrpc.Method{Name: "m3", Params: T("m3"), Handler: func(z int, b string, c *int) (any, *jsonrpc.Error) {
			h.rec(fmt.Sprintf("m3(%d,%s,%s)", z, qS(b), pintS(c)))
			return map[string]any{"z": z, "b": b, "c": c}, nil
		}},
		jsonrpc.Method{Name: "mo", Params: T("mo"), Handler: func(ctx context.Context, z, b *int) (any, *jsonrpc.Error) {
			h.rec(fmt.Sprintf("mo(%s%s,%s)", ctxS(ctx), pintS(z), pintS(b)))
			return map[string]any{"z": z, "b": b}, nil
		}},
		jsonrpc.Method{Name: "mx", Params: T("mx"), Handler: func(ctx context.Context, z string, b *int) (any, *jsonrpc.Error) {
			h.rec(fmt.Sprintf("mx(%s%s,%s)", ctxS(ctx), qS(z), pintS(b)))
			return map[string]any{"z": z, "b": b}, nil
		}},
		jsonrpc.Method{Name: "mc", Params: T("mc"), Handler: func(l []int, a int) (any, *jsonrpc.Error) {
			h.rec(fmt.Sprintf("mc(%s,%d)", intsS(l), a))
			return map[string]any{"l": l, "a": a}, nil
		}},
		jsonrpc.Method{Name: "me", Params: T("me"), Handler: func(a int) (any, *jsonrpc.Error) {
			h.rec(fmt.Sprintf("me(%d)", a))
			return nil, &jsonrpc.Error{Code: 7, Message: "boom", Data: a}
		}},
		jsonrpc.Method{Name: "mh", Params: T("mh"), Handler: func(a int) (any, http.Header, *jsonrpc.Error) {
			h.rec(fmt.Sprintf("mh(%d)", a))
			return map[string]any{"a": a}, http.Header{"X-Arg": []string{strconv.Itoa(a)}}, nil
		}},
		jsonrpc.Method{Name: "mn", Params: T("mn"), Handler: func() (any, *jsonrpc.Error) {
			h.rec("mn()")
			return nil, nil
		}},
	)
	if err != nil {
		panic("register: " + err.Error())
	}
	return s
}

// ---------------------------------------------------------------------------------------------------
// oracle

type argval struct {
	typ  ptype
	null bool // nil pointer / nil slice
	i    int64
	s    string
	l    []int64
	c    string // typed classes: canonical text (what the handler prints)
}

func (a argval) String() string {
	if a.typ >= tFelt {
		return a.c
	}
	switch a.typ {
	case tInt:
		return strconv.FormatInt(a.i, 10)
	case tStr:
		return qS(a.s)
	case tPInt:
		if a.null {
			return "null"
		}
		return strconv.FormatInt(a.i, 10)
	default:
		if a.null {
			return "null"
		}
		s := make([]string, len(a.l))
		for i, x := range a.l {
			s[i] = strconv.FormatInt(x, 10)
		}
		return "[" + strings.Join(s, ",") + "]"
	}
}

func zeroArg(t ptype) argval {
	if t >= tFelt {
		return argval{typ: t, c: zeroTyped(t)}
	}
	return argval{typ: t, null: t == tPInt || t == tInts}
}

// convert: ok / reject; nullTol set when a null met a non-pointer parameter (T9).
func convert(c cfg, v *jv, t ptype) (a argval, ok, nullTol bool) {
	a.typ = t
	if r, typed := modelTyped(c, v, t); typed {
		a.c = r.c
		return a, r.ok, r.ok && r.tol
	}
	switch t {
	case tInt, tPInt:
		if v.k == 'n' {
			a = zeroArg(t)
			return a, true, t == tInt
		}
		if v.k == '#' && plainInt(v.s) {
			n, err := strconv.ParseInt(v.s, 10, 64)
			if err == nil {
				a.i = n
				return a, true, false
			}
		}
		return a, false, false
	case tStr:
		if v.k == 'n' {
			return zeroArg(t), true, true
		}
		if v.k == '"' {
			a.s = v.s
			return a, true, false
		}
		return a, false, false
	default: // tInts
		if v.k == 'n' {
			return zeroArg(t), true, true
		}
		if v.k != '[' {
			return a, false, false
		}
		a.l = []int64{}
		tol := false
		for _, e := range v.arr {
			if e.k == 'n' { // T9 one level down
				a.l, tol = append(a.l, 0), true
				continue
			}
			if e.k != '#' || !plainInt(e.s) {
				return a, false, false
			}
			n, err := strconv.ParseInt(e.s, 10, 64)
			if err != nil {
				return a, false, false
			}
			a.l = append(a.l, n)
		}
		return a, true, tol
	}
}

type bindAlt struct {
	ok   bool
	args []argval
}

func bind(c cfg, m *mdesc, pa *jv) []bindAlt {
	reject := []bindAlt{{ok: false}}
	zeros := func(from int, args []argval) []argval {
		for i := from; i < len(m.params); i++ {
			args = append(args, zeroArg(m.params[i].typ))
		}
		return args
	}
	if pa == nil || pa.k == 'n' || (pa.k == '[' && len(pa.arr) == 0) || (pa.k == '{' && len(pa.keys) == 0) {
		if m.required() > 0 {
			return reject
		}
		return []bindAlt{{true, zeros(0, nil)}}
	}
	var args []argval
	tol := false
	switch pa.k {
	case '[':
		if len(pa.arr) < m.required() || len(pa.arr) > len(m.params) {
			return reject
		}
		for i, e := range pa.arr {
			a, ok, nt := convert(c, e, m.params[i].typ)
			if !ok {
				return reject
			}
			tol = tol || nt
			args = append(args, a)
		}
		args = zeros(len(pa.arr), args)
	case '{':
		used := 0
		for _, p := range m.params {
			e := pa.get(p.name)
			if e == nil {
				if !p.opt {
					return reject
				}
				args = append(args, zeroArg(p.typ))
				continue
			}
			used++
			a, ok, nt := convert(c, e, p.typ)
			if !ok {
				return reject
			}
			tol = tol || nt
			args = append(args, a)
		}
		if used != len(pa.keys) {
			return reject // names the method does not have
		}
	default:
		return reject
	}
	out := []bindAlt{{true, args}}
	if tol {
		out = append(out, bindAlt{ok: false})
	}
	return out
}

func sig(m *mdesc, args []argval) string {
	s := make([]string, len(args))
	for i, a := range args {
		s[i] = a.String()
	}
	return m.name + "(" + strings.Join(s, ",") + ")"
}

func resultCanon(m *mdesc, args []argval) string {
	switch m.kind {
	case kEcho:
		return "R" + qS(sig(m, args))
	case kErr:
		return "E7/boom/" + args[0].String()
	case kNil:
		return "Rnull"
	}
	if m.name == "m0" {
		return `R"m0"`
	}
	idx := make([]int, len(args))
	for i := range idx {
		idx[i] = i
	}
	sort.Slice(idx, func(a, b int) bool { return m.params[idx[a]].name < m.params[idx[b]].name })
	var sb strings.Builder
	sb.WriteString("R{")
	for n, i := range idx {
		if n > 0 {
			sb.WriteByte(',')
		}
		sb.WriteString(qS(m.params[i].name) + ":" + args[i].String())
	}
	sb.WriteString("}")
	return sb.String()
}

// alt: one acceptable behaviour for one request entry. resp=="" means "no response".
type alt struct {
	resp string // "id=<canon>|E<code>" | "id=<canon>|R<canon result>" | "id=..|E7/boom/<data>"
	call string // expected invocation signature, "" = handler must not run
}

func errAlt(id string, code int) alt { return alt{resp: "id=" + id + "|E" + strconv.Itoa(code)} }

var altInvalidNull = []alt{errAlt("null", -32600)}

// oracleEntry returns the acceptable behaviours for one element (single request or batch member).
// unconstrained=true (T10) means only the grammar of whatever comes back is checked.
func oracleEntry(c cfg, v *jv, tolNotif bool) (alts []alt, isNotification bool) {
	if v.k != '{' {
		return altInvalidNull, false
	}
	jr, me, pa, id := v.get("jsonrpc"), v.get("method"), v.get("params"), v.get("id")

	type mode struct {
		respond bool
		id      string
	}
	var modes []mode
	var invalidIDs []string // T4: the request's id, or null
	looseID := false
	switch {
	case id == nil:
		modes = []mode{{false, ""}}
	case id.k == 'n': // T1
		modes = []mode{{false, ""}, {true, "null"}}
	case id.k == '"':
		modes = []mode{{true, id.canonString()}}
		invalidIDs = append(invalidIDs, id.canonString())
	case id.k == '#':
		modes = []mode{{true, id.s}}
		invalidIDs = append(invalidIDs, id.s)
		looseID = !plainInt(id.s) // T6
	default:
		return altInvalidNull, false // an id that is not string/number/null can never be echoed
	}
	invalid := func() []alt {
		var out []alt
		for _, i := range append(invalidIDs, "null") {
			out = append(out, errAlt(i, -32600))
		}
		if id == nil && me != nil && me.k == '"' { // T5
			out = append(out, alt{})
		}
		return out
	}
	okV := jr != nil && jr.k == '"' && jr.s == "2.0"
	okM := me != nil && me.k == '"'
	okP := pa == nil || pa.k == '[' || pa.k == '{' || pa.k == 'n'
	if !okV || !okM || !okP {
		return invalid(), false
	}
	if looseID {
		alts = append(alts, invalid()...)
	}
	if pa != nil && pa.k == 'n' { // T8
		alts = append(alts, invalid()...)
	}
	if me.s == "" { // T7
		alts = append(alts, invalid()...)
	}
	isNotification = id == nil
	if isNotification && tolNotif { // second pass only: the "notification answered" finding is set aside
		alts = append(alts, errAlt("null", -32601), errAlt("null", -32602))
	}
	m := methodByName(me.s)
	for _, md := range modes {
		if m == nil {
			if md.respond {
				alts = append(alts, errAlt(md.id, -32601))
			} else {
				alts = append(alts, alt{})
			}
			continue
		}
		for _, b := range bind(c, m, pa) {
			switch {
			case !b.ok && md.respond:
				alts = append(alts, errAlt(md.id, -32602))
			case !b.ok:
				alts = append(alts, alt{})
			case md.respond:
				alts = append(alts, alt{resp: "id=" + md.id + "|" + resultCanon(m, b.args), call: sig(m, b.args)})
			default:
				alts = append(alts, alt{call: sig(m, b.args)})
			}
		}
	}
	return alts, isNotification
}

// ---------------------------------------------------------------------------------------------------
// response grammar

// respCanon checks one response object against the JSON-RPC 2.0 grammar and returns its canonical form.
func respCanon(v *jv) (canon string, grammarErr string) {
	if v.k != '{' {
		return "", "element-not-object"
	}
	var jr, id, res, er *jv
	seen := map[string]int{}
	for i, k := range v.keys {
		seen[k]++
		switch k {
		case "jsonrpc":
			jr = v.vals[i]
		case "id":
			id = v.vals[i]
		case "result":
			res = v.vals[i]
		case "error":
			er = v.vals[i]
		default:
			return "", "extra-member"
		}
	}
	for _, n := range seen {
		if n > 1 {
			return "", "duplicate-member"
		}
	}
	if jr == nil || jr.k != '"' || jr.s != "2.0" {
		return "", "bad-jsonrpc-member"
	}
	if id == nil {
		return "", "missing-id"
	}
	if id.k != 'n' && id.k != '"' && id.k != '#' {
		return "", "id-not-string-number-null"
	}
	if res != nil && er != nil {
		return "", "both-result-and-error"
	}
	if res == nil && er == nil {
		return "", "neither-result-nor-error"
	}
	ids := id.canonString()
	if res != nil {
		return "id=" + ids + "|R" + res.canonString(), ""
	}
	if er.k != '{' {
		return "", "error-not-object"
	}
	code, msg, data := er.get("code"), er.get("message"), er.get("data")
	if code == nil || code.k != '#' || !plainInt(code.s) {
		return "", "error-code-not-integer"
	}
	if msg == nil || msg.k != '"' {
		return "", "error-message-not-string"
	}
	for _, k := range er.keys {
		if k != "code" && k != "message" && k != "data" {
			return "", "error-extra-member"
		}
	}
	switch code.s {
	case "-32700", "-32600", "-32601", "-32602", "-32603":
		want := map[string]string{"-32700": "Parse error", "-32600": "Invalid Request", "-32601": "Method Not Found",
			"-32602": "Invalid Params", "-32603": "Internal error"}[code.s]
		if !strings.EqualFold(msg.s, want) {
			return "", "standard-code-with-nonstandard-message"
		}
		return "id=" + ids + "|E" + code.s, ""
	}
	d := "null"
	if data != nil {
		d = data.canonString()
	}
	return "id=" + ids + "|E" + code.s + "/" + msg.s + "/" + d, ""
}

// class strips ids and payloads: used for stable violation keys and the outcome histogram.
func class(resp string) string {
	if resp == "" {
		return "none"
	}
	i := strings.IndexByte(resp, '|')
	r := resp[i+1:]
	if strings.HasPrefix(r, "R") {
		return "result"
	}
	if j := strings.IndexByte(r, '/'); j >= 0 {
		r = r[:j]
	}
	return r
}

func methodOf(call string) string {
	if i := strings.IndexByte(call, '('); i >= 0 {
		return call[:i]
	}
	return call
}

// ---------------------------------------------------------------------------------------------------
// judge: whole document

type verdict struct {
	key     string // "" = conforms
	detail  string
	outcome string
}

func sortedCopy(s []string) []string {
	c := append([]string(nil), s...)
	sort.Strings(c)
	return c
}

func eqStrs(a, b []string) bool {
	if len(a) != len(b) {
		return false
	}
	for i := range a {
		if a[i] != b[i] {
			return false
		}
	}
	return true
}

// match: is there a choice of one alternative per entry whose responses / calls equal the observed multisets?
func match(entries [][]alt, resps, calls []string) bool {
	wantR := make([]string, 0, len(entries))
	wantC := make([]string, 0, len(entries))
	var rec func(i int) bool
	rec = func(i int) bool {
		if i == len(entries) {
			return eqStrs(sortedCopy(wantR), resps) && eqStrs(sortedCopy(wantC), calls)
		}
		for _, a := range entries[i] {
			nr, nc := len(wantR), len(wantC)
			if a.resp != "" {
				wantR = append(wantR, a.resp)
			}
			if a.call != "" {
				wantC = append(wantC, a.call)
			}
			if len(wantR) <= len(resps) && len(wantC) <= len(calls) && rec(i+1) {
				return true
			}
			wantR, wantC = wantR[:nr], wantC[:nc]
		}
		return false
	}
	return rec(0)
}

var altParseErr = alt{resp: "id=null|E-32700"}

func judge(input, out []byte, calls []string, tolNotif bool) verdict {
	return judgeCfg(baseCfg, input, out, calls, tolNotif)
}

// judgeCfg judges one document against the model of a server configured as c.
func judgeCfg(c cfg, input, out []byte, calls []string, tolNotif bool) verdict {
	calls = sortedCopy(calls)
	v, ok, trailing, lenient, dup := parsePrefix(input)

	// ---- what came back
	var resps []string
	outIsArray := false
	outcome := "none"
	if len(out) > 0 {
		ov, ook, otrail, _, _ := parsePrefix(out)
		if !ook || otrail {
			return verdict{key: "output-not-json", detail: "output is not one JSON text", outcome: "garbage"}
		}
		var elems []*jv
		switch ov.k {
		case '{':
			elems = []*jv{ov}
		case '[':
			outIsArray = true
			elems = ov.arr
			if len(elems) == 0 {
				return verdict{key: "shape empty-array-output", detail: "[] returned", outcome: "[]"}
			}
		default:
			return verdict{key: "shape output-neither-object-nor-array", outcome: "scalar"}
		}
		cl := make([]string, 0, len(elems))
		for _, e := range elems {
			c, g := respCanon(e)
			if g != "" {
				// make the two grammar findings of the unchanged tree specific, so that marking them as known cannot
				// hide a different way of producing the same malformed response
				switch {
				case g == "neither-result-nor-error" && len(calls) > 0 && allCallsTo(calls, "mn"):
					g += " handler-returned-nil"
				case g == "id-not-string-number-null" && ok && echoesRequestID(v, e):
					g += " echoed-from-invalid-request"
				}
				return verdict{key: "response-grammar " + g, detail: "element " + e.canonString(), outcome: "grammar:" + g}
			}
			resps = append(resps, c)
			cl = append(cl, class(c))
		}
		sort.Strings(resps)
		sort.Strings(cl)
		if outIsArray {
			outcome = "batch[" + strings.Join(cl, ",") + "]"
		} else {
			outcome = "single:" + cl[0]
		}
	}
	if len(calls) > 0 {
		ms := make([]string, len(calls))
		for i, c := range calls {
			ms[i] = methodOf(c)
		}
		outcome += " calls=" + strings.Join(ms, ",")
	}

	// ---- what may come back
	var entries [][]alt
	var notif []bool
	wantArray := false
	docAlts := []alt(nil) // alternatives for the document as a whole (single-object answers)
	switch {
	case !ok:
		entries = [][]alt{{altParseErr}}
	case dup || lenient: // T10
		return verdict{outcome: outcome}
	case v.k == '{':
		a, n := oracleEntry(c, v, tolNotif)
		entries, notif = [][]alt{a}, []bool{n}
	case v.k == '[' && len(v.arr) == 0:
		entries = [][]alt{altInvalidNull}
	case v.k == '[':
		wantArray = true
		for _, e := range v.arr {
			a, n := oracleEntry(c, e, tolNotif)
			entries = append(entries, a)
			notif = append(notif, n)
		}
	default: // T2
		entries = [][]alt{{errAlt("null", -32600), altParseErr}}
	}
	if ok && trailing { // T3
		docAlts = append(docAlts, altParseErr)
	}

	if len(resps) > 0 && outIsArray == wantArray && match(entries, resps, calls) {
		return verdict{outcome: outcome}
	}
	if len(resps) == 0 && match(entries, nil, calls) {
		return verdict{outcome: outcome}
	}
	if !outIsArray && len(resps) == 1 && len(calls) == 0 {
		for _, a := range docAlts {
			if a.resp == resps[0] {
				return verdict{outcome: outcome}
			}
		}
	}

	// ---- classify the disagreement into a stable key
	kind := "single"
	if wantArray {
		kind = "batch"
	}
	if !tolNotif && ok && (v.k == '{' || v.k == '[') && len(resps) > 0 && outIsArray == wantArray {
		// would everything be explained if notifications naming an unknown method / carrying bad params were
		// allowed to be answered with -32601 / -32602 and id null? Then that is exactly what happened.
		var e2 [][]alt
		if v.k == '{' {
			a, _ := oracleEntry(c, v, true)
			e2 = [][]alt{a}
		} else {
			for _, e := range v.arr {
				a, _ := oracleEntry(c, e, true)
				e2 = append(e2, a)
			}
		}
		if match(e2, resps, calls) {
			var codes []string
			for _, c := range []string{"E-32601", "E-32602"} {
				if indexOf(resps, "id=null|"+c) >= 0 {
					codes = append(codes, c)
				}
			}
			return verdict{key: "notification-answered " + kind + " " + strings.Join(codes, ","), detail: explain(entries, resps, calls), outcome: outcome}
		}
	}
	if len(resps) > 0 && outIsArray != wantArray && !(ok && trailing) {
		if wantArray {
			return verdict{key: "shape object-for-batch", detail: explain(entries, resps, calls), outcome: outcome}
		}
		return verdict{key: "shape array-for-single", detail: explain(entries, resps, calls), outcome: outcome}
	}
	// pair off what can be explained entry by entry; name the rest
	leftR := append([]string(nil), resps...)
	leftC := append([]string(nil), calls...)
	var unexp []string
	idMismatch := 0
	for i, as := range entries {
		found := false
		for _, a := range as {
			ri, ci := -1, -1
			if a.resp != "" {
				if ri = indexOf(leftR, a.resp); ri < 0 {
					continue
				}
			}
			if a.call != "" {
				if ci = indexOf(leftC, a.call); ci < 0 {
					continue
				}
			}
			if a.resp == "" && a.call == "" {
				continue // "nothing happens" is tried last, below
			}
			if ri >= 0 {
				leftR = append(leftR[:ri], leftR[ri+1:]...)
			}
			if ci >= 0 {
				leftC = append(leftC[:ci], leftC[ci+1:]...)
			}
			found = true
			break
		}
		if found {
			continue
		}
		// same payload (and invocation) but under another id?
		wrongID := false
		for _, a := range as {
			if a.resp == "" {
				continue
			}
			ci := -1
			if a.call != "" {
				if ci = indexOf(leftC, a.call); ci < 0 {
					continue
				}
			}
			pay := a.resp[strings.IndexByte(a.resp, '|'):]
			for ri, lr := range leftR {
				if lr[strings.IndexByte(lr, '|'):] == pay {
					leftR = append(leftR[:ri], leftR[ri+1:]...)
					if ci >= 0 {
						leftC = append(leftC[:ci], leftC[ci+1:]...)
					}
					wrongID = true
					break
				}
			}
			if wrongID {
				break
			}
		}
		if wrongID {
			idMismatch++
			continue
		}
		silentOK := false
		for _, a := range as {
			if a.resp == "" && a.call == "" {
				silentOK = true
			}
		}
		if silentOK {
			continue // silence explains this entry; whatever is left over is reported as stray
		}
		cls := map[string]bool{}
		for _, a := range as {
			c := class(a.resp)
			if a.call != "" {
				c += "+call"
			}
			cls[c] = true
		}
		var cs []string
		for c := range cls {
			cs = append(cs, c)
		}
		sort.Strings(cs)
		unexp = append(unexp, strings.Join(cs, "|"))
		_ = i
	}
	var gotR, gotC []string
	for _, r := range leftR {
		gotR = append(gotR, class(r))
	}
	for _, c := range leftC {
		gotC = append(gotC, methodOf(c))
	}
	sort.Strings(unexp)
	unexp = dedupe(unexp)
	gotR = dedupe(gotR)
	gotC = dedupe(gotC)
	det := explain(entries, resps, calls)
	if len(unexp) == 0 && len(leftC) == 0 && len(leftR) > 0 && strayAllNull(leftR) && anyTrue(notif) {
		// more responses than requests, all anonymous, and the document contains notifications
		return verdict{key: "notification-answered " + kind + " " + strings.Join(gotR, ","), detail: det, outcome: outcome}
	}
	if idMismatch > 0 {
		return verdict{key: "response-id-mismatch " + kind, detail: det, outcome: outcome}
	}
	if kind == "single" && ok && !trailing && v.k == '{' && len(resps) == 1 && class(resps[0]) == "E-32700" {
		return verdict{key: "parse-error-for-valid-json ill-typed=" + illTyped(v), detail: det, outcome: outcome}
	}
	key := fmt.Sprintf("mismatch %s expected=[%s] stray-responses=[%s]", kind, strings.Join(unexp, ";"), strings.Join(gotR, ","))
	if len(gotC) > 0 {
		key += " stray-calls=[" + strings.Join(gotC, ",") + "]"
	}
	return verdict{key: key, detail: det, outcome: outcome}
}

func illTyped(v *jv) string {
	var bad []string
	if x := v.get("jsonrpc"); x != nil && x.k != '"' && x.k != 'n' {
		bad = append(bad, "jsonrpc")
	}
	if x := v.get("method"); x != nil && x.k != '"' && x.k != 'n' {
		bad = append(bad, "method")
	}
	if len(bad) == 0 {
		return "?"
	}
	return strings.Join(bad, "+")
}

func strayAllNull(rs []string) bool {
	for _, r := range rs {
		if !strings.HasPrefix(r, "id=null|") {
			return false
		}
	}
	return true
}

func anyTrue(b []bool) bool {
	for _, x := range b {
		if x {
			return true
		}
	}
	return false
}

func indexOf(s []string, x string) int {
	for i, y := range s {
		if y == x {
			return i
		}
	}
	return -1
}

func dedupe(s []string) []string {
	sort.Strings(s)
	var out []string
	for i, x := range s {
		if i == 0 || x != s[i-1] {
			out = append(out, x)
		}
	}
	return out
}

func explain(entries [][]alt, resps, calls []string) string {
	var sb strings.Builder
	for i, as := range entries {
		fmt.Fprintf(&sb, "entry %d may: ", i)
		for j, a := range as {
			if j > 0 {
				sb.WriteString(" OR ")
			}
			r := a.resp
			if r == "" {
				r = "no-response"
			}
			sb.WriteString(r)
			if a.call != "" {
				sb.WriteString(" call " + a.call)
			}
		}
		sb.WriteString("; ")
	}
	fmt.Fprintf(&sb, "observed responses=%v calls=%v", resps, calls)
	return sb.String()
}

func allCallsTo(calls []string, m string) bool {
	for _, c := range calls {
		if methodOf(c) != m {
			return false
		}
	}
	return true
}

// echoesRequestID: the malformed id of response element e is literally the id member of a -32600 request in the input.
func echoesRequestID(in, e *jv) bool {
	rid, er := e.get("id"), e.get("error")
	if rid == nil || er == nil || er.k != '{' || er.get("code") == nil || er.get("code").s != "-32600" {
		return false
	}
	reqs := []*jv{in}
	if in.k == '[' {
		reqs = in.arr
	}
	for _, q := range reqs {
		if q.k != '{' {
			continue
		}
		for i, k := range q.keys { // every "id" member, should the name be repeated
			if k == "id" && q.vals[i].canonString() == rid.canonString() {
				return true
			}
		}
	}
	return false
}
