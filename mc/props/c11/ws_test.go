package c11

import (
	"strconv"
	"strings"

	"verif/mc/ev"
)

// Part H: insignificant whitespace. JSON allows any amount of whitespace before and after a value and between
// tokens; a request text with a run of L whitespace bytes at a structural position is the same request. The
// server looks at the input through buffers of fixed size (a 128-byte bufio in front of the decoder, the 512-byte
// diagnostics window, the decoder's own buffer), so the LENGTH of such a run is an input dimension of its own:
// every length 0..maxRun of a run of each whitespace byte mix, at every structural position of a single request,
// a notification and a batch, through the three transports, judged by the reference model (one-piece delivery).

type wsBase struct {
	name string
	// parts: the request text cut at every structural position; a run is inserted between parts[i] and parts[i+1]
	// (i = -1: before the text, i = len-1: after it)
	parts []string
}

var wsBases = []wsBase{
	{"single", []string{`{`, `"jsonrpc"`, `:`, `"2.0"`, `,`, `"method"`, `:`, `"m2"`, `,`, `"params"`, `:`, `[`, `11`, `,`, `"ws"`, `]`, `,`, `"id"`, `:`, `1`, `}`}},
	{"notification", []string{`{`, `"jsonrpc"`, `:`, `"2.0"`, `,`, `"method"`, `:`, `"m1"`, `,`, `"params"`, `:`, `[`, `5`, `]`, `}`}},
	{"batch", []string{`[`, `{"jsonrpc":"2.0","method":"m1","params":[5],"id":1}`, `,`, `{"jsonrpc":"2.0","method":"m2","params":{"a":2,"b":"x"},"id":"two"}`, `]`}},
	{"batch-of-notifications", []string{`[`, `{"jsonrpc":"2.0","method":"m1","params":[5]}`, `]`}},
	{"unknown-method", []string{`{`, `"jsonrpc":"2.0","id":3,"method":"nope"`, `}`}},
	// not JSON: the diagnostics (excerpt + position of the parse error) are computed from offsets into what was read
	{"truncated", []string{`{`, `"jsonrpc":"2.0","id":3,`, `"method":"m1"`}},
	{"stray-byte", []string{`{`, `"jsonrpc":"2.0",`, `?`, `"id":3,"method":"m1"`, `}`}},
	{"truncated-batch", []string{`[`, `{"jsonrpc":"2.0","method":"m1","params":[5],"id":1}`, `,`}},
}

var wsFills = []struct {
	name string
	unit string
}{{"spaces", " "}, {"newlines", "\n"}, {"crlf-tab-space", "\r\n\t "}}

func partH(r *ev.Run, b *book, runners chan *runner, W int) {
	maxRun := ev.Pick(r, 300, 1100)
	type wcase struct {
		base, fill string
		pos, n     int
		text       []byte
	}
	var cases []wcase
	for _, bs := range wsBases {
		for pos := -1; pos < len(bs.parts); pos++ {
			for _, f := range wsFills {
				for n := 0; n <= maxRun; n++ {
					if n == 0 && (f.name != "spaces" || pos != -1) {
						continue // the text without a run once per base
					}
					run := strings.Repeat(f.unit, n/len(f.unit)+1)[:n]
					var sb strings.Builder
					if pos == -1 {
						sb.WriteString(run)
					}
					for i, p := range bs.parts {
						sb.WriteString(p)
						if i == pos {
							sb.WriteString(run)
						}
					}
					cases = append(cases, wcase{bs.name, f.name, pos, n, []byte(sb.String())})
				}
			}
		}
	}
	ev.Par(len(cases), W, func(i int) {
		c := cases[i]
		x := <-runners
		defer func() { runners <- x }()
		local := map[string]int64{}
		for via := viaReader; via <= viaHTTP; via++ {
			out, calls, prob := x.run(via, c.text)
			place := "inside"
			if c.pos == -1 {
				place = "leading"
			} else if c.pos == len(wsBaseByName(c.base).parts)-1 {
				place = "trailing"
			}
			lab := b.check("H", transportName[via]+" whitespace-run "+place+" "+c.base, c.text, out, calls, prob)
			local["H "+c.base+" "+lab]++
		}
		b.merge(local, 3)
	})
	r.Set("H_whitespace_cases", int64(len(cases)))
	r.Set("H_max_run_length", int64(maxRun))
	r.Set("H_bases", int64(len(wsBases)))
	r.Sample(map[string]any{"part": "H", "example": "base " + cases[len(cases)/2].base + ", run of " + strconv.Itoa(cases[len(cases)/2].n) + " bytes (" + cases[len(cases)/2].fill + ") after part " + strconv.Itoa(cases[len(cases)/2].pos)})
}

func wsBaseByName(n string) wsBase {
	for _, b := range wsBases {
		if b.name == n {
			return b
		}
	}
	return wsBase{}
}
