package c11

// Part I - typed-argument grid.
//
// What is enumerated: for every registered method with parameters and for BOTH server configurations (with /
// without a validator), the FULL PRODUCT over the method's parameter positions of the value classes of that
// position's type - right values, every wrong JSON shape, JSON null, the member being absent, the spelled-out zero
// value, values that violate the validator, nulls / wrong shapes one level down - written positionally (absent only as
// a suffix) and by name (thorough: also by name in reversed order), sent as a request, as a notification and inside
// two (thorough: five) batch arrangements, through the three transports. Thorough also has more values per class.
// Oracle: the reference model (oracle_test.go + typemodel_test.go): -32602 and NO invocation for every value the type
// or the validator refuses; exactly one invocation with exactly the supplied value otherwise (T9 where it applies);
// and the positional and the two named spellings of the same arguments must give the same invocation and answer.
// Violation keys carry the first parameter class the model refuses (or, if none, the first one it tolerates), e.g.
// "arg-binding felt:null mismatch single expected=[E-32602] ...".

import (
	"fmt"
	"sort"
	"strconv"
	"strings"
	"sync/atomic"

	"verif/mc/ev"
)

type vclass struct {
	cls  string // coarse class (part of violation keys)
	text string // JSON text; "" = the parameter is absent
	deep bool   // thorough tier only
}

const pMinus1 = `"0x800000000000011000000000000000000000000000000000000000000000000"`
const pExact = `"0x800000000000011000000000000000000000000000000000000000000000001"`

func goodTyped(t ptype, pos, salt int) string {
	n := 11*(pos+1) + salt
	hx := `"0x` + strconv.FormatInt(int64(n), 16) + `"`
	switch t {
	case tFelt, tPFelt:
		return hx
	case tBlk, tPBlk:
		return `{"block_number":` + strconv.Itoa(n) + `}`
	case tPage, tPPage:
		return `{"chunk_size":` + strconv.Itoa(n) + `}`
	case tOpts:
		return `{"flag":true,"lim":` + strconv.Itoa(1+pos+salt) + `}`
	case tFilt, tPFilt:
		return `{"chunk_size":` + strconv.Itoa(n) + `,"addr":` + hx + `,"keys":[[` + hx + `],[]]}`
	case tFelts:
		return `["0x1",` + hx + `]`
	case tPages:
		return `[{"chunk_size":` + strconv.Itoa(n) + `}]`
	case tPageMap:
		return `{"k":{"chunk_size":` + strconv.Itoa(n) + `}}`
	case tAny:
		return `{"k":[` + strconv.Itoa(n) + `,"s"]}`
	case tBool:
		return "true"
	case tU64:
		return strconv.Itoa(n)
	}
	panic("goodTyped: plain type")
}

// valueClasses: the value classes a parameter of type t receives. The model, not this table, decides which of them
// the type accepts: cls only names the class for keys and counters.
func valueClasses(t ptype) []vclass {
	R, W, Z, V, N, D := "right", "wrong-shape", "zero", "violates-validator", "null-inside", "out-of-range"
	feltC := []vclass{{R, `"0x1f"`, false}, {R, `"0xAbC"`, false}, {R, pMinus1, false}, {Z, `"0x0"`, false},
		{W, "5", false}, {W, "true", false}, {W, `"zz"`, false}, {W, `""`, false}, {W, `"0x"`, false}, {W, `"1f"`, false},
		{W, "{}", false}, {W, `["0x1"]`, false}, {D, pExact, false}, {W, `"0xg"`, true}, {W, "0", true}, {W, "[]", true}, {W, `"0x 1"`, true}}
	blkC := []vclass{{R, `"latest"`, false}, {R, `{"block_number":5}`, false}, {R, `"pending"`, true}, {Z, `{"block_number":0}`, false},
		{R, `{"block_number":18446744073709551615}`, true}, {D, `{"block_number":18446744073709551616}`, true},
		{W, "5", false}, {W, `"nope"`, false}, {W, "{}", false}, {W, `{"block_number":"x"}`, false}, {D, `{"block_number":-1}`, false},
		{W, "[]", false}, {N, `{"block_number":null}`, false}, {W, `{"block_number":1,"x":2}`, false}, {W, `""`, true}, {W, "true", true},
		{W, `{"block_number":1.5}`, true}, {W, `["latest"]`, true}}
	pageC := []vclass{{R, `{"chunk_size":5}`, false}, {R, `{"chunk_size":100,"token":"t"}`, false}, {R, `{"token":"u","chunk_size":1}`, true},
		{Z, "{}", false}, {Z, `{"chunk_size":0}`, false}, {Z, `{"chunk_size":0,"token":""}`, true},
		{V, `{"chunk_size":101}`, false}, {V, `{"chunk_size":-1}`, false}, {V, `{"token":"t"}`, false},
		{W, "5", false}, {W, `"s"`, false}, {W, "[]", false}, {W, `{"chunk_size":"x"}`, false}, {W, `{"chunk_size":1,"token":7}`, false},
		{W, "true", true}, {W, `{"chunk_size":1.5}`, true}, {W, `{"chunk_size":[1]}`, true},
		{N, `{"chunk_size":null}`, false}, {N, `{"chunk_size":3,"token":null}`, false}}
	filtC := []vclass{{R, `{"chunk_size":5}`, false},
		{R, `{"from":"latest","addr":"0x1","keys":[["0x1","0x2"],[]],"chunk_size":2,"token":"t"}`, false},
		{R, `{"from":{"block_number":3},"keys":[],"chunk_size":100}`, false},
		{N, `{"from":null,"addr":null,"keys":null,"chunk_size":1}`, false},
		{Z, "{}", false}, {V, `{"chunk_size":0,"addr":"0x1"}`, false}, {V, `{"from":"latest","chunk_size":101}`, false},
		{W, "5", false}, {W, "[]", false}, {W, `"s"`, true}, {W, `{"chunk_size":1,"addr":7}`, false}, {W, `{"chunk_size":1,"from":"nope"}`, false},
		{W, `{"chunk_size":1,"from":{}}`, true}, {W, `{"chunk_size":1,"addr":"zz"}`, true},
		{N, `{"chunk_size":1,"keys":[[null]]}`, false}, {W, `{"chunk_size":1,"keys":["0x1"]}`, false}, {N, `{"chunk_size":1,"keys":[null]}`, false},
		{W, `{"chunk_size":1,"keys":{}}`, true}, {W, `{"chunk_size":"1"}`, true}, {N, `{"chunk_size":null,"addr":"0x1"}`, true}}
	var out []vclass
	switch t {
	case tInt:
		out = []vclass{{R, "7", false}, {R, "-3", false}, {Z, "0", false}, {W, `"x"`, false}, {W, "1.5", false}, {W, "true", false},
			{W, "[1]", false}, {W, "{}", false}, {D, "9223372036854775808", false}, {W, "1e2", true}, {R, "9223372036854775807", true}}
	case tStr:
		out = []vclass{{R, `"v"`, false}, {R, `"a\"b\\c"`, false}, {Z, `""`, false}, {W, "5", false}, {W, "[]", false}, {W, "{}", false}, {W, "true", false},
			{R, `"é\n"`, true}}
	case tPInt:
		out = []vclass{{R, "7", false}, {Z, "0", false}, {W, `"x"`, false}, {W, "1.5", false}, {W, "{}", false}, {W, "[]", true}, {W, "false", true}}
	case tInts:
		out = []vclass{{R, "[1,2]", false}, {Z, "[]", false}, {W, "{}", false}, {W, "5", false}, {W, `["x"]`, false}, {N, "[1,null]", false},
			{W, "[[1]]", true}, {W, "[1.5]", true}, {W, `"[]"`, true}}
	case tFelt, tPFelt:
		out = feltC
	case tBlk, tPBlk:
		out = blkC
	case tPage, tPPage:
		out = pageC
	case tOpts:
		out = []vclass{{R, `{"flag":true,"lim":3}`, false}, {R, `{"lim":9}`, false}, {Z, "{}", false}, {Z, `{"flag":false,"lim":0}`, true},
			{V, `{"lim":10}`, false}, {W, "5", false}, {W, `{"flag":1}`, false}, {W, "[]", true}, {W, `{"lim":"3"}`, true}, {N, `{"flag":null,"lim":2}`, false}}
	case tFilt, tPFilt:
		out = filtC
	case tFelts:
		out = []vclass{{R, `["0x1","0x2"]`, false}, {R, `["0xa"]`, true}, {Z, "[]", false}, {W, `"0x1"`, false}, {W, "{}", false}, {W, "[5]", false},
			{N, "[null]", false}, {N, `["0x1",null]`, false}, {W, `["0x1","zz"]`, false}, {W, `[["0x1"]]`, true}, {D, "[" + pExact + "]", true}}
	case tPages:
		out = []vclass{{R, `[{"chunk_size":1},{"chunk_size":2,"token":"t"}]`, false}, {Z, "[]", false},
			{V, `[{"chunk_size":1},{"chunk_size":0}]`, false}, {V, "[{}]", false}, {N, "[null]", false}, {N, `[{"chunk_size":1},null]`, true},
			{W, "{}", false}, {W, "[5]", false}, {W, `[{"chunk_size":"x"}]`, true}, {V, `[{"chunk_size":101},{"chunk_size":1}]`, true}}
	case tPageMap:
		out = []vclass{{R, `{"a":{"chunk_size":1}}`, false}, {R, `{"b":{"chunk_size":2},"a":{"chunk_size":1,"token":"t"}}`, false}, {Z, "{}", false},
			{V, `{"a":{"chunk_size":1},"b":{"chunk_size":0}}`, false}, {N, `{"a":null}`, false}, {W, "[]", false}, {W, `{"a":5}`, false},
			{W, "5", true}, {V, `{"a":{}}`, true}}
	case tAny:
		out = []vclass{{R, "5", false}, {R, `"s"`, false}, {R, "true", false}, {R, `[1,"a",null]`, false}, {R, `{"k":[1]}`, false}, {Z, "{}", false},
			{Z, "[]", false}, {Z, "0", false}, {Z, `""`, true}, {Z, "false", true}, {R, `{"b":{"a":null},"a":[[]]}`, true}}
	case tBool:
		out = []vclass{{R, "true", false}, {Z, "false", false}, {W, "1", false}, {W, `"true"`, false}, {W, "[]", true}, {W, "{}", true}}
	case tU64:
		out = []vclass{{R, "7", false}, {Z, "0", false}, {R, "18446744073709551615", false}, {D, "-1", false}, {W, "1.5", false}, {W, `"7"`, false},
			{D, "18446744073709551616", false}, {W, "[7]", true}, {W, "true", true}}
	default:
		panic("valueClasses: unknown type")
	}
	out = append([]vclass{}, out...)
	return append(out, vclass{"null", "null", false}, vclass{"absent", "", false})
}

// iForms: how one request entry is embedded in the document sent. %s = the params member text.
type iForm struct {
	name string
	deep bool
	make func(method, params string) string
}

func iEntry(method, params, id string) string {
	s := `{"jsonrpc":"2.0","method":"` + method + `","params":` + params
	if id != "" {
		s += `,"id":` + id
	}
	return s + "}"
}

const iOther = `{"jsonrpc":"2.0","method":"m1","params":[41],"id":8}`

var iForms = []iForm{
	{"request", false, func(m, p string) string { return iEntry(m, p, "7") }},
	{"notification", false, func(m, p string) string { return iEntry(m, p, "") }},
	{"batch-first", false, func(m, p string) string { return "[" + iEntry(m, p, "7") + "," + iOther + "]" }},
	{"batch-last", true, func(m, p string) string { return "[" + iOther + "," + iEntry(m, p, `"s7"`) + "]" }},
	{"batch-twice", false, func(m, p string) string { return "[" + iEntry(m, p, "7") + "," + iEntry(m, p, "9") + "]" }},
	{"batch-alone", true, func(m, p string) string { return "[" + iEntry(m, p, "7") + "]" }},
	{"batch-with-notification", true, func(m, p string) string {
		return "[" + iEntry(m, p, "") + "," + iEntry(m, p, "7") + "," + iOther + "]"
	}},
}

// attribution: the first position whose value the model refuses on its own; else the first it only tolerates.
func attribution(c cfg, m *mdesc, cl []vclass) string {
	firstTol := ""
	for i, p := range m.params {
		name := ptypeName[p.typ] + ":" + cl[i].cls
		if cl[i].text == "" {
			if !p.opt {
				return name
			}
			continue
		}
		v, ok, _, _, _ := parsePrefix([]byte(cl[i].text))
		if !ok {
			panic("value class is not JSON: " + cl[i].text)
		}
		_, accepted, tol := convert(c, v, p.typ)
		if !accepted {
			return name
		}
		if tol && firstTol == "" {
			firstTol = name
		}
	}
	if firstTol != "" {
		return firstTol + "(tolerated)"
	}
	return "all-accepted"
}

func partI(r *ev.Run, b *book, W int) {
	deep := r.Thorough()
	cfgs := []cfg{{validator: true}, {validator: false}}
	pools := map[cfg]chan *runner{}
	for _, c := range cfgs {
		ch := make(chan *runner, W)
		for i := 0; i < W; i++ {
			ch <- newRunnerCfg(c, 4)
		}
		pools[c] = ch
	}
	var forms []iForm
	for _, f := range iForms {
		if !f.deep || deep {
			forms = append(forms, f)
		}
	}

	// per-type class tables for this tier
	classes := map[ptype][]vclass{}
	byType := map[string]int{}
	for t, name := range ptypeName {
		for _, vc := range valueClasses(t) {
			if !vc.deep || deep {
				classes[t] = append(classes[t], vc)
			}
		}
		byType[name] = len(classes[t])
	}

	type task struct {
		c     cfg
		m     *mdesc
		first int // class index of parameter 0
	}
	var tasks []task
	combosByMethod := map[string]int64{}
	for _, c := range cfgs {
		for mi := range methodTable {
			m := &methodTable[mi]
			if len(m.params) == 0 {
				continue
			}
			prod := int64(1)
			for _, p := range m.params {
				prod *= int64(len(classes[p.typ]))
			}
			combosByMethod[m.name] = prod
			for i := range classes[m.params[0].typ] {
				tasks = append(tasks, task{c, m, i})
			}
		}
	}

	var nCombos, nRequests, nExec, nReject, nCall, nEither, nSpellingPairs int64
	ev.Par(len(tasks), W, func(ti int) {
		tk := tasks[ti]
		m, c := tk.m, tk.c
		if r.OutOfTime() {
			r.Incomplete("I: typed-argument grid cut by the time budget")
			return
		}
		x := <-pools[c]
		defer func() { pools[c] <- x }()
		local := map[string]int64{}
		var lExec, lCombos, lReq, lRej, lCall, lEither, lPairs int64
		n := len(m.params)
		idx := make([]int, n)
		idx[0] = tk.first
		cl := make([]vclass, n)
		for {
			for i, p := range m.params {
				cl[i] = classes[p.typ][idx[i]]
			}
			lCombos++
			// spellings
			type spelling struct{ name, params string }
			var sp []spelling
			suffixOnly, seenAbsent := true, false
			var pos []string
			for i := range cl {
				if cl[i].text == "" {
					seenAbsent = true
				} else {
					if seenAbsent {
						suffixOnly = false
					}
					pos = append(pos, cl[i].text)
				}
			}
			if suffixOnly {
				sp = append(sp, spelling{"positional", "[" + strings.Join(pos, ",") + "]"})
			}
			var fw, bw []string
			for i := range cl {
				if cl[i].text != "" {
					fw = append(fw, `"`+m.params[i].name+`":`+cl[i].text)
				}
				if j := n - 1 - i; cl[j].text != "" {
					bw = append(bw, `"`+m.params[j].name+`":`+cl[j].text)
				}
			}
			sp = append(sp, spelling{"named", "{" + strings.Join(fw, ",") + "}"})
			if len(fw) > 1 && deep {
				sp = append(sp, spelling{"named-reversed", "{" + strings.Join(bw, ",") + "}"})
			}
			attr := attribution(c, m, cl)
			prefix := "arg-binding " + attr
			// what the model expects (counters only; the judging is done by judgeCfg on the real text)
			if pv, ok, _, _, _ := parsePrefix([]byte(sp[len(sp)-1].params)); ok {
				alts := bind(c, m, pv)
				switch {
				case len(alts) == 1 && !alts[0].ok:
					lRej++
				case len(alts) == 1:
					lCall++
				default:
					lEither++
				}
			}
			var refCalls []string
			var refOut, refIn string
			for si, s := range sp {
				tail := " " + c.String() + " " + s.name + " " + m.name + " classes=" + classNames(m, cl)
				for _, f := range forms {
					in := []byte(f.make(m.name, s.params))
					lReq++
					for via := viaReader; via <= viaHTTP; via++ {
						out, calls, prob := x.run(via, in)
						how := transportName[via] + " " + f.name + tail
						local[b.checkCfg(c, prefix, "I", how, in, out, calls, prob)]++
						lExec++
						if f.name == "request" && via == viaReader {
							// canonical answer: id + result / error code (the free-text data of an error is not compared)
							canon := ""
							if v, ok, _, _, _ := parsePrefix(out); ok {
								canon, _ = respCanon(v)
							}
							if si == 0 {
								refCalls, refOut, refIn = calls, canon, string(in)
							} else {
								lPairs++
								if !eqStrs(sortedCopy(calls), sortedCopy(refCalls)) || canon != refOut {
									r.Violate("positional-named-differ "+m.name+" "+attr, map[string]any{"part": "I", "config": c.String(),
										"first": refIn, "second": string(in), "calls_first": refCalls, "calls_second": calls,
										"out_first": refOut, "out_second": canon})
								}
							}
						}
					}
				}
			}
			// next combination (position 0 is fixed by the task)
			i := n - 1
			for i >= 1 {
				idx[i]++
				if idx[i] < len(classes[m.params[i].typ]) {
					break
				}
				idx[i] = 0
				i--
			}
			if i < 1 {
				break
			}
		}
		atomic.AddInt64(&nCombos, lCombos)
		atomic.AddInt64(&nRequests, lReq)
		atomic.AddInt64(&nExec, lExec)
		atomic.AddInt64(&nReject, lRej)
		atomic.AddInt64(&nCall, lCall)
		atomic.AddInt64(&nEither, lEither)
		atomic.AddInt64(&nSpellingPairs, lPairs)
		b.merge(local, lExec)
	})

	var typeNames []string
	for n := range byType {
		typeNames = append(typeNames, n)
	}
	sort.Strings(typeNames)
	var bt []string
	for _, n := range typeNames {
		bt = append(bt, fmt.Sprintf("%s=%d", n, byType[n]))
	}
	var mn []string
	for n := range combosByMethod {
		mn = append(mn, n)
	}
	sort.Strings(mn)
	var bm []string
	for _, n := range mn {
		bm = append(bm, fmt.Sprintf("%s=%d", n, combosByMethod[n]))
	}
	r.Set("I_methods", int64(len(combosByMethod)))
	r.Set("I_parameter_types", int64(len(byType)))
	r.Set("I_value_classes_by_type", strings.Join(bt, " "))
	r.Set("I_argument_combinations_by_method", strings.Join(bm, " "))
	r.Set("I_server_configurations", int64(len(cfgs)))
	r.Set("I_document_forms", int64(len(forms)))
	r.Set("I_argument_combinations", nCombos)
	r.Set("I_requests", nRequests)
	r.Set("I_executions", nExec)
	r.Set("I_model_expects_reject", nReject)
	r.Set("I_model_expects_invocation", nCall)
	r.Set("I_model_expects_invocation_or_reject_T9", nEither)
	r.Set("I_spelling_pairs_compared", nSpellingPairs)
}

func classNames(m *mdesc, cl []vclass) string {
	s := make([]string, len(cl))
	for i := range cl {
		s[i] = m.params[i].name + ":" + cl[i].cls
	}
	return strings.Join(s, ",")
}
