package c11

// Typed-argument extension of the method table: parameter TYPE classes that real juno handlers use and that the
// plain table (int, string, *int, []int) does not have. The binder (jsonrpc.Server.buildArguments / parseParam /
// validateParam) treats them differently from plain Go types:
//   - by-value types implementing json.Unmarshaler (felt.Felt itself; hblk, a harness type shaped like rpc BlockID):
//     encoding/json calls UnmarshalJSON for EVERY supplied JSON value, null included, so the type decides what it accepts;
//   - pointers to such types (required, as rpc/v10 declares them, and optional);
//   - by-value / pointer structs with `validate:` tags on a server built WithValidator (go-playground validator
//     configured like rpc/v10/validator.go: WithRequiredStructEnabled + felt custom type func);
//   - a struct with embedded and nested members (shaped like rpc EventArgs: pointer to an unmarshaler, [][]felt.Felt,
//     embedded page request with a validated field);
//   - slices / maps whose elements are unmarshalers or validated structs; `any`; bool; uint64.
// This file is the IMPLEMENTATION side (Go types, handlers that print what they received). The reference model
// of what each type accepts is written separately over the harness' own JSON values in typemodel_test.go.

import (
	"context"
	"encoding/json"
	"errors"
	"fmt"
	"reflect"
	"sort"
	"strconv"
	"strings"

	"github.com/NethermindEth/juno/core/felt"
	"github.com/NethermindEth/juno/jsonrpc"
	"github.com/go-playground/validator/v10"
)

// cfg is the server configuration the oracle has to know about.
type cfg struct {
	validator bool // jsonrpc.Server.WithValidator(...)
}

// prodCfg is how node.go builds every RPC server: with a validator. Part B (request grid over ALL methods) runs on
// it, part I on both configurations. baseCfg (no validator) is what parts A, C-H run on: their requests only name
// methods with plain parameter types, for which a validator has nothing to look at (and walking the 1000-element
// arrays of part G by reflection for every chunking would only cost time).
var (
	prodCfg = cfg{validator: true}
	baseCfg = cfg{validator: false}
)

func (c cfg) String() string {
	if c.validator {
		return "validator=on"
	}
	return "validator=off"
}

// hblk: a by-value union type with its own UnmarshalJSON, shaped like rpc BlockID:
// "latest" | "pending" | {"block_number": <uint64>}; everything else - null included - is refused.
// Its Go zero value cannot be produced by any accepted JSON text, so a fabricated zero value is visible ("blk?").
type hblk struct {
	tag string
	num uint64
}

func (b *hblk) UnmarshalJSON(data []byte) error {
	s := strings.TrimSpace(string(data))
	switch s {
	case `"latest"`, `"pending"`:
		*b = hblk{tag: s[1 : len(s)-1]}
		return nil
	}
	if !strings.HasPrefix(s, "{") {
		return errors.New("hblk: expected a tag or an object")
	}
	var m map[string]json.RawMessage
	if err := json.Unmarshal(data, &m); err != nil {
		return err
	}
	raw, ok := m["block_number"]
	if !ok || len(m) != 1 {
		return errors.New("hblk: expected exactly block_number")
	}
	n, err := strconv.ParseUint(strings.TrimSpace(string(raw)), 10, 64)
	if err != nil {
		return errors.New("hblk: block_number is not an unsigned integer")
	}
	*b = hblk{tag: "number", num: n}
	return nil
}

func (b hblk) show() string {
	switch b.tag {
	case "latest", "pending":
		return b.tag
	case "number":
		return "#" + strconv.FormatUint(b.num, 10)
	}
	return "blk?"
}

// Page: shaped like rpc ResultPageRequest; its zero value violates the validator.
type Page struct {
	ChunkSize int    `json:"chunk_size" validate:"min=1,max=100"`
	Token     string `json:"token"`
}

func (p Page) show() string { return fmt.Sprintf("{cs=%d,tok=%s}", p.ChunkSize, qS(p.Token)) }

// opts: a validated struct whose zero value PASSES the validator.
type opts struct {
	Flag bool `json:"flag"`
	Lim  int  `json:"lim" validate:"max=9"`
}

func (o opts) show() string { return fmt.Sprintf("{flag=%t,lim=%d}", o.Flag, o.Lim) }

// filt: shaped like rpc EventArgs (two embedded structs; pointer to an unmarshaler, nested slices of unmarshalers,
// a validated field that arrives through embedding).
type Sel struct {
	From *hblk         `json:"from"`
	Addr *felt.Felt    `json:"addr"`
	Keys [][]felt.Felt `json:"keys"`
}

type filt struct {
	Sel
	Page
}

func pfeltS(f *felt.Felt) string {
	if f == nil {
		return "null"
	}
	return f.String()
}

func pblkS(b *hblk) string {
	if b == nil {
		return "null"
	}
	return b.show()
}

func feltsS(l []felt.Felt) string {
	if l == nil {
		return "null"
	}
	s := make([]string, len(l))
	for i := range l {
		s[i] = l[i].String()
	}
	return "[" + strings.Join(s, ",") + "]"
}

func (f filt) show() string {
	keys := "null"
	if f.Keys != nil {
		s := make([]string, len(f.Keys))
		for i, k := range f.Keys {
			s[i] = feltsS(k)
		}
		keys = "[" + strings.Join(s, ",") + "]"
	}
	return fmt.Sprintf("{from=%s,addr=%s,keys=%s,cs=%d,tok=%s}", pblkS(f.From), pfeltS(f.Addr), keys, f.ChunkSize, qS(f.Token))
}

func ppageS(p *Page) string {
	if p == nil {
		return "null"
	}
	return p.show()
}

func pfiltS(p *filt) string {
	if p == nil {
		return "null"
	}
	return p.show()
}

func pagesS(l []Page) string {
	if l == nil {
		return "null"
	}
	s := make([]string, len(l))
	for i := range l {
		s[i] = l[i].show()
	}
	return "[" + strings.Join(s, ",") + "]"
}

func pageMapS(m map[string]Page) string {
	if m == nil {
		return "null"
	}
	ks := make([]string, 0, len(m))
	for k := range m {
		ks = append(ks, k)
	}
	sort.Strings(ks)
	s := make([]string, len(ks))
	for i, k := range ks {
		s[i] = k + ":" + m[k].show()
	}
	return "{" + strings.Join(s, ",") + "}"
}

// anyS prints what an `any` parameter holds (after the server's decode / re-encode round trip) as JSON text.
func anyS(v any) string {
	b, err := json.Marshal(v)
	if err != nil {
		return "unmarshalable:" + err.Error()
	}
	return string(b)
}

// newValidator mirrors rpc/v10/validator.go: required-struct mode and felts validated through their string form.
func newValidator() *validator.Validate {
	v := validator.New(validator.WithRequiredStructEnabled())
	v.RegisterCustomTypeFunc(func(field reflect.Value) any {
		switch f := field.Interface().(type) {
		case felt.Felt:
			return f.String()
		case *felt.Felt:
			return f.String()
		}
		panic("not a felt")
	}, felt.Felt{}, &felt.Felt{})
	return v
}

// typedMethods: every handler logs the signature it was called with and returns that signature as its result, so
// that "result belongs to this invocation" is checked without a second serialisation of the argument types.
func typedMethods(h *harness, T func(string) []jsonrpc.Parameter) []jsonrpc.Method {
	ret := func(sig string) (any, *jsonrpc.Error) {
		h.rec(sig)
		return sig, nil
	}
	return []jsonrpc.Method{
		{Name: "xf", Params: T("xf"), Handler: func(hh felt.Felt) (any, *jsonrpc.Error) {
			return ret("xf(" + hh.String() + ")")
		}},
		{Name: "xg", Params: T("xg"), Handler: func(ctx context.Context, id hblk, hh felt.Felt, o *felt.Felt) (any, *jsonrpc.Error) {
			return ret("xg(" + ctxS(ctx) + id.show() + "," + hh.String() + "," + pfeltS(o) + ")")
		}},
		{Name: "xr", Params: T("xr"), Handler: func(id *hblk, hh *felt.Felt) (any, *jsonrpc.Error) {
			return ret("xr(" + pblkS(id) + "," + pfeltS(hh) + ")")
		}},
		{Name: "xp", Params: T("xp"), Handler: func(p Page) (any, *jsonrpc.Error) {
			return ret("xp(" + p.show() + ")")
		}},
		{Name: "xq", Params: T("xq"), Handler: func(z int, p Page, o *Page) (any, *jsonrpc.Error) {
			return ret("xq(" + strconv.Itoa(z) + "," + p.show() + "," + ppageS(o) + ")")
		}},
		{Name: "xn", Params: T("xn"), Handler: func(ctx context.Context, f filt, g *filt) (any, *jsonrpc.Error) {
			return ret("xn(" + ctxS(ctx) + f.show() + "," + pfiltS(g) + ")")
		}},
		{Name: "xs", Params: T("xs"), Handler: func(l []felt.Felt, ps []Page) (any, *jsonrpc.Error) {
			return ret("xs(" + feltsS(l) + "," + pagesS(ps) + ")")
		}},
		{Name: "xm", Params: T("xm"), Handler: func(mp map[string]Page, v any) (any, *jsonrpc.Error) {
			return ret("xm(" + pageMapS(mp) + "," + anyS(v) + ")")
		}},
		{Name: "xo", Params: T("xo"), Handler: func(o opts, b bool, n uint64) (any, *jsonrpc.Error) {
			return ret("xo(" + o.show() + "," + strconv.FormatBool(b) + "," + strconv.FormatUint(n, 10) + ")")
		}},
	}
}
