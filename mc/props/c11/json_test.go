package c11

// A deliberately small, strict RFC 8259 reader written for the oracle so that neither "is the input JSON?"
// nor "is the output a well-formed response?" is decided by encoding/json (which the server itself uses).
// It keeps object members in order and reports duplicate keys.

import (
	"sort"
	"strconv"
	"strings"
	"unicode/utf8"
)

type jv struct {
	k    byte   // 'n' null, 't' true, 'f' false, '#' number, '"' string, '[' array, '{' object
	s    string // number: raw literal; string: decoded text
	arr  []*jv
	keys []string
	vals []*jv
}

type jparser struct {
	b       []byte
	i       int
	lenient bool // a string contained bytes that are not UTF-8 (RFC: invalid; Go: replaced by U+FFFD)
	dup     bool // some object had a repeated key
}

func (p *jparser) ws() {
	for p.i < len(p.b) {
		switch p.b[p.i] {
		case ' ', '\t', '\r', '\n':
			p.i++
		default:
			return
		}
	}
}

func (p *jparser) lit(s string) bool {
	if len(p.b)-p.i >= len(s) && string(p.b[p.i:p.i+len(s)]) == s {
		p.i += len(s)
		return true
	}
	return false
}

func isDigit(c byte) bool { return c >= '0' && c <= '9' }

func (p *jparser) number() (*jv, bool) {
	st := p.i
	if p.i < len(p.b) && p.b[p.i] == '-' {
		p.i++
	}
	if p.i >= len(p.b) {
		return nil, false
	}
	if p.b[p.i] == '0' {
		p.i++
	} else if p.b[p.i] >= '1' && p.b[p.i] <= '9' {
		for p.i < len(p.b) && isDigit(p.b[p.i]) {
			p.i++
		}
	} else {
		return nil, false
	}
	if p.i < len(p.b) && p.b[p.i] == '.' {
		p.i++
		if p.i >= len(p.b) || !isDigit(p.b[p.i]) {
			return nil, false
		}
		for p.i < len(p.b) && isDigit(p.b[p.i]) {
			p.i++
		}
	}
	if p.i < len(p.b) && (p.b[p.i] == 'e' || p.b[p.i] == 'E') {
		p.i++
		if p.i < len(p.b) && (p.b[p.i] == '+' || p.b[p.i] == '-') {
			p.i++
		}
		if p.i >= len(p.b) || !isDigit(p.b[p.i]) {
			return nil, false
		}
		for p.i < len(p.b) && isDigit(p.b[p.i]) {
			p.i++
		}
	}
	return &jv{k: '#', s: string(p.b[st:p.i])}, true
}

func hex4(b []byte) (rune, bool) {
	if len(b) < 4 {
		return 0, false
	}
	var r rune
	for _, c := range b[:4] {
		switch {
		case c >= '0' && c <= '9':
			r = r<<4 | rune(c-'0')
		case c >= 'a' && c <= 'f':
			r = r<<4 | rune(c-'a'+10)
		case c >= 'A' && c <= 'F':
			r = r<<4 | rune(c-'A'+10)
		default:
			return 0, false
		}
	}
	return r, true
}

func (p *jparser) str() (string, bool) {
	if p.i >= len(p.b) || p.b[p.i] != '"' {
		return "", false
	}
	p.i++
	var sb strings.Builder
	for p.i < len(p.b) {
		c := p.b[p.i]
		switch {
		case c == '"':
			p.i++
			return sb.String(), true
		case c < 0x20:
			return "", false
		case c == '\\':
			p.i++
			if p.i >= len(p.b) {
				return "", false
			}
			e := p.b[p.i]
			p.i++
			switch e {
			case '"', '\\', '/':
				sb.WriteByte(e)
			case 'b':
				sb.WriteByte('\b')
			case 'f':
				sb.WriteByte('\f')
			case 'n':
				sb.WriteByte('\n')
			case 'r':
				sb.WriteByte('\r')
			case 't':
				sb.WriteByte('\t')
			case 'u':
				r, ok := hex4(p.b[p.i:])
				if !ok {
					return "", false
				}
				p.i += 4
				if r >= 0xD800 && r < 0xDC00 && p.i+6 <= len(p.b) && p.b[p.i] == '\\' && p.b[p.i+1] == 'u' {
					if r2, ok2 := hex4(p.b[p.i+2:]); ok2 && r2 >= 0xDC00 && r2 < 0xE000 {
						r = 0x10000 + (r-0xD800)<<10 + (r2 - 0xDC00)
						p.i += 6
					}
				}
				if r >= 0xD800 && r < 0xE000 {
					r = utf8.RuneError
				}
				sb.WriteRune(r)
			default:
				return "", false
			}
		case c < 0x80:
			sb.WriteByte(c)
			p.i++
		default:
			r, n := utf8.DecodeRune(p.b[p.i:])
			if r == utf8.RuneError && n <= 1 {
				p.lenient = true
				n = 1
			}
			sb.WriteRune(r)
			p.i += n
		}
	}
	return "", false
}

func (p *jparser) value(depth int) (*jv, bool) {
	if depth > 64 {
		return nil, false
	}
	p.ws()
	if p.i >= len(p.b) {
		return nil, false
	}
	switch c := p.b[p.i]; {
	case c == 'n':
		return &jv{k: 'n'}, p.lit("null")
	case c == 't':
		return &jv{k: 't'}, p.lit("true")
	case c == 'f':
		return &jv{k: 'f'}, p.lit("false")
	case c == '"':
		s, ok := p.str()
		return &jv{k: '"', s: s}, ok
	case c == '-' || isDigit(c):
		return p.number()
	case c == '[':
		p.i++
		v := &jv{k: '['}
		p.ws()
		if p.i < len(p.b) && p.b[p.i] == ']' {
			p.i++
			return v, true
		}
		for {
			e, ok := p.value(depth + 1)
			if !ok {
				return nil, false
			}
			v.arr = append(v.arr, e)
			p.ws()
			if p.i >= len(p.b) {
				return nil, false
			}
			if p.b[p.i] == ',' {
				p.i++
				continue
			}
			if p.b[p.i] == ']' {
				p.i++
				return v, true
			}
			return nil, false
		}
	case c == '{':
		p.i++
		v := &jv{k: '{'}
		p.ws()
		if p.i < len(p.b) && p.b[p.i] == '}' {
			p.i++
			return v, true
		}
		for {
			p.ws()
			k, ok := p.str()
			if !ok {
				return nil, false
			}
			p.ws()
			if p.i >= len(p.b) || p.b[p.i] != ':' {
				return nil, false
			}
			p.i++
			e, ok := p.value(depth + 1)
			if !ok {
				return nil, false
			}
			for _, k0 := range v.keys {
				if k0 == k {
					p.dup = true
				}
			}
			v.keys = append(v.keys, k)
			v.vals = append(v.vals, e)
			p.ws()
			if p.i >= len(p.b) {
				return nil, false
			}
			if p.b[p.i] == ',' {
				p.i++
				continue
			}
			if p.b[p.i] == '}' {
				p.i++
				return v, true
			}
			return nil, false
		}
	}
	return nil, false
}

// parsePrefix reads the first JSON value of b. trailing reports non-blank bytes after it.
func parsePrefix(b []byte) (v *jv, ok, trailing, lenient, dup bool) {
	p := &jparser{b: b}
	v, ok = p.value(0)
	if !ok {
		return nil, false, false, false, false
	}
	p.ws()
	return v, true, p.i < len(b), p.lenient, p.dup
}

func (v *jv) get(key string) *jv {
	for i, k := range v.keys {
		if k == key {
			return v.vals[i]
		}
	}
	return nil
}

func canonStr(sb *strings.Builder, s string) {
	sb.WriteByte('"')
	for _, r := range s {
		switch {
		case r == '"' || r == '\\':
			sb.WriteByte('\\')
			sb.WriteRune(r)
		case r < 0x20:
			sb.WriteString(`\u00`)
			sb.WriteString(strconv.FormatInt(int64(r)>>4, 16))
			sb.WriteString(strconv.FormatInt(int64(r)&15, 16))
		default:
			sb.WriteRune(r)
		}
	}
	sb.WriteByte('"')
}

// canon: one spelling per value (object members sorted; numbers keep their literal).
func (v *jv) canon(sb *strings.Builder) {
	switch v.k {
	case 'n':
		sb.WriteString("null")
	case 't':
		sb.WriteString("true")
	case 'f':
		sb.WriteString("false")
	case '#':
		sb.WriteString(v.s)
	case '"':
		canonStr(sb, v.s)
	case '[':
		sb.WriteByte('[')
		for i, e := range v.arr {
			if i > 0 {
				sb.WriteByte(',')
			}
			e.canon(sb)
		}
		sb.WriteByte(']')
	case '{':
		idx := make([]int, len(v.keys))
		for i := range idx {
			idx[i] = i
		}
		sort.SliceStable(idx, func(a, b int) bool { return v.keys[idx[a]] < v.keys[idx[b]] })
		sb.WriteByte('{')
		for n, i := range idx {
			if n > 0 {
				sb.WriteByte(',')
			}
			canonStr(sb, v.keys[i])
			sb.WriteByte(':')
			v.vals[i].canon(sb)
		}
		sb.WriteByte('}')
	}
}

func (v *jv) canonString() string {
	var sb strings.Builder
	v.canon(&sb)
	return sb.String()
}

func plainInt(s string) bool {
	if s == "" {
		return false
	}
	i := 0
	if s[0] == '-' {
		i = 1
	}
	if i >= len(s) {
		return false
	}
	for ; i < len(s); i++ {
		if !isDigit(s[i]) {
			return false
		}
	}
	return true
}
