package c04

// Part L - fork switches on ONE LONG-LIVED node with READS in the history and RE-DEPLOYS of the same address.
//
// The store/revert search and the fork pairs of checkForks leave two holes:
//   - the only operations of a history are store and revert: nothing is ever READ from the long-lived node between
//     them, so whatever a read leaves behind in the process (node / object / class caches, memoised roots) is never
//     there when the revert runs;
//   - the shared alphabet has exactly one block per deployable address, and fork pairs need y != x: no fork ever
//     deploys an address that the abandoned fork had deployed, neither with the same nor with different contents,
//     and no block of the alphabet touches a freshly deployed contract without changing its storage.
//
// Here, for every fork base S (the states checkForks uses) and every block x of the extended alphabet that DEPLOYS a
// contract:
//   X-branch = [x'] or [x', t]     x' in family(x); t in touches(x') (+ thorough: every block of the shared alphabet)
//   Y        = y'                  y' in family(x)   (y' == x' included: the abandoned block comes back)
//   reads    = a mask over the read positions (after every store of the branch, after the reverts): at a set position
//              the long-lived node is asked the trie-level read surface of its head state (readSweep below), and every
//              answer must equal the answer of a RESTARTED node on a copy of the same store
// family(x)  = {x, x with other storage values + one more slot for the deployed contract, x with the deployed contract's
//               storage dropped (or given, if x gave none)}
// touches(x') = blocks on top of x' that touch the deployed contract: nonce+1 only, class replaced only, zero written to a
//               never-written slot (storage root unchanged), a real storage write
// Oracle at the end: the long-lived node that went S.X.revert^|X|.Y answers readSweep + the whole Reader API exactly
// like a fresh node that stored Y on S.
// Fork bases: the states of depth <= 1 of the search (both tiers). Quick: read masks {none, all}; 2 protocol-version
// configurations; x' in {x, x[other storage]}; touches without the class replacement. Thorough: all read masks (for
// second blocks of the shared alphabet: {none, all}); 4 configurations; x' any member of the family; all touches.

import (
	"fmt"
	"sort"
	"strings"
	"sync"

	"verif/mc/chain"
	"verif/mc/ev"
	"verif/mc/hist"

	"github.com/NethermindEth/juno/blockchain"
	"github.com/NethermindEth/juno/core"
	"github.com/NethermindEth/juno/core/felt"
	"github.com/NethermindEth/juno/core/trie"
	"github.com/NethermindEth/juno/core/trie2"
	"github.com/NethermindEth/juno/db/memory"
)

var (
	sweepAddrs = []felt.Felt{chain.AddrA, chain.AddrB, chain.AddrC, chain.Sys1, chain.Sys2, chain.FV(0xDEAD)}
	sweepSlots = []felt.Felt{chain.Slot0, chain.Slot1, chain.FV(0x777), chain.FV(0x999)}
)

func sweepClasses() []felt.Felt {
	_, h0 := chain.Cairo0(0)
	_, h1, _, _ := chain.Sierra(1)
	_, h2, _, _ := chain.Sierra(2)
	return []felt.Felt{h0, h1, h2, chain.FV(0xBADC1A55)}
}

// proofOf: the hashes of the proof nodes of key in tr (what starknet_getStorageProof serves), for both trie types.
func proofOf(tr core.TrieReader, key *felt.Felt) (string, error) {
	switch t := tr.(type) {
	case *trie.Trie:
		set := trie.NewProofNodeSet()
		if err := t.Prove(key, set); err != nil {
			return "", err
		}
		return feltList(set.Keys()), nil
	case *trie2.Trie:
		set := trie2.NewProofNodeSet()
		if err := t.Prove(key, set); err != nil {
			return "", err
		}
		return feltList(set.Keys()), nil
	}
	return "", fmt.Errorf("unknown trie type %T", tr)
}

func feltList(fs []felt.Felt) string {
	var b strings.Builder
	for i := range fs {
		b.WriteString(fs[i].String())
		b.WriteByte(' ')
	}
	return b.String()
}

// readSweep asks the head state of bc for its tries (class trie, contract trie, the storage trie of every address of
// the universe): root hash, leaves, membership proofs; plus the plain reads of the same keys. It is both an OPERATION
// of a history (it is what the storage-proof / storage RPCs do to a node) and an OBSERVATION (question -> answer).
func readSweep(bc *blockchain.Blockchain) map[string]string {
	out := map[string]string{}
	put := func(q string, v any, err error) {
		if err != nil {
			out[q] = "ERR"
			return
		}
		switch x := v.(type) {
		case felt.Felt:
			out[q] = x.String()
		case string:
			out[q] = x
		default:
			out[q] = chain.Dump(v)
		}
	}
	sr, closer, err := bc.HeadState()
	if err != nil {
		out["HeadState"] = "ERR"
		return out
	}
	defer closer()
	trieQ := func(name string, tr core.TrieReader, err error, keys []felt.Felt) {
		if err != nil {
			out[name] = "ERR"
			return
		}
		panicked, msg := ev.Guard(func() {
			h, err := tr.Hash()
			put(name+".Hash", h, err)
			for i := range keys {
				k := keys[i]
				v, err := tr.Get(&k)
				put(fmt.Sprintf("%s.Get(%s)", name, k.ShortString()), v, err)
				p, err := proofOf(tr, &k)
				put(fmt.Sprintf("%s.Prove(%s)", name, k.ShortString()), p, err)
			}
		})
		if panicked {
			out[name+".PANIC"] = msg
		}
	}
	ct, err := sr.ClassTrie()
	trieQ("HeadState.ClassTrie", ct, err, sweepClasses())
	at, err := sr.ContractTrie()
	trieQ("HeadState.ContractTrie", at, err, sweepAddrs)
	for i := range sweepAddrs {
		a := sweepAddrs[i]
		st, err := sr.ContractStorageTrie(&a)
		trieQ(fmt.Sprintf("HeadState.ContractStorageTrie(%s)", a.ShortString()), st, err, sweepSlots)
		ch, err := sr.ContractClassHash(&a)
		put(fmt.Sprintf("HeadState.ClassHash(%s)", a.ShortString()), ch, err)
		nc, err := sr.ContractNonce(&a)
		put(fmt.Sprintf("HeadState.Nonce(%s)", a.ShortString()), nc, err)
		for j := range sweepSlots {
			s := sweepSlots[j]
			v, err := sr.ContractStorage(&a, &s)
			if err != nil {
				v, err = felt.Zero, nil // nonexistent contract: error and zero are the same observation
			}
			put(fmt.Sprintf("HeadState.Storage(%s,%s)", a.ShortString(), s.ShortString()), v, err)
		}
	}
	return out
}

func diffSweep(a, b map[string]string) []string {
	var out []string
	for q, v := range a {
		if b[q] != v {
			out = append(out, q)
		}
	}
	for q := range b {
		if _, ok := a[q]; !ok {
			out = append(out, q)
		}
	}
	sort.Strings(out)
	return out
}

// questionOf strips the arguments: "HeadState.ContractStorageTrie(0xc).Hash" -> "HeadState.ContractStorageTrie.Hash".
func questionOf(q string) string {
	var b strings.Builder
	depth := 0
	for _, c := range q {
		switch {
		case c == '(':
			depth++
		case c == ')':
			depth--
		case depth == 0:
			b.WriteRune(c)
		}
	}
	return b.String()
}

func cloneDiff(d *core.StateDiff) core.StateDiff {
	o := core.EmptyStateDiff()
	for a, m := range d.StorageDiffs {
		mm := map[felt.Felt]*felt.Felt{}
		for k, v := range m {
			mm[k] = new(felt.Felt).Set(v)
		}
		o.StorageDiffs[a] = mm
	}
	for a, v := range d.Nonces {
		o.Nonces[a] = new(felt.Felt).Set(v)
	}
	for a, v := range d.DeployedContracts {
		o.DeployedContracts[a] = new(felt.Felt).Set(v)
	}
	for a, v := range d.ReplacedClasses {
		o.ReplacedClasses[a] = new(felt.Felt).Set(v)
	}
	for a, v := range d.DeclaredV1Classes {
		o.DeclaredV1Classes[a] = new(felt.Felt).Set(v)
	}
	for _, v := range d.DeclaredV0Classes {
		o.DeclaredV0Classes = append(o.DeclaredV0Classes, new(felt.Felt).Set(v))
	}
	if d.MigratedClasses != nil {
		o.MigratedClasses = map[felt.SierraClassHash]felt.CasmClassHash{}
		for k, v := range d.MigratedClasses {
			o.MigratedClasses[k] = v
		}
	}
	return o
}

func deployedBy(nm chain.Named) []felt.Felt {
	var out []felt.Felt
	if nm.Spec.Diff == nil {
		return nil
	}
	for a := range nm.Spec.Diff.DeployedContracts {
		out = append(out, a)
	}
	sort.Slice(out, func(i, j int) bool { return out[i].Cmp(&out[j]) < 0 })
	return out
}

// family: the block itself and its re-deploy variants (same header fields, transactions and declarations; only the
// storage the deployed contract starts with differs).
func family(nm chain.Named) []chain.Named {
	addrs := deployedBy(nm)
	other := cloneDiff(nm.Spec.Diff)
	toggled := cloneDiff(nm.Spec.Diff)
	for _, a := range addrs {
		m := map[felt.Felt]*felt.Felt{}
		for k, v := range nm.Spec.Diff.StorageDiffs[a] {
			m[k] = new(felt.Felt).Add(v, chain.F(4))
		}
		m[chain.FV(0x999)] = chain.F(6)
		other.StorageDiffs[a] = m
		if len(nm.Spec.Diff.StorageDiffs[a]) > 0 {
			delete(toggled.StorageDiffs, a)
		} else {
			toggled.StorageDiffs[a] = map[felt.Felt]*felt.Felt{chain.Slot1: chain.F(5)}
		}
	}
	mk := func(tag string, d core.StateDiff) chain.Named {
		sp := nm.Spec
		sp.Diff = &d
		return chain.Named{Name: nm.Name + tag, Spec: sp}
	}
	return []chain.Named{nm, mk("[other storage]", other), mk("[storage toggled]", toggled)}
}

// touches: blocks on top of e (which deployed addrs) that touch the deployed contracts.
func touches(e *chain.Entry, addrs []felt.Felt, number uint64, version string, withReplace bool) []chain.Named {
	base := chain.Alphabet(e.State, number, version)
	var out []chain.Named
	add := func(name string, d core.StateDiff) {
		b := base[(len(out)+1)%len(base)].Spec
		out = append(out, chain.Named{Name: "touch:" + name, Spec: chain.BlockSpec{Version: version, Timestamp: 1000 + number*10, Txs: b.Txs, Diff: &d, Blob: b.Blob}})
	}
	for i := range addrs {
		a := addrs[i]
		c, ok := e.State.Contracts[a]
		if !ok {
			continue
		}
		n := a.ShortString()
		d := core.EmptyStateDiff()
		d.Nonces[a] = new(felt.Felt).Add(&c.Nonce, chain.F(1))
		add(n+".nonce++", d)
		for _, h := range sweepClasses() {
			if !withReplace {
				break // (quick: the nonce is the contract-record-only change)
			}
			if _, declared := e.State.Classes[h]; declared && !h.Equal(&c.Class) {
				h := h
				d := core.EmptyStateDiff()
				d.ReplacedClasses[a] = &h
				add(n+".replace", d)
				break
			}
		}
		d2 := core.EmptyStateDiff()
		d2.StorageDiffs[a] = map[felt.Felt]*felt.Felt{chain.FV(0x777): chain.F(0)}
		add(n+".never-written-slot=0", d2)
		d3 := core.EmptyStateDiff()
		d3.StorageDiffs[a] = map[felt.Felt]*felt.Felt{chain.Slot1: chain.F(8)}
		add(n+".s1=8", d3)
	}
	return out
}

type llJob struct {
	x, y   chain.Named
	br     []*chain.Entry
	brName string
	tw     *llTwin
	mask   int // bit i: read sweep at position i (0..len(br)-1: after the i-th store of the branch; len(br): after the reverts)
}

// llTwin: S.y on a fresh node, and what it answers (computed once per y).
type llTwin struct {
	e     *chain.Entry
	key   string
	sweep map[string]string
	obs   *chain.Obs
}

// restartedSweeps memoises readSweep of a FRESH node by (backend, store image): what a restarted node answers is a
// function of the bytes of its store.
var restartedSweeps sync.Map

func restartedSweep(d *memory.Database, newState bool) map[string]string {
	k := hist.Backend(newState) + chain.ImageHash(d)
	if v, ok := restartedSweeps.Load(k); ok {
		return v.(map[string]string)
	}
	sw := readSweep(chain.NewNode(d.Copy(), newState))
	restartedSweeps.Store(k, sw)
	return sw
}

// checkLongLivedForks: part L (see the head of the file).
func checkLongLivedForks(r *ev.Run, s *hist.Node, at func(uint64) string, newState bool, label string) {
	var number uint64
	var pst *chain.State
	if h := s.Head(); h != nil {
		number, pst = h.Block.Number+1, h.State
	}
	var jobs []llJob
	for _, x := range extAlphabet(pst, number, at(number)) {
		addrs := deployedBy(x)
		if len(addrs) == 0 {
			continue
		}
		fam := family(x)
		ents := make([]*chain.Entry, len(fam))
		for i, f := range fam {
			e, err := chain.Build(s.Head(), f.Spec)
			if err != nil {
				r.Infra("part L: re-deploy variant %s: %v", f.Name, err)
			}
			ents[i] = e
		}
		type branch struct {
			xi     int
			name   string
			es     []*chain.Entry
			shared bool // the second block is a block of the shared alphabet (thorough)
		}
		var brs []branch
		// one probe for the whole family: every block / tx hash any history of this family ever stored
		probe := probeOf(s, ents...)
		for xi, xf := range fam {
			if r.Quick() && xi == 2 {
				continue // quick: the abandoned fork deploys x or x[other storage]; the new fork any of the three
			}
			brs = append(brs, branch{xi, "", []*chain.Entry{ents[xi]}, false})
			tails := touches(ents[xi], addrs, number+1, at(number+1), !r.Quick())
			nTouch := len(tails)
			if !r.Quick() {
				tails = append(tails, chain.Alphabet(ents[xi].State, number+1, at(number+1))...)
			}
			for ti, t := range tails {
				e2, err := chain.Build(ents[xi], t.Spec)
				if err != nil {
					r.Infra("part L: second block %s after %s: %v", t.Name, xf.Name, err)
				}
				probe.AddEntry(e2)
				brs = append(brs, branch{xi, t.Name, []*chain.Entry{ents[xi], e2}, ti >= nTouch})
			}
		}
		// the twins: S.y' on a fresh node
		twins := make([]*llTwin, len(fam))
		for yi := range fam {
			twinDB := s.DB.Copy()
			if err := chain.StoreSync(chain.NewNode(twinDB, newState), ents[yi].Fresh(s.Head())); err != nil {
				r.Outcome("L:y-not-storable") // (a valid block refused by a fresh node: the search reports it)
				continue
			}
			twin := chain.NewNode(twinDB, newState)
			twins[yi] = &llTwin{ents[yi], chain.ImageHash(twinDB), readSweep(twin), chain.Observe(twin, probe, false)}
		}
		if twins[0] == nil {
			continue
		}
		r.Add("longlived_deploying_blocks", 1)
		for _, br := range brs {
			if twins[br.xi] == nil {
				continue
			}
			for yi, yf := range fam {
				if twins[yi] == nil {
					continue
				}
				positions := len(br.es) + 1
				masks := []int{0, 1<<positions - 1}
				if !r.Quick() && !br.shared {
					masks = masks[:0]
					for m := 0; m < 1<<positions; m++ {
						masks = append(masks, m)
					}
				}
				for _, m := range masks {
					jobs = append(jobs, llJob{fam[br.xi], yf, br.es, br.name, twins[yi], m})
				}
			}
		}
		llRun(r, s, jobs, probe, newState, label)
		jobs = jobs[:0]
	}
}

func llRun(r *ev.Run, s *hist.Node, jobs []llJob, probe *chain.Probe, newState bool, label string) {
	ev.Par(len(jobs), 14, func(ji int) {
		if r.OutOfTime() {
			r.Incomplete("part L (long-lived fork histories with reads and re-deploys) cut by the time budget")
			return
		}
		j := jobs[ji]
		lab := label + " [long-lived node, reads in the history, re-deploy]"
		depth := len(j.br)
		// (thorough: the second block may be the one that writes every slot of 0x1 back to zero, see node.Exotic)
		exotic := s.Exotic()
		if exotic == "" && strings.HasSuffix(j.brName, "sys1.clear") {
			exotic = " [history clears system contract 0x1]"
		}
		detail := func(extra map[string]any) map[string]any {
			m := map[string]any{"base": s.PathString(), "x": j.x.Name, "x2": j.brName, "y": j.y.Name, "read_mask": fmt.Sprintf("%b", j.mask),
				"history": "S ; store x ; [read] ; (store x2 ; [read]) ; revert^|X| ; [read] ; store y - all on one Blockchain instance"}
			for k, v := range extra {
				m[k] = v
			}
			return m
		}
		r.Add("evaluations", 1)
		r.Add("longlived_fork_histories", 1)
		if j.mask != 0 {
			r.Add("longlived_fork_histories_with_reads", 1)
		}
		if j.y.Name == j.x.Name {
			r.Add("longlived_fork_histories_same_block_again", 1)
		}
		if depth > 1 {
			r.Add("longlived_fork_histories_deployed_contract_touched", 1)
		}
		d := s.DB.Copy()
		bc := chain.NewNode(d, newState)
		// read: the long-lived node must answer like a restarted node on the same bytes
		read := func(pos int, after string) bool {
			if j.mask&(1<<pos) == 0 {
				return true
			}
			r.Add("longlived_read_sweeps", 1)
			got := readSweep(bc)
			want := restartedSweep(d, newState)
			if diff := diffSweep(got, want); len(diff) > 0 {
				r.Violate(fmt.Sprintf("long-lived-node-differs-from-restarted-node %s question=%s %s", lab, questionOf(diff[0]), after+exotic),
					detail(map[string]any{"position": pos, "differing": diff, "long_lived": got[diff[0]], "restarted": want[diff[0]]}))
				return false
			}
			return true
		}
		parent := s.Head()
		for i, e := range j.br {
			if err := chain.StoreSync(bc, e.Fresh(parent)); err != nil {
				// a restarted node must refuse it too
				if err2 := chain.StoreSync(chain.NewNode(d.Copy(), newState), e.Fresh(parent)); err2 == nil {
					r.Violate("store-fails-on-long-lived-node "+lab+exotic, detail(map[string]any{"block": i, "err": err.Error()}))
				} else {
					r.Outcome("L:x2-not-storable")
				}
				return
			}
			parent = e
			if !read(i, "after-store") {
				return
			}
		}
		for range j.br {
			if err := bc.RevertHead(); err != nil {
				if err2 := chain.NewNode(d.Copy(), newState).RevertHead(); err2 == nil {
					r.Violate("revert-head-fails "+lab+exotic, detail(map[string]any{"err": err.Error()}))
				} else {
					r.Outcome("L:revert-fails") // (reported by the search, which owns that transition)
				}
				return
			}
		}
		if !read(depth, "after-revert") {
			return
		}
		if err := chain.StoreSync(bc, j.tw.e.Fresh(s.Head())); err != nil {
			r.Violate(fmt.Sprintf("fork-switch-fails %s depth=%d%s", lab, depth, exotic), detail(map[string]any{"err": err.Error()}))
			return
		}
		if diff := diffSweep(readSweep(bc), j.tw.sweep); len(diff) > 0 {
			r.Violate(fmt.Sprintf("fork-does-not-converge %s depth=%d question=%s%s", lab, depth, questionOf(diff[0]), exotic), detail(map[string]any{"differing": diff}))
			return
		}
		if diff := chain.DiffObs(chain.Observe(bc, probe, false), j.tw.obs); len(diff) > 0 {
			r.Violate(fmt.Sprintf("fork-does-not-converge %s depth=%d question=%s%s", lab, depth, strings.SplitN(diff[0], "(", 2)[0], exotic), detail(map[string]any{"differing": diff}))
			return
		}
		if chain.ImageHash(d) == j.tw.key {
			r.Outcome("L:fork-converges-image-identical")
		} else {
			r.Outcome("L:fork-converges-internal-residue-only")
		}
	})
}
