package c04

// C04-local extension of the block alphabet: blocks whose state diff carries NO-OP ENTRIES - an entry that names
// a value and sets it to what it already is. The shared alphabet (mc/chain) has such entries for storage only
// (zero to a never-written slot, rewrite of the same value); here every other section of the diff that admits one
// gets one:
//   - nonces:           Nonces[X] = current nonce of X; Nonces[X] = 0 for an X deployed by the same block
//   - replaced classes: ReplacedClasses[X] = current class of X (Cairo-0 and Sierra contracts)
//   - declared v0:      a Cairo-0 class that is declared already is listed again (no definition delivered: the
//                       synchroniser only fetches classes the state does not know)
//   - a no-op nonce + class entry next to a REAL storage write of the same contract
// (a deployed contract cannot be deployed again, a Sierra class cannot be declared or migrated twice: those
// sections have no legal no-op entry). The state commitment is unchanged by a no-op entry, the block hash is not
// (the state-diff commitment covers the entry), so these are valid blocks that differ from "empty". They matter for
// revert because the reverse diff is rebuilt from per-block history records, and "what did this block change" is
// answered differently by code that compares values and code that lists entries.

import (
	"strings"

	"verif/mc/chain"

	"github.com/NethermindEth/juno/core"
	"github.com/NethermindEth/juno/core/felt"
)

const noopTag = "noop:"

func isNoop(name string) bool { return strings.HasPrefix(name, noopTag) }

func hasNoop(path []string) bool {
	for _, p := range path {
		if strings.HasPrefix(p, "store:"+noopTag) {
			return true
		}
	}
	return false
}

// chainHasNoop: the chain currently stored (stores minus reverts along the path) contains a no-op-entry block.
func chainHasNoop(path []string) bool {
	var stack []bool
	for _, p := range path {
		if p == "revert" {
			if len(stack) > 0 {
				stack = stack[:len(stack)-1]
			}
			continue
		}
		stack = append(stack, strings.HasPrefix(p, "store:"+noopTag))
	}
	for _, b := range stack {
		if b {
			return true
		}
	}
	return false
}

// noopBlocks returns the no-op-entry blocks valid on top of st. Transactions / DA mode are borrowed from the
// entries of the shared alphabet (base) so that the blocks also share transaction hashes with sibling blocks.
func noopBlocks(st *chain.State, number uint64, version string, base []chain.Named) []chain.Named {
	if st == nil {
		st = chain.NewState()
	}
	var out []chain.Named
	add := func(name string, d core.StateDiff, classes map[felt.Felt]core.ClassDefinition) {
		b := base[(len(out)+1)%len(base)].Spec
		out = append(out, chain.Named{Name: noopTag + name, Spec: chain.BlockSpec{Version: version, Timestamp: 1000 + number*10,
			Txs: b.Txs, Diff: &d, Classes: classes, Blob: b.Blob}})
	}
	c0, h0 := chain.Cairo0(0)
	_, hasC0 := st.Classes[h0]
	a, hasA := st.Contracts[chain.AddrA]
	c, hasC := st.Contracts[chain.AddrC]
	if !hasA {
		// a freshly deployed contract whose nonce is listed with its initial value
		d := core.EmptyStateDiff()
		cl := map[felt.Felt]core.ClassDefinition{}
		if !hasC0 {
			d.DeclaredV0Classes = []*felt.Felt{&h0}
			cl[h0] = c0
		}
		d.DeployedContracts[chain.AddrA] = &h0
		d.Nonces[chain.AddrA] = chain.F(0)
		add("deployA,nonce=0", d, cl)
	}
	if hasA {
		nonce, class := a.Nonce, a.Class
		d := core.EmptyStateDiff()
		d.Nonces[chain.AddrA] = &nonce
		add("A.nonce=same", d, nil)
		d2 := core.EmptyStateDiff()
		d2.ReplacedClasses[chain.AddrA] = &class
		add("A.replace->same", d2, nil)
		// no-op nonce and class entries next to a real change of the same contract
		d3 := core.EmptyStateDiff()
		n3, c3 := a.Nonce, a.Class
		d3.Nonces[chain.AddrA] = &n3
		d3.ReplacedClasses[chain.AddrA] = &c3
		d3.StorageDiffs[chain.AddrA] = map[felt.Felt]*felt.Felt{chain.Slot1: chain.F(7)}
		add("A.nonce=same,replace->same,s1=7", d3, nil)
	}
	if hasC {
		// the same for a contract of a Sierra class
		d := core.EmptyStateDiff()
		n, cl := c.Nonce, c.Class
		d.Nonces[chain.AddrC] = &n
		d.ReplacedClasses[chain.AddrC] = &cl
		add("C.nonce=same,replace->same", d, nil)
	}
	if hasC0 {
		d := core.EmptyStateDiff()
		d.DeclaredV0Classes = []*felt.Felt{&h0}
		add("redeclareC0", d, nil)
	}
	return out
}

// extAlphabet = shared alphabet followed by the no-op-entry blocks.
func extAlphabet(st *chain.State, number uint64, version string) []chain.Named {
	base := chain.Alphabet(st, number, version)
	return append(base, noopBlocks(st, number, version, base)...)
}
