package c04

// Part F - the SEQUENCER write path across PROTOCOL-VERSION TRANSITIONS.
//
// Every other part of C04 writes blocks through the sync path (SanityCheckNewHeight + Store) with roots computed by
// the dictionary reference, and with version configurations in which consecutive blocks carry (almost) the same
// version. A node that PRODUCES blocks writes them through Blockchain.StoreGenesis / Blockchain.Finalise instead:
// juno computes old root, new root and block hash itself, with the state-commitment formula of the block's OWN
// protocol version. The formula depends on the version exactly where the class trie is empty (before 0.14.0 the
// commitment of such a state is the bare contract root, from 0.14.0 on it is always the Poseidon triple), so for a
// chain written this way "old root of block n" and "state root recorded by block n-1" are different numbers for the
// same state whenever the version crosses 0.14.0 on a state without a Sierra class - and the genesis written by
// StoreGenesis carries the empty version string. "RevertHead succeeds for every block the node was able to store" and
// fork convergence are stated for all chains, so they are checked here for chains written through Finalise:
//
//	space: backend x genesis kind (no declared class | declared Cairo-0 class | declared Sierra class; the first two
//	       leave the class trie empty) x version of every block from a small list including "" x block kinds
//	       {empty, touch A (two variants), deploy B, declare a Sierra class}, chains of genesis + <= depth blocks;
//	       the genesis is written by StoreGenesis when its version is "" and by Finalise(block 0) otherwise.
//	for EVERY transition S -> S.x (x = kind x version) that Finalise accepts:
//	  (b) a long-lived node on the bytes of S finalises x and reverts: must succeed, image must equal image(S)
//	      (else the full Reader sweep against the never-stored twin);
//	  (c) fork switches (states of depth <= forkDepth): after (b) the same node finalises every other y
//	      (kind x version), must equal the node that finalised y directly on S, reverts, must equal S again;
//	  (a) thorough tier, blocks on top of a genesis: a fresh node on the bytes of S.x reverts, same demands.
//
// Opening a node is the expensive step here (~10 ms of mostly allocation), so nodes are long-lived: one per state
// for the direct children, one per state for (b)+(c). A node that produced a violation is replaced.

import (
	"fmt"

	"verif/mc/chain"
	"verif/mc/ev"
	"verif/mc/hist"

	"github.com/NethermindEth/juno/blockchain"
	"github.com/NethermindEth/juno/core"
	"github.com/NethermindEth/juno/core/felt"
	"github.com/NethermindEth/juno/db/memory"
)

// fModel: what the alphabet needs to know about the state.
type fModel struct {
	hasB, hasS2 bool
	sierraA     bool // genesis declared Sierra class 1 (B is deployed with it then)
	nonceA      uint64
}

type fOp struct {
	kind, version string
}

func (o fOp) String() string {
	v := o.version
	if v == "" {
		v = `""`
	}
	return o.kind + "@" + v
}

// fState: a node state reached through Finalise only.
type fState struct {
	db     *memory.Database
	key    string
	m      fModel
	ops    []fOp // genesis first
	hashes []felt.Felt
	number uint64 // number of the next block
}

func (s *fState) path() string {
	out := ""
	for i, o := range s.ops {
		if i > 0 {
			out += " . "
		}
		out += o.String()
	}
	return out
}

func (s *fState) headVersion() string { return s.ops[len(s.ops)-1].version }

func verTag(v string) string {
	if v == "" {
		return `""`
	}
	return v
}

// classTrieTag: whether the class trie of the state is empty (no Sierra class declared).
func (s *fState) classTrieTag() string {
	if s.m.sierraA || s.m.hasS2 {
		return "class-trie=nonempty"
	}
	return "class-trie=empty"
}

var fGenesisKinds = []string{"genesis:no-class", "genesis:cairo0", "genesis:sierra"}
var fBlockKinds = []string{"empty", "touchA.v1", "touchA.v2", "deployB", "declareS2"}

func casmFor(version string, v1, v2 felt.Felt) *felt.Felt {
	ver, _ := core.ParseBlockVersion(version)
	if ver.LessThan(core.Ver0_14_1) {
		return &v1
	}
	return &v2
}

func fDiff() *core.StateDiff {
	d := core.EmptyStateDiff()
	return &d
}

// fBuild returns fresh (never shared) block contents of the given kind on top of model m, or ok=false.
func fBuild(m fModel, number uint64, op fOp) (diff *core.StateDiff, classes map[felt.Felt]core.ClassDefinition, nm fModel, ok bool) {
	d := fDiff()
	classes = map[felt.Felt]core.ClassDefinition{}
	nm = m
	s1, sh1, s1v1, s1v2 := chain.Sierra(1)
	s2, sh2, s2v1, s2v2 := chain.Sierra(2)
	c0, h0 := chain.Cairo0(0)
	switch op.kind {
	case "genesis:no-class":
		d.DeployedContracts[chain.AddrA] = &h0 // the class is not declared (as in juno's own fixtures)
		d.StorageDiffs[chain.AddrA] = map[felt.Felt]*felt.Felt{chain.Slot0: chain.F(0x11)}
	case "genesis:cairo0":
		d.DeclaredV0Classes = []*felt.Felt{&h0}
		classes[h0] = c0
		d.DeployedContracts[chain.AddrA] = &h0
		d.StorageDiffs[chain.AddrA] = map[felt.Felt]*felt.Felt{chain.Slot0: chain.F(0x11)}
	case "genesis:sierra":
		d.DeclaredV1Classes[sh1] = casmFor(op.version, s1v1, s1v2)
		classes[sh1] = s1
		d.DeployedContracts[chain.AddrA] = &sh1
		d.StorageDiffs[chain.AddrA] = map[felt.Felt]*felt.Felt{chain.Slot0: chain.F(0x11)}
		nm.sierraA = true
	case "empty":
	case "touchA.v1", "touchA.v2":
		v := uint64(0x100) + number*16 + 1
		if op.kind == "touchA.v2" {
			v++
		}
		d.StorageDiffs[chain.AddrA] = map[felt.Felt]*felt.Felt{chain.Slot0: chain.F(v)}
		nm.nonceA = m.nonceA + 1
		d.Nonces[chain.AddrA] = chain.F(nm.nonceA)
	case "deployB":
		if m.hasB {
			return nil, nil, m, false
		}
		cls := h0
		if m.sierraA {
			cls = sh1
		}
		d.DeployedContracts[chain.AddrB] = &cls
		d.StorageDiffs[chain.AddrB] = map[felt.Felt]*felt.Felt{chain.Slot1: chain.F(7)}
		nm.hasB = true
	case "declareS2":
		if m.hasS2 {
			return nil, nil, m, false
		}
		d.DeclaredV1Classes[sh2] = casmFor(op.version, s2v1, s2v2)
		classes[sh2] = s2
		nm.hasS2 = true
	default:
		panic(op.kind)
	}
	return d, classes, nm, true
}

// fFinalise writes the block through the sequencer path: StoreGenesis for a genesis with the empty version string,
// Finalise otherwise, with what the builder passes (parent hash, parent state root as old root, no roots / hash).
func fFinalise(bc *blockchain.Blockchain, number uint64, op fOp, diff *core.StateDiff, classes map[felt.Felt]core.ClassDefinition) (*felt.Felt, error) {
	if number == 0 && op.version == "" {
		if err := bc.StoreGenesis(diff, classes); err != nil {
			return nil, err
		}
		h, err := bc.HeadsHeader()
		if err != nil {
			return nil, err
		}
		return h.Hash, nil
	}
	parentHash, oldRoot := &felt.Zero, &felt.Zero
	if number > 0 {
		head, err := bc.HeadsHeader()
		if err != nil {
			return nil, err
		}
		parentHash, oldRoot = head.Hash, head.GlobalStateRoot
	}
	rcs := make([]*core.TransactionReceipt, 0)
	b := &core.Block{
		Header: &core.Header{
			ParentHash: parentHash, Number: number, SequencerAddress: &chain.Seq, Timestamp: 1000 + number,
			ProtocolVersion: op.version, EventsBloom: core.EventsBloom(rcs),
			L1GasPriceETH: chain.F(0x6A5), L1GasPriceSTRK: chain.F(0x6A6), L1DAMode: core.Calldata,
			L1DataGasPrice: &core.GasPrice{PriceInWei: chain.F(0xDA1), PriceInFri: chain.F(0xDA2)},
			L2GasPrice:     &core.GasPrice{PriceInWei: chain.F(0x2A1), PriceInFri: chain.F(0x2A2)},
		},
		Transactions: make([]core.Transaction, 0), Receipts: rcs,
	}
	su := &core.StateUpdate{OldRoot: oldRoot, StateDiff: diff}
	if err := bc.Finalise(b, su, classes, nil); err != nil {
		return nil, err
	}
	return b.Hash, nil
}

// fStep: S.x on a copy of S's store. Returns the long-lived node that finalised x.
func fStep(s *fState, op fOp, newState bool) (*fState, *blockchain.Blockchain, error, bool) {
	var m fModel
	var number uint64
	d := memory.New()
	if s != nil {
		m, number, d = s.m, s.number, s.db.Copy()
	}
	diff, classes, nm, ok := fBuild(m, number, op)
	if !ok {
		return nil, nil, nil, false
	}
	bc := chain.NewNode(d, newState)
	h, err := fFinalise(bc, number, op, diff, classes)
	if err != nil {
		return nil, nil, err, true
	}
	c := &fState{db: d, m: nm, number: number + 1}
	if s != nil {
		c.ops = append(append([]fOp{}, s.ops...), op)
		c.hashes = append(append([]felt.Felt{}, s.hashes...), *h)
	} else {
		c.ops, c.hashes = []fOp{op}, []felt.Felt{*h}
	}
	return c, bc, nil, true
}

func fProbe(s *fState, extra ...felt.Felt) *chain.Probe {
	p := &chain.Probe{MaxNumber: s.number + 1}
	p.BlockHashes = append(append(p.BlockHashes, s.hashes...), extra...)
	return p
}

// checkFinalisePath runs part F for one backend.
func checkFinalisePath(r *ev.Run, newState bool, versions []string, depth, forkDepth int) {
	be := hist.Backend(newState)
	var level []*fState
	for _, g := range fGenesisKinds {
		for _, v := range versions {
			s, _, err, _ := fStep(nil, fOp{g, v}, newState)
			if err != nil {
				r.Outcome("finalise-path: genesis not storable: " + g + "@" + verTag(v))
				continue
			}
			s.key = chain.ImageHash(s.db)
			r.Add("finalise_path_states", 1)
			level = append(level, s)
		}
	}
	for dpt := 0; dpt < depth && len(level) > 0; dpt++ {
		next := make([][]*fState, len(level))
		full, wantKids := dpt <= forkDepth, dpt+1 < depth
		ev.Par(len(level), 14, func(i int) {
			next[i] = fExpand(r, level[i], newState, be, versions, full, wantKids, !r.Quick() && dpt == 0)
		})
		level = level[:0]
		for _, n := range next {
			level = append(level, n...)
		}
	}
}

// fExpand: every transition S -> S.x with its checks; returns the children (when wanted).
//
//	full = true  (states of depth <= fForkDepth): S.x is produced by a node of its own (the "direct" node of x);
//	       (a) a fresh node on a copy of the bytes of S.x reverts; (b) the direct node reverts; (c) the direct node
//	       then goes through EVERY other y: finalise y (must equal the direct S.y), revert (must equal S) - one
//	       long-lived node that switches forks |ops|-1 times.
//	full = false: ONE long-lived node on the bytes of S finalises x, reverts (must equal S), finalises the next x, ...
func fExpand(r *ev.Run, s *fState, newState bool, be string, versions []string, full, wantKids, freshToo bool) []*fState {
	var ops []fOp
	for _, k := range fBlockKinds {
		for _, v := range versions {
			ops = append(ops, fOp{k, v})
		}
	}
	transOf := func(op fOp) string {
		return fmt.Sprintf("parent-version=%s head-version=%s %s", verTag(s.headVersion()), verTag(op.version), s.classTrieTag())
	}
	detailOf := func(op fOp, err error) map[string]any {
		m := map[string]any{"state": s.path(), "block": op.String(), "written_by": "StoreGenesis/Finalise"}
		if err != nil {
			m["err"] = err.Error()
		}
		return m
	}
	var out []*fState
	if !full {
		var ll *blockchain.Blockchain
		var lld *memory.Database
		for _, op := range ops {
			diff, classes, nm, ok := fBuild(s.m, s.number, op)
			if !ok {
				continue
			}
			if ll == nil {
				lld = s.db.Copy()
				ll = chain.NewNode(lld, newState)
			}
			h, err := fFinalise(ll, s.number, op, diff, classes)
			if err != nil {
				r.Outcome("finalise-path: block not storable")
				ll = nil
				continue
			}
			r.Add("finalise_path_transitions", 1)
			r.Add("evaluations", 1)
			if wantKids {
				c := &fState{db: lld.Copy(), m: nm, number: s.number + 1, ops: append(append([]fOp{}, s.ops...), op), hashes: append(append([]felt.Felt{}, s.hashes...), *h)}
				c.key = chain.ImageHash(c.db)
				r.Add("finalise_path_states", 1)
				out = append(out, c)
			}
			if err := ll.RevertHead(); err != nil {
				r.Violate(fmt.Sprintf("revert-head-fails [finalise path]%s %s (long-lived node)", be, transOf(op)), detailOf(op, err))
				ll = nil
				continue
			}
			if !fSameAs(r, newState, "long-lived", be, transOf(op), s, lld, ll, *h, detailOf(op, nil)) {
				ll = nil
			}
		}
		return out
	}
	// direct children: one node on the bytes of S finalises x, the store is copied, the node reverts (and must be
	// back at the image of S, else it is replaced by a new node on the bytes of S)
	kids := make([]*fState, len(ops))
	var dn *blockchain.Blockchain
	var dnd *memory.Database
	for i, op := range ops {
		diff, classes, nm, ok := fBuild(s.m, s.number, op)
		if !ok {
			continue
		}
		if dn == nil {
			dnd = s.db.Copy()
			dn = chain.NewNode(dnd, newState)
		}
		h, err := fFinalise(dn, s.number, op, diff, classes)
		if err != nil {
			// the property speaks about blocks the node was able to store
			r.Outcome("finalise-path: block not storable")
			dn = nil
			continue
		}
		c := &fState{db: dnd.Copy(), m: nm, number: s.number + 1, ops: append(append([]fOp{}, s.ops...), op), hashes: append(append([]felt.Felt{}, s.hashes...), *h)}
		c.key = chain.ImageHash(c.db)
		kids[i] = c
		r.Add("finalise_path_states", 1)
		if err := dn.RevertHead(); err != nil || chain.ImageHash(dnd) != s.key {
			dn = nil // reported below, by the checks of this transition
		}
	}
	var ll *blockchain.Blockchain
	var lld *memory.Database
	for i, op := range ops {
		c := kids[i]
		if c == nil {
			continue
		}
		r.Add("finalise_path_transitions", 1)
		r.Add("evaluations", 2)
		trans := transOf(op)
		hx := c.hashes[len(c.hashes)-1]
		// (a) fresh node on the bytes of S.x (opening a node is the expensive step here: thorough tier only; the quick
		// tier reverts on the long-lived node, and on fresh nodes in the sync-path parts)
		if freshToo {
			d := c.db.Copy()
			fresh := chain.NewNode(d, newState)
			if err := fresh.RevertHead(); err != nil {
				r.Violate(fmt.Sprintf("revert-head-fails [finalise path]%s %s (fresh node)", be, trans), detailOf(op, err))
				continue
			}
			r.Add("finalise_path_fresh_node_reverts", 1)
			if !fSameAs(r, newState, "fresh", be, trans, s, d, nil, hx, detailOf(op, nil)) {
				continue
			}
		}
		// (b) ONE long-lived node per state finalises x and reverts it
		if ll == nil {
			lld = s.db.Copy()
			ll = chain.NewNode(lld, newState)
		}
		{
			diff, classes, _, _ := fBuild(s.m, s.number, op)
			if _, err := fFinalise(ll, s.number, op, diff, classes); err != nil {
				r.Violate(fmt.Sprintf("fork-switch-fails [finalise path]%s %s", be, trans), detailOf(op, err))
				ll = nil
				continue
			}
		}
		if err := ll.RevertHead(); err != nil {
			r.Violate(fmt.Sprintf("revert-head-fails [finalise path]%s %s (long-lived node)", be, trans), detailOf(op, err))
			ll = nil
			continue
		}
		if !fSameAs(r, newState, "long-lived", be, trans, s, lld, ll, hx, detailOf(op, nil)) {
			ll = nil
			continue
		}
		// (c) fork switches on the long-lived node
		for j, oy := range ops {
			y := kids[j]
			if y == nil || j == i {
				continue
			}
			r.Add("finalise_path_fork_pairs", 1)
			r.Add("evaluations", 1)
			diff, classes, _, _ := fBuild(s.m, s.number, oy)
			hy, err := fFinalise(ll, s.number, oy, diff, classes)
			dt := detailOf(oy, err)
			dt["first_branch"], dt["second_branch"] = op.String(), oy.String()
			ytrans := transOf(oy)
			if err != nil {
				r.Violate(fmt.Sprintf("fork-switch-fails [finalise path]%s %s", be, ytrans), dt)
				ll = nil
				break
			}
			if chain.ImageHash(lld) == y.key {
				r.Outcome("finalise-path: fork-converges-image-identical")
			} else {
				probe := fProbe(s, hx, *hy, y.hashes[len(y.hashes)-1])
				twin := chain.NewNode(y.db.Copy(), newState)
				if diff := chain.DiffObs(chain.Observe(ll, probe, false), chain.Observe(twin, probe, false)); len(diff) > 0 {
					dt["differing"] = diff
					r.Violate(fmt.Sprintf("fork-does-not-converge [finalise path]%s %s", be, ytrans), dt)
					ll = nil
					break
				}
				r.Outcome("finalise-path: fork-converges-internal-residue-only")
			}
			// back to S for the next branch
			if err := ll.RevertHead(); err != nil {
				dt["err"] = err.Error()
				r.Violate(fmt.Sprintf("revert-head-fails [finalise path]%s %s (long-lived node, after a fork switch)", be, ytrans), dt)
				ll = nil
				break
			}
			if !fSameAs(r, newState, "long-lived", be, ytrans, s, lld, ll, *hy, dt) {
				ll = nil
				break
			}
		}
	}
	if wantKids {
		for _, c := range kids {
			if c != nil {
				out = append(out, c)
			}
		}
	}
	return out
}

// fSameAs: node bc on store d claims to be back at state s. Image equality, else the full Reader sweep.
func fSameAs(r *ev.Run, newState bool, how, be, trans string, s *fState, d *memory.Database, bc *blockchain.Blockchain, reverted felt.Felt, detail map[string]any) bool {
	if chain.ImageHash(d) == s.key {
		r.Outcome("finalise-path: revert image-identical")
		return true
	}
	probe := fProbe(s, reverted)
	if bc == nil {
		bc = chain.NewNode(d, newState)
	}
	twin := chain.NewNode(s.db.Copy(), newState)
	if diff := chain.DiffObs(chain.Observe(bc, probe, false), chain.Observe(twin, probe, false)); len(diff) > 0 {
		detail["differing"] = diff
		r.Violate(fmt.Sprintf("revert-not-exact [finalise path] (%s) %s %s", how, be, trans), detail)
		return false
	}
	r.Outcome("finalise-path: revert internal-residue-only buckets=" + bucketsOf(chain.DiffImages(chain.Image(s.db), chain.Image(d))))
	return true
}
