package c04

// C04 — reverting the head exactly undoes a block; forks converge to the same node.

import (
	"fmt"
	"os"
	"strings"
	"sync"
	"testing"

	"verif/mc/chain"
	"verif/mc/ev"
	"verif/mc/hist"

	"github.com/NethermindEth/juno/blockchain"
	"github.com/NethermindEth/juno/db/memory"
)

type vcfg struct {
	name string
	at   func(uint64) string
}

var versionConfigs = []vcfg{
	{"0.13.2", func(uint64) string { return "0.13.2" }},
	{"0.14.0->0.14.1@2", func(n uint64) string {
		if n < 2 {
			return "0.14.0"
		}
		return "0.14.1"
	}},
	{"0.14.0", func(uint64) string { return "0.14.0" }},
	{"0.14.1", func(uint64) string { return "0.14.1" }},
}

func exoticOf(p *hist.Node, nm chain.Named) string {
	if e := p.Exotic(); e != "" {
		return e
	}
	if strings.HasSuffix(nm.Name, "sys1.clear") {
		return " [history clears system contract 0x1]"
	}
	return ""
}

func probeOf(n *hist.Node, extra ...*chain.Entry) *chain.Probe {
	p := &chain.Probe{}
	for _, e := range n.Chain {
		p.AddEntry(e)
	}
	for _, e := range n.Reverted {
		p.AddEntry(e)
	}
	for _, e := range extra {
		p.AddEntry(e)
	}
	return p
}

// bucketsOf summarises differing keys by their bucket byte.
func bucketsOf(diff []string) string {
	m := map[string]int{}
	for _, d := range diff {
		if len(d) >= 3 {
			m[d[:3]]++
		}
	}
	var out []string
	for k, v := range m {
		out = append(out, fmt.Sprintf("%s x%d", k, v))
	}
	return strings.Join(out, ",")
}

func TestCheck(t *testing.T) {
	r := ev.Start("C04", "model_checking")
	r.SetBudget(ev.Pick(r, 170, 2400))
	depth := ev.Pick(r, 3, 4)
	forkDepthLimit := ev.Pick(r, 1, 2) // fork pairs are enumerated from every state of depth <= this
	var states, transitions int64
	var mu sync.Mutex
	noopKinds := map[string]int{} // store/revert transitions per kind of no-op-entry block
	// Part F (finalise.go) first: chains written through the sequencer path (StoreGenesis / Finalise) with every
	// pair of protocol versions on consecutive blocks. Small and cheap, so it can never be cut by the time budget.
	fVersions := ev.Pick(r, []string{"", "0.13.2", "0.14.0", "0.14.1"}, []string{"", "0.13.2", "0.13.5", "0.14.0", "0.14.1"})
	fDepth, fForkDepth := 2, ev.Pick(r, 0, 1)
	for _, newState := range []bool{false, true} {
		checkFinalisePath(r, newState, fVersions, fDepth, fForkDepth)
	}
	r.Set("finalise_path_versions", fVersions)
	if os.Getenv("VERIF_C04_ONLY_PART_F") != "" { // development aid: evidence of such a run is not valid
		r.Incomplete("VERIF_C04_ONLY_PART_F set: only part F ran")
		r.Finish()
	}
	// Part L (longlived.go) next: it is the small one, and the only one in which reads are operations of the
	// history. Its fork bases are the states of depth <= 1 of the same search (shared alphabet), in both tiers.
	for _, newState := range []bool{true, false} {
		for ci, vc := range versionConfigs {
			if r.Quick() && ci >= 2 {
				continue
			}
			label := vc.name + hist.Backend(newState)
			newState := newState
			st := hist.Explore(hist.Config{
				NewState: newState, Depth: 1, VersionAt: vc.at, Run: r, Label: label + " [part L bases]",
				Visit: func(n *hist.Node, bc *blockchain.Blockchain) {
					r.Add("longlived_fork_bases", 1)
					checkLongLivedForks(r, n, vc.at, newState, label)
				},
			})
			r.Add("longlived_base_search_transitions", int64(st.Transitions))
		}
	}
	if os.Getenv("VERIF_C04_ONLY_PART_L") != "" { // development aid: evidence of such a run is not valid
		r.Incomplete("VERIF_C04_ONLY_PART_L set: only part L ran")
		r.Finish()
	}
	for _, newState := range []bool{false, true} {
		for ci, vc := range versionConfigs {
			if r.Quick() && ci >= 2 {
				continue
			}
			label := vc.name + hist.Backend(newState)
			newState := newState
			st := hist.Explore(hist.Config{
				NewState: newState, Depth: depth, VersionAt: vc.at, Run: r, Label: label,
				// shared alphabet + no-op-entry blocks (noop.go). Quick: a no-op-entry block is the LAST block of a chain
				// (it can be reverted, nothing is stored on top of it by the search; fork pairs do that); thorough: at most
				// one no-op-entry block per chain, anywhere.
				Alphabet: extAlphabet,
				Filter: func(p *hist.Node, nm chain.Named) bool {
					if !chainHasNoop(p.Path) {
						return true
					}
					return !r.Quick() && !isNoop(nm.Name)
				},
				OnRevertFail: func(p *hist.Node, err error) {
					r.Violate("revert-head-fails "+label+" "+hist.LastOp(p)+p.Exotic(), map[string]any{"path": p.PathString(), "err": err.Error()})
				},
				OnStore: func(p, c *hist.Node, nm chain.Named) {
					r.Add("evaluations", 2)
					if isNoop(nm.Name) {
						r.Add("noop_entry_block_transitions", 1)
						mu.Lock()
						noopKinds[nm.Name]++
						mu.Unlock()
					}
					checkUndo(r, p, c, nm, newState, label)
				},
				Visit: func(n *hist.Node, bc *blockchain.Blockchain) {
					if len(n.Path) <= forkDepthLimit && (!r.Quick() || !hasNoop(n.Path)) {
						// fork pairs with a no-op-entry block: from the states of depth <= 1 in both tiers
						checkForks(r, n, vc.at, newState, label, len(n.Path) <= 1)
					}
				},
			})
			mu.Lock()
			states += int64(st.States)
			transitions += int64(st.Transitions)
			mu.Unlock()
			r.Sample(map[string]any{"config": label, "states": st.States, "transitions": st.Transitions, "per_depth": st.PerDepth})
		}
	}
	r.Set("noop_entry_block_transitions_by_kind", noopKinds)
	r.Set("noop_entry_block_kinds", int64(len(noopKinds)))
	r.Set("states", states)
	r.Set("transitions", transitions)
	r.Set("traces_validated_against_impl", transitions)
	r.Set("distinct_nontrivial", states)
	r.Set("rule", fmt.Sprintf("BFS over {store, revert} histories to depth %d; for EVERY store transition S->S.b the block is reverted (a) by a fresh node and (b) by the same long-lived node, and the KV image must equal image(S) "+
		"(on residue: full Reader-API sweep + storing a further block must agree with the never-stored twin); fork pairs X,Y of depth<=2 from every state of depth<=%d: S.X.revert^|X|.Y == S.Y, on one long-lived node and (|X|=1, pairs of the shared alphabet) across process lifetimes: graceful shutdown + restart after X, ungraceful restart after Y. "+
		"Block alphabet = shared alphabet of mc/chain + C04-local NO-OP-ENTRY blocks (a diff entry that sets a value to what it already is: nonce = current nonce, nonce 0 of a contract deployed by the same block, "+
		"replace with the current class for a Cairo-0 and a Sierra contract, an already declared Cairo-0 class listed again, no-op nonce+class entries next to a real storage write; storage no-ops are in the shared alphabet): "+
		"%s; in fork pairs (from states of depth<=1) at most one of x,y is such a block (as y only after a one-block branch; [x, no-op] is the store/revert transition of state S.x). "+
		"Part L (fork switches on ONE long-lived node with READS in the history and RE-DEPLOYS; bases = states of depth<=1): for every block x of the extended alphabet that deploys a contract, "+
		"X = [x'] or [x', t], Y = y' with x', y' in family(x) = {x, x with other storage values + one more slot, x with the deployed contract's storage dropped/given} (y' = x' included), "+
		"t in {nonce+1 only, %szero to a never-written slot, real storage write} of the deployed contract%s; read positions = after every store of the branch and after the reverts, masks %s: "+
		"at a read position the head state's tries (class trie, contract trie, every storage trie: root, leaves, proofs) and plain reads are asked and must equal the answers of a RESTARTED node on the same bytes; "+
		"after Y the same sweep and the full Reader API must equal the node that stored Y directly. "+
		"Part F (sequencer write path): chains genesis + <=%d blocks written by StoreGenesis/Finalise, every block with any protocol version of %q, genesis kinds {undeclared class, declared Cairo-0, declared Sierra}, "+
		"block kinds {empty, touch x2, deploy, declare Sierra}: every transition is reverted on a long-lived node (RevertHead must succeed, image must equal the parent state's), "+
		"from states of depth <=%d the node then goes through every other (kind, version) y: finalise y == direct S.y, revert == S", depth, forkDepthLimit,
		ev.Pick(r, "from every state whose chain has none, as the last block of the chain (stored, reverted, image compared)", "at most one per chain, at any position"),
		ev.Pick(r, "", "class replaced only, "), ev.Pick(r, " (quick: x' is x or x with other storage)", " or any block of the shared alphabet"), ev.Pick(r, "{none, all}", "all (second block of the shared alphabet: {none, all})"), fDepth, fVersions, fForkDepth))
	r.Finish()
}

func checkUndo(r *ev.Run, p, c *hist.Node, nm chain.Named, newState bool, label string) {
	head := c.Head()
	// (a) fresh node reverts
	d := c.DB.Copy()
	bc := chain.NewNode(d, newState)
	if err := bc.RevertHead(); err != nil {
		// same key as OnRevertFail (which only fires for states the search expands, i.e. not at the depth bound)
		r.Violate("revert-head-fails "+label+" "+hist.LastOp(c)+c.Exotic(), map[string]any{"path": c.PathString(), "err": err.Error()})
		return
	}
	compareWithTwin(r, "fresh", p, d, chain.NewNode(d, newState), head, nm, newState, label)
	// (b) the same long-lived node stores and reverts (in-memory filter / caches live across both)
	d2 := p.DB.Copy()
	bc2 := chain.NewNode(d2, newState)
	if len(p.Chain) > 0 {
		// warm the event-filter machinery before the store
		if ef, err := bc2.EventFilter(nil, nil, nil); err == nil {
			ef.Events(nil, 100)
			ef.Close()
		}
	}
	if err := chain.StoreSync(bc2, head.Fresh(p.Head())); err != nil {
		r.Violate("store-fails-on-long-lived-node "+label+" "+nm.Name, map[string]any{"path": p.PathString(), "err": err.Error()})
		return
	}
	if err := bc2.RevertHead(); err != nil {
		r.Outcome("revert-fails")
		return
	}
	compareWithTwin(r, "long-lived", p, d2, bc2, head, nm, newState, label)
}

// compareWithTwin: node `bc` (on store d) claims to be back at state p after store+revert of `stored`.
func compareWithTwin(r *ev.Run, how string, p *hist.Node, d *memory.Database, bc *blockchain.Blockchain, stored *chain.Entry, nm chain.Named, newState bool, label string) {
	same := chain.ImageHash(d) == p.Key
	probe := probeOf(p, stored)
	if same && how == "fresh" {
		r.Outcome("image-identical")
		return
	}
	twinDB := p.DB.Copy()
	twin := chain.NewNode(twinDB, newState)
	oa, ob := chain.Observe(bc, probe, false), chain.Observe(twin, probe, false)
	if diff := chain.DiffObs(oa, ob); len(diff) > 0 {
		// re-observe with full dumps for the report
		fa, fb := chain.Observe(bc, probe, true), chain.Observe(twin, probe, true)
		q := diff[0]
		r.Violate(fmt.Sprintf("revert-not-exact (%s) %s %s question=%s%s", how, label, nm.Name, strings.SplitN(q, "(", 2)[0], exoticOf(p, nm)),
			map[string]any{"path": p.PathString(), "block": nm.Name, "differing": diff, "reverted_node": fa.Full[q], "twin": fb.Full[q]})
		return
	}
	if same {
		r.Outcome("image-identical")
		return
	}
	// residue in the image but identical observations: a further block must store identically
	residue := bucketsOf(chain.DiffImages(chain.Image(twinDB), chain.Image(d)))
	next := stored.Fresh(p.Head())
	e1, e2 := chain.StoreSync(bc, next), chain.StoreSync(twin, stored.Fresh(p.Head()))
	if (e1 == nil) != (e2 == nil) {
		r.Violate(fmt.Sprintf("revert-residue-changes-next-store (%s) %s %s", how, label, nm.Name), map[string]any{"path": p.PathString(), "residue": residue, "err_reverted": fmt.Sprint(e1), "err_twin": fmt.Sprint(e2)})
		return
	}
	p2 := probeOf(p, stored)
	if diff := chain.DiffObs(chain.Observe(bc, p2, false), chain.Observe(twin, p2, false)); len(diff) > 0 {
		r.Violate(fmt.Sprintf("revert-residue-changes-later-answers (%s) %s %s", how, label, nm.Name), map[string]any{"path": p.PathString(), "residue": residue, "differing": diff})
		return
	}
	r.Outcome("internal-residue-only buckets=" + residue)
}

// checkForks: S.X.revert^|X|.Y must be the node S.Y, for X of depth 1 and 2, on one long-lived node.
func checkForks(r *ev.Run, s *hist.Node, at func(uint64) string, newState bool, label string, withNoop bool) {
	var number uint64
	var pst *chain.State
	if h := s.Head(); h != nil {
		number, pst = h.Block.Number+1, h.State
	}
	alpha := chain.Alphabet(pst, number, at(number))
	if withNoop {
		alpha = extAlphabet(pst, number, at(number))
	}
	// direct children images (S.Y on a fresh node)
	type kid struct {
		e   *chain.Entry
		key string
		db  *memory.Database
	}
	kids := make([]*kid, len(alpha))
	for i, nm := range alpha {
		e, err := chain.Build(s.Head(), nm.Spec)
		if err != nil {
			r.Infra("alphabet: %v", err)
		}
		d := s.DB.Copy()
		if err := chain.StoreSync(chain.NewNode(d, newState), e.Fresh(s.Head())); err != nil {
			continue
		}
		kids[i] = &kid{e, chain.ImageHash(d), d}
	}
	type job struct {
		xi, yi int
		br     []*chain.Entry
		// restarts: the fork switch spans process lifetimes - graceful shutdown (running-filter snapshot written) and
		// restart after the X branch was stored, ungraceful restart after Y was stored
		restarts bool
	}
	var jobs []job
	for xi := range alpha {
		if kids[xi] == nil {
			continue
		}
		// X branches: [x] and [x, x2] for every x2 valid after x
		// No-op-entry blocks: pairs with exactly one such block among x, x2, y, and not as x2 - the branch
		// [x, no-op] starts with the store/revert of the no-op block on top of S.x, which checkUndo performs for every
		// state (fresh and long-lived node) and which must restore the image of S.x byte for byte.
		branches := [][]*chain.Entry{{kids[xi].e}}
		xNoop := b2i(isNoop(alpha[xi].Name))
		for _, nm2 := range chain.Alphabet(kids[xi].e.State, number+1, at(number+1)) {
			if e2, err := chain.Build(kids[xi].e, nm2.Spec); err == nil {
				branches = append(branches, []*chain.Entry{kids[xi].e, e2})
			}
		}
		for _, br := range branches {
			for yi := range alpha {
				n := xNoop + b2i(isNoop(alpha[yi].Name))
				if n > 1 || (isNoop(alpha[yi].Name) && len(br) > 1) {
					continue // (a no-op-entry block as Y: after branches of one block)
				}
				if kids[yi] != nil && yi != xi {
					if n > 0 {
						r.Add("fork_pairs_with_noop_entry_block", 1)
					}
					jobs = append(jobs, job{xi, yi, br, false})
					// (the across-restarts variant exercises the event-filter snapshot, which a state-diff entry cannot
					// influence: pairs of the shared alphabet only)
					if len(br) == 1 && n == 0 {
						jobs = append(jobs, job{xi, yi, br, true})
					}
				}
			}
		}
	}
	ev.Par(len(jobs), 14, func(ji int) {
		j := jobs[ji]
		lab := label
		x, y, br, yi := alpha[j.xi], alpha[j.yi], j.br, j.yi
		exotic := s.Exotic()
		if exotic == "" && (strings.HasSuffix(x.Name, "sys1.clear") || strings.HasSuffix(y.Name, "sys1.clear") || (len(br) > 1 && br[1].Spec.Diff != nil && clearsSys1(br[1]))) {
			exotic = " [history clears system contract 0x1]"
		}
		r.Add("evaluations", 1)
		r.Add("fork_pairs", 1)
		d := s.DB.Copy()
		bc := chain.NewNode(d, newState)
		parent := s.Head()
		for _, e := range br {
			if err := chain.StoreSync(bc, e.Fresh(parent)); err != nil {
				return
			}
			parent = e
		}
		if j.restarts {
			if err := bc.WriteRunningEventFilter(); err != nil {
				r.Infra("fork pair: graceful shutdown: %v", err)
			}
			bc = chain.NewNode(d, newState)
			lab += " [graceful restart before the revert, ungraceful after the switch]"
			r.Add("fork_pairs_across_restarts", 1)
		}
		for range br {
			if err := bc.RevertHead(); err != nil {
				r.Outcome("revert-fails")
				return
			}
		}
		if err := chain.StoreSync(bc, kids[yi].e.Fresh(s.Head())); err != nil {
			r.Violate(fmt.Sprintf("fork-switch-fails %s depth=%d%s", lab, len(br), exotic), map[string]any{"path": s.PathString(), "x": x.Name, "y": y.Name, "err": err.Error()})
			return
		}
		if j.restarts {
			bc = chain.NewNode(d, newState)
		}
		if chain.ImageHash(d) == kids[yi].key {
			r.Outcome("fork-converges-image-identical")
			return
		}
		probe := probeOf(s, append(append([]*chain.Entry{}, br...), kids[yi].e)...)
		twin := chain.NewNode(kids[yi].db.Copy(), newState)
		if diff := chain.DiffObs(chain.Observe(bc, probe, false), chain.Observe(twin, probe, false)); len(diff) > 0 {
			r.Violate(fmt.Sprintf("fork-does-not-converge %s depth=%d question=%s%s", lab, len(br), strings.SplitN(diff[0], "(", 2)[0], exotic),
				map[string]any{"path": s.PathString(), "x": x.Name, "x2": brName(br), "y": y.Name, "differing": diff})
		} else {
			r.Outcome("fork-converges-internal-residue-only")
		}
	})
}

func b2i(b bool) int {
	if b {
		return 1
	}
	return 0
}

func brName(br []*chain.Entry) string {
	if len(br) < 2 {
		return ""
	}
	return fmt.Sprintf("block %d with %d txs", br[1].Block.Number, len(br[1].Block.Transactions))
}

// clearsSys1: the entry writes only zeros to system contract 0x1.
func clearsSys1(e *chain.Entry) bool {
	m, ok := e.Spec.Diff.StorageDiffs[chain.Sys1]
	if !ok || len(m) == 0 {
		return false
	}
	for _, v := range m {
		if !v.IsZero() {
			return false
		}
	}
	return true
}
