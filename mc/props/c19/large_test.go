package c19

// Part E — CONFIGURATION SIZE corners.
//
// Parts A-D use (data, parity) <= (4,4) and committees of at most 13 members, where all 2^n subsets can be enumerated.
// The configurations juno really runs with come from the Scheduler: d = max(1,(N-1)/3), p = N-1-d, n = N-1 shards, and
// the code underneath changes with n: p and d pass the erasure library's generated-code limits (10 inputs / outputs),
// n passes 256 (GF(2^8) matrix codec -> FFT codec over GF(2^16) with its own shard-size granularity), p and p'+d pass
// powers of two (transform sizes of the FFT codec). 2^n subsets cannot be enumerated there; part E enumerates this
// stated structured family instead, every member of it, against the real code:
//
//	committee sizes  N on both sides of every one of those boundaries (list in sizesE), each with the Scheduler's own
//	                 (d,p); plus direct (d,p) shapes on both sides of n = 256 that no committee produces
//	                 (1,255|256) (64,192|193); thorough also (2,254|255) (128,128|129) (200,56|57) (255|256,1) (300,300) (1,1000)
//	message lengths  0, 1, the varint boundaries 127|128 and 16383|16384, and every length whose framed size
//	                 (varint prefix + message) is k*g*d-1, k*g*d, k*g*d+1 for k in {1,2} (thorough {1,2,3}) and g in
//	                 {2, G}: 2 is PadMessage's granularity, G is the shard size the REAL encoder produces for the empty
//	                 message in that configuration (observed, not assumed: 2 below 257 shards, 64 above)
//	erasure patterns none missing; only the first d present; only the last d present; every contiguous window of
//	                 exactly d present shards at stride s (s = (n-d)/4 quick, (n-d)/16 thorough, always including the
//	                 last window); a comb of exactly d present shards spread evenly over 0..n-1; and d-1 present
//	                 (first d-1, last d-1, comb d-1) which MUST be refused
//	local shard      the first missing index (else n-1); for "none missing" both 0 and n-1
//
// Oracle: with >= d valid shards the message comes back bit for bit and the returned local shard + proof are the
// publisher's and verify against the signed root; with d-1 shards an error, never a panic, never a message. For every
// committee: every unit is first pushed through a real UnitValidator (receiver = the member after the publisher, unit
// coming from the peer the schedule designates) and must be accepted; the signed root must equal the independent
// SHA-256-tagged reference root (part C's reference) of the encoded shards.

import (
	"bytes"
	"crypto/sha256"
	"encoding/binary"
	"fmt"
	"sort"

	"verif/mc/ev"

	"github.com/NethermindEth/juno/consensus/propeller"
	"github.com/NethermindEth/juno/consensus/propeller/merkle"
)

type cfgE struct {
	N    int // committee size, 0 = direct (d,p) shape
	d, p int
}

func (c cfgE) String() string {
	if c.N == 0 {
		return fmt.Sprintf("direct d=%d p=%d", c.d, c.p)
	}
	return fmt.Sprintf("N=%d d=%d p=%d", c.N, c.d, c.p)
}

// sizeClass is the coarse part of a violation key: which side of the codec boundary the configuration is on.
func (c cfgE) sizeClass() string {
	switch n := c.d + c.p; {
	case n > 256:
		return "total-shards>256"
	case n > 20:
		return "total-shards 21..256"
	default:
		return "total-shards<=20"
	}
}

// sizesE: committee sizes on both sides of
//
//	p 10|11 (N=16|17), d 10|11 (N=33|34)            generated-code input/output limits of the GF(2^8) codec
//	n 128|129 (N=129|130)                           thorough: half of the GF(2^8) field
//	n 256|257 (N=257|258), d 85|86 next to it (259) GF(2^8) -> GF(2^16) codec
//	p 256|257 (N=385|386)                           transform size of the GF(2^16) codec: ceilPow2(p)
//	ceilPow2(p)+d 512|513 (N=769|770)               thorough
//	p 512|513 (N=769|770), p 1024|1025 (N=1537|1538) thorough
func sizesE(thorough bool) []int {
	if !thorough {
		return []int{16, 17, 33, 34, 257, 258, 259, 385, 386}
	}
	return []int{14, 16, 17, 31, 32, 33, 34, 64, 65, 100, 129, 130, 193, 194, 255, 256, 257, 258, 259, 260, 261, 262, 300,
		384, 385, 386, 387, 512, 513, 769, 770, 771, 1024, 1025, 1537, 1538}
}

func directE(thorough bool) []cfgE {
	// the GF(2^8) codec is built per call and costs ~d^3: the shapes with many data shards are left to the thorough tier
	out := []cfgE{{0, 1, 255}, {0, 1, 256}, {0, 64, 192}, {0, 64, 193}}
	if thorough {
		out = append(out, cfgE{0, 2, 254}, cfgE{0, 2, 255}, cfgE{0, 128, 128}, cfgE{0, 128, 129}, cfgE{0, 200, 56}, cfgE{0, 200, 57},
			cfgE{0, 255, 1}, cfgE{0, 256, 1}, cfgE{0, 300, 300}, cfgE{0, 1, 1000})
	}
	return out
}

func uvarintLen(x int) int {
	var b [binary.MaxVarintLen64]byte
	return binary.PutUvarint(b[:], uint64(x))
}

// lengthsE: see the header. gran = observed shard size of the empty message.
func lengthsE(d, gran int, thorough bool) []int {
	set := map[int]bool{0: true, 1: true, 127: true, 128: true, 16383: true, 16384: true}
	ks := []int{1, 2}
	if thorough {
		ks = []int{1, 2, 3}
	}
	for _, g := range []int{2, gran} {
		for _, k := range ks {
			for delta := -1; delta <= 1; delta++ {
				framed := k*g*d + delta
				for vl := 1; vl <= 4; vl++ { // the length whose framed size is exactly `framed`, if there is one
					if l := framed - vl; l >= 0 && uvarintLen(l) == vl {
						set[l] = true
					}
				}
			}
		}
	}
	var out []int
	for l := range set {
		out = append(out, l)
	}
	sort.Ints(out)
	return out
}

type patE struct {
	name    string
	present []bool
	count   int
}

func mkPat(name string, n int, idx func(yield func(int))) patE {
	p := patE{name: name, present: make([]bool, n)}
	idx(func(i int) {
		if i >= 0 && i < n && !p.present[i] {
			p.present[i] = true
			p.count++
		}
	})
	return p
}

func rangePat(name string, n, from, to int) patE {
	return mkPat(name, n, func(y func(int)) {
		for i := from; i < to; i++ {
			y(i)
		}
	})
}

func combPat(name string, n, k int) patE { // k shards spread evenly over 0..n-1, last one included when k > 1
	return mkPat(name, n, func(y func(int)) {
		for j := 0; j < k; j++ {
			if k == 1 {
				y(n / 2)
			} else {
				y(j * (n - 1) / (k - 1))
			}
		}
	})
}

func patternsE(d, n int, thorough bool) []patE {
	out := []patE{rangePat("none-missing", n, 0, n)}
	seen := map[string]bool{}
	add := func(p patE) {
		k := fmt.Sprint(p.present)
		if !seen[k] {
			seen[k] = true
			out = append(out, p)
		}
	}
	seen[fmt.Sprint(out[0].present)] = true
	add(rangePat("first-d", n, 0, d))
	add(rangePat("last-d", n, n-d, n))
	div := 4
	if thorough {
		div = 16
	}
	stride := max(1, (n-d)/div)
	for o := 0; o+d <= n; o += stride {
		add(rangePat(fmt.Sprintf("window@%d", o), n, o, o+d))
	}
	add(combPat("comb-d", n, d))
	if thorough {
		add(mkPat("all-but-first", n, func(y func(int)) {
			for i := 1; i < n; i++ {
				y(i)
			}
		}))
		add(mkPat("every-third-missing", n, func(y func(int)) {
			for i := 0; i < n; i++ {
				if i%3 != 0 {
					y(i)
				}
			}
		}))
	}
	if d > 1 {
		add(rangePat("first-d-1", n, 0, d-1))
		add(rangePat("last-d-1", n, n-d+1, n))
		add(combPat("comb-d-1", n, d-1))
	} else {
		add(rangePat("nothing-present", n, 0, 0))
	}
	return out
}

func partE(r *ev.Run) int64 {
	committee := propeller.CommitteeID(sha256.Sum256([]byte("committee-e")))
	var cfgs []cfgE
	maxN := 2
	for _, N := range sizesE(r.Thorough()) {
		d := max(1, (N-1)/3) // the documented schedule; checked against the real Scheduler below
		cfgs = append(cfgs, cfgE{N, d, N - 1 - d})
		maxN = max(maxN, N)
	}
	cfgs = append(cfgs, directE(r.Thorough())...)
	pool := make([]ident, maxN)
	ev.Par(maxN, 8, func(i int) { pool[i] = mkIdent(50_000 + i) })
	var nontrivial int64

	for _, c := range cfgs {
		n := c.d + c.p
		pubID := pool[0]
		var ids []ident
		var sched *propeller.Scheduler
		pubIdx := 0
		if c.N > 0 {
			ids = append(ids, pool[:c.N]...)
			sort.Slice(ids, func(i, j int) bool { return ids[i].id < ids[j].id })
			pubIdx = c.N / 2
			pubID = ids[pubIdx]
			pcs := make([]propeller.PeerCommittee, c.N)
			for i := range ids {
				pcs[i] = propeller.PeerCommittee{ID: ids[i].id, Stake: 1}
			}
			var err error
			sched, err = propeller.NewScheduler(ids[(pubIdx+1)%c.N].id, pcs)
			if err != nil {
				r.Infra("part E scheduler N=%d: %v", c.N, err)
			}
			if sched.NumDataShards() != c.d || sched.NumCodingShards() != c.p || sched.BuildThreshold() != c.d {
				r.Violate("scheduler-shard-counts-differ-from-the-documented-schedule", map[string]any{"N": c.N,
					"data": sched.NumDataShards(), "coding": sched.NumCodingShards(), "threshold": sched.BuildThreshold(), "want": c.String()})
				continue
			}
		}
		create := func(msg []byte, nonce propeller.Nonce) ([]propeller.Unit, bool) {
			var units []propeller.Unit
			var err error
			pan, pm := ev.Guard(func() {
				units, err = propeller.CreatePropellerUnits(pubID.priv, &committee, nonce, msg, c.d, c.p)
			})
			ck := fmt.Sprintf("%s len=%d", c, len(msg))
			switch {
			case pan:
				r.Violate("create-panic "+c.sizeClass(), map[string]any{"case": ck, "panic": pm})
			case err != nil:
				r.Outcome("create-error")
				r.Violate("create-error "+c.sizeClass(), map[string]any{"case": ck, "err": err.Error()})
			case len(units) != n:
				r.Violate("create-count "+c.sizeClass(), map[string]any{"case": ck, "got": len(units)})
			default:
				return units, true
			}
			return nil, false
		}
		// observed shard-size granularity of this configuration
		u0, ok := create(nil, 3)
		if !ok {
			continue
		}
		gran := len(u0[0].ShardData[0])
		r.Outcome(fmt.Sprintf("large-config shard-granularity %dB", gran))
		pats := patternsE(c.d, n, r.Thorough())
		lens := lengthsE(c.d, gran, r.Thorough())
		r.Add("large_configs", 1)
		for _, l := range lens {
			msg := msgOf(l, byte(n+l))
			units, ok := create(msg, 3)
			if !ok {
				continue
			}
			r.Add("large_messages", 1)
			ck0 := fmt.Sprintf("%s len=%d shard=%dB", c, l, len(units[0].ShardData[0]))
			// signed root == independent reference root; all shards the same size
			leaves := make([][]byte, n)
			for i := range units {
				leaves[i] = units[i].ShardData.MarshalProto()
				if len(units[i].ShardData) != 1 || len(units[i].ShardData[0]) != len(units[0].ShardData[0]) || int(units[i].ShardIndex) != i {
					r.Violate("create-unit-shape "+c.sizeClass(), map[string]any{"case": ck0, "unit": i})
				}
			}
			want := refRoot(leaves)
			r.Add("evaluations", 1)
			if [32]byte(units[0].MessageRoot) != want {
				r.Violate("signed-root-is-not-the-specified-merkle-root "+c.sizeClass(), map[string]any{"case": ck0})
			}
			// every unit passes the real validator of a committee member
			if sched != nil {
				v := newRouter(sched)
				local := (pubIdx + 1) % c.N
				for i := range units {
					sender := ids[c.refLegit(pubIdx, local, i)].id
					var verr error
					pan, pm := ev.Guard(func() { verr = v.validate(cloneUnit(&units[i]), sender) })
					r.Add("evaluations", 1)
					r.Add("large_validations", 1)
					if pan {
						r.Violate("validate-panic honest "+c.sizeClass(), map[string]any{"case": ck0, "unit": i, "panic": pm})
					} else if verr != nil {
						r.Outcome("honest-rejected")
						r.Violate("honest-unit-rejected "+c.sizeClass(), map[string]any{"case": ck0, "unit": i, "err": verr.Error()})
						break
					}
				}
			}
			for _, pat := range pats {
				firstMissing := -1
				for i, pr := range pat.present {
					if !pr {
						firstMissing = i
						break
					}
				}
				locals := []int{n - 1}
				if firstMissing >= 0 {
					locals[0] = firstMissing
				} else if n > 1 {
					locals = []int{0, n - 1}
				}
				for _, local := range locals {
					in := make([]*propeller.Unit, n)
					for i := range in {
						if pat.present[i] {
							in[i] = cloneUnit(&units[i])
						}
					}
					var got []byte
					var sd propeller.ShardData
					var pr merkle.Proof
					var cerr error
					pan, pm := ev.Guard(func() {
						got, sd, pr, cerr = propeller.ConstructMessageFromUnits(in, propeller.ShardIndex(local), c.d, c.p)
					})
					r.Add("evaluations", 1)
					r.Add("large_reconstructions", 1)
					ck := fmt.Sprintf("%s present=%s(%d of %d) local=%d", ck0, pat.name, pat.count, n, local)
					switch {
					case pan:
						r.Outcome("panic")
						suff := "sufficient"
						if pat.count < c.d {
							suff = "insufficient"
						}
						r.Violate(fmt.Sprintf("reconstruct-panic %s %s", suff, c.sizeClass()), map[string]any{"case": ck, "panic": pm})
					case pat.count >= c.d:
						if cerr != nil {
							r.Outcome("sufficient-error")
							r.Violate("reconstruct-error-with-sufficient-shards "+c.sizeClass(), map[string]any{"case": ck, "err": cerr.Error()})
						} else if !bytes.Equal(got, msg) {
							r.Outcome("sufficient-wrong")
							r.Violate("reconstruct-wrong-message "+c.sizeClass(), map[string]any{"case": ck, "got_len": len(got),
								"got_head": fmt.Sprintf("%x", got[:min(len(got), 16)]), "want_head": fmt.Sprintf("%x", msg[:min(len(msg), 16)])})
						} else {
							r.Outcome("sufficient-ok")
							root := merkle.Hash(units[local].MessageRoot)
							if len(sd) != 1 || !bytes.Equal(sd[0], units[local].ShardData[0]) || !pr.Verify(&root, sd.MarshalProto(), uint32(local)) ||
								!refVerify(want, sd.MarshalProto(), uint32(local), pr.Siblings) {
								r.Violate("reconstruct-local-shard-or-proof-wrong "+c.sizeClass(), map[string]any{"case": ck})
							}
							if pat.count < n {
								nontrivial++
							}
						}
					default:
						if cerr == nil {
							r.Outcome("insufficient-returned")
							r.Violate("reconstruct-succeeds-below-threshold "+c.sizeClass(), map[string]any{"case": ck, "got_len": len(got)})
						} else {
							r.Outcome("insufficient-error")
							nontrivial++
						}
					}
				}
			}
		}
		if c.N == 258 || (c.N == 0 && c.d == 64 && c.p == 193) {
			names := make([]string, len(pats))
			for i, p := range pats {
				names[i] = fmt.Sprintf("%s(%d)", p.name, p.count)
			}
			r.Sample(map[string]any{"part": "E", "config": c.String(), "observed_granularity": gran, "lengths": lens, "patterns": names})
		}
		if r.Thorough() && r.OutOfTime() {
			r.Incomplete("part E stopped after " + c.String())
			break
		}
	}
	return nontrivial
}

// refLegit: index (in the sorted committee) of the peer a receiver `local` must get shard `shard` of publisher `pubIdx`
// from: the publisher for the receiver's own shard, the shard's owner otherwise (same reference schedule as part D).
func (c cfgE) refLegit(pubIdx, local, shard int) int {
	o := shard
	if shard >= pubIdx {
		o = shard + 1
	}
	if o == local {
		return pubIdx
	}
	return o
}
