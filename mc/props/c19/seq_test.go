package c19

// Part D — sequences of deliveries on ONE long-lived receiver stack.
//
// Parts A-C judge every case on objects built for that case. A receiver in juno lives much longer: the Engine keeps one
// Scheduler per registered committee and hands it to every subprocessor / UnitValidator of every message of that
// committee. Part D therefore enumerates EVERY sequence of <= depth deliveries over a small alphabet of units against
// one receiver stack that is created once per sequence and then only receives:
//
//	receiver stack = the real Scheduler (one committee, local peer L)
//	               + one real UnitValidator per message key, created the way Processor.createSubprocessor does it
//	                 (only after ShardIndexForPublisher(key.Publisher) succeeded)
//	               + the subprocessor's bookkeeping: accepted units by shard index, the real ConstructMessageFromUnits
//	                 when the number of accepted units reaches Scheduler.BuildThreshold()
//
// alphabet (per committee size N, receiver L, member publishers p1, p2, one non-member o):
//
//	honest         unit of message m1 (publisher p1) / m2 (publisher p2), shard s, from its legitimate sender
//	wrong-sender   the same units from a peer that is not the legitimate sender of that shard
//	non-member     unit of a message published and validly signed by o (o is not in the committee), shard s, from every
//	               possible sender (o itself and every member other than L)
//	repeated       every op may occur again later in the sequence (sequences are with repetition)
//
// oracle after EVERY delivery:
//  1. reference model (written here, independent of the Scheduler): accept iff publisher is a member, the sender is the
//     legitimate one for (publisher, shard) and that shard index was not accepted for this message before;
//  2. a FRESH receiver stack that is given only the units of the same message the long-lived one accepted so far, then
//     this unit, must give the same verdict and deliver the same bytes: no verdict may depend on unrelated earlier
//     deliveries;
//  3. a message is delivered exactly when the d-th unit of a member's message is accepted, and it is that message bit
//     for bit; nothing published by o is ever accepted or delivered; no panic;
//
// and at the end of every sequence: every message delivered during it still reads the same, and the Scheduler's lookup
// surface (ShardIndexForPublisher, PeerForShardIndex for every shard and one past the last) for p1, p2 and o, each
// question asked twice in a row, still answers what the reference schedule says (a lookup is a pure function of the
// committee and its arguments).
//
// Not modelled: Processor's goroutines / channels and its "finalized" time cache (a key whose FIRST unit is invalid is
// finalised and dropped by design; that is a liveness choice of the Processor, not part of the stated property).

import (
	"bytes"
	"crypto/sha256"
	"fmt"
	"runtime"
	"sort"
	"strings"
	"sync"

	"verif/mc/ev"

	"github.com/NethermindEth/juno/consensus/propeller"
	"github.com/libp2p/go-libp2p/core/peer"
)

const (
	clsHonest    = "honest-unit"
	clsRepeated  = "repeated-unit"
	clsWrongSndr = "wrong-sender-unit"
	clsOutsider  = "non-member-publisher-unit"
)

type seqOp struct {
	name   string
	class  string
	msg    int // 0 = m1, 1 = m2, 2 = the non-member's message
	unit   *propeller.Unit
	sender peer.ID
	legit  bool // reference model: origin (publisher membership + sender) is acceptable
}

type seqCfg struct {
	N, local, opos int
	ids            []ident
	outsider       ident
	pubIdx         [2]int
	msgs           [3][]byte
	units          [3][]propeller.Unit
	d, p, T        int
	ops            []seqOp
	fresh          sync.Map // memo: op + accepted-so-far ops of its message -> freshVerdict
}

func (c *seqCfg) String() string {
	return fmt.Sprintf("N=%d local=%d p1=%d p2=%d non-member-sorts-at=%d", c.N, c.local, c.pubIdx[0], c.pubIdx[1], c.opos)
}

// ---- reference schedule (independent of propeller.Scheduler) ----

func refOwner(ids []ident, pubIdx, shard int) int {
	if shard >= pubIdx {
		return shard + 1
	}
	return shard
}

func refLocalShard(local, pubIdx int) int {
	if local >= pubIdx {
		return local - 1
	}
	return local
}

// refLegitSender: the publisher for the receiver's own shard, the shard's owner otherwise.
func (c *seqCfg) refLegitSender(pubIdx, shard int) int {
	o := refOwner(c.ids, pubIdx, shard)
	if o == c.local {
		return pubIdx
	}
	return o
}

// ---- the long-lived receiver stack ----

type seqSub struct {
	v          *propeller.UnitValidator
	localShard propeller.ShardIndex
	got        []*propeller.Unit
	count      int
	built      bool
}

type seqStack struct {
	sched *propeller.Scheduler
	subs  map[mkey]*seqSub
}

func (c *seqCfg) newStack() (*seqStack, error) {
	pcs := make([]propeller.PeerCommittee, c.N)
	for i := range c.ids { // deliberately not in sorted order: NewScheduler sorts
		j := (i*3 + 1) % c.N
		if c.N%3 == 0 {
			j = c.N - 1 - i
		}
		pcs[i] = propeller.PeerCommittee{ID: c.ids[j].id, Stake: 1}
	}
	s, err := propeller.NewScheduler(c.ids[c.local].id, pcs)
	if err != nil {
		return nil, err
	}
	return &seqStack{s, map[mkey]*seqSub{}}, nil
}

type seqOut struct {
	err       error
	built     bool
	msg       []byte
	buildErr  error
	localData propeller.ShardData
}

func (o *seqOut) verdict() string {
	if o.err != nil {
		return "rejected"
	}
	return "accepted"
}

// deliver mirrors Engine.processUnit -> Processor.ProcessMessage -> subprocessor for one unit.
func (st *seqStack) deliver(u *propeller.Unit, sender peer.ID) (out seqOut) {
	k := mkey{u.CommitteeID, u.Publisher, u.MessageRoot, u.Nonce}
	sub, ok := st.subs[k]
	if !ok {
		ls, err := st.sched.ShardIndexForPublisher(u.Publisher)
		if err != nil {
			out.err = err
			return out
		}
		nv := propeller.NewValidator(u.Publisher, st.sched)
		sub = &seqSub{v: &nv, localShard: ls, got: make([]*propeller.Unit, st.sched.NumTotalShards())}
		st.subs[k] = sub
	}
	if err := sub.v.Validate(u, sender); err != nil {
		out.err = err
		return out
	}
	sub.got[int(u.ShardIndex)] = u
	sub.count++
	if !sub.built && sub.count == st.sched.BuildThreshold() {
		sub.built = true
		out.built = true
		out.msg, out.localData, _, out.buildErr = propeller.ConstructMessageFromUnits(sub.got, sub.localShard,
			st.sched.NumDataShards(), st.sched.NumCodingShards())
	}
	return out
}

// ---- configuration / alphabet ----

func seqShardSet(T int, extra int, full bool) []int {
	set := map[int]bool{}
	if full || T <= 3 {
		for s := 0; s < T; s++ {
			set[s] = true
		}
	} else {
		set[0], set[T-1] = true, true
		if extra >= 0 {
			set[extra] = true
		} else {
			set[T/2] = true
		}
	}
	var out []int
	for s := range set {
		out = append(out, s)
	}
	sort.Ints(out)
	return out
}

// outsidersByPosition finds, for every insertion position 0..N of the sorted committee, an identity that is not a member
// and sorts exactly there.
func outsidersByPosition(ids []ident) map[int]ident {
	found := map[int]ident{}
	for k := 0; len(found) < len(ids)+1 && k < 200000; k++ {
		x := mkIdent(5000 + k)
		pos := sort.Search(len(ids), func(i int) bool { return ids[i].id >= x.id })
		if pos < len(ids) && ids[pos].id == x.id {
			continue
		}
		if _, ok := found[pos]; !ok {
			found[pos] = x
		}
	}
	return found
}

func newSeqCfg(r *ev.Run, ids []ident, local, opos int, outsider ident, full bool) *seqCfg {
	N := len(ids)
	c := &seqCfg{N: N, local: local, opos: opos, ids: ids, outsider: outsider}
	c.pubIdx = [2]int{(local + 1) % N, (local + N - 1) % N} // N=2: both messages come from the only other member
	c.d = max(1, (N-1)/3)
	c.T = N - 1
	c.p = c.T - c.d
	committee := propeller.CommitteeID(sha256.Sum256([]byte("committee-d")))
	for m := 0; m < 3; m++ {
		c.msgs[m] = msgOf(2*c.d*3+1+m, byte(16*N+m))
		priv := outsider.priv
		if m < 2 {
			priv = ids[c.pubIdx[m]].priv
		}
		us, err := propeller.CreatePropellerUnits(priv, &committee, propeller.Nonce(1+m), c.msgs[m], c.d, c.p)
		if err != nil || len(us) != c.T {
			r.Infra("part D: cannot create units N=%d: %v", N, err)
		}
		c.units[m] = us
	}
	for m := 0; m < 2; m++ {
		pi := c.pubIdx[m]
		for _, s := range seqShardSet(c.T, refLocalShard(local, pi), full) {
			ls := c.refLegitSender(pi, s)
			c.ops = append(c.ops, seqOp{name: fmt.Sprintf("m%d.shard%d<-peer%d", m+1, s, ls), class: clsHonest, msg: m,
				unit: &c.units[m][s], sender: ids[ls].id, legit: true})
		}
	}
	for m := 0; m < 2; m++ {
		pi := c.pubIdx[m]
		for _, s := range seqShardSet(c.T, refLocalShard(local, pi), full) {
			ls := c.refLegitSender(pi, s)
			var wrong []int
			for k := 1; k < N; k++ { // members in ring order after the legitimate sender
				w := (ls + k) % N
				if w != local && w != ls {
					wrong = append(wrong, w)
				}
			}
			if !full && len(wrong) > 1 {
				wrong = wrong[:1]
			}
			for _, w := range wrong {
				c.ops = append(c.ops, seqOp{name: fmt.Sprintf("m%d.shard%d<-peer%d(wrong)", m+1, s, w), class: clsWrongSndr, msg: m,
					unit: &c.units[m][s], sender: ids[w].id})
			}
			if full || len(wrong) == 0 { // a peer outside the committee relays a member's unit
				c.ops = append(c.ops, seqOp{name: fmt.Sprintf("m%d.shard%d<-nonmember(wrong)", m+1, s), class: clsWrongSndr, msg: m,
					unit: &c.units[m][s], sender: outsider.id})
			}
		}
	}
	for _, s := range seqShardSet(c.T, -1, full) {
		c.ops = append(c.ops, seqOp{name: fmt.Sprintf("x.shard%d<-nonmember", s), class: clsOutsider, msg: 2, unit: &c.units[2][s], sender: outsider.id})
		for i := range ids {
			if i != local {
				c.ops = append(c.ops, seqOp{name: fmt.Sprintf("x.shard%d<-peer%d", s, i), class: clsOutsider, msg: 2, unit: &c.units[2][s], sender: ids[i].id})
			}
		}
	}
	return c
}

// ---- one sequence ----

type seqViol struct {
	key    string
	detail any
}

type seqRes struct {
	viol                                             []seqViol
	perKey                                           map[string]int
	seqs, nontrivial, deliveries, accepted, rejected int64
	delivered, freshCmp, probeAnswers, reread        int64
	outcomes                                         map[string]bool
}

func (res *seqRes) violate(key string, detail any) {
	if res.perKey == nil {
		res.perKey = map[string]int{}
	}
	res.perKey[key]++
	if res.perKey[key] > 3 {
		detail = nil // counted; the first cases carry the replayable detail
	}
	res.viol = append(res.viol, seqViol{key, detail})
}

type freshVerdict struct {
	setupErr string // a unit the long-lived receiver accepted is refused by the fresh one
	panicked string
	verdict  string
	built    bool
	msg      []byte
}

// freshFor: a brand-new receiver stack is given the units of this op's message that were accepted so far, then the op.
func (c *seqCfg) freshFor(res *seqRes, accepted []int, oi int) *freshVerdict {
	var sb strings.Builder
	for _, a := range accepted {
		fmt.Fprintf(&sb, "%d,", a)
	}
	fmt.Fprintf(&sb, ">%d", oi)
	if v, ok := c.fresh.Load(sb.String()); ok {
		return v.(*freshVerdict)
	}
	fv := &freshVerdict{}
	pan, pm := ev.Guard(func() {
		st, err := c.newStack()
		if err != nil {
			fv.setupErr = "scheduler: " + err.Error()
			return
		}
		for _, a := range accepted {
			if o := st.deliver(cloneUnit(c.ops[a].unit), c.ops[a].sender); o.err != nil {
				fv.setupErr = fmt.Sprintf("%s: %v", c.ops[a].name, o.err)
				return
			}
		}
		o := st.deliver(cloneUnit(c.ops[oi].unit), c.ops[oi].sender)
		fv.verdict, fv.built, fv.msg = o.verdict(), o.built && o.buildErr == nil, o.msg
	})
	if pan {
		fv.panicked = pm
	}
	c.fresh.Store(sb.String(), fv)
	return fv
}

func (c *seqCfg) names(seq []int) []string {
	out := make([]string, len(seq))
	for i, oi := range seq {
		out[i] = c.ops[oi].name
	}
	return out
}

func (c *seqCfg) runSeq(seq []int, res *seqRes) {
	res.seqs++
	if len(seq) > 1 {
		res.nontrivial++
	}
	st, err := c.newStack()
	if err != nil {
		res.violate("seq scheduler-refuses-committee", map[string]any{"config": c.String(), "err": err.Error()})
		return
	}
	var acceptedOps [3][]int
	var acceptedShards [3]uint64
	type kept struct {
		got  []byte
		want []byte
		step int
	}
	var retained []kept
	detail := func(step int, extra map[string]any) map[string]any {
		m := map[string]any{"config": c.String(), "sequence": c.names(seq), "failing_delivery": step}
		for k, v := range extra {
			m[k] = v
		}
		return m
	}
	for step, oi := range seq {
		op := &c.ops[oi]
		shard := uint(op.unit.ShardIndex)
		class := op.class
		dup := acceptedShards[op.msg]>>shard&1 == 1
		if op.legit && dup {
			class = clsRepeated
		}
		wantAccept := op.legit && !dup
		want := "rejected"
		if wantAccept {
			want = "accepted"
		}
		var out seqOut
		pan, pm := ev.Guard(func() { out = st.deliver(cloneUnit(op.unit), op.sender) })
		res.deliveries++
		if pan {
			res.violate("seq panic "+class, detail(step, map[string]any{"panic": pm}))
			return
		}
		got := out.verdict()
		fv := c.freshFor(res, acceptedOps[op.msg], oi)
		res.freshCmp++
		switch {
		case fv.panicked != "":
			res.violate("seq panic fresh-receiver "+class, detail(step, map[string]any{"panic": fv.panicked}))
			return
		case fv.setupErr != "":
			res.violate("seq fresh-receiver-refuses-a-unit-the-long-lived-receiver-accepted", detail(step, map[string]any{"err": fv.setupErr}))
			return
		}
		if got != want || fv.verdict != want {
			e := ""
			if out.err != nil {
				e = out.err.Error()
			}
			res.violate(fmt.Sprintf("seq %s %s by the long-lived receiver (reference: %s; fresh receiver with the same accepted units of that message: %s)",
				class, got, want, fv.verdict), detail(step, map[string]any{"err": e}))
			if got == "accepted" && out.built && out.buildErr == nil && op.msg == 2 {
				res.violate("seq message-of-non-member-publisher-delivered", detail(step, map[string]any{"delivered": fmt.Sprintf("%q", out.msg)}))
			}
			return // the reference has no successor state for a wrong verdict
		}
		res.outcomes[class+" "+got] = true
		if got == "rejected" {
			res.rejected++
			continue
		}
		res.accepted++
		acceptedOps[op.msg] = append(acceptedOps[op.msg], oi)
		acceptedShards[op.msg] |= 1 << shard
		wantBuilt := len(acceptedOps[op.msg]) == c.d
		switch {
		case out.built != wantBuilt:
			res.violate(fmt.Sprintf("seq delivery-at-the-wrong-time built=%v want=%v", out.built, wantBuilt), detail(step, nil))
			return
		case !out.built:
			if fv.built {
				res.violate("seq fresh-receiver-delivers-where-the-long-lived-does-not", detail(step, nil))
				return
			}
			continue
		case out.buildErr != nil:
			res.violate("seq reconstruct-error-at-threshold", detail(step, map[string]any{"err": out.buildErr.Error()}))
			return
		case !bytes.Equal(out.msg, c.msgs[op.msg]):
			res.violate("seq wrong-message-delivered", detail(step, map[string]any{"got": fmt.Sprintf("%x", out.msg), "want": fmt.Sprintf("%x", c.msgs[op.msg])}))
			return
		case !fv.built || !bytes.Equal(fv.msg, out.msg):
			res.violate("seq delivered-message-differs-from-fresh-receiver", detail(step, nil))
			return
		}
		ls := refLocalShard(c.local, c.pubIdx[op.msg])
		if len(out.localData) != 1 || !bytes.Equal(out.localData[0], c.units[op.msg][ls].ShardData[0]) {
			res.violate("seq reconstruct-local-shard-wrong", detail(step, nil))
		}
		res.delivered++
		res.outcomes["delivered"] = true
		retained = append(retained, kept{out.msg, c.msgs[op.msg], step})
	}
	// end of sequence (1): what was delivered still reads the same
	for _, k := range retained {
		res.reread++
		if !bytes.Equal(k.got, k.want) {
			res.violate("seq delivered-message-changed-by-a-later-delivery", detail(k.step, nil))
		}
	}
	// end of sequence (2): the Scheduler still answers every lookup like the reference schedule, twice in a row
	type pubq struct {
		id     peer.ID
		idx    int // -1: not a member
		member string
	}
	qs := []pubq{{c.ids[c.pubIdx[0]].id, c.pubIdx[0], "member"}}
	if c.pubIdx[1] != c.pubIdx[0] {
		qs = append(qs, pubq{c.ids[c.pubIdx[1]].id, c.pubIdx[1], "member"})
	}
	qs = append(qs, pubq{c.outsider.id, -1, "non-member"})
	for _, q := range qs {
		for rep, ask := range []string{"first-ask", "asked-again"} {
			_ = rep
			var si propeller.ShardIndex
			var e error
			pan, pm := ev.Guard(func() { si, e = st.sched.ShardIndexForPublisher(q.id) })
			res.probeAnswers++
			bad := pan || (q.idx < 0 && e == nil) || (q.idx >= 0 && (e != nil || int(si) != refLocalShard(c.local, q.idx)))
			if bad {
				res.violate(fmt.Sprintf("seq scheduler-lookup-wrong-after-deliveries ShardIndexForPublisher %s %s", q.member, ask),
					detail(len(seq), map[string]any{"got": int(si), "err": fmt.Sprint(e), "panic": pm}))
			}
		}
		for s := 0; s <= c.T; s++ {
			for _, ask := range []string{"first-ask", "asked-again"} {
				var pid peer.ID
				var e error
				pan, pm := ev.Guard(func() { pid, e = st.sched.PeerForShardIndex(q.id, propeller.ShardIndex(s)) })
				res.probeAnswers++
				wantErr := q.idx < 0 || s >= c.T
				bad := pan || (wantErr && e == nil) || (!wantErr && (e != nil || pid != c.ids[refOwner(c.ids, q.idx, s)].id))
				if bad {
					res.violate(fmt.Sprintf("seq scheduler-lookup-wrong-after-deliveries PeerForShardIndex %s %s", q.member, ask),
						detail(len(seq), map[string]any{"shard": s, "got": pid.String(), "err": fmt.Sprint(e), "panic": pm}))
				}
			}
		}
	}
}

// ---- enumeration ----

func (c *seqCfg) enumerate(r *ev.Run, depth int) (cut bool) {
	A := len(c.ops)
	const chunk = 1024
	for k := 1; k <= depth; k++ {
		total := 1
		for i := 0; i < k; i++ {
			total *= A
		}
		nChunks := (total + chunk - 1) / chunk
		results := make([]*seqRes, nChunks)
		ev.Par(nChunks, runtime.GOMAXPROCS(0), func(ci int) {
			if r.OutOfTime() {
				return
			}
			res := &seqRes{outcomes: map[string]bool{}}
			seq := make([]int, k)
			for idx := ci * chunk; idx < min((ci+1)*chunk, total); idx++ {
				x := idx
				for pos := k - 1; pos >= 0; pos-- {
					seq[pos] = x % A
					x /= A
				}
				c.runSeq(seq, res)
			}
			results[ci] = res
		})
		for _, res := range results { // merged in enumeration order: the report does not depend on scheduling
			if res == nil {
				cut = true
				continue
			}
			for _, v := range res.viol {
				r.Violate(v.key, v.detail)
			}
			r.Add("evaluations", res.deliveries+res.probeAnswers+res.reread)
			r.Add("seq_sequences", res.seqs)
			r.Add("seq_sequences_with_an_earlier_delivery", res.nontrivial)
			r.Add("seq_deliveries", res.deliveries)
			r.Add("seq_accepted", res.accepted)
			r.Add("seq_rejected", res.rejected)
			r.Add("seq_messages_delivered", res.delivered)
			r.Add("seq_fresh_receiver_comparisons", res.freshCmp)
			r.Add("seq_scheduler_lookups_checked", res.probeAnswers)
			for o := range res.outcomes {
				r.Outcome("seq " + o)
			}
		}
		if cut {
			r.Incomplete(fmt.Sprintf("part D stopped at %s length %d", c.String(), k))
			return true
		}
	}
	c.fresh.Range(func(_, _ any) bool { r.Add("seq_fresh_receiver_runs", 1); return true }) // distinct (accepted-so-far, unit) cases
	return false
}

func dedupInts(in ...int) []int {
	seen := map[int]bool{}
	var out []int
	for _, x := range in {
		if !seen[x] {
			seen[x] = true
			out = append(out, x)
		}
	}
	return out
}

// partD returns the number of sequences in which at least one delivery precedes the judged one.
func partD(r *ev.Run) int64 {
	depth := ev.Pick(r, 3, 4)
	sizes := ev.Pick(r, []int{2, 3, 4, 7}, []int{2, 3, 4, 5, 7})
	maxA := 0
	run := func(N int, locals, positions []int, full bool, depth int) bool {
		ids := make([]ident, N)
		for i := range ids {
			ids[i] = mkIdent(100*N + i)
		}
		sort.Slice(ids, func(i, j int) bool { return ids[i].id < ids[j].id })
		outs := outsidersByPosition(ids)
		for _, local := range locals {
			for _, pos := range positions {
				o, ok := outs[pos]
				if !ok {
					r.Infra("part D: no non-member identity sorting at position %d of N=%d", pos, N)
				}
				c := newSeqCfg(r, ids, local, pos, o, full)
				maxA = max(maxA, len(c.ops))
				r.Add("seq_configs", 1)
				if c.enumerate(r, depth) {
					return true
				}
				if N == 4 && local == 0 && pos == 0 && !full {
					r.Sample(map[string]any{"part": "D", "config": c.String(), "depth": depth, "alphabet": c.names(seqRange(len(c.ops)))})
				}
			}
		}
		return false
	}
	all := func(n int) []int { return seqRange(n) }
	for _, N := range sizes {
		locals, positions := dedupInts(0, N/2, N-1), dedupInts(0, (N+1)/2, N)
		if r.Thorough() && N < 7 {
			locals, positions = all(N), all(N+1)
		}
		if run(N, locals, positions, false, depth) {
			break
		}
		if r.Thorough() && N <= 5 {
			// every shard, every wrong sender (members and the non-member), one level shallower
			if run(N, dedupInts(0, N/2, N-1), dedupInts(0, (N+1)/2, N), true, depth-1) {
				break
			}
		}
	}
	r.Set("seq_depth", int64(depth))
	r.Set("seq_alphabet_max", int64(maxA))
	return r.Get("seq_sequences_with_an_earlier_delivery")
}

func seqRange(n int) []int {
	out := make([]int, n)
	for i := range out {
		out[i] = i
	}
	return out
}
