package c19

import (
	pb "github.com/NethermindEth/juno/consensus/propeller/proto"
	"github.com/starknet-io/starknet-p2p-specs/p2p/proto/common"
)

type protoMut struct {
	name       string
	mustReject bool
	apply      func(u *pb.PropellerUnit)
}

func protoMutations() []protoMut {
	return []protoMut{
		{"shards-nil", true, func(u *pb.PropellerUnit) { u.Shards = nil }},
		{"shards-empty", true, func(u *pb.PropellerUnit) { u.Shards = &pb.ShardsOfPeer{} }},
		{"shard-entry-nil", true, func(u *pb.PropellerUnit) { u.Shards.Shards[0] = nil }},
		{"shard-nil-data", true, func(u *pb.PropellerUnit) { u.Shards.Shards[0].Data = nil }},
		{"two-shards-different-length", true, func(u *pb.PropellerUnit) {
			u.Shards.Shards = append(u.Shards.Shards, &pb.Shard{Data: []byte{1}})
		}},
		{"root-nil", true, func(u *pb.PropellerUnit) { u.MerkleRoot = nil }},
		{"root-short", true, func(u *pb.PropellerUnit) { u.MerkleRoot = &common.Hash256{Elements: []byte{1, 2, 3}} }},
		{"root-long", true, func(u *pb.PropellerUnit) {
			u.MerkleRoot = &common.Hash256{Elements: append(append([]byte{}, u.MerkleRoot.Elements...), 0)}
		}},
		{"proof-nil", true, func(u *pb.PropellerUnit) { u.MerkleProof = nil }},
		{"proof-sibling-short", true, func(u *pb.PropellerUnit) {
			if len(u.MerkleProof.Siblings) > 0 {
				u.MerkleProof.Siblings[0] = &common.Hash256{Elements: []byte{9}}
			} else {
				u.MerkleProof.Siblings = []*common.Hash256{{Elements: []byte{9}}}
			}
		}},
		{"proof-sibling-nil", true, func(u *pb.PropellerUnit) {
			u.MerkleProof.Siblings = append(u.MerkleProof.Siblings, nil)
		}},
		{"publisher-nil", true, func(u *pb.PropellerUnit) { u.Publisher = nil }},
		{"publisher-garbage", true, func(u *pb.PropellerUnit) { u.Publisher = &common.PeerID{Id: []byte{0xff, 0x00}} }},
		{"signature-nil", true, func(u *pb.PropellerUnit) { u.Signature = nil }},
		{"committee-nil", true, func(u *pb.PropellerUnit) { u.CommitteeId = nil }},
		{"committee-short", true, func(u *pb.PropellerUnit) { u.CommitteeId = &common.Hash256{Elements: []byte{1}} }},
		{"index-huge", true, func(u *pb.PropellerUnit) { u.Index = 1 << 40 }},
		{"index-wraps-uint32", true, func(u *pb.PropellerUnit) { u.Index += 1 << 32 }},
		{"nonce-changed", true, func(u *pb.PropellerUnit) { u.Nonce += 7 }},
	}
}
