package c19

// C19 — erasure-coded broadcast: exhaustive over message lengths x (data,parity) x all subsets of
// present shards, plus every single-field unit corruption, against the real propeller code.

import (
	"bytes"
	"crypto/ed25519"
	"crypto/sha256"
	"fmt"
	"runtime/debug"
	"sort"
	"testing"
	"time"

	"verif/mc/ev"

	"github.com/NethermindEth/juno/consensus/propeller"
	"github.com/NethermindEth/juno/consensus/propeller/merkle"
	"github.com/libp2p/go-libp2p/core/crypto"
	"github.com/libp2p/go-libp2p/core/peer"
	"google.golang.org/protobuf/proto"
)

type ident struct {
	priv crypto.PrivKey
	id   peer.ID
}

func mkIdent(i int) ident {
	seed := sha256.Sum256([]byte(fmt.Sprintf("verif-c19-%d", i)))
	sk := ed25519.NewKeyFromSeed(seed[:])
	priv, err := crypto.UnmarshalEd25519PrivateKey(sk)
	if err != nil {
		panic(err)
	}
	id, err := peer.IDFromPrivateKey(priv)
	if err != nil {
		panic(err)
	}
	return ident{priv, id}
}

func msgOf(n int, salt byte) []byte {
	m := make([]byte, n)
	for i := range m {
		m[i] = byte(i*7+3) ^ salt
	}
	if n > 0 {
		m[n-1] = 0 // trailing zero byte: indistinguishable from padding unless the length prefix is honoured
	}
	return m
}

func cloneUnit(u *propeller.Unit) *propeller.Unit {
	c := *u
	c.ShardData = make(propeller.ShardData, len(u.ShardData))
	for i, s := range u.ShardData {
		c.ShardData[i] = append(propeller.Shard(nil), s...)
	}
	c.MerkleProof.Siblings = append([]merkle.Hash(nil), u.MerkleProof.Siblings...)
	c.Signature = append(propeller.Signature(nil), u.Signature...)
	return &c
}

func lengths(d int, thorough bool) []int {
	set := map[int]bool{}
	hi := 4*2*d + 3
	if !thorough && hi > 19 {
		hi = 19
	}
	for l := 0; l <= hi; l++ {
		set[l] = true
	}
	for l := 120; l <= 135; l++ { // 1-byte -> 2-byte varint boundary at 128
		if thorough || l%3 == 0 || (l >= 126 && l <= 129) {
			set[l] = true
		}
	}
	var out []int
	for l := range set {
		out = append(out, l)
	}
	sort.Ints(out)
	return out
}

func TestCheck(t *testing.T) {
	r := ev.Start("C19", "exploration")
	r.SetBudget(ev.Pick(r, 150, 2400))
	pub := mkIdent(0)
	committee := propeller.CommitteeID(sha256.Sum256([]byte("committee")))
	maxD, maxP := ev.Pick(r, 3, 4), ev.Pick(r, 3, 4)

	// ---- Part E: configuration-size corners (large_test.go). Runs FIRST: it is cheap and must never be cut by the
	// internal deadline that bounds the exhaustive parts below.
	t0 := time.Now()
	largeNontrivial := partE(r)
	fmt.Printf("part E (configuration-size corners): %.1fs\n", time.Since(t0).Seconds()) // information only, no oracle

	// ---- Part A: reconstruction from every subset -----------------------------------------
	distinct := map[string]bool{}
	// A delivered message stays what it was: the last few successfully reconstructed messages are kept (the slices the
	// implementation returned, as the application would keep them) and re-read after EVERY later reconstruction.
	// Part A is one goroutine and the collector is off while it runs, so a buffer recycled through a package-level pool
	// or scratch variable is handed to the very next call - the re-read is deterministic.
	type kept struct {
		got, want []byte
		ck        string
	}
	var retained []kept
	oldGC := debug.SetGCPercent(-1)
	recheck := func(after string) {
		for _, k := range retained {
			r.Add("evaluations", 1)
			if !bytes.Equal(k.got, k.want) {
				r.Violate("delivered-message-changed-by-a-later-reconstruction", map[string]any{"delivered_by": k.ck, "changed_after": after,
					"now": fmt.Sprintf("%x", k.got[:min(len(k.got), 24)]), "was": fmt.Sprintf("%x", k.want[:min(len(k.want), 24)])})
			}
		}
	}
	for d := 1; d <= maxD; d++ {
		for p := 0; p <= maxP; p++ {
			for _, l := range lengths(d, r.Thorough()) {
				msg := msgOf(l, byte(d*16+p))
				var units []propeller.Unit
				var err error
				pan, pm := ev.Guard(func() {
					units, err = propeller.CreatePropellerUnits(pub.priv, &committee, propeller.Nonce(1), msg, d, p)
				})
				key := fmt.Sprintf("create d=%d p=%d len=%d", d, p, l)
				if pan {
					r.Violate("create-panic "+fmt.Sprintf("d=%d p=%d", d, p), map[string]any{"case": key, "panic": pm})
					continue
				}
				if err != nil {
					// p=0 is refused by the encoder library for some versions: recorded, not a violation,
					// unless a config with parity>0 is refused.
					r.Outcome("create-error")
					if p > 0 {
						r.Violate("create-error "+fmt.Sprintf("d=%d p=%d", d, p), map[string]any{"case": key, "err": err.Error()})
					}
					continue
				}
				if len(units) != d+p {
					r.Violate("create-count", map[string]any{"case": key, "got": len(units)})
					continue
				}
				// every shard's Merkle proof verifies against the signed root
				for i := range units {
					u := &units[i]
					root := merkle.Hash(u.MessageRoot)
					okRaw := len(u.ShardData) == 1 && u.MerkleProof.Verify(&root, u.ShardData[0], uint32(u.ShardIndex))
					okProto := u.MerkleProof.Verify(&root, u.ShardData.MarshalProto(), uint32(u.ShardIndex))
					if !okRaw && !okProto {
						r.Violate("honest-proof-does-not-verify", map[string]any{"case": key, "index": i})
					}
					pk := pub.priv.GetPublic()
					if e := propeller.VerifyMessageSignature(pk, &u.MessageRoot, &u.CommitteeID, propeller.Nonce(1), u.Signature); e != nil {
						r.Violate("honest-signature-does-not-verify", map[string]any{"case": key, "index": i, "err": e.Error()})
					}
					r.Add("evaluations", 1)
				}
				n := d + p
				for mask := 0; mask < 1<<n; mask++ {
					present := 0
					in := make([]*propeller.Unit, n)
					for i := 0; i < n; i++ {
						if mask>>i&1 == 1 {
							in[i] = cloneUnit(&units[i])
							present++
						}
					}
					locals := []int{0, n - 1}
					if r.Thorough() {
						locals = locals[:0]
						for i := 0; i < n; i++ {
							locals = append(locals, i)
						}
					}
					for _, local := range locals {
						in2 := make([]*propeller.Unit, n)
						for i := range in {
							if in[i] != nil {
								in2[i] = cloneUnit(in[i])
							}
						}
						var got []byte
						var sd propeller.ShardData
						var pr merkle.Proof
						var cerr error
						pan, pm := ev.Guard(func() {
							got, sd, pr, cerr = propeller.ConstructMessageFromUnits(in2, propeller.ShardIndex(local), d, p)
						})
						r.Add("evaluations", 1)
						ck := fmt.Sprintf("d=%d p=%d len=%d mask=%0*b local=%d", d, p, l, n, mask, local)
						recheck(ck)
						if !pan && cerr == nil && len(got) > 0 && bytes.Equal(got, msg) {
							if len(retained) == 4 {
								retained = retained[1:]
							}
							retained = append(retained, kept{got, bytes.Clone(msg), ck})
						}
						switch {
						case pan:
							r.Outcome("panic")
							shape := "shard0-present"
							if mask&1 == 0 {
								shape = "shard0-missing"
							}
							suff := "sufficient"
							if present < d {
								suff = "insufficient"
							}
							if present == 0 {
								suff = "none"
							}
							r.Violate(fmt.Sprintf("reconstruct-panic %s %s", shape, suff), map[string]any{"case": ck, "panic": pm})
						case present >= d:
							if cerr != nil {
								r.Outcome("sufficient-error")
								r.Violate("reconstruct-error-with-sufficient-shards", map[string]any{"case": ck, "err": cerr.Error()})
							} else if !bytes.Equal(got, msg) {
								r.Outcome("sufficient-wrong")
								r.Violate("reconstruct-wrong-message", map[string]any{"case": ck, "got": got, "want": msg})
							} else {
								r.Outcome("sufficient-ok")
								// returned local shard + proof must be the publisher's
								root := merkle.Hash(units[local].MessageRoot)
								if len(sd) != 1 || !bytes.Equal(sd[0], units[local].ShardData[0]) ||
									!(pr.Verify(&root, sd[0], uint32(local)) || pr.Verify(&root, sd.MarshalProto(), uint32(local))) {
									r.Violate("reconstruct-local-shard-or-proof-wrong", map[string]any{"case": ck})
								}
								if present > 0 && present < n {
									distinct[fmt.Sprintf("%d/%d/%d/%d", d, p, l, mask)] = true
								}
							}
						default:
							if cerr == nil {
								r.Outcome("insufficient-returned")
								r.Violate("reconstruct-succeeds-below-threshold", map[string]any{"case": ck, "got": got})
							} else {
								r.Outcome("insufficient-error")
								distinct[fmt.Sprintf("%d/%d/%d/%d", d, p, l, mask)] = true
							}
						}
					}
				}
				if l == 5 && p == 2 {
					r.Sample(map[string]any{"d": d, "p": p, "len": l, "subsets": 1 << n, "msg": msg})
				}
			}
			if r.OutOfTime() {
				r.Incomplete(fmt.Sprintf("part A stopped at d=%d p=%d", d, p))
			}
		}
	}

	debug.SetGCPercent(oldGC)

	// ---- Part C: shard sizes around every power of two (and around 500, where a fixed-size scratch buffer would end) ----
	partC(r, pub, &committee)

	// ---- Part D: every sequence of deliveries on one long-lived receiver stack (seq_test.go) ----
	seqNontrivial := partD(r)

	// ---- Part B: validator accepts honest units, rejects every single-field corruption ----
	partB(r, distinct)

	r.Set("distinct_nontrivial", int64(len(distinct))+seqNontrivial+largeNontrivial)
	r.Set("rule", "cases = (data,parity,len,subset-mask[,local]) reconstructions + (committee size, publisher, receiver, unit, corruption) validations; "+
		"non-trivial = subset neither empty nor full (something must be recovered or refused) or a corruption that changes the unit; "+
		"part C: message lengths putting the shard / Merkle-leaf size at and around 32..1024 and 500: signed root == independent SHA-256-tagged reference root, proofs verify under the independent verifier, "+
		"a shard altered in its first / middle / last bytes or length verifies under neither, message rebuilt from data-only / parity-only / mixed subsets; "+
		"delivered messages are re-read after every later reconstruction")
	r.Assume = append(r.Assume, "ed25519/sha256/klauspost reedsolomon primitives trusted", "one shard per unit (as the code states)")
	r.Finish()
}

// router mirrors Processor.ProcessMessage/createSubprocessor: one validator per message key
// (committee, publisher, root, nonce), created with the key's publisher, refused when the
// publisher has no shard assignment for the local peer.
type mkey struct {
	c propeller.CommitteeID
	p peer.ID
	r propeller.MessageRoot
	n propeller.Nonce
}
type router struct {
	sched *propeller.Scheduler
	v     map[mkey]*propeller.UnitValidator
}

func newRouter(s *propeller.Scheduler) *router {
	return &router{s, map[mkey]*propeller.UnitValidator{}}
}

func (ro *router) validate(u *propeller.Unit, sender peer.ID) error {
	k := mkey{u.CommitteeID, u.Publisher, u.MessageRoot, u.Nonce}
	v, ok := ro.v[k]
	if !ok {
		if _, err := ro.sched.ShardIndexForPublisher(u.Publisher); err != nil {
			return err
		}
		nv := propeller.NewValidator(u.Publisher, ro.sched)
		v = &nv
		ro.v[k] = v
	}
	return v.Validate(u, sender)
}

func sameUnit(a, b *propeller.Unit) bool {
	if a.CommitteeID != b.CommitteeID || a.Publisher != b.Publisher || a.MessageRoot != b.MessageRoot ||
		a.ShardIndex != b.ShardIndex || a.Nonce != b.Nonce || !bytes.Equal(a.Signature, b.Signature) ||
		len(a.ShardData) != len(b.ShardData) || len(a.MerkleProof.Siblings) != len(b.MerkleProof.Siblings) {
		return false
	}
	for i := range a.ShardData {
		if !bytes.Equal(a.ShardData[i], b.ShardData[i]) {
			return false
		}
	}
	for i := range a.MerkleProof.Siblings {
		if a.MerkleProof.Siblings[i] != b.MerkleProof.Siblings[i] {
			return false
		}
	}
	return true
}

type corruption struct {
	name  string
	apply func(u *propeller.Unit, other *propeller.Unit, ids []ident) bool // false = not applicable
}

func corruptions() []corruption {
	return []corruption{
		{"shard-first-byte", func(u, _ *propeller.Unit, _ []ident) bool {
			if len(u.ShardData[0]) == 0 {
				return false
			}
			u.ShardData[0][0] ^= 1
			return true
		}},
		{"shard-last-byte", func(u, _ *propeller.Unit, _ []ident) bool {
			s := u.ShardData[0]
			if len(s) == 0 {
				return false
			}
			s[len(s)-1] ^= 0x80
			return true
		}},
		{"shard-truncated", func(u, _ *propeller.Unit, _ []ident) bool {
			s := u.ShardData[0]
			if len(s) == 0 {
				return false
			}
			u.ShardData[0] = s[:len(s)-1]
			return true
		}},
		{"shard-extended", func(u, _ *propeller.Unit, _ []ident) bool {
			u.ShardData[0] = append(u.ShardData[0], 0)
			return true
		}},
		{"shard-swapped-with-other-unit", func(u, o *propeller.Unit, _ []ident) bool {
			if o == nil || bytes.Equal(o.ShardData[0], u.ShardData[0]) {
				return false
			}
			u.ShardData[0] = append(propeller.Shard(nil), o.ShardData[0]...)
			return true
		}},
		{"two-shards", func(u, _ *propeller.Unit, _ []ident) bool {
			u.ShardData = append(u.ShardData, append(propeller.Shard(nil), u.ShardData[0]...))
			return true
		}},
		{"no-shards", func(u, _ *propeller.Unit, _ []ident) bool { u.ShardData = nil; return true }},
		{"proof-sibling0-flip", func(u, _ *propeller.Unit, _ []ident) bool {
			if len(u.MerkleProof.Siblings) == 0 {
				return false
			}
			u.MerkleProof.Siblings[0][0] ^= 1
			return true
		}},
		{"proof-last-sibling-flip", func(u, _ *propeller.Unit, _ []ident) bool {
			n := len(u.MerkleProof.Siblings)
			if n == 0 {
				return false
			}
			u.MerkleProof.Siblings[n-1][31] ^= 1
			return true
		}},
		{"proof-truncated", func(u, _ *propeller.Unit, _ []ident) bool {
			n := len(u.MerkleProof.Siblings)
			if n == 0 {
				return false
			}
			u.MerkleProof.Siblings = u.MerkleProof.Siblings[:n-1]
			return true
		}},
		{"proof-of-other-unit", func(u, o *propeller.Unit, _ []ident) bool {
			if o == nil {
				return false
			}
			u.MerkleProof.Siblings = append([]merkle.Hash(nil), o.MerkleProof.Siblings...)
			return true
		}},
		{"index-of-other-unit", func(u, o *propeller.Unit, _ []ident) bool {
			if o == nil {
				return false
			}
			u.ShardIndex = o.ShardIndex
			return true
		}},
		{"index-out-of-range", func(u, _ *propeller.Unit, _ []ident) bool { u.ShardIndex = 1 << 20; return true }},
		{"signature-flip", func(u, _ *propeller.Unit, _ []ident) bool {
			if len(u.Signature) == 0 {
				return false
			}
			u.Signature[0] ^= 1
			return true
		}},
		{"signature-empty", func(u, _ *propeller.Unit, _ []ident) bool { u.Signature = nil; return true }},
		{"committee-flip", func(u, _ *propeller.Unit, _ []ident) bool { u.CommitteeID[0] ^= 1; return true }},
		{"root-flip", func(u, _ *propeller.Unit, _ []ident) bool { u.MessageRoot[5] ^= 1; return true }},
		{"nonce-changed", func(u, _ *propeller.Unit, _ []ident) bool { u.Nonce++; return true }},
		{"publisher-other-member", func(u, _ *propeller.Unit, ids []ident) bool {
			for _, x := range ids {
				if x.id != u.Publisher {
					u.Publisher = x.id
					return true
				}
			}
			return false
		}},
		{"publisher-outsider", func(u, _ *propeller.Unit, _ []ident) bool { u.Publisher = mkIdent(999).id; return true }},
	}
}

func partB(r *ev.Run, distinct map[string]bool) {
	committee := propeller.CommitteeID(sha256.Sum256([]byte("committee-b")))
	sizes := ev.Pick(r, []int{2, 3, 4, 7}, []int{2, 3, 4, 5, 7, 10, 13})
	nonces := []propeller.Nonce{0, 1, 1_700_000_000_000_000_000}
	for _, N := range sizes {
		ids := make([]ident, N)
		for i := range ids {
			ids[i] = mkIdent(100*N + i)
		}
		sort.Slice(ids, func(i, j int) bool { return ids[i].id < ids[j].id })
		mkSched := func(local int) *propeller.Scheduler {
			pcs := make([]propeller.PeerCommittee, N)
			for i := range ids {
				pcs[i] = propeller.PeerCommittee{ID: ids[i].id, Stake: 1}
			}
			s, err := propeller.NewScheduler(ids[local].id, pcs)
			if err != nil {
				r.Infra("scheduler: %v", err)
			}
			return s
		}
		for pubIdx := 0; pubIdx < N; pubIdx++ {
			if r.Quick() && pubIdx != 0 && pubIdx != N-1 && pubIdx != N/2 {
				continue
			}
			for _, nonce := range nonces {
				s0 := mkSched((pubIdx + 1) % N)
				d, p := s0.NumDataShards(), s0.NumCodingShards()
				msg := msgOf(2*d*3+1, byte(N))
				units, err := propeller.CreatePropellerUnits(ids[pubIdx].priv, &committee, nonce, msg, d, p)
				if err != nil {
					if p > 0 {
						r.Violate(fmt.Sprintf("create-error N=%d", N), err.Error())
					}
					continue
				}
				for local := 0; local < N; local++ {
					if local == pubIdx {
						continue
					}
					sched := mkSched(local)
					// (1) every honest unit from its legitimate sender is accepted, in one validator lifetime
					v := newRouter(sched)
					for i := range units {
						u := cloneUnit(&units[i])
						owner, _ := sched.PeerForShardIndex(ids[pubIdx].id, u.ShardIndex)
						sender := owner
						if owner == ids[local].id {
							sender = ids[pubIdx].id // direct shard from the publisher
						}
						var verr error
						pan, pm := ev.Guard(func() { verr = v.validate(u, sender) })
						r.Add("evaluations", 1)
						ck := fmt.Sprintf("N=%d pub=%d local=%d unit=%d nonce=%d", N, pubIdx, local, i, nonce)
						if pan {
							r.Violate("validate-panic honest", map[string]any{"case": ck, "panic": pm})
						} else if verr != nil {
							r.Outcome("honest-rejected")
							nz := "nonce-zero"
							if nonce != 0 {
								nz = "nonce-nonzero"
							}
							r.Violate("honest-unit-rejected "+nz, map[string]any{"case": ck, "err": verr.Error()})
						} else {
							r.Outcome("honest-accepted")
						}
						// duplicate delivery must be rejected
						pan, _ = ev.Guard(func() { verr = v.validate(cloneUnit(&units[i]), sender) })
						if !pan && verr == nil {
							r.Violate("duplicate-index-accepted", map[string]any{"case": ck})
						}
					}
					// (2) single-field corruptions: fresh validator, corrupted unit first, and after one honest unit
					for i := range units {
						if r.Quick() && i > 1 && i != len(units)-1 {
							continue
						}
						var other *propeller.Unit
						if len(units) > 1 {
							other = &units[(i+1)%len(units)]
						}
						for _, c := range corruptions() {
							for _, warm := range []bool{false, true} {
								u := cloneUnit(&units[i])
								if !c.apply(u, other, ids) || sameUnit(u, &units[i]) {
									continue // not applicable, or a no-op for this unit (e.g. RS(1,p) shards are all equal)
								}
								v := newRouter(sched)
								if warm {
									if other == nil {
										continue
									}
									o := cloneUnit(other)
									ow, _ := sched.PeerForShardIndex(ids[pubIdx].id, o.ShardIndex)
									snd := ow
									if ow == ids[local].id {
										snd = ids[pubIdx].id
									}
									ev.Guard(func() { v.validate(o, snd) })
								}
								owner, _ := sched.PeerForShardIndex(ids[pubIdx].id, units[i].ShardIndex)
								sender := owner
								if owner == ids[local].id {
									sender = ids[pubIdx].id
								}
								var verr error
								pan, pm := ev.Guard(func() { verr = v.validate(u, sender) })
								r.Add("evaluations", 1)
								ck := fmt.Sprintf("N=%d pub=%d local=%d unit=%d nonce=%d corruption=%s warm=%v", N, pubIdx, local, i, nonce, c.name, warm)
								distinct["B/"+ck] = true
								if pan {
									r.Outcome("corrupt-panic")
									r.Violate("validate-panic "+c.name, map[string]any{"case": ck, "panic": pm})
								} else if verr == nil {
									r.Outcome("corrupt-accepted")
									r.Violate("corrupted-unit-accepted "+c.name, map[string]any{"case": ck})
								} else {
									r.Outcome("corrupt-rejected")
								}
								// a rejected unit must not stop the receiver: the SAME validator(s) must still accept the
								// honest unit of that index afterwards (unless the corrupted unit was the honest one's twin
								// that got accepted, which is reported above)
								if !pan && verr != nil {
									var herr error
									hp, hm := ev.Guard(func() { herr = v.validate(cloneUnit(&units[i]), sender) })
									r.Add("evaluations", 1)
									if hp {
										r.Violate("validate-panic honest-after-rejected "+c.name, map[string]any{"case": ck, "panic": hm})
									} else if herr != nil {
										r.Outcome("honest-refused-after-rejected-unit")
										r.Violate("rejected-unit-blocks-the-honest-unit-of-its-index "+c.name, map[string]any{"case": ck, "err": herr.Error()})
									} else {
										r.Outcome("honest-accepted-after-rejected-unit")
									}
								}
								// a corrupted unit can never make reconstruction deliver a different message
								in := make([]*propeller.Unit, len(units))
								for j := range units {
									in[j] = cloneUnit(&units[j])
								}
								in[i] = u
								if len(u.ShardData) == 0 {
									continue // structurally unusable; validator already refused it
								}
								var got []byte
								var cerr error
								pan, pm = ev.Guard(func() { got, _, _, cerr = propeller.ConstructMessageFromUnits(in, 0, d, p) })
								r.Add("evaluations", 1)
								if pan {
									r.Violate("reconstruct-panic corrupted "+c.name, map[string]any{"case": ck, "panic": pm})
								} else if cerr == nil && !bytes.Equal(got, msg) {
									r.Violate("corrupted-unit-changes-message "+c.name, map[string]any{"case": ck})
								}
							}
						}
						// wrong sender: every committee member other than the legitimate one
						for sidx := range ids {
							owner, _ := sched.PeerForShardIndex(ids[pubIdx].id, units[i].ShardIndex)
							legit := owner
							if owner == ids[local].id {
								legit = ids[pubIdx].id
							}
							if ids[sidx].id == legit {
								continue
							}
							v := newRouter(sched)
							var verr error
							pan, pm := ev.Guard(func() { verr = v.validate(cloneUnit(&units[i]), ids[sidx].id) })
							r.Add("evaluations", 1)
							ck := fmt.Sprintf("N=%d pub=%d local=%d unit=%d sender=%d", N, pubIdx, local, i, sidx)
							distinct["S/"+ck] = true
							if pan {
								r.Violate("validate-panic wrong-sender", map[string]any{"case": ck, "panic": pm})
							} else if verr == nil {
								r.Violate("wrong-sender-accepted", map[string]any{"case": ck})
							} else {
								// any peer can send such a unit: it must not use up the shard index
								owner, _ := sched.PeerForShardIndex(ids[pubIdx].id, units[i].ShardIndex)
								legit := owner
								if owner == ids[local].id {
									legit = ids[pubIdx].id
								}
								var herr error
								hp, _ := ev.Guard(func() { herr = v.validate(cloneUnit(&units[i]), legit) })
								r.Add("evaluations", 1)
								if hp || herr != nil {
									r.Violate("rejected-unit-blocks-the-honest-unit-of-its-index wrong-sender", map[string]any{"case": ck, "err": fmt.Sprint(herr)})
								}
							}
						}
					}
					// (3) protobuf level: round trip and malformed wire units never panic
					for i := range units {
						pu := units[i].ToProto()
						b, _ := proto.Marshal(pu)
						_ = b
						var back propeller.Unit
						var perr error
						pan, pm := ev.Guard(func() { back, perr = propeller.UnitFromProto(pu) })
						r.Add("evaluations", 1)
						if pan || perr != nil {
							r.Violate("proto-roundtrip-fails", map[string]any{"unit": i, "panic": pm, "err": fmt.Sprint(perr)})
						} else if back.ShardIndex != units[i].ShardIndex || back.MessageRoot != units[i].MessageRoot ||
							!bytes.Equal(back.ShardData[0], units[i].ShardData[0]) || back.Publisher != units[i].Publisher ||
							back.CommitteeID != units[i].CommitteeID || !bytes.Equal(back.Signature, units[i].Signature) {
							r.Violate("proto-roundtrip-differs", map[string]any{"unit": i})
						}
						if local == (pubIdx+1)%N && i == 0 {
							for _, m := range protoMutations() {
								pu2 := units[i].ToProto()
								m.apply(pu2)
								var u2 propeller.Unit
								var e2 error
								pan, pm := ev.Guard(func() { u2, e2 = propeller.UnitFromProto(pu2) })
								r.Add("evaluations", 1)
								distinct[fmt.Sprintf("P/N=%d pub=%d %s", N, pubIdx, m.name)] = true
								if pan {
									r.Outcome("proto-panic")
									r.Violate("unit-from-proto-panic "+m.name, map[string]any{"N": N, "panic": pm})
									continue
								}
								if e2 != nil {
									r.Outcome("proto-rejected")
									continue
								}
								// decoded: the validator must still refuse it, without panicking
								v := newRouter(sched)
								owner, _ := sched.PeerForShardIndex(ids[pubIdx].id, units[i].ShardIndex)
								sender := owner
								if owner == ids[local].id {
									sender = ids[pubIdx].id
								}
								var verr error
								pan, pm = ev.Guard(func() { verr = v.validate(&u2, sender) })
								if pan {
									r.Violate("validate-panic proto "+m.name, map[string]any{"N": N, "panic": pm})
								} else if verr == nil && sameUnit(&u2, &units[i]) {
									// the wire mutation is erased by decoding (e.g. index + 2^32): the decoded unit IS the honest one
									r.Outcome("proto-decoded-to-honest-unit")
								} else if verr == nil && m.mustReject {
									r.Violate("corrupted-wire-unit-accepted "+m.name, map[string]any{"N": N})
								} else {
									r.Outcome("proto-decoded-then-rejected")
								}
							}
						}
					}
				}
				if r.OutOfTime() {
					r.Incomplete(fmt.Sprintf("part B stopped at N=%d pub=%d", N, pubIdx))
					return
				}
			}
		}
		r.Sample(map[string]any{"part": "B", "N": N, "corruptions": len(corruptions()), "proto_mutations": len(protoMutations())})
	}
}

// ---- independent Merkle reference (SHA-256 tagging scheme of the Propeller specification) ----

func refLeaf(data []byte) [32]byte {
	h := sha256.New()
	h.Write([]byte("<leaf>"))
	h.Write(data)
	h.Write([]byte("</leaf>"))
	var out [32]byte
	copy(out[:], h.Sum(nil))
	return out
}

func refNode(l, r [32]byte) [32]byte {
	h := sha256.New()
	h.Write([]byte("<node><left>"))
	h.Write(l[:])
	h.Write([]byte("</left><right>"))
	h.Write(r[:])
	h.Write([]byte("</right></node>"))
	var out [32]byte
	copy(out[:], h.Sum(nil))
	return out
}

// refRoot: leaves padded to the next power of two with the hash of the empty leaf, hashed pairwise bottom-up.
func refRoot(leaves [][]byte) [32]byte {
	n := 1
	for n < len(leaves) {
		n *= 2
	}
	level := make([][32]byte, n)
	for i := range level {
		if i < len(leaves) {
			level[i] = refLeaf(leaves[i])
		} else {
			level[i] = refLeaf(nil)
		}
	}
	for len(level) > 1 {
		next := make([][32]byte, len(level)/2)
		for i := range next {
			next[i] = refNode(level[2*i], level[2*i+1])
		}
		level = next
	}
	return level[0]
}

func refVerify(root [32]byte, leaf []byte, index uint32, sib []merkle.Hash) bool {
	cur := refLeaf(leaf)
	for _, s := range sib {
		if index%2 == 0 {
			cur = refNode(cur, [32]byte(s))
		} else {
			cur = refNode([32]byte(s), cur)
		}
		index /= 2
	}
	return cur == root
}

// partC: for message lengths that put the shard size (and the Merkle leaf = encoded shard) at and around every power
// of two up to 1024 and around 500: the signed root is the independent reference root of the encoded shards, every
// proof verifies under the independent verifier, a shard altered in its first / middle / last byte (or cut / extended
// by one byte) verifies under neither juno's Proof.Verify nor the reference, and the message is rebuilt from the data
// shards alone, the parity shards alone and two mixed subsets.
func partC(r *ev.Run, pub ident, committee *propeller.CommitteeID) {
	type cfg struct{ d, p int }
	cfgs := []cfg{{2, 2}}
	if r.Thorough() {
		cfgs = []cfg{{1, 1}, {2, 2}, {3, 2}, {2, 4}}
	}
	var sizes []int
	for _, c := range []int{32, 64, 128, 256, 500, 512, 1024} {
		w := 3
		if c == 500 || c == 512 {
			w = 14
		}
		for s := c - w; s <= c+w; s++ {
			sizes = append(sizes, s)
		}
	}
	for _, c := range cfgs {
		n := c.d + c.p
		seen := map[int]bool{}
		for _, sz := range sizes {
			for delta := 0; delta < 2*c.d+3; delta++ {
				l := c.d*sz - delta
				if l < 0 || seen[l] {
					continue
				}
				seen[l] = true
				msg := msgOf(l, byte(l))
				units, err := propeller.CreatePropellerUnits(pub.priv, committee, propeller.Nonce(7), msg, c.d, c.p)
				if err != nil || len(units) != n {
					r.Violate("create-error size-sweep", map[string]any{"d": c.d, "p": c.p, "len": l, "err": fmt.Sprint(err)})
					continue
				}
				ck := fmt.Sprintf("d=%d p=%d len=%d shard=%dB", c.d, c.p, l, len(units[0].ShardData[0]))
				leaves := make([][]byte, n)
				for i := range units {
					leaves[i] = units[i].ShardData.MarshalProto()
				}
				want := refRoot(leaves)
				for i := range units {
					u := &units[i]
					r.Add("evaluations", 1)
					r.Add("size_sweep_units", 1)
					if [32]byte(u.MessageRoot) != want {
						r.Violate("signed-root-is-not-the-specified-merkle-root", map[string]any{"case": ck, "unit": i})
					}
					root := merkle.Hash(u.MessageRoot)
					if !refVerify(want, leaves[i], uint32(u.ShardIndex), u.MerkleProof.Siblings) || !u.MerkleProof.Verify(&root, leaves[i], uint32(u.ShardIndex)) {
						r.Violate("honest-proof-does-not-verify size-sweep", map[string]any{"case": ck, "unit": i})
					}
					sh := u.ShardData[0]
					for _, t := range []struct {
						name string
						mut  func([]byte) []byte
					}{
						{"first-byte", func(b []byte) []byte { b[0] ^= 1; return b }},
						{"middle-byte", func(b []byte) []byte { b[len(b)/2] ^= 0x10; return b }},
						{"last-byte", func(b []byte) []byte { b[len(b)-1] ^= 0x80; return b }},
						{"last-6th-byte", func(b []byte) []byte { b[max(len(b)-6, 0)] ^= 2; return b }},
						{"cut-by-one", func(b []byte) []byte { return b[:len(b)-1] }},
						{"extended-by-one", func(b []byte) []byte { return append(b, 0) }},
					} {
						if len(sh) == 0 {
							continue
						}
						bad := propeller.ShardData{propeller.Shard(t.mut(bytes.Clone(sh)))}
						leaf := bad.MarshalProto()
						r.Add("evaluations", 1)
						if u.MerkleProof.Verify(&root, leaf, uint32(u.ShardIndex)) {
							r.Violate("altered-shard-verifies-against-the-signed-root "+t.name, map[string]any{"case": ck, "unit": i})
						}
						if refVerify(want, leaf, uint32(u.ShardIndex), u.MerkleProof.Siblings) {
							r.Infra("reference verifier accepts an altered shard (%s %s)", ck, t.name)
						}
					}
				}
				for _, mask := range []int{1<<c.d - 1, (1<<n - 1) &^ (1<<c.d - 1), 0b0101 | 1<<(n-1), 0b1010 | 1} {
					in := make([]*propeller.Unit, n)
					present := 0
					for i := 0; i < n; i++ {
						if mask>>i&1 == 1 {
							in[i] = cloneUnit(&units[i])
							present++
						}
					}
					if present < c.d {
						continue
					}
					var got []byte
					var cerr error
					pan, pm := ev.Guard(func() { got, _, _, cerr = propeller.ConstructMessageFromUnits(in, 0, c.d, c.p) })
					r.Add("evaluations", 1)
					if pan || cerr != nil || !bytes.Equal(got, msg) {
						r.Violate("reconstruct-wrong-message size-sweep", map[string]any{"case": ck, "mask": fmt.Sprintf("%b", mask), "panic": pm, "err": fmt.Sprint(cerr)})
					}
				}
			}
		}
	}
}
