package c07

// Replaced-block histories on ONE long-lived Blockchain.
//
// Every other chain-level phase of this package reads a block back from the Blockchain instance that stored it while
// the chain only grows (or shrinks by one block that is put back unchanged / replaced above a fixed base block), and the
// shared history engine (mc/hist) opens a fresh Blockchain for every transition. What neither does: keep ONE instance
// alive - together with whatever it remembers in memory between calls - while the blocks under it are REPLACED: reverted,
// down to and including block 0, and different blocks stored at the same heights, with reads before, between and after.
//
// Enumerated here (exhaustively, nothing sampled): all operation sequences of length D over the alphabet
//
//	S<v>  store variant v of the next block (V variants per height; every variant differs from its siblings in
//	      transactions, receipts, state diff and declared classes; siblings share one transaction at a different index
//	      with a different receipt, and a transaction of a replaced block comes back one block later)
//	R     RevertHead (allowed whenever the chain is not empty, so block 0 is reverted too)
//	Q     read: every Reader accessor for every block of the chain (checkReader), the by-number accessors one above
//	      the head, and the by-hash / by-transaction-hash accessors for everything this history stored earlier and
//	      replaced since
//
// with the only restrictions "R needs a block", "S needs height < H", "no Q right after Q"; a final Q is appended when
// the sequence does not end in one. Q being an operation (not an automatic observation) means every store / revert is
// explored both with and without a read in front of it. Shorter histories are prefixes: p+Q is a prefix of some
// enumerated sequence for every valid p shorter than D. Each sequence is replayed from an empty database on a fresh
// Blockchain that then lives for the whole sequence, on every node configuration (3 backends x 2 state backends); the
// write path (SanityCheckNewHeight+Store / Finalise) and the protocol version are per-run parameters (quick: rotating
// over the node configurations so that every (state backend, write path) pair and every version occurs; thorough: node
// configuration x write path in full, the version rotating).
//
// Oracle: the same untouched reference copies as everywhere else in this package (juno only sees deep copies, put);
// in a Q every accessor must return the block that is stored NOW, and partial-decoder accessors (hash, count, state
// root, execution status ...) must agree with the full-decoder ones because both are compared with the same reference.
// For what is not stored any more the only demand is "no value": an error (any error) instead of a block, header,
// transaction or receipt - a value there could only be one that was replaced.

import (
	"fmt"
	"strings"
	"sync"
	"sync/atomic"

	"verif/mc/chain"
	"verif/mc/ev"

	"github.com/NethermindEth/juno/blockchain"
	"github.com/NethermindEth/juno/core"
	"github.com/NethermindEth/juno/core/felt"
	"github.com/NethermindEth/juno/db"
	"github.com/NethermindEth/juno/l1/eth"
)

const replaceLevel = "replaced-block-history"

// rnode = one block of the variant tree: variant path from genesis, e.g. "10" = variant 1 at height 0, variant 0 at 1.
type rnode struct {
	path string
	e    *chain.Entry
	cm   *core.BlockCommitments
	kids []*rnode
}

func evA(keys ...felt.Felt) chain.EvSpec {
	return chain.EvSpec{From: chain.AddrA, Keys: keys, Data: []felt.Felt{chain.FV(0xDA7A)}}
}

func evB(keys ...felt.Felt) chain.EvSpec {
	return chain.EvSpec{From: chain.AddrB, Keys: keys, Data: []felt.Felt{chain.FV(0xDA7B), chain.FV(1)}}
}

// variantTxs: the transaction list of variant v at height n on a parent of variant pv (-1: none).
//
//	v=0: [A_n, L_n] (+ U_{n-1} when the parent is not the variant that already carries it)
//	v=1: [L_n (other receipt, other index), U_n (reverted), D_n]
//	v=2: [] (an empty block)
//
// so a replacement changes count, order, receipts and which block / index a transaction hash resolves to.
func variantTxs(n uint64, v, pv int) []chain.TxSpec {
	A := chain.TxSpec{Kind: "invoke3", Salt: n*16 + 1, Events: []chain.EvSpec{evA(chain.Key1)}}
	L := chain.TxSpec{Kind: "l1handler0", Salt: n*16 + 2}
	switch v {
	case 0:
		txs := []chain.TxSpec{A, L}
		if n > 0 && pv != 1 {
			txs = append(txs, chain.TxSpec{Kind: "deployacc3", Salt: (n-1)*16 + 3, Events: []chain.EvSpec{evB(chain.Key2)}})
		}
		return txs
	case 1:
		L.Msgs, L.Events = 1, []chain.EvSpec{evB(chain.Key1, chain.Key2), evA(chain.Key2)}
		return []chain.TxSpec{L,
			{Kind: "deployacc3", Salt: n*16 + 3, Events: []chain.EvSpec{evB(chain.Key1)}, Reverted: true},
			{Kind: "declare2", Salt: n*16 + 4}}
	default:
		return nil
	}
}

// variantSpec: the state diff of variant v comes from the shared alphabet of valid next blocks on the parent state
// (different entries for different variants), the transactions from variantTxs.
func variantSpec(parent *chain.Entry, n uint64, v, pv int, version string) (chain.BlockSpec, string) {
	var st *chain.State
	if parent != nil {
		st = parent.State
	}
	var alpha []chain.Named
	for _, a := range chain.Alphabet(st, n, version) {
		if a.Name != "sys1.clear" { // known-exotic history, not this property's subject
			alpha = append(alpha, a)
		}
	}
	// distinct entries for v = 0, 1, 2 (independent of how many variants a tier uses): the alphabet never has fewer than
	// 4 entries (empty, deployA | A's writes, sys1.write, sys2.write); stride 2 needs 6
	stride := 1
	if len(alpha) >= 6 {
		stride = 2
	}
	a := alpha[(1+stride*v+int(n))%len(alpha)]
	spec := a.Spec
	spec.Txs = variantTxs(n, v, pv)
	spec.Timestamp = 1000 + n*10 + uint64(v)
	return spec, a.Name
}

func buildVariantTree(version string, variants, maxHeight int) (*rnode, int, error) {
	root := &rnode{}
	count := 0
	var grow func(p *rnode, n int, pv int) error
	grow = func(p *rnode, n int, pv int) error {
		if n >= maxHeight {
			return nil
		}
		names := map[string]bool{}
		for v := 0; v < variants; v++ {
			spec, name := variantSpec(p.e, uint64(n), v, pv, version)
			if names[name] {
				return fmt.Errorf("variants of %q+%d share the state diff %s", p.path, v, name)
			}
			names[name] = true
			e, err := chain.Build(p.e, spec)
			if err != nil {
				return fmt.Errorf("variant %q+%d (%s): %w", p.path, v, name, err)
			}
			cm, err := customise(e, nil, nil)
			if err != nil {
				return err
			}
			k := &rnode{path: p.path + string(rune('0'+v)), e: e, cm: cm}
			p.kids = append(p.kids, k)
			count++
			if err := grow(k, n+1, v); err != nil {
				return err
			}
		}
		return nil
	}
	return root, count, grow(root, 0, -1)
}

// rop: 0..variants-1 = store variant; opR, opQ.
const (
	opR = -1
	opQ = -2
)

func opName(o int) string {
	switch o {
	case opR:
		return "R"
	case opQ:
		return "Q"
	}
	return fmt.Sprintf("S%d", o)
}

func seqName(s []int) string {
	var p []string
	for _, o := range s {
		p = append(p, opName(o))
	}
	return strings.Join(p, " ")
}

// replaceSequences: every sequence of exactly depth operations under the three restrictions.
func replaceSequences(depth, variants, maxHeight int) [][]int {
	var out [][]int
	var cur []int
	var rec func(height int)
	rec = func(height int) {
		if len(cur) == depth {
			out = append(out, append([]int(nil), cur...))
			return
		}
		if height < maxHeight {
			for v := 0; v < variants; v++ {
				cur = append(cur, v)
				rec(height + 1)
				cur = cur[:len(cur)-1]
			}
		}
		if height > 0 {
			cur = append(cur, opR)
			rec(height - 1)
			cur = cur[:len(cur)-1]
		}
		if len(cur) == 0 || cur[len(cur)-1] != opQ {
			cur = append(cur, opQ)
			rec(height)
			cur = cur[:len(cur)-1]
		}
	}
	rec(0)
	return out
}

type replaceRun struct {
	h     *harness
	bc    *blockchain.Blockchain
	d     db.KeyValueStore
	cfg   string
	chain []*rnode                // what is stored now
	refs  []*storedBlock          // reference per stored block (write-path specific)
	ever  map[string]*storedBlock // everything this history stored, by block hash
	// bookkeeping for the coverage counters
	hadAt         map[uint64]string // height -> hash of the last block stored there
	replacedSince bool
}

func hashKey(f *felt.Felt) string { return f.String() }

// readAll = operation Q.
func (x *replaceRun) readAll() bool {
	h, bc := x.h, x.bc
	ok := true
	for i, ref := range x.refs {
		if !h.checkReaderL(replaceLevel, bc, x.d, ref, i == len(x.refs)-1, x.cfg) {
			ok = false
		}
		h.r.Add("evaluations", 1)
	}
	c := &blockCase{Label: x.cfg}
	stale := func(acc string, err error) {
		if err == nil {
			ok = false
			h.bad(replaceLevel, acc, ": want an error, got a value for something that is not stored (any more)", c, x.cfg, "")
		}
	}
	// one above the head, by number
	n := uint64(len(x.refs))
	_, err := bc.BlockByNumber(n)
	stale("BlockByNumber above the head", err)
	_, err = bc.BlockHeaderByNumber(n)
	stale("BlockHeaderByNumber above the head", err)
	_, err = bc.BlockHeaderHashByNumber(n)
	stale("BlockHeaderHashByNumber above the head", err)
	_, err = bc.GlobalStateRootByBlockNumber(n)
	stale("GlobalStateRootByBlockNumber above the head", err)
	_, err = bc.StateUpdateByNumber(n)
	stale("StateUpdateByNumber above the head", err)
	_, err = bc.BlockCommitmentsByNumber(n)
	stale("BlockCommitmentsByNumber above the head", err)
	_, err = bc.TransactionByBlockNumberAndIndex(n, 0)
	stale("TransactionByBlockNumberAndIndex above the head", err)
	_, _, _, err = bc.TransactionAndReceiptByBlockNumberAndIndex(n, 0)
	stale("TransactionAndReceiptByBlockNumberAndIndex above the head", err)
	_, err = bc.TransactionExecutionStatusByBlockNumberAndIndex(n, 0)
	stale("TransactionExecutionStatusByBlockNumberAndIndex above the head", err)
	reads := int64(9)
	if n == 0 {
		_, err = bc.Height()
		stale("Height of an empty chain", err)
		_, err = bc.Head()
		stale("Head of an empty chain", err)
		_, err = bc.HeadsHeader()
		stale("HeadsHeader of an empty chain", err)
		reads += 3
	}
	// what was replaced: by block hash / transaction hash / message hash
	nowBlocks, nowTxs := map[string]bool{}, map[string]bool{}
	for _, ref := range x.refs {
		nowBlocks[hashKey(ref.E.Block.Hash)] = true
		for _, tx := range ref.E.Block.Transactions {
			nowTxs[hashKey(tx.Hash())] = true
		}
	}
	for k, old := range x.ever {
		if nowBlocks[k] {
			continue
		}
		bh := old.E.Block.Hash
		_, err = bc.BlockByHash(bh)
		stale("BlockByHash of a replaced block", err)
		_, err = bc.BlockHeaderByHash(bh)
		stale("BlockHeaderByHash of a replaced block", err)
		_, err = bc.BlockNumberByHash(bh)
		stale("BlockNumberByHash of a replaced block", err)
		_, err = bc.StateUpdateByHash(bh)
		stale("StateUpdateByHash of a replaced block", err)
		reads += 4
		for _, tx := range old.E.Block.Transactions {
			if nowTxs[hashKey(tx.Hash())] {
				continue // the same transaction is in a block that is stored now; checkReader looked it up
			}
			_, err = bc.TransactionByHash(tx.Hash())
			stale("TransactionByHash of a replaced block's transaction", err)
			_, _, _, err = bc.Receipt(tx.Hash())
			stale("Receipt of a replaced block's transaction", err)
			_, _, err = bc.BlockNumberAndIndexByTxHash((*felt.TransactionHash)(tx.Hash()))
			stale("BlockNumberAndIndexByTxHash of a replaced block's transaction", err)
			reads += 3
			if l1, isL1 := tx.(*core.L1HandlerTransaction); isL1 {
				mh := eth.HashFromBytes(l1.MessageHash())
				_, err = bc.L1HandlerTxnHash(&mh)
				stale("L1HandlerTxnHash of a replaced block's message", err)
				reads++
			}
		}
	}
	h.r.Add("replace_not_stored_reads", reads)
	h.r.Add("replace_ops_read", 1)
	if x.replacedSince {
		h.r.Add("replace_reads_with_a_replaced_block_below", 1)
	}
	return ok
}

// runReplaceSequence replays one sequence on a fresh node; returns false when the run had to be abandoned.
func (h *harness) runReplaceSequence(tree *rnode, seq []int, nc nodeCfg, via wpath, version string) {
	d := backends[nc.be].open()
	defer d.Close()
	x := &replaceRun{h: h, bc: chain.NewNode(d, nc.newState), d: d, ever: map[string]*storedBlock{}, hadAt: map[uint64]string{}}
	name := seqName(seq)
	allOK := true
	full := seq
	if seq[len(seq)-1] != opQ {
		full = append(append([]int(nil), seq...), opQ)
	}
	for step, o := range full {
		x.cfg = fmt.Sprintf("%s via %s v%s history=[%s] at step %d (%s)", nc, via, version, name, step+1, opName(o))
		switch o {
		case opQ:
			if !x.readAll() {
				allOK = false
			}
		case opR:
			if err := x.bc.RevertHead(); err != nil {
				// RevertHead itself is C04's subject; a history that cannot go on is counted, not judged here
				h.r.Add("replace_histories_abandoned_revert_error", 1)
				h.r.Outcome("replaced-block history abandoned: RevertHead error")
				return
			}
			x.chain, x.refs = x.chain[:len(x.chain)-1], x.refs[:len(x.refs)-1]
			h.r.Add("replace_ops_revert", 1)
			if len(x.chain) == 0 {
				h.r.Add("replace_reverts_of_block_0", 1)
			}
		default:
			parent := tree
			if len(x.chain) > 0 {
				parent = x.chain[len(x.chain)-1]
			}
			k := parent.kids[o]
			ref, err := h.put(x.bc, k.e, k.cm, via, x.cfg)
			if err != nil {
				h.r.Violate(replaceLevel+"/"+via.api()+" rejected a valid block", map[string]any{"cfg": x.cfg, "what": describe(k.e), "err": err.Error()})
				return
			}
			x.chain, x.refs = append(x.chain, k), append(x.refs, ref)
			hk := hashKey(ref.E.Block.Hash)
			x.ever[hk] = ref
			n := k.e.Block.Number
			if prev, was := x.hadAt[n]; was && prev != hk {
				x.replacedSince = true
				h.r.Add("replace_stores_of_a_different_block_at_a_used_height", 1)
				if n == 0 {
					h.r.Add("replace_stores_of_a_different_block_0", 1)
				}
			}
			x.hadAt[n] = hk
			h.r.Add("replace_ops_store", 1)
			h.r.Add("blocks_stored", 1)
		}
	}
	if allOK {
		h.r.Outcome(fmt.Sprintf("replaced-block history ok via %s (final height %d)", via, len(x.chain)))
	} else {
		h.r.Outcome("replaced-block history mismatch")
	}
}

func (h *harness) replacePhase() {
	depth := ev.Pick(h.r, 5, 6)
	variants := ev.Pick(h.r, 2, 3)
	maxHeight := ev.Pick(h.r, 3, 4)
	versions := []string{"0.13.2", "0.13.4", "0.14.0", "0.14.1"}
	vias := []wpath{viaStore, viaFinalise}
	seqs := replaceSequences(depth, variants, maxHeight)
	trees := map[string]*rnode{}
	blocks := 0
	for _, v := range versions {
		t, n, err := buildVariantTree(v, variants, maxHeight)
		if err != nil {
			h.r.Infra("replaced-block histories: variant tree v%s: %v", v, err)
		}
		trees[v], blocks = t, blocks+n
	}
	// run parameters (each sequence is replayed once per entry)
	type params struct {
		nc      nodeCfg
		via     wpath
		version string
	}
	var ps []params
	for i, nc := range nodeCfgs {
		// quick: one run per node configuration; write path and version rotate so that every (state backend, write
		// path) pair and every version occurs
		qv := (i/2 + i) % len(vias)
		ps = append(ps, params{nc, vias[qv], versions[i%len(versions)]})
		if h.r.Thorough() {
			// thorough: node configuration x write path in full (the quick runs plus the other write path, on another version)
			ps = append(ps, params{nc, vias[1-qv], versions[(i+2)%len(versions)]})
		}
	}
	h.r.Set("replace_depth", int64(depth))
	h.r.Set("replace_variants_per_height", int64(variants))
	h.r.Set("replace_max_height", int64(maxHeight))
	h.r.Set("replace_variant_blocks_built", int64(blocks))
	h.r.Set("replace_sequences", int64(len(seqs)))
	h.r.Set("replace_run_parameters", int64(len(ps)))
	h.r.Sample(map[string]any{"phase": "replaced-block-history", "index": 0, "case": seqName(seqs[0])})
	h.r.Sample(map[string]any{"phase": "replaced-block-history", "index": len(seqs) - 1, "case": seqName(seqs[len(seqs)-1])})
	var cut atomic.Bool
	var done atomic.Int64
	var once sync.Once
	N := len(seqs) * len(ps)
	ev.Par(N, workers(), func(i int) {
		if cut.Load() {
			return
		}
		if i%16 == 0 && h.r.OutOfTime() {
			cut.Store(true)
			once.Do(func() { h.r.Incomplete("replaced-block histories cut by the time budget") })
			return
		}
		p := ps[i%len(ps)]
		h.runReplaceSequence(trees[p.version], seqs[i/len(ps)], p.nc, p.via, p.version)
		done.Add(1)
	})
	h.r.Add("cases_replaced_block_histories", done.Load())
}
