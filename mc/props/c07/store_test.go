package c07

// Chain level: VALID blocks (chain.Build: real hashes, real state roots) go through the real
// Blockchain.SanityCheckNewHeight + Blockchain.Store on {memory, pebblev2} x {legacy, new state backend}; every
// blockchain.Reader read method is compared with an untouched reference copy.

import (
	"errors"
	"fmt"

	"verif/mc/chain"
	"verif/mc/ev"

	"github.com/NethermindEth/juno/blockchain"
	"github.com/NethermindEth/juno/core"
	"github.com/NethermindEth/juno/core/felt"
	"github.com/NethermindEth/juno/db"
	"github.com/NethermindEth/juno/l1/eth"
)

// storedBlock = reference of one stored block.
type storedBlock struct {
	E  *chain.Entry
	CM *core.BlockCommitments
	RS []rshape
}

// customise replaces the receipts of a freshly built entry by the enumerated receipt shapes and optionally edits the
// header, then recomputes event count, bloom and the block hash exactly like chain.Build does.
func customise(e *chain.Entry, shapes []rshape, hdr func(h *core.Header)) (*core.BlockCommitments, error) {
	b := e.Block
	if shapes != nil {
		var evs uint64
		for i, tx := range b.Transactions {
			b.Receipts[i] = mkReceipt(tx, shapes[i%len(shapes)], uint64(i))
			evs += uint64(len(b.Receipts[i].Events))
		}
		b.EventCount = evs
		b.EventsBloom = core.EventsBloom(b.Receipts)
	}
	if hdr != nil {
		hdr(b.Header)
	}
	h, cm, err := core.BlockHash(b, e.SU.StateDiff, chain.Net, nil, core.TrieBackend)
	if err != nil {
		return nil, err
	}
	b.Hash = &h
	e.SU.BlockHash = &h
	return cm, nil
}

// checkReader reads block sb back through every Reader method.
func (h *harness) checkReader(bc *blockchain.Blockchain, d db.KeyValueStore, sb *storedBlock, isHead bool, cfg string) bool {
	return h.checkReaderL("reader", bc, d, sb, isHead, cfg)
}

// checkReaderL: level = first component of the violation keys (names the phase / class of history the read belongs to).
func (h *harness) checkReaderL(level string, bc *blockchain.Blockchain, d db.KeyValueStore, sb *storedBlock, isHead bool, cfg string) bool {
	ok := true
	b := sb.E.Block
	c := &blockCase{Label: fmt.Sprintf("%s block %d (%s) rshapes=%v", cfg, b.Number, describe(sb.E), sb.RS), Hdr: b.Header, Txs: b.Transactions, Rcs: b.Receipts, SU: sb.E.SU, CM: sb.CM}
	for _, s := range sb.E.Spec.Txs {
		c.Kinds = append(c.Kinds, s.Kind)
	}
	bad := func(acc, dd string) {
		ok = false
		h.bad(level, acc, dd, c, cfg, "")
	}
	chk := func(acc, dd string) {
		if dd != "" {
			bad(acc, dd)
		}
	}
	must := func(acc string, err error) bool {
		if err != nil {
			bad(acc, ": unexpected error "+err.Error())
			return false
		}
		return true
	}
	n := b.Number
	wantBlock := func(acc string, got *core.Block, err error) {
		if must(acc, err) {
			chk(acc+" (header)", diff(b.Header, got.Header))
			chk(acc, prefixTx(listEq(b.Transactions, got.Transactions), c))
			chk(acc+" (receipts)", listEq(b.Receipts, got.Receipts))
		}
	}
	if isHead {
		ht, err := bc.Height()
		if must("Height", err) && ht != n {
			bad("Height", fmt.Sprintf(": %d != %d", n, ht))
		}
		hd, err := bc.Head()
		wantBlock("Head", hd, err)
		hh, err := bc.HeadsHeader()
		if must("HeadsHeader", err) {
			chk("HeadsHeader", diff(b.Header, hh))
		}
	}
	blk, err := bc.BlockByNumber(n)
	wantBlock("BlockByNumber", blk, err)
	blk, err = bc.BlockByHash(b.Hash)
	wantBlock("BlockByHash", blk, err)
	hdr, err := bc.BlockHeaderByNumber(n)
	if must("BlockHeaderByNumber", err) {
		chk("BlockHeaderByNumber", diff(b.Header, hdr))
	}
	hdr, err = bc.BlockHeaderByHash(b.Hash)
	if must("BlockHeaderByHash", err) {
		chk("BlockHeaderByHash", diff(b.Header, hdr))
	}
	bh, err := bc.BlockHeaderHashByNumber(n)
	if must("BlockHeaderHashByNumber", err) {
		chk("BlockHeaderHashByNumber", diff(b.Hash, bh))
	}
	gr, err := bc.GlobalStateRootByBlockNumber(n)
	if must("GlobalStateRootByBlockNumber", err) {
		chk("GlobalStateRootByBlockNumber", diff(b.GlobalStateRoot, gr))
	}
	tc, err := bc.BlockTransactionCountByNumber(n)
	if must("BlockTransactionCountByNumber", err) && tc != uint64(len(b.Transactions)) {
		bad("BlockTransactionCountByNumber", fmt.Sprintf(": %d != %d", len(b.Transactions), tc))
	}
	bn, err := bc.BlockNumberByHash(b.Hash)
	if must("BlockNumberByHash", err) && bn != n {
		bad("BlockNumberByHash", fmt.Sprintf(": %d != %d", n, bn))
	}
	txs, err := bc.TransactionsByBlockNumber(n)
	if must("TransactionsByBlockNumber", err) {
		chk("TransactionsByBlockNumber", prefixTx(listEq(b.Transactions, txs), c))
	}
	txs, rcs, err := bc.TransactionsAndReceiptsByBlockNumber(n)
	if must("TransactionsAndReceiptsByBlockNumber", err) {
		chk("TransactionsAndReceiptsByBlockNumber", prefixTx(listEq(b.Transactions, txs), c))
		chk("TransactionsAndReceiptsByBlockNumber (receipts)", listEq(b.Receipts, rcs))
	}
	hs, err := bc.TransactionHashesByBlockNumber(n)
	if must("TransactionHashesByBlockNumber", err) {
		want := make([]felt.Felt, len(b.Transactions))
		for i, t := range b.Transactions {
			want[i] = *t.Hash()
		}
		chk("TransactionHashesByBlockNumber", listEq(want, hs))
	}
	for i, tx := range b.Transactions {
		u := uint64(i)
		kind := " <" + c.Kinds[i] + ">"
		got, err := bc.TransactionByHash(tx.Hash())
		if must("TransactionByHash", err) {
			chk("TransactionByHash", suffix(diff(tx, got), kind))
		}
		got, err = bc.TransactionByBlockNumberAndIndex(n, u)
		if must("TransactionByBlockNumberAndIndex", err) {
			chk("TransactionByBlockNumberAndIndex", suffix(diff(tx, got), kind))
		}
		bnum, idx, err := bc.BlockNumberAndIndexByTxHash((*felt.TransactionHash)(tx.Hash()))
		if must("BlockNumberAndIndexByTxHash", err) && (bnum != n || idx != u) {
			bad("BlockNumberAndIndexByTxHash", fmt.Sprintf(": (%d,%d) != (%d,%d)", n, u, bnum, idx))
		}
		rc, rbh, rbn, err := bc.Receipt(tx.Hash())
		if must("Receipt", err) {
			chk("Receipt", diff(b.Receipts[i], rc))
			chk("Receipt (block hash)", diff(b.Hash, rbh))
			if rbn != n {
				bad("Receipt (block number)", fmt.Sprintf(": %d != %d", n, rbn))
			}
		}
		got, rcv, rbh, err := bc.TransactionAndReceiptByBlockNumberAndIndex(n, u)
		if must("TransactionAndReceiptByBlockNumberAndIndex", err) {
			chk("TransactionAndReceiptByBlockNumberAndIndex", suffix(diff(tx, got), kind))
			chk("TransactionAndReceiptByBlockNumberAndIndex (receipt)", diff(b.Receipts[i], &rcv))
			chk("TransactionAndReceiptByBlockNumberAndIndex (block hash)", diff(b.Hash, rbh))
		}
		st, err := bc.TransactionExecutionStatusByBlockNumberAndIndex(n, u)
		if must("TransactionExecutionStatusByBlockNumberAndIndex", err) {
			chk("TransactionExecutionStatusByBlockNumberAndIndex", diff(core.TransactionExecutionStatus{Reverted: b.Receipts[i].Reverted, RevertReason: b.Receipts[i].RevertReason}, st))
		}
		if l1, okk := tx.(*core.L1HandlerTransaction); okk {
			mh := eth.HashFromBytes(l1.MessageHash())
			th, err := bc.L1HandlerTxnHash(&mh)
			if must("L1HandlerTxnHash", err) && !th.Equal(tx.Hash()) {
				bad("L1HandlerTxnHash", ": hash differs")
			}
		}
	}
	u := uint64(len(b.Transactions))
	if _, err := bc.TransactionByBlockNumberAndIndex(n, u); !errors.Is(err, db.ErrKeyNotFound) {
		bad("TransactionByBlockNumberAndIndex index=len", fmt.Sprintf(": want ErrKeyNotFound got %v", err))
	}
	if _, _, _, err := bc.TransactionAndReceiptByBlockNumberAndIndex(n, u); !errors.Is(err, db.ErrKeyNotFound) {
		bad("TransactionAndReceiptByBlockNumberAndIndex index=len", fmt.Sprintf(": want ErrKeyNotFound got %v", err))
	}
	if _, err := bc.TransactionExecutionStatusByBlockNumberAndIndex(n, u); !errors.Is(err, db.ErrKeyNotFound) {
		bad("TransactionExecutionStatusByBlockNumberAndIndex index=len", fmt.Sprintf(": want ErrKeyNotFound got %v", err))
	}
	su, err := bc.StateUpdateByNumber(n)
	suByNum := su
	if must("StateUpdateByNumber", err) {
		chk("StateUpdateByNumber", diff(sb.E.SU, su))
	} else {
		suByNum = nil
	}
	su, err = bc.StateUpdateByHash(b.Hash)
	if must("StateUpdateByHash", err) {
		chk("StateUpdateByHash", diff(sb.E.SU, su))
	}
	cm, err := bc.BlockCommitmentsByNumber(n)
	if must("BlockCommitmentsByNumber", err) {
		chk("BlockCommitmentsByNumber", diff(sb.CM, cm))
	}
	// independent of any reference copy: the state diff the node returns must be the one the block committed to
	// (StateDiffCommitment / StateDiffLength exist from 0.13.2 on; every version built here is >= 0.13.2)
	if su2 := suByNum; su2 != nil && err == nil && su2.StateDiff != nil && geVersion(b.ProtocolVersion, "0.13.2") {
		if hh := su2.StateDiff.Hash(); cm.StateDiffCommitment == nil || !hh.Equal(cm.StateDiffCommitment) {
			bad("stored state diff vs stored StateDiffCommitment", ": hash of the returned state diff is not the stored commitment")
		}
		if l := su2.StateDiff.Length(); l != cm.StateDiffLength {
			bad("stored state diff vs stored StateDiffLength", fmt.Sprintf(": %d != %d", cm.StateDiffLength, l))
		}
	}
	// declared classes: through the head state, the state at this block, and the raw accessor
	for ch, def := range sb.E.Classes {
		ch := ch
		want := &core.DeclaredClassDefinition{At: n, Class: def}
		hsr, closer, err := bc.HeadState()
		if must("HeadState", err) {
			got, err := hsr.Class(&ch)
			if must("HeadState.Class", err) {
				chk("HeadState.Class", diff(want, got))
			}
			closer()
		}
		sr, closer2, err := bc.StateAtBlockNumber(n)
		if must("StateAtBlockNumber", err) {
			got, err := sr.Class(&ch)
			if must("StateAtBlockNumber.Class", err) {
				chk("StateAtBlockNumber.Class", diff(want, got))
			}
			closer2()
		}
		got, err := core.GetClass(d, &ch)
		if must("core.GetClass", err) {
			chk("core.GetClass", diff(want, got))
		}
		if has, err := core.HasClass(d, &ch); err != nil || !has {
			bad("core.HasClass", fmt.Sprintf(": has=%v err=%v", has, err))
		}
	}
	h.r.Add("accessor_reads", int64(23+len(b.Transactions)*8+len(sb.E.Classes)*4))
	return ok
}

func suffix(d, s string) string {
	if d == "" {
		return ""
	}
	return d + s
}

func describe(e *chain.Entry) string {
	s := ""
	for _, t := range e.Spec.Txs {
		s += t.Kind + ","
	}
	return fmt.Sprintf("v%s txs=[%s] diffLen=%d classes=%d", e.Spec.Version, s, e.SU.StateDiff.Length(), len(e.Classes))
}

type nodeCfg struct {
	be       int
	newState bool
}

func (c nodeCfg) String() string {
	st := "legacy"
	if c.newState {
		st = "newstate"
	}
	return backends[c.be].name + "/" + st
}

var nodeCfgs = []nodeCfg{{0, false}, {0, true}, {1, false}, {1, true}, {2, false}, {2, true}}

// baseDiff: genesis of the chain-level runs: declares C0 (Cairo 0) and S1 (Sierra), deploys A with C0.
func baseSpec(version string, txs []chain.TxSpec) chain.BlockSpec {
	c0, h0 := chain.Cairo0(0)
	s1, sh1, c1v1, c1v2 := chain.Sierra(1)
	d := core.EmptyStateDiff()
	d.DeclaredV0Classes = []*felt.Felt{&h0}
	casm := c1v1
	if geVersion(version, "0.14.1") {
		casm = c1v2
	}
	d.DeclaredV1Classes[sh1] = &casm
	d.DeployedContracts[chain.AddrA] = &h0
	return chain.BlockSpec{Version: version, Timestamp: 1000, Txs: txs, Diff: &d, Classes: map[felt.Felt]core.ClassDefinition{h0: c0, sh1: s1}}
}

// chainPlan: for one protocol version, a chain whose blocks carry every transaction kind at every position of
// blocks of size 0..3 with the pairwise receipt shapes rotating, the header optional fields varied, and state
// diffs taken from the shared alphabet.
func (h *harness) chainPlan(version string, rot int) ([]*storedBlock, error) {
	rs := pairwiseRShapes()
	var out []*storedBlock
	var parent *chain.Entry
	k := 0
	nextTxs := func(size int) ([]chain.TxSpec, []rshape) {
		var txs []chain.TxSpec
		var shapes []rshape
		for i := 0; i < size; i++ {
			txs = append(txs, chain.TxSpec{Kind: chain.TxKinds[(k+rot)%len(chain.TxKinds)], Salt: uint64(1000 + k)})
			shapes = append(shapes, rs[(k*5+rot)%len(rs)])
			k++
		}
		return txs, shapes
	}
	hdrMods := []func(*core.Header){
		nil,
		func(h *core.Header) { h.Signatures = nil },
		func(h *core.Header) { h.Signatures = [][]*felt.Felt{{F(0x516), F(0x517)}, {}} },
		func(h *core.Header) { h.L1DAMode = core.Blob },
	}
	add := func(spec chain.BlockSpec, shapes []rshape) error {
		e, err := chain.Build(parent, spec)
		if err != nil {
			return err
		}
		if len(shapes) == 0 {
			shapes = nil
		}
		cm, err := customise(e, shapes, hdrMods[len(out)%len(hdrMods)])
		if err != nil {
			return err
		}
		out = append(out, &storedBlock{E: e, CM: cm, RS: shapes})
		parent = e
		return nil
	}
	txs, shapes := nextTxs(2)
	if err := add(baseSpec(version, txs), shapes); err != nil {
		return nil, err
	}
	// sizes 0,1,2,3 repeated until every kind has been at every position of a size-3 block
	sizes := []int{0, 1, 2, 3, 3, 3, 3, 3, 3, 3, 3, 3, 3, 3, 3, 1, 0}
	for i, sz := range sizes {
		alpha := chain.Alphabet(parent.State, parent.Block.Number+1, version)
		spec := alpha[(i*7+rot)%len(alpha)].Spec
		if alpha[(i*7+rot)%len(alpha)].Name == "sys1.clear" {
			spec = alpha[0].Spec // known-exotic history, not this property's subject
		}
		spec.Txs, shapes = nextTxs(sz)
		if err := add(spec, shapes); err != nil {
			return nil, fmt.Errorf("block %d: %w", i+1, err)
		}
	}
	return out, nil
}

func (h *harness) storePhase(versions []string, rots int) {
	type job struct {
		version string
		rot     int
		cfg     nodeCfg
	}
	var jobs []job
	for _, v := range versions {
		for rot := 0; rot < rots; rot++ {
			for _, c := range nodeCfgs {
				jobs = append(jobs, job{v, rot, c})
			}
		}
	}
	ev.Par(len(jobs), workers(), func(i int) {
		j := jobs[i]
		cfg := fmt.Sprintf("%s v%s rot%d", j.cfg, j.version, j.rot)
		plan, err := h.chainPlan(j.version, j.rot)
		if err != nil {
			h.r.Infra("chain plan %s: %v", cfg, err)
		}
		d := backends[j.cfg.be].open()
		defer d.Close()
		bc := chain.NewNode(d, j.cfg.newState)
		for bi, sb := range plan {
			if _, err := h.put(bc, sb.E, sb.CM, viaStore, cfg); err != nil {
				h.r.Violate("reader/store rejected a valid block", map[string]any{"cfg": cfg, "block": bi, "what": describe(sb.E), "err": err.Error()})
				return
			}
			h.r.Add("blocks_stored", 1)
			if h.checkReader(bc, d, sb, true, cfg) {
				h.r.Outcome(fmt.Sprintf("reader ok txs=%d", len(sb.E.Block.Transactions)))
			} else {
				h.r.Outcome("reader mismatch")
			}
			h.r.Add("evaluations", 1)
		}
		// everything again once the whole chain is there, through a re-opened Blockchain (restart)
		bc2 := chain.NewNode(d, j.cfg.newState)
		for bi, sb := range plan {
			if !h.checkReader(bc2, d, sb, bi == len(plan)-1, cfg+" reopened") {
				h.r.Outcome("reader mismatch")
			}
			h.r.Add("evaluations", 1)
		}
	})
}

// suPatternPhase: the 3^7 state-diff section patterns as VALID blocks on top of a base block, through Store.
// One node per (configuration, worker): base block stored once; each pattern block is stored, read back through every
// Reader method (and the base block again), then RevertHead returns the node to the base. (A fresh Blockchain per
// pattern costs an 8 MB running-filter allocation each; if RevertHead fails the node is simply rebuilt.)
func (h *harness) suPatternPhase(patterns []int) {
	base, err := chain.Build(nil, baseSpec("0.14.0", nil))
	if err != nil {
		h.r.Infra("base: %v", err)
	}
	baseCM, err := customise(base, nil, nil)
	if err != nil {
		h.r.Infra("base: %v", err)
	}
	_, h1 := chain.Cairo0(1)
	cl1, _ := chain.Cairo0(1)
	s2, sh2, _, c2v2 := chain.Sierra(2)
	_, sh1, _, c1v2 := chain.Sierra(1)
	_, h0 := chain.Cairo0(0)
	mkSpec := func(p int) chain.BlockSpec {
		s := suShape(p)
		d := &core.StateDiff{}
		classes := map[felt.Felt]core.ClassDefinition{}
		set := func(l int, empty, pop func()) {
			switch l {
			case 1:
				empty()
			case 2:
				pop()
			}
		}
		set(s[0], func() { d.StorageDiffs = map[felt.Felt]map[felt.Felt]*felt.Felt{} }, func() {
			d.StorageDiffs = map[felt.Felt]map[felt.Felt]*felt.Felt{chain.AddrA: {chain.Slot0: F(5), chain.Slot1: F(6)}, chain.Sys2: {FV(7): F(1)}}
		})
		set(s[1], func() { d.Nonces = map[felt.Felt]*felt.Felt{} }, func() { d.Nonces = map[felt.Felt]*felt.Felt{chain.AddrA: F(1)} })
		set(s[2], func() { d.DeployedContracts = map[felt.Felt]*felt.Felt{} }, func() { d.DeployedContracts = map[felt.Felt]*felt.Felt{chain.AddrB: &h0} })
		set(s[3], func() { d.DeclaredV0Classes = []*felt.Felt{} }, func() { d.DeclaredV0Classes = []*felt.Felt{&h1}; classes[h1] = cl1 })
		set(s[4], func() { d.DeclaredV1Classes = map[felt.Felt]*felt.Felt{} }, func() { d.DeclaredV1Classes = map[felt.Felt]*felt.Felt{sh2: &c2v2}; classes[sh2] = s2 })
		set(s[5], func() { d.ReplacedClasses = map[felt.Felt]*felt.Felt{} }, func() { d.ReplacedClasses = map[felt.Felt]*felt.Felt{chain.AddrA: &sh1} })
		set(s[6], func() { d.MigratedClasses = map[felt.SierraClassHash]felt.CasmClassHash{} }, func() {
			d.MigratedClasses = map[felt.SierraClassHash]felt.CasmClassHash{felt.SierraClassHash(sh1): felt.CasmClassHash(c1v2)}
		})
		return chain.BlockSpec{Version: "0.14.1", Timestamp: 2000, Diff: d, Classes: classes,
			Txs: []chain.TxSpec{{Kind: chain.TxKinds[p%len(chain.TxKinds)], Salt: 77}}}
	}
	per := workers() / len(nodeCfgs)
	if per < 1 {
		per = 1
	}
	type job struct {
		cfg    nodeCfg
		lo, hi int
	}
	var jobs []job
	for _, c := range nodeCfgs {
		for k := 0; k < per; k++ {
			jobs = append(jobs, job{c, len(patterns) * k / per, len(patterns) * (k + 1) / per})
		}
	}
	h.r.Set("su_pattern_store_jobs", int64(len(patterns)*len(nodeCfgs)))
	ev.Par(len(jobs), len(jobs), func(i int) {
		j := jobs[i]
		var store db.KeyValueStore
		var bc *blockchain.Blockchain
		open := func() {
			if store != nil {
				store.Close()
			}
			store = backends[j.cfg.be].open()
			bc = chain.NewNode(store, j.cfg.newState)
			if _, err := h.put(bc, base, baseCM, viaStore, j.cfg.String()+" su-pattern base"); err != nil {
				h.r.Infra("base store on %s: %v", j.cfg, err)
			}
		}
		open()
		defer func() { store.Close() }()
		for _, p := range patterns[j.lo:j.hi] {
			if h.r.OutOfTime() {
				h.r.Incomplete("state-update pattern sweep through Store cut by the time budget")
				return
			}
			s := suShape(p)
			cfg := fmt.Sprintf("%s su-pattern %v", j.cfg, s)
			e, err := chain.Build(base, mkSpec(p))
			if err != nil {
				h.r.Infra("pattern %v: build: %v", s, err)
			}
			cm, err := customise(e, nil, nil)
			if err != nil {
				h.r.Infra("pattern %v: hash: %v", s, err)
			}
			if _, err := h.put(bc, e, cm, viaStore, cfg); err != nil {
				h.r.Violate("reader/store rejected a valid state-update pattern", map[string]any{"cfg": cfg, "err": err.Error()})
				open()
				continue
			}
			h.r.Add("blocks_stored", 1)
			h.r.Add("evaluations", 2)
			okA := h.checkReader(bc, store, &storedBlock{E: e, CM: cm}, true, cfg)
			okB := h.checkReader(bc, store, &storedBlock{E: base, CM: baseCM}, false, cfg+" (base block)")
			if okA && okB {
				h.r.Outcome("su-pattern ok")
			} else {
				h.r.Outcome("su-pattern mismatch")
			}
			if err := bc.RevertHead(); err != nil {
				h.r.Add("su_pattern_revert_fallbacks", 1) // RevertHead is C04's subject; here it is only a shortcut
				open()
			}
		}
	})
}
