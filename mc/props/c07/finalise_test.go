package c07

// Sequencer path: blocks stored through Blockchain.Finalise with a block signer (what the builder/sequencer does)
// instead of SanityCheckNewHeight+Store. What was stored is the block object as Finalise leaves it (roots, hash,
// commitments, signature filled in); every accessor must return exactly that, before and after a restart.

import (
	"fmt"

	"verif/mc/chain"
	"verif/mc/ev"

	"github.com/NethermindEth/juno/core"
	"github.com/NethermindEth/juno/core/felt"
)

func (h *harness) finalisePhase(versions []string) {
	type job struct {
		version string
		cfg     nodeCfg
		signed  bool
	}
	var jobs []job
	for _, v := range versions {
		for _, c := range nodeCfgs {
			for _, s := range []bool{true, false} {
				jobs = append(jobs, job{v, c, s})
			}
		}
	}
	ev.Par(len(jobs), workers(), func(i int) {
		j := jobs[i]
		cfg := fmt.Sprintf("%s v%s finalise signed=%v", j.cfg, j.version, j.signed)
		plan, err := h.chainPlan(j.version, 0)
		if err != nil {
			h.r.Infra("chain plan %s: %v", cfg, err)
		}
		d := backends[j.cfg.be].open()
		defer d.Close()
		bc := chain.NewNode(d, j.cfg.newState)
		var sign core.BlockSignFunc
		if j.signed {
			sign = func(blockHash, stateDiffCommitment *felt.Felt) ([]*felt.Felt, error) {
				r := new(felt.Felt).Add(blockHash, chain.F(1))
				s := new(felt.Felt).Add(stateDiffCommitment, chain.F(2))
				return []*felt.Felt{r, s}, nil
			}
		}
		var refs []*storedBlock
		for bi, sb := range plan {
			blk, su, cls := deepCopy(sb.E.Block), deepCopy(sb.E.SU), deepCopy(sb.E.Classes)
			blk.Signatures = nil
			if err := bc.Finalise(blk, su, cls, sign); err != nil {
				h.r.Violate("reader/finalise rejected a valid block", map[string]any{"cfg": cfg, "block": bi, "what": describe(sb.E), "err": err.Error()})
				return
			}
			if j.signed && len(blk.Signatures) == 0 {
				h.r.Violate("reader/finalise did not sign", map[string]any{"cfg": cfg, "block": bi})
				return
			}
			// reference = a private copy of what Finalise produced
			fin := &chain.Entry{Spec: sb.E.Spec, Block: deepCopy(blk), SU: deepCopy(su), Classes: sb.E.Classes, State: sb.E.State}
			_, cm, err := core.BlockHash(fin.Block, fin.SU.StateDiff, chain.Net, nil, core.TrieBackend)
			if err != nil {
				h.r.Infra("block hash of finalised block: %v", err)
			}
			ref := &storedBlock{E: fin, CM: cm, RS: sb.RS}
			refs = append(refs, ref)
			h.r.Add("blocks_finalised", 1)
			if h.checkReader(bc, d, ref, true, cfg) {
				h.r.Outcome(fmt.Sprintf("finalise reader ok txs=%d", len(blk.Transactions)))
			} else {
				h.r.Outcome("finalise reader mismatch")
			}
			h.r.Add("evaluations", 1)
			h.r.Add("cases_finalise", 1)
		}
		bc2 := chain.NewNode(d, j.cfg.newState)
		for bi, ref := range refs {
			if !h.checkReader(bc2, d, ref, bi == len(refs)-1, cfg+" reopened") {
				h.r.Outcome("finalise reader mismatch")
			}
			h.r.Add("evaluations", 1)
		}
	})
}
