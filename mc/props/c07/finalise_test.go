package c07

// Sequencer path: blocks stored through Blockchain.Finalise with a block signer (what the builder/sequencer does)
// instead of SanityCheckNewHeight+Store. Everything Finalise fills in (roots, hash, commitments) is known beforehand
// from the reference model and the signature from the test signer, so the reference is independent of the objects
// Finalise worked on (see put in inner_test.go); every accessor must return exactly that, before and after a restart.

import (
	"fmt"

	"verif/mc/chain"
	"verif/mc/ev"

)

func (h *harness) finalisePhase(versions []string) {
	type job struct {
		version string
		cfg     nodeCfg
		signed  bool
	}
	var jobs []job
	for _, v := range versions {
		for _, c := range nodeCfgs {
			for _, s := range []bool{true, false} {
				jobs = append(jobs, job{v, c, s})
			}
		}
	}
	ev.Par(len(jobs), workers(), func(i int) {
		j := jobs[i]
		cfg := fmt.Sprintf("%s v%s finalise signed=%v", j.cfg, j.version, j.signed)
		plan, err := h.chainPlan(j.version, 0)
		if err != nil {
			h.r.Infra("chain plan %s: %v", cfg, err)
		}
		d := backends[j.cfg.be].open()
		defer d.Close()
		bc := chain.NewNode(d, j.cfg.newState)
		via := viaFinalise
		if j.signed {
			via = viaFinaliseSigned
		}
		var refs []*storedBlock
		for bi, sb := range plan {
			// put: juno gets deep copies made before the call; the reference is the generator's own (independently hashed)
			// block with the signer's expected output, never the object Finalise worked on
			ref, err := h.put(bc, sb.E, sb.CM, via, cfg)
			if err != nil {
				h.r.Violate("reader/finalise rejected a valid block", map[string]any{"cfg": cfg, "block": bi, "what": describe(sb.E), "err": err.Error()})
				return
			}
			ref.RS = sb.RS
			refs = append(refs, ref)
			h.r.Add("blocks_finalised", 1)
			if h.checkReader(bc, d, ref, true, cfg) {
				h.r.Outcome(fmt.Sprintf("finalise reader ok txs=%d", len(ref.E.Block.Transactions)))
			} else {
				h.r.Outcome("finalise reader mismatch")
			}
			h.r.Add("evaluations", 1)
			h.r.Add("cases_finalise", 1)
		}
		bc2 := chain.NewNode(d, j.cfg.newState)
		for bi, ref := range refs {
			if !h.checkReader(bc2, d, ref, bi == len(refs)-1, cfg+" reopened") {
				h.r.Outcome("finalise reader mismatch")
			}
			h.r.Add("evaluations", 1)
		}
	})
}
