package c07

// Record level: write one block's records through the real core.Write* accessors, read them back through EVERY
// core.Get* accessor (and the full/partial decoders on the raw bytes), delete them through the real Delete*
// accessors, and only then compare what was read with an untouched reference copy.

import (
	"bytes"
	"errors"
	"fmt"
	"verif/mc/poisondb"

	"verif/mc/ev"

	"github.com/NethermindEth/juno/core"
	"github.com/NethermindEth/juno/core/felt"
	"github.com/NethermindEth/juno/db"
	"github.com/NethermindEth/juno/db/memory"
	"github.com/NethermindEth/juno/db/pebblev2"
	_ "github.com/NethermindEth/juno/encoder/registry"
	"github.com/bits-and-blooms/bloom/v3"
	p2 "github.com/cockroachdb/pebble/v2"
	vfs2 "github.com/cockroachdb/pebble/v2/vfs"
)

type quiet struct{}

func (quiet) Infof(string, ...any)  {}
func (quiet) Errorf(string, ...any) {}
func (quiet) Fatalf(f string, a ...any) {
	panic(fmt.Sprintf("pebble fatal: "+f, a...))
}

type backend struct {
	name string
	open func() db.KeyValueStore
}

var backends = []backend{
	{"memory", func() db.KeyValueStore { return memory.New() }},
	// memory behind verif/mc/poisondb: every buffer lent to a reader (Get callback argument, UncopiedValue) is scribbled
	// over when the loan ends, as a store that recycles its read buffers would
	{"memory+recycled-read-buffers", func() db.KeyValueStore { return poisondb.Wrap(memory.New()) }},
	{"pebblev2", func() db.KeyValueStore {
		// the path does not exist on the real file system; every file lives in the private MemFS
		d, err := pebblev2.New("/nonexistent-verif-c07/v2", func(o *p2.Options) error {
			o.FS = vfs2.NewMem()
			o.Logger = quiet{}
			return nil
		})
		if err != nil {
			panic("open pebblev2: " + err.Error())
		}
		return d
	}},
}

// blockCase is the REFERENCE copy of what is stored; juno only ever sees deep copies of it.
type blockCase struct {
	Label string
	Hdr   *core.Header
	Txs   []core.Transaction
	Rcs   []*core.TransactionReceipt
	SU    *core.StateUpdate      // optional
	CM    *core.BlockCommitments // optional
	Kinds []string               // tx kind per position (for violation keys)
}

type harness struct {
	r *ev.Run
}

func (h *harness) bad(level, acc, d string, c *blockCase, be string, extra string) {
	label := ""
	if c != nil {
		label = c.Label
	}
	h.r.Violate(fmt.Sprintf("%s/%s %s", level, acc, normPath(d)), map[string]any{"backend": be, "case": label, "diff": d, "note": extra})
}

// got is everything read back for one block.
type got struct {
	hdrByNum, hdrByHash *core.Header
	numByHash           uint64
	root, hash          *felt.Felt
	hash2, root2        *felt.Felt
	txCount, ts         uint64
	bloomF              *bloom.BloomFilter
	errs                map[string]error

	txsAll, txsIter, txsAR, blkTxs []core.Transaction
	rcsAll, rcsAR, blkRcs          []*core.TransactionReceipt
	blkHdr                         *core.Header
	hashes                         []felt.Felt
	events                         []core.TransactionEvents
	txByIdx, txByHash, txPair      []core.Transaction
	rcByIdx, rcPair                []*core.TransactionReceipt
	status                         []core.TransactionExecutionStatus
	bnIdx                          []db.BlockNumIndexKey
	fullTxs                        []core.Transaction
	fullRcs                        []*core.TransactionReceipt
	fullGetTx                      []core.Transaction
	fullGetRc                      []*core.TransactionReceipt
	oobErrs                        map[string]error
	l1                             map[int]felt.Felt
	raw                            []byte

	suByNum, suByHash *core.StateUpdate
	cm                *core.BlockCommitments

	// the typed-bucket view of the same records (used by the pruner)
	hdrBucket core.Header
	numBucket uint64
	suBucket  core.StateUpdate
	cmBucket  core.BlockCommitments
}

func (g *got) e(name string, err error) bool {
	if err != nil {
		if g.errs == nil {
			g.errs = map[string]error{}
		}
		if _, dup := g.errs[name]; !dup {
			g.errs[name] = err
		}
		return false
	}
	return true
}

func writeCase(w db.KeyValueWriter, c *blockCase) (handed *blockCase, err error) {
	hc := &blockCase{Hdr: deepCopy(c.Hdr), Txs: deepCopy(c.Txs), Rcs: deepCopy(c.Rcs), SU: deepCopy(c.SU), CM: deepCopy(c.CM)}
	if err = core.WriteBlockHeader(w, hc.Hdr); err != nil {
		return hc, fmt.Errorf("WriteBlockHeader: %w", err)
	}
	if err = core.WriteTransactionsAndReceipts(w, hc.Hdr.Number, hc.Txs, hc.Rcs); err != nil {
		return hc, fmt.Errorf("WriteTransactionsAndReceipts: %w", err)
	}
	if hc.SU != nil {
		if err = core.WriteStateUpdateByBlockNum(w, hc.Hdr.Number, hc.SU); err != nil {
			return hc, fmt.Errorf("WriteStateUpdateByBlockNum: %w", err)
		}
	}
	if hc.CM != nil {
		if err = core.WriteBlockCommitment(w, hc.Hdr.Number, hc.CM); err != nil {
			return hc, fmt.Errorf("WriteBlockCommitment: %w", err)
		}
	}
	if err = core.WriteL1HandlerMsgHashes(w, l1Writable(hc.Txs)); err != nil {
		return hc, fmt.Errorf("WriteL1HandlerMsgHashes: %w", err)
	}
	return hc, nil
}

// l1Writable: MessageHash() indexes CallData[0] (the L1 sender): an L1 handler without calldata is not a storable
// message, so the perturbed variants with nil/empty CallData skip the message-hash index.
func l1Writable(txs []core.Transaction) []core.Transaction {
	var out []core.Transaction
	for _, t := range txs {
		if l, ok := t.(*core.L1HandlerTransaction); ok && len(l.CallData) == 0 {
			continue
		}
		out = append(out, t)
	}
	return out
}

func readCase(r db.KeyValueReader, c *blockCase, deep bool) *got {
	g := &got{oobErrs: map[string]error{}, l1: map[int]felt.Felt{}}
	n := c.Hdr.Number
	var err error
	g.hdrByNum, err = core.GetBlockHeaderByNumber(r, n)
	g.e("GetBlockHeaderByNumber", err)
	g.hdrByHash, err = core.GetBlockHeaderByHash(r, c.Hdr.Hash)
	g.e("GetBlockHeaderByHash", err)
	g.numByHash, err = core.GetBlockHeaderNumberByHash(r, c.Hdr.Hash)
	g.e("GetBlockHeaderNumberByHash", err)
	g.root, err = core.GetGlobalStateRootByBlockNumber(r, n)
	g.e("GetGlobalStateRootByBlockNumber", err)
	g.hash, err = core.GetBlockHeaderHashByNumber(r, n)
	g.e("GetBlockHeaderHashByNumber", err)
	g.txCount, err = core.GetBlockTransactionCountByNumber(r, n)
	g.e("GetBlockTransactionCountByNumber", err)
	g.ts, err = core.GetBlockHeaderTimestampByNumber(r, n)
	g.e("GetBlockHeaderTimestampByNumber", err)
	g.bloomF, err = core.GetBlockHeaderEventsBloomByNumber(r, n)
	g.e("GetBlockHeaderEventsBloomByNumber", err)
	g.hash2, g.root2, err = core.GetBlockHeaderHashAndStateRootByNumber(r, n)
	g.e("GetBlockHeaderHashAndStateRootByNumber", err)

	g.txsAll, err = core.GetTransactionsByBlockNumber(r, n)
	g.e("GetTransactionsByBlockNumber", err)
	g.txsIter = []core.Transaction{}
	for tx, err := range core.GetTransactionsByBlockNumberIter(r, n) {
		if !g.e("GetTransactionsByBlockNumberIter", err) {
			break
		}
		g.txsIter = append(g.txsIter, tx)
	}
	g.rcsAll, err = core.GetReceiptsByBlockNumber(r, n)
	g.e("GetReceiptsByBlockNumber", err)
	g.events, err = core.GetTransactionEventsByBlockNumber(r, n)
	g.e("GetTransactionEventsByBlockNumber", err)
	g.hashes, err = core.GetTransactionHashesByBlockNumber(r, n)
	g.e("GetTransactionHashesByBlockNumber", err)
	g.txsAR, g.rcsAR, err = core.GetTransactionsAndReceiptsByBlockNumber(r, n)
	g.e("GetTransactionsAndReceiptsByBlockNumber", err)
	blk, err := core.GetBlockByNumber(r, n)
	if g.e("GetBlockByNumber", err) {
		g.blkHdr, g.blkTxs, g.blkRcs = blk.Header, blk.Transactions, blk.Receipts
	}
	bt, err := core.BlockTransactionsBucket.Get(r, n)
	if g.e("BlockTransactionsBucket.Get", err) {
		g.fullTxs, err = bt.Transactions().All()
		g.e("full.Transactions.All", err)
		g.fullRcs, err = bt.Receipts().All()
		g.e("full.Receipts.All", err)
	}
	nt := len(c.Txs)
	for i := 0; i < nt; i++ {
		u := uint64(i)
		tx, err := core.GetTransactionByBlockAndIndex(r, n, u)
		g.e("GetTransactionByBlockAndIndex", err)
		g.txByIdx = append(g.txByIdx, tx)
		th := (*felt.TransactionHash)(c.Txs[i].Hash())
		tx, err = core.GetTransactionByHash(r, th)
		g.e("GetTransactionByHash", err)
		g.txByHash = append(g.txByHash, tx)
		bi, err := core.TransactionBlockNumbersAndIndicesByHashBucket.Get(r, th)
		g.e("TransactionBlockNumbersAndIndicesByHashBucket.Get", err)
		g.bnIdx = append(g.bnIdx, bi)
		rc, err := core.GetReceiptByBlockAndIndex(r, n, u)
		g.e("GetReceiptByBlockAndIndex", err)
		g.rcByIdx = append(g.rcByIdx, rc)
		tx, rc, err = core.GetTransactionAndReceiptByBlockAndIndex(r, n, u)
		g.e("GetTransactionAndReceiptByBlockAndIndex", err)
		g.txPair, g.rcPair = append(g.txPair, tx), append(g.rcPair, rc)
		st, err := core.GetTransactionExecutionStatusByBlockAndIndex(r, n, u)
		g.e("GetTransactionExecutionStatusByBlockAndIndex", err)
		g.status = append(g.status, st)
		if g.errs["BlockTransactionsBucket.Get"] == nil {
			tx, err = bt.Transactions().Get(i)
			g.e("full.Transactions.Get", err)
			g.fullGetTx = append(g.fullGetTx, tx)
			rc, err = bt.Receipts().Get(i)
			g.e("full.Receipts.Get", err)
			g.fullGetRc = append(g.fullGetRc, rc)
		}
		if l, ok := c.Txs[i].(*core.L1HandlerTransaction); ok && len(l.CallData) > 0 {
			hh, err := core.GetL1HandlerTxnHashByMsgHash(r, l.MessageHash())
			g.e("GetL1HandlerTxnHashByMsgHash", err)
			g.l1[i] = hh
		}
	}
	// one past the last element: every per-index accessor must say "not found" (never the neighbour section's bytes)
	u := uint64(nt)
	_, g.oobErrs["GetTransactionByBlockAndIndex"] = core.GetTransactionByBlockAndIndex(r, n, u)
	_, g.oobErrs["GetReceiptByBlockAndIndex"] = core.GetReceiptByBlockAndIndex(r, n, u)
	_, _, g.oobErrs["GetTransactionAndReceiptByBlockAndIndex"] = core.GetTransactionAndReceiptByBlockAndIndex(r, n, u)
	_, g.oobErrs["GetTransactionExecutionStatusByBlockAndIndex"] = core.GetTransactionExecutionStatusByBlockAndIndex(r, n, u)

	if deep {
		g.raw, err = core.BlockTransactionsBucket.RawValue().Get(r, n)
		g.e("raw BlockTransactions", err)
		g.raw = bytes.Clone(g.raw)
	}
	g.hdrBucket, err = core.BlockHeadersByNumberBucket.Get(r, n)
	g.e("BlockHeadersByNumberBucket.Get", err)
	g.numBucket, err = core.BlockHeaderNumbersByHashBucket.Get(r, c.Hdr.Hash)
	g.e("BlockHeaderNumbersByHashBucket.Get", err)
	if c.SU != nil {
		g.suBucket, err = core.StateUpdatesByBlockNumberBucket.Get(r, n)
		g.e("StateUpdatesByBlockNumberBucket.Get", err)
	}
	if c.CM != nil {
		g.cmBucket, err = core.BlockCommitmentsBucket.Get(r, n)
		g.e("BlockCommitmentsBucket.Get", err)
	}
	if c.SU != nil {
		g.suByNum, err = core.GetStateUpdateByBlockNum(r, n)
		g.e("GetStateUpdateByBlockNum", err)
		g.suByHash, err = core.GetStateUpdateByHash(r, c.Hdr.Hash)
		g.e("GetStateUpdateByHash", err)
	}
	if c.CM != nil {
		g.cm, err = core.GetBlockCommitmentByBlockNum(r, n)
		g.e("GetBlockCommitmentByBlockNum", err)
	}
	return g
}

// deleteCase removes the block's records through the real Delete* accessors and checks that they are gone.
func (h *harness) deleteInto(d db.KeyValueStore, b db.Batch, c *blockCase, be string) bool {
	n := c.Hdr.Number
	err := errors.Join(
		core.DeleteTransactionsAndReceipts(d, b, n),
		core.DeleteBlockHeaderByNumber(b, n),
		core.DeleteBlockHeaderNumberByHash(b, c.Hdr.Hash),
		core.DeleteStateUpdateByBlockNum(b, n),
		core.DeleteBlockCommitment(b, n),
	)
	if err != nil {
		h.bad("record", "Delete*", ": error "+err.Error(), c, be, "")
		return false
	}
	return true
}

func (h *harness) checkDeleted(d db.KeyValueStore, c *blockCase, be string) {
	n := c.Hdr.Number
	var err error
	notFound := func(acc string, err error) {
		if !errors.Is(err, db.ErrKeyNotFound) {
			h.bad("record", acc+" after delete", fmt.Sprintf(": want ErrKeyNotFound got %v", err), c, be, "")
		}
	}
	_, err = core.GetBlockHeaderByNumber(d, n)
	notFound("GetBlockHeaderByNumber", err)
	_, err = core.GetBlockHeaderByHash(d, c.Hdr.Hash)
	notFound("GetBlockHeaderByHash", err)
	_, err = core.GetTransactionsByBlockNumber(d, n)
	notFound("GetTransactionsByBlockNumber", err)
	_, err = core.GetBlockByNumber(d, n)
	notFound("GetBlockByNumber", err)
	for i, tx := range c.Txs {
		_, err = core.GetTransactionByHash(d, (*felt.TransactionHash)(tx.Hash()))
		notFound("GetTransactionByHash", err)
		if l, ok := tx.(*core.L1HandlerTransaction); ok && len(l.CallData) > 0 {
			_, err = core.GetL1HandlerTxnHashByMsgHash(d, l.MessageHash())
			notFound("GetL1HandlerTxnHashByMsgHash", err)
		}
		_ = i
	}
	if c.SU != nil {
		_, err = core.GetStateUpdateByBlockNum(d, n)
		notFound("GetStateUpdateByBlockNum", err)
	}
}

// listEq compares block-level lists. Tolerance (documented): the blob does not record whether the block's own
// transaction/receipt LIST was nil or empty (no hash depends on it: commitments use the length) and the accessors
// return a fresh non-nil slice, so the top-level list is compared by length + strict element equality.
func listEq[T any](want, got []T) string {
	if len(want) != len(got) {
		return fmt.Sprintf(": len %d != %d", len(want), len(got))
	}
	for i := range want {
		if d := diff(want[i], got[i]); d != "" {
			return fmt.Sprintf("[%d]%s", i, d)
		}
	}
	return ""
}

func (h *harness) compare(c *blockCase, g *got, be string, level string) (ok bool) {
	ok = true
	bad := func(acc, d string) {
		ok = false
		h.bad(level, acc, d, c, be, "")
	}
	chk := func(acc string, d string) {
		if d != "" {
			bad(acc, d)
		}
	}
	// error expectations: projections return a documented "missing X" error when the stored header has no X.
	wantErr := map[string]bool{}
	if c.Hdr.GlobalStateRoot == nil {
		wantErr["GetGlobalStateRootByBlockNumber"] = true
		wantErr["GetBlockHeaderHashAndStateRootByNumber"] = true
	}
	if c.Hdr.EventsBloom == nil {
		wantErr["GetBlockHeaderEventsBloomByNumber"] = true
	}
	for _, name := range sortedKeys(g.errs) {
		if !wantErr[name] {
			bad(name, ": unexpected error "+g.errs[name].Error())
		}
	}
	for name := range wantErr {
		if g.errs[name] == nil {
			bad(name, ": expected the documented missing-field error, got a value")
		}
	}
	has := func(name string) bool { return g.errs[name] == nil }

	if has("GetBlockHeaderByNumber") {
		chk("GetBlockHeaderByNumber", diff(c.Hdr, g.hdrByNum))
	}
	if has("GetBlockHeaderByHash") {
		chk("GetBlockHeaderByHash", diff(c.Hdr, g.hdrByHash))
	}
	if has("GetBlockHeaderNumberByHash") && g.numByHash != c.Hdr.Number {
		bad("GetBlockHeaderNumberByHash", fmt.Sprintf(": %d != %d", c.Hdr.Number, g.numByHash))
	}
	if has("GetGlobalStateRootByBlockNumber") {
		chk("GetGlobalStateRootByBlockNumber", diff(c.Hdr.GlobalStateRoot, g.root))
	}
	if has("GetBlockHeaderHashByNumber") {
		chk("GetBlockHeaderHashByNumber", diff(c.Hdr.Hash, g.hash))
	}
	if has("GetBlockTransactionCountByNumber") && g.txCount != c.Hdr.TransactionCount {
		bad("GetBlockTransactionCountByNumber", fmt.Sprintf(": %d != %d", c.Hdr.TransactionCount, g.txCount))
	}
	if has("GetBlockHeaderTimestampByNumber") && g.ts != c.Hdr.Timestamp {
		bad("GetBlockHeaderTimestampByNumber", fmt.Sprintf(": %d != %d", c.Hdr.Timestamp, g.ts))
	}
	if has("GetBlockHeaderEventsBloomByNumber") {
		chk("GetBlockHeaderEventsBloomByNumber", diff(c.Hdr.EventsBloom, g.bloomF))
	}
	if has("GetBlockHeaderHashAndStateRootByNumber") {
		chk("GetBlockHeaderHashAndStateRootByNumber", diff(c.Hdr.Hash, g.hash2)+diff(c.Hdr.GlobalStateRoot, g.root2))
	}

	txLists := []struct {
		acc string
		got []core.Transaction
	}{
		{"GetTransactionsByBlockNumber", g.txsAll}, {"GetTransactionsByBlockNumberIter", g.txsIter},
		{"GetTransactionsAndReceiptsByBlockNumber", g.txsAR}, {"GetBlockByNumber", g.blkTxs},
		{"full.Transactions.All", g.fullTxs}, {"full.Transactions.Get", g.fullGetTx},
		{"GetTransactionByBlockAndIndex", g.txByIdx}, {"GetTransactionByHash", g.txByHash},
		{"GetTransactionAndReceiptByBlockAndIndex", g.txPair},
	}
	for _, l := range txLists {
		if has(l.acc) && !(l.acc == "full.Transactions.Get" && !has("BlockTransactionsBucket.Get")) &&
			!(l.acc == "full.Transactions.All" && !has("BlockTransactionsBucket.Get")) {
			chk(l.acc, prefixTx(listEq(c.Txs, l.got), c))
		}
	}
	rcLists := []struct {
		acc string
		got []*core.TransactionReceipt
	}{
		{"GetReceiptsByBlockNumber", g.rcsAll}, {"GetTransactionsAndReceiptsByBlockNumber", g.rcsAR}, {"GetBlockByNumber", g.blkRcs},
		{"full.Receipts.All", g.fullRcs}, {"full.Receipts.Get", g.fullGetRc}, {"GetReceiptByBlockAndIndex", g.rcByIdx},
		{"GetTransactionAndReceiptByBlockAndIndex", g.rcPair},
	}
	for _, l := range rcLists {
		if has(l.acc) && !((l.acc == "full.Receipts.Get" || l.acc == "full.Receipts.All") && !has("BlockTransactionsBucket.Get")) {
			chk(l.acc+" (receipts)", listEq(c.Rcs, l.got))
		}
	}
	if has("GetBlockByNumber") {
		chk("GetBlockByNumber (header)", diff(c.Hdr, g.blkHdr))
	}
	if has("GetTransactionHashesByBlockNumber") {
		want := make([]felt.Felt, len(c.Txs))
		for i, t := range c.Txs {
			want[i] = *t.Hash()
		}
		chk("GetTransactionHashesByBlockNumber", prefixTx(listEq(want, g.hashes), c))
	}
	if has("GetTransactionEventsByBlockNumber") {
		want := make([]core.TransactionEvents, len(c.Rcs))
		for i, r := range c.Rcs {
			want[i] = core.TransactionEvents{Events: r.Events, TransactionHash: r.TransactionHash}
		}
		chk("GetTransactionEventsByBlockNumber", listEq(want, g.events))
	}
	if has("GetTransactionExecutionStatusByBlockAndIndex") {
		want := make([]core.TransactionExecutionStatus, len(c.Rcs))
		for i, r := range c.Rcs {
			want[i] = core.TransactionExecutionStatus{Reverted: r.Reverted, RevertReason: r.RevertReason}
		}
		chk("GetTransactionExecutionStatusByBlockAndIndex", listEq(want, g.status))
	}
	if has("TransactionBlockNumbersAndIndicesByHashBucket.Get") {
		for i, bi := range g.bnIdx {
			if bi.Number != c.Hdr.Number || bi.Index != uint64(i) {
				bad("TransactionBlockNumbersAndIndicesByHashBucket.Get", fmt.Sprintf("[%d]: (%d,%d) != (%d,%d)", i, c.Hdr.Number, i, bi.Number, bi.Index))
			}
		}
	}
	for i, hh := range g.l1 {
		if has("GetL1HandlerTxnHashByMsgHash") && !hh.Equal(c.Txs[i].Hash()) {
			bad("GetL1HandlerTxnHashByMsgHash", fmt.Sprintf("[%d]: hash differs", i))
		}
	}
	for _, acc := range sortedKeys(g.oobErrs) {
		if !errors.Is(g.oobErrs[acc], db.ErrKeyNotFound) {
			bad(acc+" index=len", fmt.Sprintf(": want ErrKeyNotFound got %v", g.oobErrs[acc]))
		}
	}
	if c.SU != nil {
		if has("GetStateUpdateByBlockNum") {
			chk("GetStateUpdateByBlockNum", diff(c.SU, g.suByNum))
		}
		if has("GetStateUpdateByHash") {
			chk("GetStateUpdateByHash", diff(c.SU, g.suByHash))
		}
	}
	if c.CM != nil && has("GetBlockCommitmentByBlockNum") {
		chk("GetBlockCommitmentByBlockNum", diff(c.CM, g.cm))
	}
	if has("BlockHeadersByNumberBucket.Get") {
		chk("BlockHeadersByNumberBucket.Get", diff(*c.Hdr, g.hdrBucket))
	}
	if has("BlockHeaderNumbersByHashBucket.Get") && g.numBucket != c.Hdr.Number {
		bad("BlockHeaderNumbersByHashBucket.Get", fmt.Sprintf(": %d != %d", c.Hdr.Number, g.numBucket))
	}
	if c.SU != nil && has("StateUpdatesByBlockNumberBucket.Get") {
		chk("StateUpdatesByBlockNumberBucket.Get", diff(*c.SU, g.suBucket))
	}
	if c.CM != nil && has("BlockCommitmentsBucket.Get") {
		chk("BlockCommitmentsBucket.Get", diff(*c.CM, g.cmBucket))
	}
	return ok
}

// prefixTx appends the tx kind of the failing position so that the key names the transaction type.
func prefixTx(d string, c *blockCase) string {
	if d == "" || len(c.Kinds) == 0 {
		return d
	}
	var i int
	if _, err := fmt.Sscanf(d, "[%d]", &i); err == nil && i < len(c.Kinds) {
		return d + " <" + c.Kinds[i] + ">"
	}
	return d
}

// decoders: on the raw stored bytes, every exported partial serializer must agree with the full decoder, and
// re-encoding the fully decoded value must reproduce the bytes.
func (h *harness) decoders(c *blockCase, raw []byte, be string) {
	bad := func(acc, d string) { h.bad("decoders", acc, d, c, be, "") }
	var bt core.BlockTransactions
	if err := (core.BlockTransactionsSerializer{}).Unmarshal(raw, &bt); err != nil {
		bad("BlockTransactionsSerializer.Unmarshal", ": error "+err.Error())
		return
	}
	re, err := (core.BlockTransactionsSerializer{}).Marshal(&bt)
	if err != nil || !bytes.Equal(re, raw) {
		bad("BlockTransactionsSerializer marshal∘unmarshal", fmt.Sprintf(": bytes differ (err=%v, %d vs %d bytes)", err, len(re), len(raw)))
	}
	// the writer's own encoding of the reference value is what is in the database
	nb, err := core.NewBlockTransactions(deepCopy(c.Txs), deepCopy(c.Rcs))
	if err == nil {
		enc, err2 := (core.BlockTransactionsSerializer{}).Marshal(&nb)
		if err2 != nil || !bytes.Equal(enc, raw) {
			bad("stored bytes vs Marshal(NewBlockTransactions)", fmt.Sprintf(": differ (err=%v)", err2))
		}
	} else {
		bad("NewBlockTransactions", ": error "+err.Error())
	}
	if len(bt.Indexes.Transactions) != len(c.Txs) || len(bt.Indexes.Receipts) != len(c.Rcs) {
		bad("index header", fmt.Sprintf(": %d/%d offsets for %d/%d items", len(bt.Indexes.Transactions), len(bt.Indexes.Receipts), len(c.Txs), len(c.Rcs)))
		return
	}
	fullTx, err1 := bt.Transactions().All()
	fullRc, err2 := bt.Receipts().All()
	if err1 != nil || err2 != nil {
		bad("full decoder", ": error "+errors.Join(err1, err2).Error())
		return
	}
	var (
		allTx  []core.Transaction
		allRc  []*core.TransactionReceipt
		both   core.TransactionsAndReceipts
		evs    []core.TransactionEvents
		hashes []felt.Felt
	)
	perr := func(acc string, err error) bool {
		if err != nil {
			bad(acc, ": error "+err.Error())
			return false
		}
		return true
	}
	if perr("partial AllTransactions", core.BlockTransactionsAllTransactionsPartialSerializer.UnmarshalPartial(struct{}{}, raw, &allTx)) {
		if d := listEq(fullTx, allTx); d != "" {
			bad("partial AllTransactions != full", prefixTx(d, c))
		}
	}
	if perr("partial AllReceipts", core.BlockTransactionsAllReceiptsPartialSerializer.UnmarshalPartial(struct{}{}, raw, &allRc)) {
		if d := listEq(fullRc, allRc); d != "" {
			bad("partial AllReceipts != full", d)
		}
	}
	if perr("partial AllTransactionsAndReceipts", core.BlockTransactionsAllTransactionsAndReceiptsPartialSerializer.UnmarshalPartial(struct{}{}, raw, &both)) {
		if d := listEq(fullTx, both.Transactions) + listEq(fullRc, both.Receipts); d != "" {
			bad("partial AllTransactionsAndReceipts != full", d)
		}
	}
	if perr("partial AllTransactionEvents", core.BlockTransactionsAllTransactionEventsPartialSerializer.UnmarshalPartial(struct{}{}, raw, &evs)) {
		want := make([]core.TransactionEvents, len(fullRc))
		for i, r := range fullRc {
			want[i] = core.TransactionEvents{Events: r.Events, TransactionHash: r.TransactionHash}
		}
		if d := listEq(want, evs); d != "" {
			bad("partial AllTransactionEvents != full", d)
		}
	}
	if perr("partial AllTransactionHashes", core.BlockTransactionsAllTransactionHashesPartialSerializer.UnmarshalPartial(struct{}{}, raw, &hashes)) {
		want := make([]felt.Felt, len(fullTx))
		for i, t := range fullTx {
			want[i] = *t.Hash()
		}
		if d := listEq(want, hashes); d != "" {
			bad("partial AllTransactionHashes != full", prefixTx(d, c))
		}
	}
	for i := range fullTx {
		var (
			tx   core.Transaction
			rc   *core.TransactionReceipt
			pair core.TransactionAndReceipt
			st   core.TransactionExecutionStatus
		)
		if perr("partial Transaction", core.BlockTransactionsTransactionPartialSerializer.UnmarshalPartial(i, raw, &tx)) {
			if d := diff(fullTx[i], tx); d != "" {
				bad("partial Transaction != full", prefixTx(fmt.Sprintf("[%d]%s", i, d), c))
			}
		}
		if perr("partial Receipt", core.BlockTransactionsReceiptPartialSerializer.UnmarshalPartial(i, raw, &rc)) {
			if d := diff(fullRc[i], rc); d != "" {
				bad("partial Receipt != full", fmt.Sprintf("[%d]%s", i, d))
			}
		}
		if perr("partial TransactionAndReceipt", core.BlockTransactionsTransactionAndReceiptPartialSerializer.UnmarshalPartial(i, raw, &pair)) {
			if d := diff(fullTx[i], pair.Transaction) + diff(fullRc[i], pair.Receipt); d != "" {
				bad("partial TransactionAndReceipt != full", fmt.Sprintf("[%d]%s", i, d))
			}
		}
		if perr("partial ExecutionStatus", core.BlockTransactionsExecutionStatusPartialSerializer.UnmarshalPartial(i, raw, &st)) {
			if st.Reverted != fullRc[i].Reverted || st.RevertReason != fullRc[i].RevertReason {
				bad("partial ExecutionStatus != full", fmt.Sprintf("[%d]: (%v,%q) != (%v,%q)", i, fullRc[i].Reverted, clip(fullRc[i].RevertReason), st.Reverted, clip(st.RevertReason)))
			}
		}
	}
}

// env is one worker's pair of open databases.
type env struct {
	dbs  []db.KeyValueStore
	next uint64
}

func newEnv() *env {
	e := &env{}
	for _, b := range backends {
		e.dbs = append(e.dbs, b.open())
	}
	return e
}

func (e *env) close() {
	for _, d := range e.dbs {
		d.Close()
	}
}

// number hands out block numbers cycling through a window that crosses the CBOR uint widths used by the key codec.
var numberWindow = []uint64{0, 1, 23, 24, 255, 256, 65535, 65536, 1<<32 - 1, 1 << 32, 1<<63 + 5}

func (e *env) number() uint64 {
	e.next++
	return numberWindow[e.next%uint64(len(numberWindow))]
}

const chunkSize = 8 // <= len(numberWindow): consecutive numbers handed out inside a chunk are distinct

// runChunk: write a chunk of cases in ONE batch per backend -> read everything -> delete them in one batch -> compare
// (the comparison happens after further database activity so that a value still aliasing a database buffer would
// show). Cases of a chunk have distinct block numbers and distinct transaction hashes.
func (h *harness) runChunk(e *env, cs []*blockCase, deep bool) {
	h.r.Add("evaluations", int64(len(cs)))
	raws := make([][][]byte, len(cs))
	allOK := make([]bool, len(cs))
	for i := range allOK {
		allOK[i] = true
	}
	for bi, d := range e.dbs {
		be := backends[bi].name
		b := d.NewBatch()
		handed := make([]*blockCase, len(cs))
		live := make([]bool, len(cs))
		for i, c := range cs {
			var err error
			if p, msg := ev.Guard(func() { handed[i], err = writeCase(b, c) }); p {
				h.bad("record", "write", ": panic "+msg, c, be, "")
				allOK[i] = false
				continue
			}
			if err != nil {
				h.bad("record", "write", ": error "+err.Error(), c, be, "")
				allOK[i] = false
				continue
			}
			live[i] = true
		}
		if err := b.Write(); err != nil {
			h.bad("record", "write", ": batch error "+err.Error(), cs[0], be, "")
			for i := range allOK {
				allOK[i] = false
			}
			continue
		}
		gots := make([]*got, len(cs))
		for i, c := range cs {
			if !live[i] {
				continue
			}
			if p, msg := ev.Guard(func() { gots[i] = readCase(d, c, deep) }); p {
				h.bad("record", "read", ": panic "+msg, c, be, "")
				allOK[i] = false
				gots[i] = nil
			}
		}
		db2 := d.NewBatch()
		deleted := make([]bool, len(cs))
		for i, c := range cs {
			if live[i] {
				if p, msg := ev.Guard(func() { deleted[i] = h.deleteInto(d, db2, c, be) }); p {
					h.bad("record", "Delete*", ": panic "+msg, c, be, "")
				}
				if !deleted[i] {
					allOK[i] = false
				}
			}
		}
		if err := db2.Write(); err != nil {
			h.bad("record", "Delete*", ": batch error "+err.Error(), cs[0], be, "")
		}
		for i, c := range cs {
			if !live[i] {
				continue
			}
			if deleted[i] {
				h.checkDeleted(d, c, be)
			}
			g := gots[i]
			if g == nil {
				continue
			}
			if !h.compare(c, g, be, "record") {
				allOK[i] = false
			}
			// juno must not have modified what it was given
			hd := handed[i]
			if dd := diff(c.Hdr, hd.Hdr) + listEq(c.Txs, hd.Txs) + listEq(c.Rcs, hd.Rcs) + diff(c.SU, hd.SU); dd != "" {
				h.bad("record", "write mutated its input", dd, c, be, "")
				allOK[i] = false
			}
			if deep && g.raw != nil {
				raws[i] = append(raws[i], g.raw)
				if bi == 0 {
					h.decoders(c, g.raw, be)
				}
			}
			h.r.Add("accessor_reads", int64(28+len(c.Txs)*9))
		}
	}
	for i, c := range cs {
		for k := 1; k < len(raws[i]); k++ {
			if !bytes.Equal(raws[i][0], raws[i][k]) {
				h.bad("record", "raw bytes memory vs pebblev2", ": differ", c, "both", "")
				allOK[i] = false
				break
			}
		}
		if allOK[i] {
			h.r.Outcome(fmt.Sprintf("ok txs=%d", len(c.Txs)))
		} else {
			h.r.Outcome("mismatch")
		}
	}
}
