package c07

// encode∘decode = identity for every storable value (encoder package + the binary / hand-written codecs), and the
// non-block records that live next to a block (classes, CASM-hash metadata, L1 head, chain height, legacy per-tx buckets).

import (
	"bytes"
	"errors"
	"fmt"
	"math"
	"reflect"

	"verif/mc/chain"
	"verif/mc/ev"

	"github.com/NethermindEth/juno/core"
	"github.com/NethermindEth/juno/core/felt"
	"github.com/NethermindEth/juno/db"
	"github.com/NethermindEth/juno/encoder"
)

// rt: Marshal -> Unmarshal into a fresh T -> strict equality; Marshal again -> identical bytes.
func rt[T any](h *harness, family, label string, v T) {
	h.r.Add("codec_roundtrips", 1)
	var out T
	var b, b2 []byte
	var err error
	if p, msg := ev.Guard(func() {
		b, err = encoder.Marshal(v)
		if err != nil {
			return
		}
		if err = encoder.Unmarshal(b, &out); err != nil {
			return
		}
		b2, err = encoder.Marshal(out)
	}); p {
		h.r.Violate("codec/"+family+" panic", map[string]any{"case": label, "panic": msg})
		return
	}
	if err != nil {
		h.r.Violate("codec/"+family+" error", map[string]any{"case": label, "err": err.Error()})
		return
	}
	if d := diff(v, out); d != "" {
		h.r.Violate("codec/"+family+" "+normPath(d), map[string]any{"case": label, "diff": d})
		h.r.Outcome("codec mismatch")
		return
	}
	if !bytes.Equal(b, b2) {
		h.r.Violate("codec/"+family+" re-encoding differs", map[string]any{"case": label})
		return
	}
	h.r.Outcome("codec ok " + family)
}

var limbVals = []uint64{0, 1, 23, 24, 255, 256, 65535, 65536, math.MaxUint32, math.MaxUint32 + 1, math.MaxUint64}

// boundaryFelts: every combination of limb magnitudes around the CBOR integer-width boundaries (the felt codec is
// hand-written and switches on them). The top limb stays below the field modulus' top limb so every value is a
// valid element in its internal representation.
func boundaryFelts() []felt.Felt {
	tops := []uint64{0, 1, 23, 24, 255, 256, 65535, 65536, math.MaxUint32, math.MaxUint32 + 1, 0x0800000000000010}
	var out []felt.Felt
	for _, a := range limbVals {
		for _, b := range limbVals {
			for _, c := range limbVals {
				for _, t := range tops {
					out = append(out, felt.Felt{a, b, c, t})
				}
			}
		}
	}
	return out
}

func (h *harness) codecPhase() {
	fs := boundaryFelts()
	h.r.Set("codec_boundary_felts", int64(len(fs)))
	ev.Par(len(fs), workers(), func(i int) {
		f := fs[i]
		rt(h, "felt", fmt.Sprintf("felt limbs %x", [4]uint64(f)), f)
		rt(h, "*felt", fmt.Sprintf("felt limbs %x", [4]uint64(f)), &f)
	})
	// felt slices at the array-header boundaries, as plain []felt.Felt, as felt.Slice and inside an event
	lens := []int{0, 1, 2, 23, 24, 25, 255, 256, 257}
	// 131072 is the default array-element limit of the generic CBOR decoder (juno configures 10Mi): a code path that
	// falls back to the default mode only breaks beyond it. Real Sierra programs and CASM bytecode are that long.
	lens = append(lens, 131071, 131072, 131073)
	if h.r.Thorough() {
		lens = append(lens, 65535, 65536, 65537, 1<<18 + 1)
	}
	for _, l := range lens {
		for _, stride := range []int{1, 7, 131} {
			s := make([]felt.Felt, l)
			for i := range s {
				s[i] = fs[(i*stride+l)%len(fs)]
			}
			rt(h, "[]felt", fmt.Sprintf("len %d stride %d", l, stride), s)
			rt(h, "felt.Slice", fmt.Sprintf("len %d stride %d", l, stride), felt.Slice[felt.Felt](s))
			rt(h, "event", fmt.Sprintf("keys len %d stride %d", l, stride), &core.Event{From: &s0, Keys: s, Data: s})
		}
	}
	rt(h, "[]felt", "nil", []felt.Felt(nil))
	rt(h, "felt.Slice", "nil", felt.Slice[felt.Felt](nil))

	// transactions: every kind, every single-location perturbation (TransactionHash included), as the concrete
	// pointer and through the Transaction interface (tag-discriminated)
	for _, k := range chain.TxKinds {
		vs := append([]variant[core.Transaction]{{"base", baseTx(k, 0)}}, perturb(baseTx(k, 0), nil)...)
		for _, v := range vs {
			rt(h, "Transaction(iface) "+k, v.Label, v.V)
			switch t := v.V.(type) {
			case *core.InvokeTransaction:
				rt(h, "*InvokeTransaction", v.Label, t)
			case *core.DeclareTransaction:
				rt(h, "*DeclareTransaction", v.Label, t)
			case *core.DeployTransaction:
				rt(h, "*DeployTransaction", v.Label, t)
			case *core.DeployAccountTransaction:
				rt(h, "*DeployAccountTransaction", v.Label, t)
			case *core.L1HandlerTransaction:
				rt(h, "*L1HandlerTransaction", v.Label, t)
			}
		}
	}
	// receipts: all 108 shapes for a plain and an L1-handler transaction + perturbations
	for _, k := range []string{"invoke1", "invoke3", "l1handler0"} {
		for _, s := range allRShapes() {
			rt(h, "*TransactionReceipt", k+"/"+s.String(), mkReceipt(baseTx(k, 0), s, 1))
		}
		for _, v := range perturb(mkReceipt(baseTx(k, 0), rshape{3, 2, 1, 2}, 1), nil) {
			rt(h, "*TransactionReceipt", k+" "+v.Label, v.V)
		}
	}
	// headers
	nh := nHeaderShapes()
	ev.Par(nh, workers(), func(i int) {
		rt(h, "*Header", fmt.Sprint(headerShape(i)), mkHeader(uint64(i), headerShape(i)))
	})
	for _, v := range perturb(fullHeader(9, nil), nil) {
		rt(h, "*Header", v.Label, v.V)
	}
	// state updates, commitments, L1 head
	ev.Par(2187, workers(), func(i int) {
		rt(h, "*StateUpdate", suShape(i).String(), mkStateUpdateRecord(uint64(i), suShape(i)))
	})
	for _, v := range perturb(mkStateUpdateRecord(9, suShape(2186)), nil) {
		rt(h, "*StateUpdate", v.Label, v.V)
	}
	rt(h, "*StateUpdate", "nil diff", &core.StateUpdate{})
	for _, v := range perturb(mkCommitments(9), nil) {
		rt(h, "*BlockCommitments", v.Label, v.V)
	}
	l1 := &core.L1Head{BlockNumber: 1 << 40, BlockHash: F(0xE7), StateRoot: F(0x6007)}
	rt(h, "*L1Head", "full", l1)
	for _, v := range perturb(l1, nil) {
		rt(h, "*L1Head", v.Label, v.V)
	}
	// classes: through the ClassDefinition interface (tagged) and as DeclaredClassDefinition (binary marshaler)
	for _, c := range classCases() {
		rt(h, "ClassDefinition(iface)", c.Label, c.Def.Class)
		rt(h, "*DeclaredClassDefinition", c.Label, c.Def)
	}
	// the indexed blob serializer on block shapes is exercised on every record case (decoders())
}

var s0 = chain.AddrA

// miscPhase: records that accompany a block but are not part of the blob.
func (h *harness) miscPhase() {
	for bi, b := range backends {
		d := b.open()
		be := b.name
		bad := func(acc, dd, label string) {
			h.r.Violate("record/"+acc+" "+normPath(dd), map[string]any{"backend": be, "case": label, "diff": dd})
		}
		// declared classes
		cs := classCases()
		for _, c := range cs {
			h.r.Add("evaluations", 1)
			handed := deepCopy(c.Def)
			hash := c.Hash
			if err := core.WriteClass(d, &hash, handed); err != nil {
				bad("WriteClass", ": error "+err.Error(), c.Label)
				continue
			}
		}
		for _, c := range cs {
			hash := c.Hash
			got, err := core.GetClass(d, &hash)
			if err != nil {
				bad("GetClass", ": error "+err.Error(), c.Label)
				continue
			}
			if dd := diff(c.Def, got); dd != "" {
				bad("GetClass", dd, c.Label)
			}
			if has, err := core.HasClass(d, &hash); err != nil || !has {
				bad("HasClass", fmt.Sprintf(": has=%v err=%v", has, err), c.Label)
			}
			// core.ClassBucket ("TODO: Integrate this bucket", no caller anywhere in juno) declares value.Binary for this
			// record, but WriteClass stores encoder.Marshal(*DeclaredClassDefinition) = a CBOR byte string WRAPPING the binary
			// form, so the typed bucket cannot decode what the node writes. It is not a way the node reads a class back,
			// hence not a C07 violation; it is counted and reported as a latent schema mismatch.
			got2, err := core.ClassBucket.Get(d, (*felt.ClassHash)(&hash))
			if err != nil || diff(*c.Def, got2) != "" {
				h.r.Add("latent_unused_ClassBucket_cannot_decode_WriteClass_records", 1)
			}
		}
		for _, c := range cs {
			hash := c.Hash
			if err := core.DeleteClass(d, &hash); err != nil {
				bad("DeleteClass", ": error "+err.Error(), c.Label)
			}
			if _, err := core.GetClass(d, &hash); !errors.Is(err, db.ErrKeyNotFound) {
				bad("GetClass after delete", fmt.Sprintf(": want ErrKeyNotFound got %v", err), c.Label)
			}
		}
		h.r.Add("cases_classes", int64(len(cs)))
		h.r.Outcome("classes ok")

		// CASM hash metadata
		_, sh1, c1v1, c1v2 := chain.Sierra(1)
		v1, v2 := felt.CasmClassHash(c1v1), felt.CasmClassHash(c1v2)
		var metas []core.ClassCasmHashMetadata
		for _, at := range []uint64{0, 1, 255, 1 << 32, math.MaxUint64 - 1} {
			m1 := core.NewCasmHashMetadataDeclaredV1(at, &v1, &v2)
			metas = append(metas, m1, core.NewCasmHashMetadataDeclaredV2(at, &v2))
			if at < math.MaxUint64-1 {
				m := core.NewCasmHashMetadataDeclaredV1(at, &v1, &v2)
				if err := m.Migrate(at + 1); err == nil {
					metas = append(metas, m)
				}
			}
		}
		for i, m := range metas {
			h.r.Add("evaluations", 1)
			k := felt.SierraClassHash(sh1)
			handed := m
			if err := core.WriteClassCasmHashMetadata(d, &k, &handed); err != nil {
				bad("WriteClassCasmHashMetadata", ": error "+err.Error(), fmt.Sprint(i))
				continue
			}
			got, err := core.GetClassCasmHashMetadata(d, &k)
			if err != nil {
				bad("GetClassCasmHashMetadata", ": error "+err.Error(), fmt.Sprint(i))
				continue
			}
			if !reflect.DeepEqual(m, got) {
				bad("GetClassCasmHashMetadata", fmt.Sprintf(": %+v != %+v", m, got), fmt.Sprint(i))
			}
			if err := core.DeleteClassCasmHashMetadata(d, &k); err != nil {
				bad("DeleteClassCasmHashMetadata", ": error "+err.Error(), fmt.Sprint(i))
			}
		}
		h.r.Add("cases_casm_metadata", int64(len(metas)))

		// L1 head, chain height, block number by hash over CBOR/big-endian width boundaries
		for _, n := range numberWindow {
			h.r.Add("evaluations", 1)
			l1 := &core.L1Head{BlockNumber: n, BlockHash: F(n + 1), StateRoot: F(n + 2)}
			if err := core.WriteL1Head(d, deepCopy(l1)); err != nil {
				bad("WriteL1Head", ": error "+err.Error(), fmt.Sprint(n))
			}
			got, err := core.GetL1Head(d)
			if err != nil {
				bad("GetL1Head", ": error "+err.Error(), fmt.Sprint(n))
			} else if dd := diff(*l1, got); dd != "" {
				bad("GetL1Head", dd, fmt.Sprint(n))
			}
			if err := core.WriteChainHeight(d, n); err != nil {
				bad("WriteChainHeight", ": error "+err.Error(), fmt.Sprint(n))
			}
			if ht, err := core.GetChainHeight(d); err != nil || ht != n {
				bad("GetChainHeight", fmt.Sprintf(": %d != %d (err %v)", n, ht, err), fmt.Sprint(n))
			}
		}
		h.r.Add("cases_l1head_height", int64(len(numberWindow)))

		// legacy one-record-per-transaction buckets (still typed buckets of the schema; the migration reads them)
		cnt := 0
		for _, k := range chain.TxKinds {
			for si, s := range pairwiseRShapes() {
				h.r.Add("evaluations", 1)
				cnt++
				tx := baseTx(k, 0)
				rc := mkReceipt(tx, s, 0)
				key := db.BlockNumIndexKey{Number: numberWindow[si%len(numberWindow)], Index: uint64(si)}
				htx, hrc := deepCopy(tx), deepCopy(rc)
				if err := core.TransactionsByBlockNumberAndIndexBucket.Put(d, key, &htx); err != nil {
					bad("TransactionsByBlockNumberAndIndexBucket.Put", ": error "+err.Error(), k)
					continue
				}
				if err := core.ReceiptsByBlockNumberAndIndexBucket.Put(d, key, hrc); err != nil {
					bad("ReceiptsByBlockNumberAndIndexBucket.Put", ": error "+err.Error(), k)
					continue
				}
				gtx, err := core.TransactionsByBlockNumberAndIndexBucket.Get(d, key)
				if err != nil {
					bad("TransactionsByBlockNumberAndIndexBucket.Get", ": error "+err.Error(), k)
				} else if dd := diff(tx, gtx); dd != "" {
					bad("TransactionsByBlockNumberAndIndexBucket.Get", dd+" <"+k+">", k)
				}
				grc, err := core.ReceiptsByBlockNumberAndIndexBucket.Get(d, key)
				if err != nil {
					bad("ReceiptsByBlockNumberAndIndexBucket.Get", ": error "+err.Error(), k)
				} else if dd := diff(*rc, grc); dd != "" {
					bad("ReceiptsByBlockNumberAndIndexBucket.Get", dd, k+"/"+s.String())
				}
			}
		}
		h.r.Add("cases_legacy_tx_buckets", int64(cnt))
		if bi == 0 {
			h.r.Sample(map[string]any{"phase": "misc", "classes": len(cs), "casm_metadata": len(metas), "legacy_bucket_records": cnt})
		}
		d.Close()
	}
}
