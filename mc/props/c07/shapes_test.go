package c07

// The enumerated shape spaces: transactions, receipts, headers, state updates, classes.

import (
	"encoding/json"
	"fmt"
	"math/big"
	"sync"

	"verif/mc/chain"
	"verif/mc/ev"

	"github.com/NethermindEth/juno/core"
	"github.com/NethermindEth/juno/core/felt"
	"github.com/NethermindEth/juno/l1/eth"
	"github.com/bits-and-blooms/bloom/v3"
)

var (
	F  = chain.F
	FV = chain.FV
)

// ---- transactions -------------------------------------------------------------------------------------------

const maxSalt = 3 * chunkSize // position in block + 3 x slot in the write chunk

var (
	txMemoOnce sync.Once
	txMemo     map[string][maxSalt]core.Transaction
)

// baseTx returns the memoised (read-only!) transaction of a kind; salt = position in the block so that hashes
// inside a block are distinct. Hashes are the real protocol hashes (chain.MakeTx).
func baseTx(kind string, salt int) core.Transaction {
	txMemoOnce.Do(func() {
		txMemo = map[string][maxSalt]core.Transaction{}
		for _, k := range chain.TxKinds {
			var a [maxSalt]core.Transaction
			for s := 0; s < maxSalt; s++ {
				a[s] = chain.MakeTx(chain.TxSpec{Kind: k, Salt: uint64(s)}, "0.13.4")
			}
			txMemo[k] = a
		}
	})
	return txMemo[kind][salt]
}

// txVariants: for one kind, the base transaction plus every single-location perturbation of it (each slice
// field nil / empty / longer, each pointer nil, each map nil / empty, each integer 0 / 24 / max). TransactionHash
// stays (it is the storage key; a stored transaction always has one).
func txVariants(kind string) []variant[core.Transaction] {
	b := baseTx(kind, 0)
	out := []variant[core.Transaction]{{"base", b}}
	for _, v := range perturb(b, map[string]bool{"TransactionHash": true}) {
		// an L1 handler without calldata is not a storable message: MessageHash() indexes CallData[0] (the L1 sender), so
		// WriteL1HandlerMsgHashes / DeleteTransactionsAndReceipts panic on it. Outside the property's domain (a block's
		// L1 handler always carries the sender); covered by the pure codec round trip only.
		// Same for a nil ContractAddress / EntryPointSelector. Rule: a variant whose MessageHash() panics is skipped.
		if l1, ok := v.V.(*core.L1HandlerTransaction); ok {
			if p, _ := ev.Guard(func() { l1.MessageHash() }); p {
				continue
			}
		}
		out = append(out, v)
	}
	return out
}

// ---- receipts --------------------------------------------------------------------------------------------

// rshape: Ev 0=nil slice,1=empty slice,2=one event,3=two events; Msg 0=nil,1=empty,2=one message;
// Rev 0=succeeded,1=reverted with reason,2=reverted with empty reason; Res 0=nil,1=zero struct,2=populated.
type rshape struct{ Ev, Msg, Rev, Res int }

func (s rshape) String() string { return fmt.Sprintf("e%dm%dr%dx%d", s.Ev, s.Msg, s.Rev, s.Res) }

func allRShapes() []rshape {
	var out []rshape
	for e := 0; e < 4; e++ {
		for m := 0; m < 3; m++ {
			for r := 0; r < 3; r++ {
				for x := 0; x < 3; x++ {
					out = append(out, rshape{e, m, r, x})
				}
			}
		}
	}
	return out
}

// pairwiseRShapes: 12 shapes covering every pair of levels of the four factors (linear construction over Z3:
// rev = ev+msg, res = ev+2·msg; the 2x2 matrix is invertible mod 3 so (rev,res) covers all 9 pairs too).
func pairwiseRShapes() []rshape {
	var out []rshape
	for e := 0; e < 4; e++ {
		for m := 0; m < 3; m++ {
			out = append(out, rshape{e, m, (e + m) % 3, (e + 2*m) % 3})
		}
	}
	return out
}

// strength3RShapes: 36 shapes = every (Ev, Msg, Rev) triple with Res = Ev+Msg+Rev mod 3: every combination of any
// three of the four factors' levels occurs (used for size-3 blocks in the thorough tier).
func strength3RShapes() []rshape {
	var out []rshape
	for e := 0; e < 4; e++ {
		for m := 0; m < 3; m++ {
			for r := 0; r < 3; r++ {
				out = append(out, rshape{e, m, r, (e + m + r) % 3})
			}
		}
	}
	return out
}

var addrA, addrB = chain.AddrA, chain.AddrB

func mkReceipt(tx core.Transaction, s rshape, salt uint64) *core.TransactionReceipt {
	r := &core.TransactionReceipt{Fee: F(0xFEE + salt), FeeUnit: core.WEI, TransactionHash: tx.Hash()}
	if v := tx.TxVersion(); v != nil && v.Is(3) {
		r.FeeUnit = core.STRK
	}
	switch s.Ev {
	case 1:
		r.Events = []*core.Event{}
	case 2:
		r.Events = []*core.Event{{From: &addrA, Keys: []felt.Felt{chain.Key1, chain.Key2}, Data: []felt.Felt{}}}
	case 3:
		r.Events = []*core.Event{
			{From: &addrB, Keys: nil, Data: []felt.Felt{FV(0xDA7A + salt)}},
			{From: &addrA, Keys: []felt.Felt{chain.Key1}, Data: []felt.Felt{FV(1), FV(2), FV(salt)}},
		}
	}
	switch s.Msg {
	case 1:
		r.L2ToL1Message = []*core.L2ToL1Message{}
	case 2:
		r.L2ToL1Message = []*core.L2ToL1Message{{From: &addrA, Payload: []felt.Felt{FV(7), FV(salt)}, To: eth.AddressFromBytes([]byte{0xE1, byte(salt)})}}
	}
	switch s.Rev {
	case 1:
		r.Reverted, r.RevertReason = true, fmt.Sprintf("Error in the called contract (0x%x): out of gas", 0xA11CE+salt)
	case 2:
		r.Reverted = true
	}
	switch s.Res {
	case 1:
		r.ExecutionResources = &core.ExecutionResources{}
	case 2:
		r.ExecutionResources = &core.ExecutionResources{
			BuiltinInstanceCounter: core.BuiltinInstanceCounter{Pedersen: 1, RangeCheck: 2 + salt, Bitwise: 3, Output: 4, Ecsda: 5, EcOp: 6,
				Keccak: 7, Poseidon: 8, SegmentArena: 9, AddMod: 10, MulMod: 11, RangeCheck96: 12},
			MemoryHoles: 13, Steps: 1400 + salt,
			DataAvailability: &core.DataAvailability{L1Gas: 15, L1DataGas: 16 + salt},
			TotalGasConsumed: &core.GasConsumed{L1Gas: 17, L1DataGas: 18, L2Gas: 1 << 40},
		}
	}
	if l1, ok := tx.(*core.L1HandlerTransaction); ok && len(l1.CallData) > 0 {
		r.L1ToL2Message = &core.L1ToL2Message{From: eth.AddressFromBytes([]byte{0xE7, 0xA1}), Nonce: l1.Nonce,
			Payload: append([]felt.Felt{}, l1.CallData[1:]...), Selector: l1.EntryPointSelector, To: l1.ContractAddress}
	}
	return r
}

// ---- headers ----------------------------------------------------------------------------------------------

func blockHashFor(n uint64) *felt.Felt { return F(0xB10C000000 + n) }

func fullHeader(n uint64, rcs []*core.TransactionReceipt) *core.Header {
	var evs uint64
	for _, r := range rcs {
		if r != nil {
			evs += uint64(len(r.Events))
		}
	}
	return &core.Header{
		Hash: blockHashFor(n), ParentHash: F(0x9A9E00 + n), Number: n, GlobalStateRoot: F(0x6007 + n), SequencerAddress: &chain.Seq,
		TransactionCount: uint64(len(rcs)), EventCount: evs, Timestamp: 1700000000 + n, ProtocolVersion: "0.13.4",
		EventsBloom: safeBloom(rcs), L1GasPriceETH: F(0x6A5), L1GasPriceSTRK: F(0x6A6), L1DAMode: core.Blob,
		L1DataGasPrice: &core.GasPrice{PriceInWei: F(0xDA1), PriceInFri: F(0xDA2)},
		L2GasPrice:     &core.GasPrice{PriceInWei: F(0x2A1), PriceInFri: F(0x2A2)},
		Signatures:     [][]*felt.Felt{{F(0x516), F(0x517)}},
	}
}

// safeBloom: core.EventsBloom over the well-formed events only (perturbed receipts may hold nil events / senders;
// the header's filter content is irrelevant to storage fidelity).
func safeBloom(rcs []*core.TransactionReceipt) *bloom.BloomFilter {
	var clean []*core.TransactionReceipt
	for _, r := range rcs {
		if r == nil {
			continue
		}
		c := &core.TransactionReceipt{}
		for _, e := range r.Events {
			if e != nil && e.From != nil {
				c.Events = append(c.Events, e)
			}
		}
		clean = append(clean, c)
	}
	return core.EventsBloom(clean)
}

// headerShapes: the product of every optional header field over {nil, …, populated}.
// ParentHash 2 x GlobalStateRoot 2 x Sequencer 2 x EventsBloom 3 (nil / empty filter / populated) x L1GasPriceETH 2 x
// L1GasPriceSTRK 2 x Signatures 5 (nil / [] / [[]] / [[a,b]] / [nil,[a]]) x L1DataGasPrice 3 (nil / {nil,nil} / full) x
// L2GasPrice 3 x ProtocolVersion 2 x L1DAMode 2 = 17280.
type hshape [11]int

var hLevels = hshape{2, 2, 2, 3, 2, 2, 5, 3, 3, 2, 2}

func nHeaderShapes() int {
	n := 1
	for _, l := range hLevels {
		n *= l
	}
	return n
}

func headerShape(i int) hshape {
	var s hshape
	for k, l := range hLevels {
		s[k] = i % l
		i /= l
	}
	return s
}

var popBloom = func() *bloom.BloomFilter {
	return core.EventsBloom([]*core.TransactionReceipt{{Events: []*core.Event{{From: &addrA, Keys: []felt.Felt{chain.Key1}}}}})
}

func mkHeader(n uint64, s hshape) *core.Header {
	h := &core.Header{Hash: blockHashFor(n), Number: n, Timestamp: 1700000000 + n, TransactionCount: 0, EventCount: uint64(s[3])}
	if s[0] == 1 {
		h.ParentHash = F(0x9A9E00 + n)
	}
	if s[1] == 1 {
		h.GlobalStateRoot = F(0x6007 + n)
	}
	if s[2] == 1 {
		h.SequencerAddress = &chain.Seq
	}
	switch s[3] {
	case 1:
		h.EventsBloom = core.EventsBloom(nil)
	case 2:
		h.EventsBloom = popBloom()
	}
	if s[4] == 1 {
		h.L1GasPriceETH = F(0x6A5)
	}
	if s[5] == 1 {
		h.L1GasPriceSTRK = F(0x6A6)
	}
	switch s[6] {
	case 1:
		h.Signatures = [][]*felt.Felt{}
	case 2:
		h.Signatures = [][]*felt.Felt{{}}
	case 3:
		h.Signatures = [][]*felt.Felt{{F(0x516), F(0x517)}}
	case 4:
		h.Signatures = [][]*felt.Felt{nil, {F(0x518)}}
	}
	switch s[7] {
	case 1:
		h.L1DataGasPrice = &core.GasPrice{}
	case 2:
		h.L1DataGasPrice = &core.GasPrice{PriceInWei: F(0xDA1), PriceInFri: F(0xDA2)}
	}
	switch s[8] {
	case 1:
		h.L2GasPrice = &core.GasPrice{}
	case 2:
		h.L2GasPrice = &core.GasPrice{PriceInWei: F(0x2A1), PriceInFri: F(0x2A2)}
	}
	if s[9] == 1 {
		h.ProtocolVersion = "0.14.1"
	}
	if s[10] == 1 {
		h.L1DAMode = core.Blob
	}
	return h
}

// ---- state updates -------------------------------------------------------------------------------------------

// sushape: each of the 7 state-diff sections 0=nil 1=empty 2=populated. 3^7 = 2187.
type sushape [7]int

func suShape(i int) sushape {
	var s sushape
	for k := range s {
		s[k] = i % 3
		i /= 3
	}
	return s
}

func (s sushape) String() string { return fmt.Sprint([7]int(s)) }

// mkStateDiffRecord: populated sections include shapes only a record (not a valid chain) can have: an inner empty
// storage map, two addresses, several classes.
func mkStateDiffRecord(s sushape) *core.StateDiff {
	d := &core.StateDiff{}
	_, c0 := chain.Cairo0(0)
	_, c1 := chain.Cairo0(1)
	_, s1, k1, k1v2 := chain.Sierra(1)
	_, s2, k2, _ := chain.Sierra(2)
	pick := func(lvl int, empty, pop func()) {
		switch lvl {
		case 1:
			empty()
		case 2:
			pop()
		}
	}
	pick(s[0], func() { d.StorageDiffs = map[felt.Felt]map[felt.Felt]*felt.Felt{} }, func() {
		d.StorageDiffs = map[felt.Felt]map[felt.Felt]*felt.Felt{
			addrA:      {chain.Slot0: F(5), chain.Slot1: F(0)},
			addrB:      {},
			chain.Sys1: {FV(7): F(0xB10C)},
		}
	})
	pick(s[1], func() { d.Nonces = map[felt.Felt]*felt.Felt{} }, func() { d.Nonces = map[felt.Felt]*felt.Felt{addrA: F(1), addrB: F(0)} })
	pick(s[2], func() { d.DeployedContracts = map[felt.Felt]*felt.Felt{} }, func() { d.DeployedContracts = map[felt.Felt]*felt.Felt{addrB: &c0, chain.AddrC: &s1} })
	pick(s[3], func() { d.DeclaredV0Classes = []*felt.Felt{} }, func() { d.DeclaredV0Classes = []*felt.Felt{&c0, &c1} })
	pick(s[4], func() { d.DeclaredV1Classes = map[felt.Felt]*felt.Felt{} }, func() { d.DeclaredV1Classes = map[felt.Felt]*felt.Felt{s1: &k1, s2: &k2} })
	pick(s[5], func() { d.ReplacedClasses = map[felt.Felt]*felt.Felt{} }, func() { d.ReplacedClasses = map[felt.Felt]*felt.Felt{addrA: &s1} })
	pick(s[6], func() { d.MigratedClasses = map[felt.SierraClassHash]felt.CasmClassHash{} }, func() {
		d.MigratedClasses = map[felt.SierraClassHash]felt.CasmClassHash{felt.SierraClassHash(s1): felt.CasmClassHash(k1v2)}
	})
	return d
}

func mkStateUpdateRecord(n uint64, s sushape) *core.StateUpdate {
	return &core.StateUpdate{BlockHash: blockHashFor(n), NewRoot: F(0x6007 + n), OldRoot: F(0x6006 + n), StateDiff: mkStateDiffRecord(s)}
}

func mkCommitments(n uint64) *core.BlockCommitments {
	return &core.BlockCommitments{TransactionCommitment: F(0xC1 + n), EventCommitment: F(0xC2), ReceiptCommitment: F(0xC3), StateDiffCommitment: F(0xC4), StateDiffLength: 5 + n}
}

// ---- classes -----------------------------------------------------------------------------------------------

type classCase struct {
	Label string
	Hash  felt.Felt
	Def   *core.DeclaredClassDefinition
}

func lvl3[T any](l int, pop []T) []T {
	switch l {
	case 0:
		return nil
	case 1:
		return []T{}
	}
	return pop
}

// classCases: Cairo-0 classes with each entry-point list in {nil, empty, populated} (27) x Abi {nil, "[]", real};
// Sierra classes with each entry-point list in {nil, empty, populated} (27) x Compiled {nil, populated CASM with each of its
// three lists cycling through nil/empty/populated and a nested BytecodeSegmentLengths} x Program {nil, empty, populated}.
func classCases() []classCase {
	var out []classCase
	c0, _ := chain.Cairo0(0)
	ep := []core.DeprecatedEntryPoint{{Selector: F(0xE0), Offset: F(0)}, {Selector: F(0xE1), Offset: F(12)}}
	n := uint64(0)
	for a := 0; a < 3; a++ {
		for b := 0; b < 3; b++ {
			for c := 0; c < 3; c++ {
				for abi := 0; abi < 3; abi++ {
					d := &core.DeprecatedCairoClass{Externals: lvl3(a, ep), L1Handlers: lvl3(b, ep[:1]), Constructors: lvl3(c, ep[1:]), Program: c0.Program}
					switch abi {
					case 1:
						d.Abi = json.RawMessage(`[]`)
					case 2:
						d.Abi = json.RawMessage(`[{"type":"function","name":"f","inputs":[{"name":"x","type":"felt"}],"outputs":[]}]`)
					}
					if a == 0 && b == 0 {
						d.Program = ""
					}
					n++
					out = append(out, classCase{fmt.Sprintf("cairo0 ext%d l1h%d ctor%d abi%d", a, b, c, abi), FV(0xC0DE0000 + n), &core.DeclaredClassDefinition{At: n, Class: d}})
				}
			}
		}
	}
	s1, _, _, _ := chain.Sierra(1)
	sep := []core.SierraEntryPoint{{Index: 0, Selector: F(0x5E1)}, {Index: 1 << 33, Selector: F(0x5E2)}}
	cep := []core.CasmEntryPoint{{Offset: 0, Builtins: []string{"range_check", "poseidon"}, Selector: F(0x5E1)}, {Offset: 300, Builtins: nil, Selector: F(0x5E2)},
		{Offset: 1 << 20, Builtins: []string{}, Selector: nil}}
	prime, _ := new(big.Int).SetString("800000000000011000000000000000000000000000000000000000000000001", 16)
	for a := 0; a < 3; a++ {
		for b := 0; b < 3; b++ {
			for c := 0; c < 3; c++ {
				for comp := 0; comp < 2; comp++ {
					for prog := 0; prog < 3; prog++ {
						d := &core.SierraClass{Abi: s1.Abi, AbiHash: F(0xAB1), ProgramHash: F(0x9406), SemanticVersion: "0.1.0",
							EntryPoints: core.SierraEntryPointsByType{Constructor: lvl3(a, sep[:1]), External: lvl3(b, sep), L1Handler: lvl3(c, sep[1:])},
							Program:     lvl3(prog, []felt.Felt{FV(1), FV(6), FV(0), FV(2), FV(7)})}
						if comp == 1 {
							d.Compiled = &core.CasmClass{
								Bytecode: lvl3(prog, []felt.Felt{FV(0x480680017fff8000), FV(1), FV(0x208b7fff7fff7ffe)}), PythonicHints: json.RawMessage(`[]`),
								CompilerVersion: "2.6.0", Hints: json.RawMessage(`[[0,[{"TestLessThan":{}}]]]`), Prime: prime,
								External: lvl3(a, cep), L1Handler: lvl3(b, cep[:1]), Constructor: lvl3(c, cep[1:]),
								BytecodeSegmentLengths: core.SegmentLengths{Children: []core.SegmentLengths{{Length: 2}, {Children: []core.SegmentLengths{{Length: 1}}, Length: 0}}, Length: 3},
							}
							if a == 0 {
								d.Compiled.Prime = nil
								d.Compiled.PythonicHints, d.Compiled.Hints = nil, nil
							}
						}
						if a == 0 && b == 0 {
							d.Abi, d.AbiHash, d.ProgramHash = "", nil, nil
						}
						n++
						out = append(out, classCase{fmt.Sprintf("sierra ctor%d ext%d l1h%d casm%d prog%d", a, b, c, comp, prog), FV(0xC0DE0000 + n),
							&core.DeclaredClassDefinition{At: n, Class: d}})
					}
				}
			}
		}
	}
	// realistic sizes: programs / bytecode longer than the generic CBOR decoder's default element limit (131072),
	// holding short-encoded felts (zero, small constants) next to full-width ones
	for _, ln := range []int{131073, 200001} {
		big := make([]felt.Felt, ln)
		for i := range big {
			switch i % 5 {
			case 0:
				big[i] = FV(0)
			case 1:
				big[i] = FV(uint64(i))
			default:
				big[i] = *new(felt.Felt).Mul(F(0x480680017fff8000), F(uint64(i)+0xFFFFFFFFFF))
			}
		}
		d := &core.SierraClass{Abi: s1.Abi, AbiHash: F(0xAB1), ProgramHash: F(0x9406), SemanticVersion: "0.1.0",
			EntryPoints: core.SierraEntryPointsByType{Constructor: []core.SierraEntryPoint{}, External: sep, L1Handler: []core.SierraEntryPoint{}},
			Program:     big,
			Compiled: &core.CasmClass{Bytecode: big, PythonicHints: json.RawMessage(`[]`), CompilerVersion: "2.6.0", Hints: json.RawMessage(`[]`), Prime: prime,
				External: cep, L1Handler: []core.CasmEntryPoint{}, Constructor: []core.CasmEntryPoint{}}}
		n++
		out = append(out, classCase{fmt.Sprintf("sierra with %d program felts", ln), FV(0xC0DE0000 + n), &core.DeclaredClassDefinition{At: n, Class: d}})
	}
	// the shared synthetic classes used on valid chains
	for i := 0; i < 2; i++ {
		c, h := chain.Cairo0(i)
		out = append(out, classCase{fmt.Sprintf("chain.Cairo0(%d)", i), h, &core.DeclaredClassDefinition{At: 3, Class: c}})
		s, sh, _, _ := chain.Sierra(i + 1)
		out = append(out, classCase{fmt.Sprintf("chain.Sierra(%d)", i+1), sh, &core.DeclaredClassDefinition{At: 1 << 40, Class: s}})
	}
	return out
}
