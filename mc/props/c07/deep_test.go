package c07

// Strict structural equality / deep copy / single-location perturbation over juno's storable values.
// Strict means: nil and empty slices/maps are DIFFERENT, nil and non-nil pointers are different, dynamic types
// of interface values must match. Tolerances are an explicit table (see tolerances below), nothing else.

import (
	"fmt"
	"math"
	"math/big"
	"reflect"
	"regexp"
	"sort"
	"strings"

	"github.com/NethermindEth/juno/core"
	"github.com/bits-and-blooms/bloom/v3"
)

var hexRe = regexp.MustCompile(`0x[0-9a-fA-F]+`)

var (
	tBloomPtr = reflect.TypeOf((*bloom.BloomFilter)(nil))
	tBigPtr   = reflect.TypeOf((*big.Int)(nil))
	tFelt4    = reflect.TypeOf([4]uint64{})
)

// tolerances: struct type + field name whose nil slice and empty slice are the same stored value.
//   - InvokeTransaction.ProofFacts is tagged `cbor:",omitempty"`: nil and empty are both "absent" on the wire and the
//     transaction hash only looks at len(ProofFacts) > 0 (core/transaction.go), so no hash depends on the distinction.
var tolerances = map[reflect.Type]map[string]bool{
	reflect.TypeOf(core.InvokeTransaction{}): {"ProofFacts": true},
}

// diff returns "" when want and got are strictly equal, otherwise the path of the first difference.
func diff(want, got any) string {
	w, g := reflect.ValueOf(want), reflect.ValueOf(got)
	if eq(w, g) {
		return ""
	}
	return explain(w, g, "")
}

func isNilable(k reflect.Kind) bool {
	switch k {
	case reflect.Ptr, reflect.Slice, reflect.Map, reflect.Interface:
		return true
	}
	return false
}

func eq(w, g reflect.Value) bool { return walk(w, g, false, "") == "" }

func explain(w, g reflect.Value, path string) string {
	s := walk(w, g, true, path)
	if s == "" {
		s = path + ": (no difference found on second pass)"
	}
	return s
}

const differs = "!"

// walk returns "" if equal; otherwise a description (only meaningful when trace is set).
func walk(w, g reflect.Value, trace bool, path string) string {
	fail := func(f string, a ...any) string {
		if !trace {
			return differs
		}
		return path + ": " + fmt.Sprintf(f, a...)
	}
	if !w.IsValid() || !g.IsValid() {
		if w.IsValid() != g.IsValid() {
			return fail("one side is an untyped nil (want valid=%v got valid=%v)", w.IsValid(), g.IsValid())
		}
		return ""
	}
	if w.Type() != g.Type() {
		return fail("type %s != %s", w.Type(), g.Type())
	}
	k := w.Kind()
	if isNilable(k) && w.IsNil() != g.IsNil() {
		return fail("want nil=%v got nil=%v (%s)", w.IsNil(), g.IsNil(), w.Type())
	}
	switch k {
	case reflect.Interface:
		if w.IsNil() {
			return ""
		}
		return walk(w.Elem(), g.Elem(), trace, path)
	case reflect.Ptr:
		if w.IsNil() {
			return ""
		}
		switch w.Type() {
		case tBloomPtr:
			if w.CanInterface() {
				a, b := w.Interface().(*bloom.BloomFilter), g.Interface().(*bloom.BloomFilter)
				if a.Cap() != b.Cap() || a.K() != b.K() || !a.Equal(b) {
					return fail("bloom filters differ (cap %d/%d k %d/%d)", a.Cap(), b.Cap(), a.K(), b.K())
				}
				return ""
			}
		case tBigPtr:
			if w.CanInterface() {
				a, b := w.Interface().(*big.Int), g.Interface().(*big.Int)
				if a.Cmp(b) != 0 {
					return fail("big.Int %s != %s", a, b)
				}
				return ""
			}
		}
		return walk(w.Elem(), g.Elem(), trace, path)
	case reflect.Struct:
		tol := tolerances[w.Type()]
		t := w.Type()
		for i := 0; i < w.NumField(); i++ {
			fw, fg := w.Field(i), g.Field(i)
			if tol != nil && tol[t.Field(i).Name] && fw.Kind() == reflect.Slice && fw.Len() == 0 && fg.Len() == 0 {
				continue
			}
			p := path
			if trace {
				p = path + "." + t.Field(i).Name
			}
			if s := walk(fw, fg, trace, p); s != "" {
				return s
			}
		}
		return ""
	case reflect.Slice:
		if w.Len() != g.Len() {
			return fail("len %d != %d", w.Len(), g.Len())
		}
		fallthrough
	case reflect.Array:
		if w.Kind() == reflect.Array && w.Len() == 4 && w.Type().Elem().Kind() == reflect.Uint64 {
			for i := 0; i < 4; i++ {
				if w.Index(i).Uint() != g.Index(i).Uint() {
					return fail("felt limbs differ: %v != %v", fmtArr(w), fmtArr(g))
				}
			}
			return ""
		}
		if w.Type().Elem().Kind() == reflect.Uint8 {
			for i := 0; i < w.Len(); i++ {
				if w.Index(i).Uint() != g.Index(i).Uint() {
					return fail("bytes differ at %d", i)
				}
			}
			return ""
		}
		for i := 0; i < w.Len(); i++ {
			p := path
			if trace {
				p = fmt.Sprintf("%s[%d]", path, i)
			}
			if s := walk(w.Index(i), g.Index(i), trace, p); s != "" {
				return s
			}
		}
		return ""
	case reflect.Map:
		if w.Len() != g.Len() {
			return fail("map len %d != %d", w.Len(), g.Len())
		}
		it := w.MapRange()
		for it.Next() {
			gv := g.MapIndex(it.Key())
			if !gv.IsValid() {
				return fail("map key %v missing", fmtKey(it.Key()))
			}
			p := path
			if trace {
				p = fmt.Sprintf("%s{%s}", path, fmtKey(it.Key()))
			}
			if s := walk(it.Value(), gv, trace, p); s != "" {
				return s
			}
		}
		return ""
	case reflect.Bool:
		if w.Bool() != g.Bool() {
			return fail("%v != %v", w.Bool(), g.Bool())
		}
	case reflect.Int, reflect.Int8, reflect.Int16, reflect.Int32, reflect.Int64:
		if w.Int() != g.Int() {
			return fail("%d != %d", w.Int(), g.Int())
		}
	case reflect.Uint, reflect.Uint8, reflect.Uint16, reflect.Uint32, reflect.Uint64, reflect.Uintptr:
		if w.Uint() != g.Uint() {
			return fail("%d != %d", w.Uint(), g.Uint())
		}
	case reflect.String:
		if w.String() != g.String() {
			return fail("%q != %q", clip(w.String()), clip(g.String()))
		}
	case reflect.Float32, reflect.Float64:
		if w.Float() != g.Float() {
			return fail("%v != %v", w.Float(), g.Float())
		}
	default:
		return fail("unsupported kind %s", k)
	}
	return ""
}

func clip(s string) string {
	if len(s) > 40 {
		return s[:40] + fmt.Sprintf("…(%d)", len(s))
	}
	return s
}

func fmtArr(v reflect.Value) string {
	var sb strings.Builder
	for i := 0; i < v.Len(); i++ {
		fmt.Fprintf(&sb, "%x,", v.Index(i).Uint())
	}
	return sb.String()
}

func fmtKey(v reflect.Value) string {
	if v.Kind() == reflect.Array {
		return fmtArr(v)
	}
	switch v.Kind() {
	case reflect.Uint, reflect.Uint8, reflect.Uint16, reflect.Uint32, reflect.Uint64:
		return fmt.Sprint(v.Uint())
	}
	return v.String()
}

// normPath strips indices / map keys / concrete values so that a violation key names a defect class, not a case:
// "<path>: <kind of difference>[ <tx kind>]". Errors keep their message with numbers blanked.
func normPath(s string) string {
	kind := ""
	if i := strings.LastIndex(s, " <"); i >= 0 && strings.HasSuffix(s, ">") {
		kind = " tx=" + s[i+2:len(s)-1]
		s = s[:i]
	}
	path, rest := s, ""
	if i := strings.Index(s, ": "); i >= 0 {
		path, rest = s[:i], s[i+2:]
	}
	var sb strings.Builder
	depth := 0
	for _, r := range path {
		switch r {
		case '[', '{':
			if depth == 0 {
				sb.WriteString("[*]")
			}
			depth++
		case ']', '}':
			depth--
		default:
			if depth == 0 {
				sb.WriteRune(r)
			}
		}
	}
	switch {
	case rest == "":
	case strings.HasPrefix(rest, "want nil="):
		rest = strings.SplitN(rest, " (", 2)[0]
	case strings.HasPrefix(rest, "type "), strings.HasPrefix(rest, "one side"), strings.HasPrefix(rest, "expected the documented"):
	case strings.HasPrefix(rest, "len "), strings.HasPrefix(rest, "map len"):
		rest = "length"
	case strings.Contains(rest, "error") || strings.HasPrefix(rest, "panic") || strings.HasPrefix(rest, "want ErrKeyNotFound"):
		rest = hexRe.ReplaceAllString(rest, "0xH")
		var eb strings.Builder
		prevDigit := false
		for _, r := range rest {
			if r >= '0' && r <= '9' {
				if !prevDigit {
					eb.WriteByte('N')
				}
				prevDigit = true
				continue
			}
			prevDigit = false
			eb.WriteRune(r)
		}
		rest = eb.String()
		if len(rest) > 90 {
			rest = rest[:90]
		}
	default:
		rest = "value"
	}
	return sb.String() + ": " + rest + kind
}

// ---- deep copy -------------------------------------------------------------------------------------------

func deepCopy[T any](v T) T {
	src := reflect.ValueOf(&v).Elem()
	dst := reflect.New(src.Type()).Elem()
	cp(dst, src)
	return dst.Interface().(T)
}

func cp(dst, src reflect.Value) {
	switch src.Kind() {
	case reflect.Interface:
		if src.IsNil() {
			return
		}
		n := reflect.New(src.Elem().Type()).Elem()
		cp(n, src.Elem())
		dst.Set(n)
	case reflect.Ptr:
		if src.IsNil() {
			return
		}
		switch src.Type() {
		case tBloomPtr:
			dst.Set(reflect.ValueOf(src.Interface().(*bloom.BloomFilter).Copy()))
			return
		case tBigPtr:
			dst.Set(reflect.ValueOf(new(big.Int).Set(src.Interface().(*big.Int))))
			return
		}
		n := reflect.New(src.Type().Elem())
		cp(n.Elem(), src.Elem())
		dst.Set(n)
	case reflect.Struct:
		dst.Set(src) // carries unexported fields by value
		for i := 0; i < src.NumField(); i++ {
			if dst.Field(i).CanSet() {
				cp(dst.Field(i), src.Field(i))
			}
		}
	case reflect.Slice:
		if src.IsNil() {
			return
		}
		n := reflect.MakeSlice(src.Type(), src.Len(), src.Len())
		for i := 0; i < src.Len(); i++ {
			cp(n.Index(i), src.Index(i))
		}
		dst.Set(n)
	case reflect.Array:
		for i := 0; i < src.Len(); i++ {
			cp(dst.Index(i), src.Index(i))
		}
	case reflect.Map:
		if src.IsNil() {
			return
		}
		n := reflect.MakeMapWithSize(src.Type(), src.Len())
		it := src.MapRange()
		for it.Next() {
			kv := reflect.New(src.Type().Key()).Elem()
			cp(kv, it.Key())
			vv := reflect.New(src.Type().Elem()).Elem()
			cp(vv, it.Value())
			n.SetMapIndex(kv, vv)
		}
		dst.Set(n)
	default:
		dst.Set(src)
	}
}

// ---- single-location perturbation -------------------------------------------------------------------------

// perturb returns deep copies of v that each differ from v in exactly one location (any depth, not inside
// maps): pointer -> nil; slice -> nil / empty / one element appended; map -> nil / empty; unsigned -> 0 / max;
// string -> "" / 300 bytes; bool -> flipped. skip(fieldName) excludes top-level-reachable fields by name.
// The label says which location and how.
type variant[T any] struct {
	Label string
	V     T
}

func perturb[T any](v T, skip map[string]bool) []variant[T] {
	var out []variant[T]
	for n := 0; ; n++ {
		c := deepCopy(v)
		cnt := n
		label := ""
		root := reflect.ValueOf(&c).Elem()
		if !mutateNth(root, "", &cnt, &label, skip) {
			break
		}
		if label != "" { // "" = mutation was a no-op for this location (already nil/zero…)
			out = append(out, variant[T]{label, c})
		}
	}
	return out
}

const nMut = 3 // mutation slots per location

// mutateNth walks addressable locations in deterministic order; *cnt selects location*nMut+mutation.
func mutateNth(v reflect.Value, path string, cnt *int, label *string, skip map[string]bool) bool {
	try := func(apply func(m int) string) bool {
		if *cnt < nMut {
			*label = apply(*cnt)
			if *label != "" {
				*label = path + "=" + *label
			}
			return true
		}
		*cnt -= nMut
		return false
	}
	switch v.Kind() {
	case reflect.Interface:
		if v.IsNil() {
			return false
		}
		// copy out, mutate, store back
		inner := reflect.New(v.Elem().Type()).Elem()
		inner.Set(v.Elem())
		if mutateNth(inner, path, cnt, label, skip) {
			v.Set(inner)
			return true
		}
		return false
	case reflect.Ptr:
		if v.Type() == tBloomPtr || v.Type() == tBigPtr {
			return try(func(m int) string {
				if m == 0 && !v.IsNil() {
					v.Set(reflect.Zero(v.Type()))
					return "nil"
				}
				return ""
			})
		}
		if path != "" && try(func(m int) string { // the root pointer itself is never nil-ed: the value must exist
			if m == 0 && !v.IsNil() && v.CanSet() {
				v.Set(reflect.Zero(v.Type()))
				return "nil"
			}
			return ""
		}) {
			return true
		}
		if v.IsNil() {
			return false
		}
		return mutateNth(v.Elem(), path, cnt, label, skip)
	case reflect.Struct:
		t := v.Type()
		for i := 0; i < v.NumField(); i++ {
			f := t.Field(i)
			if !f.IsExported() || skip[f.Name] {
				continue
			}
			if mutateNth(v.Field(i), path+"."+f.Name, cnt, label, skip) {
				return true
			}
		}
		return false
	case reflect.Slice:
		if try(func(m int) string {
			switch m {
			case 0:
				if !v.IsNil() {
					v.Set(reflect.Zero(v.Type()))
					return "nil"
				}
			case 1:
				if v.IsNil() || v.Len() > 0 {
					v.Set(reflect.MakeSlice(v.Type(), 0, 0))
					return "empty"
				}
			case 2:
				if v.Len() > 0 {
					e := reflect.New(v.Type().Elem()).Elem()
					cp(e, v.Index(0))
					v.Set(reflect.Append(v, e))
					return "dup-first-appended"
				}
			}
			return ""
		}) {
			return true
		}
		if v.Type().Elem().Kind() == reflect.Uint8 {
			return false
		}
		for i := 0; i < v.Len(); i++ {
			if mutateNth(v.Index(i), fmt.Sprintf("%s[%d]", path, i), cnt, label, skip) {
				return true
			}
		}
		return false
	case reflect.Array:
		return false // felts / addresses: value content is covered by the felt codec sweep
	case reflect.Map:
		return try(func(m int) string {
			switch m {
			case 0:
				if !v.IsNil() {
					v.Set(reflect.Zero(v.Type()))
					return "nil"
				}
			case 1:
				if v.IsNil() || v.Len() > 0 {
					v.Set(reflect.MakeMap(v.Type()))
					return "empty"
				}
			}
			return ""
		})
	case reflect.Uint, reflect.Uint8, reflect.Uint16, reflect.Uint32, reflect.Uint64:
		return try(func(m int) string {
			switch m {
			case 0:
				if v.Uint() != 0 {
					v.SetUint(0)
					return "0"
				}
			case 1:
				mx := uint64(math.MaxUint64)
				switch v.Kind() {
				case reflect.Uint8:
					mx = math.MaxUint8
				case reflect.Uint16:
					mx = math.MaxUint16
				case reflect.Uint32:
					mx = math.MaxUint32
				}
				v.SetUint(mx)
				return "max"
			case 2:
				v.SetUint(24) // first value that needs a 1-byte CBOR argument
				return "24"
			}
			return ""
		})
	case reflect.String:
		return try(func(m int) string {
			switch m {
			case 0:
				if v.String() != "" {
					v.SetString("")
					return `""`
				}
			case 1:
				v.SetString(strings.Repeat("é~", 100))
				return "300B-utf8"
			}
			return ""
		})
	case reflect.Bool:
		return try(func(m int) string {
			if m == 0 {
				v.SetBool(!v.Bool())
				return "flipped"
			}
			return ""
		})
	}
	return false
}

func sortedKeys[V any](m map[string]V) []string {
	ks := make([]string, 0, len(m))
	for k := range m {
		ks = append(ks, k)
	}
	sort.Strings(ks)
	return ks
}
