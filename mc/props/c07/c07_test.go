package c07

// C07 — everything stored for a block is returned unchanged by every accessor.
//
// Decided by bounded exhaustive enumeration of block / record SHAPES against the real juno code:
//   codec   : encode∘decode = identity (and re-encode = same bytes) for every storable value shape, incl. the
//             hand-written felt / felt-slice CBOR codec over all limb-width and array-header boundaries;
//   record  : core.Write* -> every core.Get* accessor + full/partial decoders on the raw bytes -> core.Delete*,
//             on db/memory and db/pebblev2(MemFS);
//   reader  : valid chains through Blockchain.SanityCheckNewHeight+Store / Finalise on {memory,pebblev2} x {legacy,new
//             state}, every blockchain.Reader read method, again after re-opening the Blockchain; juno gets deep
//             copies made before the call, which must still equal the reference afterwards (put, inner_test.go);
//   inner   : "entry present, inner collection empty" shapes (slot-less storage_diffs entries, events / messages with
//             nil / empty inner lists) as valid blocks through every blockchain-level write path (inner_test.go).
// The oracle is strict structural equality with an untouched reference copy (deep_test.go); the only tolerances
// are (1) InvokeTransaction.ProofFacts nil≡empty (omitempty; the tx hash only uses len>0) and (2) the nil-vs-empty
// identity of a block's own top-level transaction/receipt LIST (not recorded in the blob; no hash depends on it).

import (
	"fmt"
	"os"
	"runtime"
	"strings"
	"sync/atomic"
	"testing"
	"time"

	"verif/mc/chain"
	"verif/mc/ev"

	"github.com/NethermindEth/juno/core"
)

func workers() int {
	n := runtime.NumCPU()
	if n > 16 {
		n = 16
	}
	if n < 1 {
		n = 1
	}
	return n
}

func geVersion(v, than string) bool {
	a, _ := core.ParseBlockVersion(v)
	b, _ := core.ParseBlockVersion(than)
	return a.GreaterThanEqual(b)
}

// ptx = per-transaction shape: kind x receipt shape.
type ptx struct {
	Kind string
	R    rshape
}

func ptxSet(rs []rshape) []ptx {
	var out []ptx
	for _, k := range chain.TxKinds {
		for _, r := range rs {
			out = append(out, ptx{k, r})
		}
	}
	return out
}

// caseOf builds the reference case; slot = position of the case inside its chunk (salts keep tx hashes of the
// cases that share a write batch distinct).
func caseOf(n uint64, slot int, label string, shapes []ptx) *blockCase {
	c := &blockCase{Label: label, Txs: []core.Transaction{}, Rcs: []*core.TransactionReceipt{}}
	for i, p := range shapes {
		tx := baseTx(p.Kind, slot*3+i)
		c.Txs = append(c.Txs, tx)
		c.Rcs = append(c.Rcs, mkReceipt(tx, p.R, uint64(i)))
		c.Kinds = append(c.Kinds, p.Kind)
	}
	c.Hdr = fullHeader(n, c.Rcs)
	return c
}

type gen struct {
	name  string
	n     int
	deep  bool // also run the raw-bytes decoder agreement
	chunk int  // cases per write batch (1 for families whose cases share transaction hashes)
	at    func(i int, n uint64, slot int) *blockCase
}

func (h *harness) runGen(g gen, pool chan *env) {
	var done atomic.Int64
	cut := atomic.Bool{}
	k := g.chunk
	if k < 1 {
		k = 1
	}
	nChunks := (g.n + k - 1) / k
	ev.Par(nChunks, workers(), func(ci int) {
		if ci%8 == 0 && h.r.OutOfTime() {
			cut.Store(true)
		}
		if cut.Load() {
			return
		}
		e := <-pool
		defer func() { pool <- e }()
		var cs []*blockCase
		for slot := 0; slot < k && ci*k+slot < g.n; slot++ {
			i := ci*k + slot
			c := g.at(i, e.number(), slot)
			if c == nil {
				continue
			}
			if i == 0 || i == g.n-1 {
				h.r.Sample(map[string]any{"phase": "record", "family": g.name, "index": i, "case": c.Label})
			}
			cs = append(cs, c)
		}
		h.runChunk(e, cs, g.deep)
		done.Add(int64(len(cs)))
	})
	h.r.Add("cases_"+g.name, done.Load())
	if cut.Load() {
		h.r.Incomplete(fmt.Sprintf("record family %q: %d of %d cases before the time budget", g.name, done.Load(), g.n))
	}
}

type recordRun struct {
	h    *harness
	pool chan *env
	w    int
}

func (h *harness) openRecord() *recordRun {
	w := workers()
	pool := make(chan *env, w)
	for i := 0; i < w; i++ {
		pool <- newEnv()
	}
	return &recordRun{h, pool, w}
}

func (rr *recordRun) close() {
	for i := 0; i < rr.w; i++ {
		(<-rr.pool).close()
	}
}

// recordSmall: every family except the two big products.
func (rr *recordRun) recordSmall() {
	h, pool := rr.h, rr.pool
	all := allRShapes()
	full1 := ptxSet(all) // 12 x 108
	h.r.Set("per_tx_shapes_size1", int64(len(full1)))
	one := []ptx{{"deployacc3", rshape{2, 2, 1, 2}}}

	// (a) empty blocks: nil lists and empty lists
	h.runGen(gen{"size0", 2, true, 1, func(i int, n uint64, slot int) *blockCase {
		c := caseOf(n, slot, "empty block, empty lists", nil)
		if i == 1 {
			c.Label, c.Txs, c.Rcs = "empty block, nil lists", nil, nil
		}
		c.SU, c.CM = mkStateUpdateRecord(n, suShape(0)), mkCommitments(n)
		return c
	}}, pool)
	// (b) size 1 in full
	h.runGen(gen{"size1", len(full1), true, chunkSize, func(i int, n uint64, slot int) *blockCase {
		p := full1[i]
		return caseOf(n, slot, fmt.Sprintf("[%s/%s]", p.Kind, p.R), []ptx{p})
	}}, pool)
	// (c) size 1: every single-location perturbation of every transaction kind x 3 receipt shapes
	type tv struct {
		kind string
		v    variant[core.Transaction]
		r    rshape
	}
	var tvs []tv
	for _, k := range chain.TxKinds {
		for _, v := range txVariants(k) {
			for _, r := range []rshape{{0, 0, 0, 0}, {1, 1, 2, 1}, {3, 2, 1, 2}} {
				tvs = append(tvs, tv{k, v, r})
			}
		}
	}
	h.runGen(gen{"size1_tx_field_variants", len(tvs), true, 1, func(i int, n uint64, _ int) *blockCase {
		t := tvs[i]
		c := &blockCase{Label: fmt.Sprintf("[%s %s /%s]", t.kind, t.v.Label, t.r), Txs: []core.Transaction{t.v.V}, Kinds: []string{t.kind}}
		c.Rcs = []*core.TransactionReceipt{mkReceipt(t.v.V, t.r, 0)}
		c.Hdr = fullHeader(n, c.Rcs)
		return c
	}}, pool)
	// (d) size 1: every single-location perturbation of a fully populated receipt (plain, L1 handler, deploy account)
	type rv struct {
		kind string
		v    variant[*core.TransactionReceipt]
	}
	var rvs []rv
	for _, k := range []string{"invoke3", "l1handler0", "deployacc3"} {
		for _, v := range perturb(mkReceipt(baseTx(k, 0), rshape{3, 2, 1, 2}, 0), nil) {
			rvs = append(rvs, rv{k, v})
		}
	}
	h.runGen(gen{"size1_receipt_field_variants", len(rvs), true, 1, func(i int, n uint64, _ int) *blockCase {
		t := rvs[i]
		c := &blockCase{Label: fmt.Sprintf("[%s receipt %s]", t.kind, t.v.Label), Txs: []core.Transaction{baseTx(t.kind, 0)}, Kinds: []string{t.kind},
			Rcs: []*core.TransactionReceipt{t.v.V}}
		c.Hdr = fullHeader(n, c.Rcs)
		return c
	}}, pool)
	// (g) headers: the full product of optional fields (empty block), then every single-location perturbation
	h.runGen(gen{"header_shapes", nHeaderShapes(), false, chunkSize, func(i int, n uint64, _ int) *blockCase {
		s := headerShape(i)
		return &blockCase{Label: fmt.Sprintf("header shape %v", s), Hdr: mkHeader(n, s), Txs: []core.Transaction{}, Rcs: []*core.TransactionReceipt{}}
	}}, pool)
	hvs := perturb(fullHeader(7, caseOf(7, 0, "", one).Rcs), map[string]bool{"Hash": true, "Number": true})
	h.runGen(gen{"header_field_variants", len(hvs), false, chunkSize, func(i int, n uint64, slot int) *blockCase {
		c := caseOf(n, slot, "header "+hvs[i].Label, one)
		hd := deepCopy(hvs[i].V)
		hd.Number, hd.Hash = n, blockHashFor(n)
		c.Hdr = hd
		return c
	}}, pool)
	// (h) state updates: 3^7 section patterns, then perturbations of the fully populated one and of the commitments
	h.runGen(gen{"state_update_shapes", 2187, false, chunkSize, func(i int, n uint64, slot int) *blockCase {
		c := caseOf(n, slot, fmt.Sprintf("state update sections %v", suShape(i)), one)
		c.SU, c.CM = mkStateUpdateRecord(n, suShape(i)), mkCommitments(n)
		return c
	}}, pool)
	suvs := perturb(mkStateUpdateRecord(7, suShape(2186)), nil)
	suvs = append(suvs, variant[*core.StateUpdate]{"storage value nil", func() *core.StateUpdate {
		s := mkStateUpdateRecord(7, suShape(2186))
		s.StateDiff.StorageDiffs[addrA][chain.Slot1] = nil
		s.StateDiff.StorageDiffs[chain.AddrC] = nil
		s.StateDiff.Nonces[addrB] = nil
		s.StateDiff.DeclaredV0Classes = append(s.StateDiff.DeclaredV0Classes, nil)
		return s
	}()})
	h.runGen(gen{"state_update_field_variants", len(suvs), false, chunkSize, func(i int, n uint64, slot int) *blockCase {
		c := caseOf(n, slot, "state update "+suvs[i].Label, one)
		c.SU = deepCopy(suvs[i].V)
		return c
	}}, pool)
	cmvs := perturb(mkCommitments(7), nil)
	h.runGen(gen{"commitment_field_variants", len(cmvs), false, chunkSize, func(i int, n uint64, slot int) *blockCase {
		c := caseOf(n, slot, "commitments "+cmvs[i].Label, one)
		c.CM = deepCopy(cmvs[i].V)
		return c
	}}, pool)
}

// recordBig: blocks of size 2 (full product) and 3 (pairwise) over the per-tx shape set P.
func (rr *recordRun) recordBig() {
	h, pool := rr.h, rr.pool
	P := ptxSet(ev.Pick(h.r, pairwiseRShapes(), allRShapes()))
	N := len(P)
	h.r.Set("per_tx_shapes_size2", int64(N))
	// (e) size 2 in full over P x P
	h.runGen(gen{"size2", N * N, true, chunkSize, func(i int, n uint64, slot int) *blockCase {
		a, b := P[i/N], P[i%N]
		return caseOf(n, slot, fmt.Sprintf("[%s/%s, %s/%s]", a.Kind, a.R, b.Kind, b.R), []ptx{a, b})
	}}, pool)
	// (f) size 3 pairwise: rows (a, b, a+b mod N) of the cyclic Latin square form an orthogonal array of strength 2 —
	// every pair of positions sees every pair of per-tx shapes exactly once.
	// Per-tx shapes: quick = 12 kinds x 12 pairwise receipt shapes; thorough = 12 kinds x 36 strength-3 receipt shapes.
	P = ptxSet(ev.Pick(h.r, pairwiseRShapes(), strength3RShapes()))
	N = len(P)
	h.r.Set("per_tx_shapes_size3", int64(N))
	h.runGen(gen{"size3_pairwise", N * N, true, chunkSize, func(i int, n uint64, slot int) *blockCase {
		a, b := i/N, i%N
		s := []ptx{P[a], P[b], P[(a+b)%N]}
		return caseOf(n, slot, fmt.Sprintf("[%s/%s, %s/%s, %s/%s]", s[0].Kind, s[0].R, s[1].Kind, s[1].R, s[2].Kind, s[2].R), s)
	}}, pool)
}

// selfTest: the comparator must see every perturbation (else the equality oracle would be vacuous) and deepCopy
// must be exact.
func (h *harness) selfTest() {
	n := 0
	checkAll := func(label string, base any, vars []string, vals []any) {
		if d := diff(base, deepCopy(base)); d != "" {
			h.r.Infra("deepCopy is not exact for %s: %s", label, d)
		}
		for i, v := range vals {
			d := diff(base, v)
			tolerated := vars[i] == ".ProofFacts=empty" || vars[i] == ".ProofFacts=nil"
			if d == "" && !tolerated {
				h.r.Infra("comparator blind to perturbation %s of %s", vars[i], label)
			}
			n++
		}
	}
	for _, k := range chain.TxKinds {
		b := baseTx(k, 0)
		vs := perturb(b, nil)
		var ls []string
		var xs []any
		for _, v := range vs {
			ls, xs = append(ls, v.Label), append(xs, v.V)
		}
		checkAll(k, b, ls, xs)
	}
	{
		b := mkReceipt(baseTx("l1handler0", 0), rshape{3, 2, 1, 2}, 0)
		var ls []string
		var xs []any
		for _, v := range perturb(b, nil) {
			ls, xs = append(ls, v.Label), append(xs, v.V)
		}
		checkAll("receipt", b, ls, xs)
	}
	{
		b := fullHeader(3, nil)
		var ls []string
		var xs []any
		for _, v := range perturb(b, nil) {
			ls, xs = append(ls, v.Label), append(xs, v.V)
		}
		checkAll("header", b, ls, xs)
	}
	{
		b := mkStateUpdateRecord(3, suShape(2186))
		var ls []string
		var xs []any
		for _, v := range perturb(b, nil) {
			ls, xs = append(ls, v.Label), append(xs, v.V)
		}
		checkAll("state update", b, ls, xs)
	}
	h.r.Set("selftest_perturbations_seen_by_comparator", int64(n))
}

func TestCheck(t *testing.T) {
	r := ev.Start("C07", "exploration")
	r.SetBudget(ev.Pick(r, 165, 1500))
	h := &harness{r: r}
	r.Assume = append(r.Assume,
		"pebblev2 runs on vfs.NewMem(); the on-disk format / file system layer is trusted",
		"fxamacker/cbor, bits-and-blooms/bloom are trusted as libraries; their use by juno is what is checked",
		"record level stores shapes that need not be valid blocks (hash validity is irrelevant to storage fidelity); validity is covered by the reader level",
		"tolerated: InvokeTransaction.ProofFacts nil≡empty (omitempty, hash uses len>0); nil-vs-empty of a block's own top-level tx/receipt list",
	)
	only := os.Getenv("VERIF_C07_PHASES") // development aid: comma-separated phase names; the run is then marked incomplete
	if only != "" {
		r.Incomplete("VERIF_C07_PHASES=" + only + ": only these phases ran")
	}
	phase := func(name string, f func()) {
		if only != "" && !strings.Contains(","+only+",", ","+name+",") {
			return
		}
		t0 := time.Now()
		f()
		fmt.Printf("phase %-10s %6.1fs\n", name, time.Since(t0).Seconds())
	}
	phase("selftest", h.selfTest)
	phase("codec", h.codecPhase)
	rr := h.openRecord()
	phase("record-small", rr.recordSmall)
	phase("misc", h.miscPhase)
	versions := []string{"0.13.2", "0.13.4", "0.14.0", "0.14.1"}
	phase("reader", func() { h.storePhase(versions, ev.Pick(r, 3, 12)) })
	phase("finalise", func() { h.finalisePhase(versions) })
	var pats []int
	for p := 0; p < 2187; p++ {
		pats = append(pats, p)
	}
	phase("su-pattern", func() { h.suPatternPhase(pats) })
	phase("inner", h.innerPhase)
	phase("replace", h.replacePhase)
	phase("record-big", rr.recordBig) // last: the only part the internal deadline may cut
	rr.close()

	r.Set("rule", "cases = block/record shapes enumerated by index over stated products (see cases_* counters); an evaluation writes one case through "+
		"the real writers and reads it through every accessor on each backend; non-trivial = distinct (family, block size) outcomes, all of which must be 'ok'")
	r.Set("distinct_nontrivial", int64(len(familyCount(r))))
	r.Finish()
}

func familyCount(r *ev.Run) map[string]int64 {
	out := map[string]int64{}
	for k, v := range r.Cov {
		if len(k) > 6 && k[:6] == "cases_" {
			if n, ok := v.(int64); ok && n > 0 {
				out[k] = n
			}
		}
	}
	return out
}
