package c07

// Blockchain-level write paths with an aliasing-proof oracle, and the "entry present, inner collection empty" shapes.
//
// put: every block that enters a node in this package goes through put. juno only ever receives private deep copies
// made BEFORE the call; the reference it is later compared with is the generator's own object, which juno never saw.
// After the call the handed-in objects are deep-compared with the reference: Store must leave them alone, and
// Finalise may only (re)fill Hash / GlobalStateRoot / OldRoot / NewRoot / BlockHash / Signatures - all of which the
// harness pre-fills with the independently computed values (chain.Build: reference state model + reftrie), so after
// Finalise the caller's objects must STILL equal the reference. A write path that edits the caller's objects while
// applying them stores (or hashes) something else than it was given; comparing the read-back value with the very object
// that went in would be blind to that.
//
// innerPhase: the 3^7 section patterns (suPatternPhase) only know "section nil / empty / populated". Here the storage
// section is opened up one level: for each contract of a fixed list the entry in storage_diffs is
// {absent, present with a nil slot map, present with an empty slot map, present with slots} (thorough: + a second
// populated level with a zero-value write), in the full product over the contracts, times three contexts for the other
// six sections, as VALID blocks through each blockchain-level write path {SanityCheckNewHeight+Store, Finalise,
// Finalise with a signer} on every node configuration {memory, memory+recycled read buffers, pebblev2} x {legacy, new
// state}. The receipts of these blocks carry the analogous inner shapes (event Keys / Data and L2->L1 message Payload in
// {nil, empty, populated}^3). The other diff sections have no inner collection (address -> felt); inner-empty
// header signatures ([[]] / [[a,b],[]]) are part of chainPlan; inner-empty transaction fields are enumerated at the
// record level (size1_tx_field_variants) because a transaction generator with valid hashes for them does not exist here.
//
// A slot-less entry for a system contract that has no storage yet is left out: whether such an entry deploys the
// system contract is C01/C03's subject ("exotic" histories there), not a storage-fidelity question. Sys2 is therefore
// given a slot in the base block.

import (
	"fmt"
	"sync"

	"verif/mc/chain"
	"verif/mc/ev"

	"github.com/NethermindEth/juno/blockchain"
	"github.com/NethermindEth/juno/core"
	"github.com/NethermindEth/juno/core/felt"
	"github.com/NethermindEth/juno/db"
	"github.com/NethermindEth/juno/l1/eth"
)

type wpath int

const (
	viaStore wpath = iota
	viaFinalise
	viaFinaliseSigned
)

var wpaths = []wpath{viaStore, viaFinalise, viaFinaliseSigned}

func (p wpath) String() string {
	return [...]string{"Store", "Finalise", "Finalise+signer"}[p]
}

// api = the juno entry point named in violation keys.
func (p wpath) api() string {
	if p == viaStore {
		return "Store"
	}
	return "Finalise"
}

func testSigner(blockHash, stateDiffCommitment *felt.Felt) ([]*felt.Felt, error) {
	r := new(felt.Felt).Add(blockHash, chain.F(1))
	s := new(felt.Felt).Add(stateDiffCommitment, chain.F(2))
	return []*felt.Felt{r, s}, nil
}

// put stores entry e (reference commitments cm) through the write path and returns the reference of what the node now
// has to return. An error means juno rejected the block (nothing is reported here); mutations of the caller's objects
// are reported here.
func (h *harness) put(bc *blockchain.Blockchain, e *chain.Entry, cm *core.BlockCommitments, via wpath, cfg string) (*storedBlock, error) {
	blk, su, cls := deepCopy(e.Block), deepCopy(e.SU), deepCopy(e.Classes)
	want := e
	switch via {
	case viaStore:
		got, err := bc.SanityCheckNewHeight(blk, su, cls)
		if err != nil {
			return nil, fmt.Errorf("SanityCheckNewHeight: %w", err)
		}
		if err := bc.Store(blk, got, su, cls); err != nil {
			return nil, fmt.Errorf("Store: %w", err)
		}
	default:
		wb := deepCopy(e.Block)
		wb.Signatures, blk.Signatures = nil, nil
		var sign core.BlockSignFunc
		if via == viaFinaliseSigned {
			sign = testSigner
			c := e.SU.StateDiff.Commitment()
			sig, _ := testSigner(e.Block.Hash, &c)
			wb.Signatures = [][]*felt.Felt{sig}
		}
		want = &chain.Entry{Spec: e.Spec, Block: wb, SU: e.SU, Classes: e.Classes, State: e.State}
		if err := bc.Finalise(blk, su, cls, sign); err != nil {
			return nil, fmt.Errorf("Finalise: %w", err)
		}
	}
	c := &blockCase{Label: fmt.Sprintf("%s block %d (%s)", cfg, e.Block.Number, describe(e))}
	mutated := func(what, d string) {
		if d != "" {
			h.bad("reader", via.api()+" left the caller's "+what+" different from the reference", d, c, cfg,
				"the objects handed to juno were deep copies of the reference; after the call they must still equal it")
		}
	}
	mutated("block header", diff(want.Block.Header, blk.Header))
	mutated("transactions", listEq(want.Block.Transactions, blk.Transactions))
	mutated("receipts", listEq(want.Block.Receipts, blk.Receipts))
	mutated("state diff", diff(want.SU.StateDiff, su.StateDiff))
	wsu, gsu := *want.SU, *su
	wsu.StateDiff, gsu.StateDiff = nil, nil
	mutated("state update (roots / block hash)", diff(&wsu, &gsu))
	mutated("classes", diff(want.Classes, cls))
	h.r.Add("caller_objects_compared_after_write", 6)
	return &storedBlock{E: want, CM: cm}, nil
}

// ---- the inner-shape space ----------------------------------------------------------------------------------

// ishape: inner collections of one receipt: event Keys, event Data, L2->L1 message Payload; 0=nil 1=empty 2=populated.
type ishape struct{ Keys, Data, Payload int }

func (s ishape) String() string { return fmt.Sprintf("k%dd%dp%d", s.Keys, s.Data, s.Payload) }

func allIShapes() []ishape {
	var out []ishape
	for k := 0; k < 3; k++ {
		for d := 0; d < 3; d++ {
			for p := 0; p < 3; p++ {
				out = append(out, ishape{k, d, p})
			}
		}
	}
	return out
}

// innerReceipt: one event and one message whose inner lists take the shape; everything else populated.
func innerReceipt(tx core.Transaction, s ishape, salt uint64) *core.TransactionReceipt {
	r := mkReceipt(tx, rshape{0, 0, 0, 2}, salt)
	r.Events = []*core.Event{{From: &addrA, Keys: lvl3(s.Keys, []felt.Felt{chain.Key1, chain.Key2}), Data: lvl3(s.Data, []felt.Felt{FV(0xDA7A + salt)})}}
	r.L2ToL1Message = []*core.L2ToL1Message{{From: &addrB, Payload: lvl3(s.Payload, []felt.Felt{FV(7), FV(salt)}), To: eth.AddressFromBytes([]byte{0xE1, byte(salt)})}}
	return r
}

// storage-entry levels
const (
	seAbsent = iota
	seNil
	seEmpty
	seSlots
	seSlotsZero // thorough: two slots, one of them a zero-value write
)

var seNames = [...]string{"absent", "nil", "empty", "slots", "slots+zero"}

type innerSpace struct {
	contracts []string // names out of {"A","B","Sys2","C"}
	levels    int
	ctxs      int
}

func (sp innerSpace) n() int {
	n := sp.ctxs
	for range sp.contracts {
		n *= sp.levels
	}
	return n
}

type innerCase struct {
	Ctx    int
	Levels []int
}

func (sp innerSpace) at(i int) innerCase {
	c := innerCase{Ctx: i % sp.ctxs}
	i /= sp.ctxs
	for range sp.contracts {
		c.Levels = append(c.Levels, i%sp.levels)
		i /= sp.levels
	}
	return c
}

func (sp innerSpace) label(c innerCase) string {
	s := fmt.Sprintf("ctx=%s storage_diffs{", [...]string{"others-nil", "others-empty", "others-populated"}[c.Ctx])
	for k, name := range sp.contracts {
		s += fmt.Sprintf("%s:%s ", name, seNames[c.Levels[k]])
	}
	return s + "}"
}

// innerBaseSpec: genesis = baseSpec (declares C0 + S1, deploys A) plus: C deployed, one slot in A and one in Sys2.
func innerBaseSpec() chain.BlockSpec {
	s := baseSpec("0.14.0", nil)
	_, h0 := chain.Cairo0(0)
	s.Diff.DeployedContracts[chain.AddrC] = &h0
	s.Diff.StorageDiffs[chain.AddrA] = map[felt.Felt]*felt.Felt{chain.Slot0: F(5)}
	s.Diff.StorageDiffs[chain.Sys2] = map[felt.Felt]*felt.Felt{FV(7): F(1)}
	return s
}

func (sp innerSpace) spec(i int) chain.BlockSpec {
	c := sp.at(i)
	_, h0 := chain.Cairo0(0)
	_, sh1, _, _ := chain.Sierra(1)
	d := &core.StateDiff{} // ctx 0: every section nil unless an entry below needs it
	if c.Ctx >= 1 { // ctx 1: every section empty
		e := core.EmptyStateDiff()
		d = &e
	}
	if c.Ctx == 2 { // ctx 2: the sections that can be populated without new classes are populated
		d.Nonces[chain.AddrA] = F(1)
		d.ReplacedClasses[chain.AddrA] = &sh1
		d.DeployedContracts[chain.AddrB] = &h0
	}
	slots := map[string][2]map[felt.Felt]*felt.Felt{
		"A":    {{chain.Slot1: F(6)}, {chain.Slot0: F(0), chain.Slot1: F(6)}},
		"B":    {{chain.Slot0: F(3)}, {chain.Slot0: F(0), chain.Slot1: F(3)}},
		"Sys2": {{FV(8): F(2)}, {FV(7): F(9), FV(8): F(0)}},
		"C":    {{chain.Slot0: F(4)}, {chain.Slot0: F(4), chain.Slot1: F(0)}},
	}
	addr := map[string]felt.Felt{"A": chain.AddrA, "B": chain.AddrB, "Sys2": chain.Sys2, "C": chain.AddrC}
	for k, name := range sp.contracts {
		lv := c.Levels[k]
		if lv == seAbsent {
			continue
		}
		if d.StorageDiffs == nil {
			d.StorageDiffs = map[felt.Felt]map[felt.Felt]*felt.Felt{}
		}
		var inner map[felt.Felt]*felt.Felt
		switch lv {
		case seEmpty:
			inner = map[felt.Felt]*felt.Felt{}
		case seSlots:
			inner = deepCopy(slots[name][0])
		case seSlotsZero:
			inner = deepCopy(slots[name][1])
		}
		d.StorageDiffs[addr[name]] = inner
		if name == "B" { // B is not in the base: an entry for it needs B deployed in this very block
			if d.DeployedContracts == nil {
				d.DeployedContracts = map[felt.Felt]*felt.Felt{}
			}
			d.DeployedContracts[chain.AddrB] = &h0
		}
	}
	var txs []chain.TxSpec
	for t := 0; t < 3; t++ {
		txs = append(txs, chain.TxSpec{Kind: chain.TxKinds[(i*3+t)%len(chain.TxKinds)], Salt: uint64(500 + t)})
	}
	return chain.BlockSpec{Version: "0.14.1", Timestamp: 2000, Diff: d, Classes: map[felt.Felt]core.ClassDefinition{}, Txs: txs}
}

func (h *harness) innerPhase() {
	sp := innerSpace{contracts: []string{"A", "B", "Sys2"}, levels: 4, ctxs: 3}
	if h.r.Thorough() {
		sp = innerSpace{contracts: []string{"A", "B", "Sys2", "C"}, levels: 5, ctxs: 3}
	}
	N := sp.n()
	ish := allIShapes()
	base, err := chain.Build(nil, innerBaseSpec())
	if err != nil {
		h.r.Infra("inner base: %v", err)
	}
	baseCM, err := customise(base, nil, nil)
	if err != nil {
		h.r.Infra("inner base: %v", err)
	}
	// the reference blocks, built once; juno only ever sees deep copies (put)
	type built struct {
		e      *chain.Entry
		cm     *core.BlockCommitments
		label  string
		shapes []ishape
	}
	cases := make([]built, N)
	ev.Par(N, workers(), func(i int) {
		e, err := chain.Build(base, sp.spec(i))
		if err != nil {
			h.r.Infra("inner pattern %s: build: %v", sp.label(sp.at(i)), err)
		}
		b := e.Block
		var used []ishape
		for t, tx := range b.Transactions {
			s := ish[(i*3+t)%len(ish)]
			used = append(used, s)
			b.Receipts[t] = innerReceipt(tx, s, uint64(t))
		}
		b.EventCount = uint64(len(b.Transactions))
		b.EventsBloom = core.EventsBloom(b.Receipts)
		cm, err := customise(e, nil, nil)
		if err != nil {
			h.r.Infra("inner pattern %s: hash: %v", sp.label(sp.at(i)), err)
		}
		cases[i] = built{e, cm, fmt.Sprintf("%s receipts=%v", sp.label(sp.at(i)), used), used}
	})
	seenShapes := map[ishape]bool{}
	slotless := 0
	for i := range cases {
		for _, s := range cases[i].shapes {
			seenShapes[s] = true
		}
		for _, inner := range cases[i].e.SU.StateDiff.StorageDiffs {
			if len(inner) == 0 {
				slotless++
				break
			}
		}
	}
	h.r.Set("inner_patterns", int64(N))
	h.r.Set("inner_patterns_with_a_slotless_storage_entry", int64(slotless))
	h.r.Set("inner_receipt_shapes", int64(len(seenShapes)))
	h.r.Set("inner_store_jobs", int64(N*len(nodeCfgs)*len(wpaths)))
	h.r.Sample(map[string]any{"phase": "inner", "index": 0, "case": cases[0].label})
	h.r.Sample(map[string]any{"phase": "inner", "index": N - 1, "case": cases[N-1].label})

	type job struct {
		cfg nodeCfg
		via wpath
	}
	var jobs []job
	for _, c := range nodeCfgs {
		for _, v := range wpaths {
			jobs = append(jobs, job{c, v})
		}
	}
	var cutOnce sync.Once
	ev.Par(len(jobs), workers(), func(ji int) {
		j := jobs[ji]
		var store db.KeyValueStore
		var bc *blockchain.Blockchain
		var baseRef *storedBlock
		open := func() {
			if store != nil {
				store.Close()
			}
			store = backends[j.cfg.be].open()
			bc = chain.NewNode(store, j.cfg.newState)
			var err error
			if baseRef, err = h.put(bc, base, baseCM, j.via, fmt.Sprintf("%s inner base via %s", j.cfg, j.via)); err != nil {
				h.r.Violate("reader/"+j.via.api()+" rejected a valid block", map[string]any{"cfg": j.cfg.String(), "what": "inner base block", "err": err.Error()})
			}
		}
		open()
		defer func() { store.Close() }()
		if baseRef == nil {
			return
		}
		for i := range cases {
			if h.r.OutOfTime() {
				cutOnce.Do(func() { h.r.Incomplete("inner-shape sweep through Store/Finalise cut by the time budget") })
				return
			}
			bl := cases[i]
			cfg := fmt.Sprintf("%s via %s inner #%d %s", j.cfg, j.via, i, bl.label)
			ref, err := h.put(bc, bl.e, bl.cm, j.via, cfg)
			if err != nil {
				h.r.Violate("reader/"+j.via.api()+" rejected a valid inner-shape block", map[string]any{"cfg": cfg, "err": err.Error()})
				open()
				if baseRef == nil {
					return
				}
				continue
			}
			h.r.Add("blocks_stored", 1)
			h.r.Add("evaluations", 2)
			h.r.Add("cases_inner_shapes", 1)
			okA := h.checkReader(bc, store, ref, true, cfg)
			okB := h.checkReader(bc, store, baseRef, false, cfg+" (base block)")
			if okA && okB {
				h.r.Outcome("inner ok via " + j.via.String())
			} else {
				h.r.Outcome("inner mismatch")
			}
			if err := bc.RevertHead(); err != nil {
				h.r.Add("inner_revert_fallbacks", 1) // RevertHead is C04's subject; here it is only a shortcut
				open()
				if baseRef == nil {
					return
				}
			}
		}
	})
}
