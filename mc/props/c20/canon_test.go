package c20

// Canonical chains underneath the pre-confirmed view: real juno Blockchains (both state backends) in every
// head position a store/revert history can reach inside the height window, incl. positions reached THROUGH a
// real RevertHead and a fork re-stored after a revert. ChainStorage never touches the blockchain (it only
// receives numbers), so a head history influences a reader only through (a) the h it read and (b) the canonical
// state it finds at read time; both are enumerated as a product instead of as interleaved head moves (see rule).

import (
	"fmt"

	"verif/mc/chain"

	"github.com/NethermindEth/juno/blockchain"
	"github.com/NethermindEth/juno/db/memory"
)

type canon struct {
	name     string
	entries  []*chain.Entry            // entries[n] = canonical block n of this variant
	bc       [2]*blockchain.Blockchain // legacy, new state backend
	dbs      [2]*memory.Database
	moves    string
	forIndex int // 1/2: also used for PreConfirmedStateBeforeIndexAt reads on the legacy/new backend
}

func (c *canon) height() uint64 { return uint64(len(c.entries) - 1) }

var mainNames = []string{"deployA", "declareS1", "A.s0=1", "A.s1=1,s0=2,nonce++", "sys2.write", "A.replace->S1"}
var altNames = map[int]string{3: "A.nonce++", 4: "A.s0=2"}

func pick(parent *chain.Entry, name string) *chain.Entry {
	var st *chain.State
	var num uint64
	if parent != nil {
		st, num = parent.State, parent.Block.Number+1
	}
	for _, n := range chain.Alphabet(st, num, pcVersion) {
		if n.Name == name {
			e, err := chain.Build(parent, n.Spec)
			if err != nil {
				panic(err)
			}
			return e
		}
	}
	panic("alphabet has no block named " + name + fmt.Sprintf(" at %d", num))
}

func buildMain() []*chain.Entry {
	var out []*chain.Entry
	var parent *chain.Entry
	for _, n := range mainNames {
		e := pick(parent, n)
		out = append(out, e)
		parent = e
	}
	return out
}

// buildCanons executes the head histories on real nodes. A history is a list of moves: 's' store next main
// block, 'a' store the alternative block for this height, 'r' revert head.
func buildCanons() ([]*canon, error) {
	mainChain := buildMain()
	hist := []string{"ss", "sss", "ssss", "sssss", "ssssss", // straight: heights 1..5
		"ssssr", "sssssr", // reached through a revert: heights 2,3
		"ssssra", "sssssra"} // fork re-stored after a revert: heights 3,4 with the alternative block
	var out []*canon
	for _, h := range hist {
		c := &canon{name: h, moves: h}
		switch h {
		case "ssssss":
			c.forIndex = 1
		case "sssssra":
			c.forIndex = 2
		}
		for nb := 0; nb < 2; nb++ {
			d := memory.New()
			bc := chain.NewNode(d, nb == 1)
			var cur []*chain.Entry
			for _, m := range h {
				switch m {
				case 's', 'a':
					var parent *chain.Entry
					if len(cur) > 0 {
						parent = cur[len(cur)-1]
					}
					var e *chain.Entry
					if m == 's' {
						e = mainChain[len(cur)]
						if parent != nil && parent != mainChain[len(cur)-1] {
							return nil, fmt.Errorf("history %s stores a main block on a fork", h)
						}
					} else {
						e = pick(parent, altNames[len(cur)])
					}
					if err := chain.StoreSync(bc, e.Fresh(parent)); err != nil {
						return nil, fmt.Errorf("history %s: store %d: %w", h, len(cur), err)
					}
					cur = append(cur, e)
				case 'r':
					if err := bc.RevertHead(); err != nil {
						return nil, fmt.Errorf("history %s: revert: %w", h, err)
					}
					cur = cur[:len(cur)-1]
				}
			}
			got, err := bc.Height()
			if err != nil || got != uint64(len(cur)-1) {
				return nil, fmt.Errorf("history %s: height %d err %v, want %d", h, got, err, len(cur)-1)
			}
			c.entries, c.bc[nb], c.dbs[nb] = cur, bc, d
		}
		out = append(out, c)
	}
	return out, nil
}
