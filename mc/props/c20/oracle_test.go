package c20

// Reader-side oracles. Everything here takes a view exactly as a reader holds it (a ChainReader VALUE).

import (
	"fmt"
	"os"
	"strings"
	"sync"
	"sync/atomic"

	"verif/mc/chain"
	"verif/mc/ev"

	"github.com/NethermindEth/juno/core"
	"github.com/NethermindEth/juno/core/felt"
	"github.com/NethermindEth/juno/core/pending"
	"github.com/NethermindEth/juno/sync/preconfirmed"
)

type checker struct {
	r       *ev.Run
	canons  []*canon
	tallest *canon
	cache   sync.Map // content digest of a view -> struct{}: functional checks already evaluated for this content
	noMemo  bool
	sampled atomic.Bool

	evalReal, evalMemo, sysFallthrough, stateReads, lookups, statesOpened, statesRefused atomic.Int64
	v2ViewDeclaredNotFound, v2ViewDeclaredFound, v2FutureClassVisible                    atomic.Int64
}

// pass memoises the deep hash per entry pointer. Only the 16-byte digest is kept (the canonical serialisation of an
// entry is several KB and was the dominant retained memory of the thorough tier); the explorer's path-scoped table
// is additionally pruned on backtrack (see explorer.visit).
type pass map[*pending.PreConfirmed]digest

func (p pass) dump(e *pending.PreConfirmed) []byte {
	if d, ok := p[e]; ok {
		return d[:]
	}
	d := hashOf(e)
	p[e] = d
	return d[:]
}

// viewDigest is the deep canonical hash of everything a reader can observe through the view's own API surface:
// Length plus the full object graph of every entry the iterator yields (newest first).
func viewDigest(v *preconfirmed.ChainReader, p pass) digest {
	parts := [][]byte{[]byte(fmt.Sprint(v.Length()))}
	for e := range v.NewestFirst() {
		if e == nil {
			parts = append(parts, []byte("nil-entry"))
			continue
		}
		parts = append(parts, p.dump(e))
	}
	return combine(parts...)
}

func describe(v *preconfirmed.ChainReader) string {
	var b strings.Builder
	fmt.Fprintf(&b, "len=%d[", v.Length())
	for e := range v.OldestFirst() {
		if e == nil || e.Block == nil {
			b.WriteString(" <nil>")
			continue
		}
		id := e.BlockIdentifier
		if i := idIndex(id); i >= 0 {
			id = idNames[i]
		}
		fmt.Fprintf(&b, " %d:%s/%dtx/%dcls", e.Block.Number, id, len(e.Block.Transactions), len(e.NewClasses))
	}
	b.WriteString(" ]")
	return b.String()
}

// structural: "empty or a gap-free run starting exactly at the number it was asked for"; both iteration orders,
// Length and Head agree. Evaluated on every path, never memoised.
func (c *checker) structural(v *preconfirmed.ChainReader, asked uint64, ctx func() any) (entries []*pending.PreConfirmed, ok bool) {
	for e := range v.OldestFirst() {
		entries = append(entries, e)
	}
	var rev []*pending.PreConfirmed
	for e := range v.NewestFirst() {
		rev = append(rev, e)
	}
	bad := func(key string) {
		c.r.Violate(key, map[string]any{"asked": asked, "view": describe(v), "case": ctx()})
		ok = false
	}
	ok = true
	if len(entries) != v.Length() || len(rev) != v.Length() {
		bad("view-length-disagrees-with-iteration")
		return
	}
	for i := range entries {
		if entries[i] != rev[len(rev)-1-i] {
			bad("view-iteration-orders-disagree")
			return
		}
		if entries[i] == nil || entries[i].Block == nil || entries[i].Block.Header == nil {
			bad("view-nil-entry")
			return
		}
	}
	if v.Length() == 0 {
		if v.Head() != nil {
			bad("empty-view-has-head")
		}
		return
	}
	if v.Head() != entries[len(entries)-1] {
		bad("view-head-is-not-newest")
	}
	if entries[0].Block.Number != asked {
		bad("view-not-aligned-to-requested-height")
	}
	for i := range entries {
		if entries[i].Block.Number != entries[0].Block.Number+uint64(i) {
			bad("view-has-gap")
			break
		}
	}
	return
}

// parseTx maps a transaction hash back to (slot, identifier, index) of the wire alphabet.
func parseTx(h *felt.Felt) (s uint64, i, k int, ok bool) {
	if h == nil {
		return
	}
	u := h.Uint64()
	if !h.Equal(chain.F(u)) {
		return
	}
	if u < 0x7000000 || u >= 0x8000000 {
		return
	}
	u -= 0x7000000
	return u / 0x1000, int(u / 0x100 % 16), int(u % 0x100), true
}

func feltMapEq(a, b map[felt.Felt]*felt.Felt) bool {
	if len(a) != len(b) {
		return false
	}
	for k, v := range a {
		w, ok := b[k]
		if !ok || v == nil || w == nil || !v.Equal(w) {
			return false
		}
	}
	return true
}

func diffEq(a, b *core.StateDiff) bool {
	if a == nil || b == nil {
		return false
	}
	if len(a.StorageDiffs) != len(b.StorageDiffs) {
		return false
	}
	for k, v := range a.StorageDiffs {
		if w, ok := b.StorageDiffs[k]; !ok || !feltMapEq(v, w) {
			return false
		}
	}
	if len(a.DeclaredV0Classes) != len(b.DeclaredV0Classes) || len(a.MigratedClasses) != len(b.MigratedClasses) {
		return false
	}
	for h, c := range a.MigratedClasses {
		if w, ok := b.MigratedClasses[h]; !ok || w != c {
			return false
		}
	}
	v0 := map[felt.Felt]int{}
	for _, h := range a.DeclaredV0Classes {
		if h == nil {
			return false
		}
		v0[*h]++
	}
	for _, h := range b.DeclaredV0Classes {
		if h == nil {
			return false
		}
		v0[*h]--
	}
	for _, n := range v0 {
		if n != 0 {
			return false
		}
	}
	return feltMapEq(a.Nonces, b.Nonces) && feltMapEq(a.DeployedContracts, b.DeployedContracts) &&
		feltMapEq(a.DeclaredV1Classes, b.DeclaredV1Classes) && feltMapEq(a.ReplacedClasses, b.ReplacedClasses)
}

// functional evaluates everything that is a pure function of (view content, canonical chain): content of each
// entry vs the wire alphabet, tx / receipt lookups, state reads under every canonical variant and backend.
// Memoisation (unless noMemo), always by DEEP CONTENT, never by pointer:
//   - lookups / entry content / out-of-range reads: once per distinct content of the whole view;
//   - state at block b (and before each transaction index of b): once per distinct content of the view's blocks
//     oldest..b — ChainReader reads nothing above b for these (the real call is still made on the full view).
//
// Purity is checked, not assumed: the view's deep hash is recomputed after the reads.
func (c *checker) functional(v *preconfirmed.ChainReader, entries []*pending.PreConfirmed, p pass, ctx func() any) (pure bool) {
	pure = true
	if len(entries) == 0 {
		return
	}
	before := viewDigest(v, p)
	whole := c.noMemo
	if !whole {
		_, seen := c.cache.LoadOrStore(before, struct{}{})
		whole = !seen
	}
	need := make([]bool, len(entries))
	anyNeed := whole
	{
		parts := [][]byte{[]byte("prefix")}
		for j, e := range entries {
			parts = append(parts, p.dump(e))
			if c.noMemo {
				need[j] = true
			} else if _, seen := c.cache.LoadOrStore(combine(parts...), struct{}{}); !seen {
				need[j] = true
			}
			anyNeed = anyNeed || need[j]
		}
	}
	if !anyNeed {
		c.evalMemo.Add(1)
		return
	}
	if whole {
		c.evalReal.Add(1)
	}
	if os.Getenv("C20_NOFUNC") != "" {
		return
	}
	viol := func(key string, d map[string]any) {
		d["view"] = describe(v)
		d["case"] = ctx()
		c.r.Violate(key, d)
	}

	// --- entry content vs. the wire alphabet (reference squash of the per-tx diffs)
	expBlock := make([]*core.StateDiff, len(entries))
	expTx := make([][]*core.StateDiff, len(entries))
	type item struct {
		num uint64
		tx  core.Transaction
		rc  *core.TransactionReceipt
	}
	items := map[felt.Felt]item{}
	present := map[felt.Felt]bool{} // addresses D(s,i) / classes S(s,i) of rounds present in the view
	for j, e := range entries {
		sq := core.EmptyStateDiff()
		if len(e.Block.Receipts) != len(e.Block.Transactions) || len(e.TransactionStateDiffs) != len(e.Block.Transactions) ||
			e.Block.TransactionCount != uint64(len(e.Block.Transactions)) {
			viol("entry-lists-disagree", map[string]any{"block": e.Block.Number})
			return
		}
		for k, tx := range e.Block.Transactions {
			s, i, kk, ok := parseTx(tx.Hash())
			if !ok || s != e.Block.Number || kk != k || idString(s, i) != e.BlockIdentifier {
				viol("entry-holds-foreign-transaction", map[string]any{"block": e.Block.Number, "tx": tx.Hash().String(), "pos": k})
				return
			}
			eff := txEffect(s, i, kk)
			expTx[j] = append(expTx[j], eff)
			if !diffEq(e.TransactionStateDiffs[k], eff) {
				viol("entry-tx-state-diff-differs-from-wire", map[string]any{"block": e.Block.Number, "pos": k})
			}
			mergeRef(&sq, eff)
			if e.Block.Receipts[k] == nil || !e.Block.Receipts[k].TransactionHash.Equal(tx.Hash()) {
				viol("entry-receipt-order", map[string]any{"block": e.Block.Number, "pos": k})
			}
			items[*tx.Hash()] = item{e.Block.Number, tx, e.Block.Receipts[k]}
		}
		expBlock[j] = &sq
		if e.StateUpdate == nil || !diffEq(e.StateUpdate.StateDiff, &sq) {
			viol("entry-state-diff-is-not-squash-of-its-txs", map[string]any{"block": e.Block.Number})
		}
		if i := idIndex(e.BlockIdentifier); i >= 0 {
			present[addrD(e.Block.Number, i)] = true
		}
	}
	lo, hi := entries[0].Block.Number, entries[len(entries)-1].Block.Number

	// --- lookups: exactly the view's items
	if whole {
		for s := lo - 1; s <= hi+1; s++ {
			for i := 0; i < 3; i++ {
				for k := 0; k < 6; k++ {
					h := txHash(s, i, k)
					it, want := items[h]
					tx, err := v.TransactionByHash(&h)
					rc, num, err2 := v.ReceiptByHash(&h)
					c.lookups.Add(2)
					if want {
						if err != nil || tx != it.tx {
							viol("tx-lookup-misses-item-of-view", map[string]any{"hash": h.String(), "err": fmt.Sprint(err)})
						}
						if err2 != nil || rc != it.rc || num != it.num {
							viol("receipt-lookup-misses-item-of-view", map[string]any{"hash": h.String(), "err": fmt.Sprint(err2), "num": num, "want": it.num})
						}
					} else {
						if err == nil {
							viol("tx-lookup-finds-item-outside-view", map[string]any{"hash": h.String()})
						}
						if err2 == nil {
							viol("receipt-lookup-finds-item-outside-view", map[string]any{"hash": h.String(), "num": num})
						}
					}
				}
			}
		}
	}

	// --- state through the view
	base := lo - 1
	probeAddrs := []felt.Felt{chain.AddrA, chain.AddrB, chain.Sys1, chain.Sys2, chain.FV(0xDEAD)}
	_, c0 := chain.Cairo0(0)
	_, s1, _, _ := chain.Sierra(1)
	probeClasses := []felt.Felt{c0, s1, chain.FV(0xBADC1A55)}
	for s := lo; s <= hi; s++ {
		_, xh := extraClass(s)
		probeClasses = append(probeClasses, xh)
		absent := false
		for i := 0; i < 3; i++ {
			// the rounds present in the view + one round per slot that is not
			if !present[addrD(s, i)] {
				if absent {
					continue
				}
				absent = true
			}
			probeAddrs = append(probeAddrs, addrD(s, i))
			_, h, _ := classOf(s, i)
			probeClasses = append(probeClasses, h)
		}
	}
	for _, cn := range c.selectCanons(base) {
		// reference states, shared by both backends
		models := make([]*chain.State, len(entries))
		if cn.height() >= base {
			m := cn.entries[base].State.Clone()
			for j := range entries {
				if err := m.Apply(entries[j].Block.Number, pcVersion, expBlock[j], nil); err != nil {
					c.r.Infra("harness alphabet not protocol-valid: %v (%s on %s)", err, describe(v), cn.name)
				}
				if need[j] {
					models[j] = m.Clone()
				}
			}
		}
		for nb := 0; nb < 2; nb++ {
			if nb == 0 && cn.height() >= base && strings.ContainsAny(cn.name, "ra") {
				// COST: every storage read that reaches the legacy backend over memory.Database copies the whole store
				// (stateHistory -> batch.NewIterator -> Database.Copy), so the legacy backend is read under the straight
				// chains only (head == base, tallest above, base missing); chains reached through a revert / fork are read
				// on the new backend (the legacy base under those histories is C03/C04's subject).
				continue
			}
			bcr := cn.bc[nb]
			tag := "legacy"
			if nb == 1 {
				tag = "newstate"
			}
			for j, e := range entries {
				if !need[j] {
					continue
				}
				b := e.Block.Number
				// visible class definitions: NewClasses of blocks <= b
				vis := map[felt.Felt]core.ClassDefinition{}
				for _, e2 := range entries[:j+1] {
					for h, cd := range e2.NewClasses {
						vis[h] = cd
					}
				}
				sr, closer, err := v.PreConfirmedStateAt(b, bcr)
				c.probe(viol, "state-at", tag, cn, b, -1, sr, err, models[j], vis, probeAddrs, probeClasses)
				if closer != nil {
					_ = closer()
				}
				// state immediately before transaction idx of block b: the layering of the per-transaction diffs is
				// ChainReader code that does not depend on which base is below, so it is read under two canonical
				// variants only (the longest straight chain on the legacy backend, the fork re-stored after a revert on
				// the new one).
				if cn.forIndex != nb+1 {
					continue
				}
				ntx := len(e.Block.Transactions)
				for idx := 0; idx <= ntx+1; idx++ {
					var m2 *chain.State
					if cn.height() >= base {
						m2 = cn.entries[base].State.Clone()
						for jj := 0; jj < j; jj++ {
							_ = m2.Apply(entries[jj].Block.Number, pcVersion, expBlock[jj], nil)
						}
						part := core.EmptyStateDiff()
						for k := 0; k < idx && k < ntx; k++ {
							mergeRef(&part, expTx[j][k])
						}
						if err := m2.Apply(b, pcVersion, &part, nil); err != nil {
							c.r.Infra("harness alphabet not protocol-valid (partial): %v", err)
						}
					}
					sr2, closer2, err2 := v.PreConfirmedStateBeforeIndexAt(b, uint(idx), bcr)
					if idx > ntx {
						if err2 == nil {
							viol("state-before-index-accepts-out-of-range-index", map[string]any{"block": b, "idx": idx})
						}
					} else {
						c.probe(viol, "state-before-index", tag, cn, b, idx, sr2, err2, m2, vis, probeAddrs, probeClasses)
					}
					if closer2 != nil {
						_ = closer2()
					}
				}
			}
			// outside the view: not found
			if whole {
				for _, b := range []uint64{lo - 1, hi + 1} {
					if _, cl, err := v.PreConfirmedStateAt(b, bcr); err == nil {
						_ = cl()
						viol("state-at-block-outside-view-succeeds", map[string]any{"block": b})
					}
				}
			}
		}
	}

	if whole && len(entries) >= 2 && c.sampled.CompareAndSwap(false, true) {
		c.r.Sample(map[string]any{"what": "one fully evaluated view", "view": describe(v), "case": ctx(), "canonical_variants_read": len(c.selectCanons(base)),
			"checks": "entry vs wire, tx/receipt lookups over the hash universe of slots lo-1..hi+1, state at every block and before every tx index vs dictionary overlay, deep hash before/after"})
	}
	after := viewDigest(v, pass{})
	if after != before {
		viol("view-changed-by-reading-through-it", map[string]any{})
		return false
	}
	return true
}

func (c *checker) probe(viol func(string, map[string]any), what, tag string, cn *canon, b uint64, idx int, sr core.StateReader, err error,
	model *chain.State, vis map[felt.Felt]core.ClassDefinition, addrs, classes []felt.Felt,
) {
	det := func(m map[string]any) map[string]any {
		m["canonical"], m["backend"], m["block"], m["idx"] = cn.name, tag, b, idx
		return m
	}
	if model == nil {
		// the canonical block below the view does not exist (any more) at read time
		if err == nil {
			c.statesOpened.Add(1)
			viol(what+"-succeeds-without-canonical-base", det(map[string]any{}))
		} else {
			c.statesRefused.Add(1)
		}
		return
	}
	if err != nil || sr == nil {
		viol(what+"-fails", det(map[string]any{"err": fmt.Sprint(err)}))
		return
	}
	c.statesOpened.Add(1)
	key := func(k string) string { return what + "-" + k + "-differs-from-overlay" }
	for i := range addrs {
		a := addrs[i]
		ct, exists := model.Contracts[a]
		real := exists && !ct.System
		ch, err := sr.ContractClassHash(&a)
		nc, err2 := sr.ContractNonce(&a)
		c.stateReads.Add(2)
		if real {
			if err != nil || !ch.Equal(&ct.Class) {
				viol(key("class-hash"), det(map[string]any{"addr": a.String(), "got": ch.String(), "want": ct.Class.String(), "err": fmt.Sprint(err)}))
			}
			if err2 != nil || !nc.Equal(&ct.Nonce) {
				viol(key("nonce"), det(map[string]any{"addr": a.String(), "got": nc.String(), "want": ct.Nonce.String(), "err": fmt.Sprint(err2)}))
			}
		} else {
			// absent or system contract: not-found error or zero are both acceptable (same tolerance as C03)
			if err == nil && !ch.IsZero() {
				viol(key("class-hash"), det(map[string]any{"addr": a.String(), "got": ch.String(), "want": "absent"}))
			}
			if err2 == nil && !nc.IsZero() {
				viol(key("nonce"), det(map[string]any{"addr": a.String(), "got": nc.String(), "want": "absent"}))
			}
		}
		slots := []felt.Felt{chain.Slot0, chain.Slot1}
		if a.Equal(&chain.Sys2) || a.Equal(&chain.Sys1) {
			slots = []felt.Felt{chain.FV(7), chain.Slot0}
		}
		if tag == "legacy" && i >= 5 {
			// COST (see functional): on the legacy backend the per-round contracts D(s,i) are probed for one slot only
			slots = slots[:1]
		}
		for _, sl := range slots {
			sl := sl
			got, err := sr.ContractStorage(&a, &sl)
			c.stateReads.Add(1)
			var want felt.Felt
			if exists {
				want = ct.Storage[sl]
				if ct.System && err != nil && want.IsZero() {
					// TOLERANCE: a system contract (0x1/0x2) that exists only through the view's own storage writes is
					// not "deployed" in the diff, so pending.State falls through to the canonical base for its unwritten
					// slots and the base answers not-found where a canonical read after the same write answers zero.
					// Same value class (zero / not-found) as C03 accepts for absent contracts; recorded as an outcome.
					c.sysFallthrough.Add(1)
					continue
				}
				if err != nil || !got.Equal(&want) {
					viol(key("storage"), det(map[string]any{"addr": a.String(), "slot": sl.String(), "got": got.String(), "want": want.String(), "err": fmt.Sprint(err)}))
				}
			} else if err == nil && !got.IsZero() {
				viol(key("storage"), det(map[string]any{"addr": a.String(), "slot": sl.String(), "got": got.String(), "want": "absent"}))
			}
		}
	}
	for i := range classes {
		h := classes[i]
		rec, declared := model.Classes[h]
		def, err := sr.Class(&h)
		c.stateReads.Add(1)
		cd, visible := vis[h]
		baseRec, baseHas := baseClass(cn, model, h)
		switch {
		case visible:
			if err != nil || def == nil || def.Class != cd {
				viol(key("class-definition"), det(map[string]any{"class": h.String(), "err": fmt.Sprint(err), "want": "definition registered on the view"}))
			}
		case baseHas:
			if err != nil || def == nil || def.At != baseRec.At {
				viol(key("class-definition"), det(map[string]any{"class": h.String(), "err": fmt.Sprint(err), "want": "definition of the canonical base"}))
			}
		default:
			if err == nil {
				viol(key("class-definition"), det(map[string]any{"class": h.String(), "want": "not found"}))
			}
		}
		sh := felt.SierraClassHash(h)
		casm, err := sr.CompiledClassHash(&sh)
		c.stateReads.Add(1)
		if declared && rec.Sierra {
			want := rec.Casm()
			if got := felt.Felt(casm); err != nil || !got.Equal(&want) {
				viol(key("compiled-class-hash"), det(map[string]any{"class": h.String(), "got": got.String(), "want": want.String(), "err": fmt.Sprint(err)}))
			}
		} else if !declared && err == nil {
			viol(key("compiled-class-hash"), det(map[string]any{"class": h.String(), "want": "not found"}))
		}
		// the blake2s-based (V2) hash: the one a migration of the view's diffs delivers, else the one the canonical
		// base holds for a Sierra class declared below the view; a class nobody declared is not found.
		casm2, err2 := sr.CompiledClassHashV2(&sh)
		c.stateReads.Add(1)
		switch {
		case baseHas && rec.Sierra:
			want := rec.CasmV2
			if got := felt.Felt(casm2); err2 != nil || !got.Equal(&want) {
				viol(key("compiled-class-hash-v2"), det(map[string]any{"class": h.String(), "got": got.String(), "want": want.String(), "err": fmt.Sprint(err2), "migrated_by_view": rec.Migrated}))
			}
		case !declared && err2 == nil && futureSierra(cn, h):
			// TOLERANCE: juno's historical state readers answer CompiledClassHashV2 from the class's metadata without
			// looking at the block number (core/state/history.go, core/deprecatedstate/history.go: CompiledClassHashV2
			// delegates to the head state), so a Sierra class that the canonical chain declares ABOVE the view's base
			// already has a V2 hash in the base state (CompiledClassHash and Class are height-aware and are demanded).
			// That is a property of the canonical history reader (C03's subject), not of the overlay: counted, not demanded.
			c.v2FutureClassVisible.Add(1)
		case !declared:
			if err2 == nil {
				viol(key("compiled-class-hash-v2"), det(map[string]any{"class": h.String(), "got": (*felt.Felt)(&casm2).String(), "want": "not found"}))
			}
		case rec.Sierra:
			// OBSERVED, NOT DEMANDED: a Sierra class declared by the view itself. pending.State answers the V2 hash from
			// MigratedClasses or the base only, so such a class is not found although the stored state would answer the
			// declared hash once the same diff is applied (>= 0.14.1). The property speaks about the state diffs being
			// overlaid; whether the V2 accessor must derive from declared_classes is a protocol-version question that is
			// outside it. Counted, reported to the main session, never a violation.
			if err2 != nil {
				c.v2ViewDeclaredNotFound.Add(1)
			} else {
				c.v2ViewDeclaredFound.Add(1)
			}
		}
	}
}

// selectCanons picks, for a view whose canonical base is block `base`, the canonical variants that differ in how
// that base is reached: every variant whose HEAD is the base (straight, through a revert, fork), the tallest
// straight chain and the tallest fork above it (historical reads), one chain reached through a revert above it,
// and the tallest chain that does not contain the base at all (read must be refused). Reading under the remaining
// variants would repeat one of these situations with identical canonical content below the view.
func (c *checker) selectCanons(base uint64) []*canon {
	var out []*canon
	var below, straightAbove, forkAbove, revertAbove *canon
	for _, cn := range c.canons {
		h := cn.height()
		fork := strings.HasSuffix(cn.name, "a")
		viaRevert := strings.Contains(cn.name, "r") && !fork
		switch {
		case h == base:
			out = append(out, cn)
		case h < base:
			if below == nil || h > below.height() {
				below = cn
			}
		case fork:
			if forkAbove == nil || h > forkAbove.height() {
				forkAbove = cn
			}
		case viaRevert:
			if revertAbove == nil || h > revertAbove.height() {
				revertAbove = cn
			}
		default:
			if straightAbove == nil || h > straightAbove.height() {
				straightAbove = cn
			}
		}
	}
	for _, cn := range []*canon{below, straightAbove, forkAbove, revertAbove} {
		if cn != nil {
			out = append(out, cn)
		}
	}
	return out
}

// futureSierra: does the canonical chain, as it stands, declare h as a Sierra class (at whatever height)?
func futureSierra(cn *canon, h felt.Felt) bool {
	rec, ok := cn.entries[len(cn.entries)-1].State.Classes[h]
	return ok && rec.Sierra
}

// baseClass: is the class declared in the canonical base (i.e. in the model but not by the view's own diffs)?
func baseClass(cn *canon, model *chain.State, h felt.Felt) (*chain.ClassRec, bool) {
	rec, ok := model.Classes[h]
	if !ok {
		return nil, false
	}
	// classes of the wire alphabet are never declared canonically; canonical ones never by the view
	if _, c0 := chain.Cairo0(0); h.Equal(&c0) {
		return rec, true
	}
	if _, s1, _, _ := chain.Sierra(1); h.Equal(&s1) {
		return rec, true
	}
	return nil, false
}
