package c20

// Deep canonical dump + hash of arbitrary Go object graphs (reflect + unsafe, unexported fields included,
// pointers followed, map entries sorted by their serialised key). It is generic on purpose: a field added by a
// refactor of ChainReader / node / pending.PreConfirmed / core.Block is hashed automatically.
//
// It is the measuring instrument for "a view never changes": the hash of every object graph ever handed to a
// reader is recomputed after every later operation.

import (
	"bytes"
	"crypto/sha256"
	"encoding/binary"
	"reflect"
	"sort"
	"unsafe"
)

type digest [16]byte

type dumper struct {
	buf   []byte
	stack []unsafe.Pointer // pointers on the current path (cycle guard)
}

func (d *dumper) u64(x uint64) { d.buf = binary.LittleEndian.AppendUint64(d.buf, x) }
func (d *dumper) tag(b byte)   { d.buf = append(d.buf, b) }

// access makes a value obtained through an unexported field usable (clears the read-only flag).
func access(v reflect.Value) reflect.Value {
	if v.CanInterface() {
		return v
	}
	if v.CanAddr() {
		return reflect.NewAt(v.Type(), unsafe.Pointer(v.UnsafeAddr())).Elem()
	}
	return v
}

func (d *dumper) walk(v reflect.Value) {
	switch v.Kind() {
	case reflect.Bool:
		if v.Bool() {
			d.tag(1)
		} else {
			d.tag(0)
		}
	case reflect.Int, reflect.Int8, reflect.Int16, reflect.Int32, reflect.Int64:
		d.u64(uint64(v.Int()))
	case reflect.Uint, reflect.Uint8, reflect.Uint16, reflect.Uint32, reflect.Uint64, reflect.Uintptr:
		d.u64(v.Uint())
	case reflect.Float32, reflect.Float64:
		d.u64(uint64(v.Float()))
	case reflect.String:
		d.u64(uint64(v.Len()))
		d.buf = append(d.buf, v.String()...)
	case reflect.Pointer:
		if v.IsNil() {
			d.tag('n')
			return
		}
		p := v.UnsafePointer()
		for _, q := range d.stack {
			if q == p {
				d.tag('c')
				return
			}
		}
		d.tag('p')
		d.stack = append(d.stack, p)
		d.walk(v.Elem())
		d.stack = d.stack[:len(d.stack)-1]
	case reflect.Interface:
		if v.IsNil() {
			d.tag('N')
			return
		}
		e := v.Elem()
		d.tag('i')
		name := e.Type().String()
		d.u64(uint64(len(name)))
		d.buf = append(d.buf, name...)
		d.walk(addressable(e))
	case reflect.Struct:
		d.tag('s')
		for i := 0; i < v.NumField(); i++ {
			d.walk(access(v.Field(i)))
		}
	case reflect.Array:
		n := v.Len()
		if k := v.Type().Elem().Kind(); k == reflect.Uint64 {
			for i := 0; i < n; i++ {
				d.u64(v.Index(i).Uint())
			}
			return
		} else if k == reflect.Uint8 {
			for i := 0; i < n; i++ {
				d.buf = append(d.buf, byte(v.Index(i).Uint()))
			}
			return
		}
		for i := 0; i < n; i++ {
			d.walk(access(v.Index(i)))
		}
	case reflect.Slice:
		if v.IsNil() {
			d.tag('z') // nil and empty slices are distinguished: a view must not change in any observable way
			return
		}
		n := v.Len()
		d.tag('l')
		d.u64(uint64(n))
		if k := v.Type().Elem().Kind(); k == reflect.Uint8 {
			d.buf = append(d.buf, v.Bytes()...)
			return
		} else if k == reflect.Uint64 {
			for i := 0; i < n; i++ {
				d.u64(v.Index(i).Uint())
			}
			return
		}
		for i := 0; i < n; i++ {
			d.walk(access(v.Index(i)))
		}
	case reflect.Map:
		if v.IsNil() {
			d.tag('Z')
			return
		}
		d.tag('m')
		d.u64(uint64(v.Len()))
		type kv struct{ k, v []byte }
		ents := make([]kv, 0, v.Len())
		it := v.MapRange()
		for it.Next() {
			sub := &dumper{stack: d.stack}
			sub.walk(addressable(it.Key()))
			kb := sub.buf
			sub2 := &dumper{stack: d.stack}
			sub2.walk(addressable(it.Value()))
			ents = append(ents, kv{kb, sub2.buf})
		}
		sort.Slice(ents, func(i, j int) bool { return bytes.Compare(ents[i].k, ents[j].k) < 0 })
		for _, e := range ents {
			d.buf = append(d.buf, e.k...)
			d.buf = append(d.buf, e.v...)
		}
	case reflect.Func, reflect.Chan, reflect.UnsafePointer:
		if v.IsNil() {
			d.tag('n')
		} else {
			d.tag('f')
		}
	default:
		d.tag('?')
	}
}

// addressable copies a non-addressable value (map key/value, interface payload) so that its unexported fields
// can be reached through unsafe.
func addressable(v reflect.Value) reflect.Value {
	if v.CanAddr() {
		return v
	}
	switch v.Kind() {
	case reflect.Struct, reflect.Array:
		c := reflect.New(v.Type()).Elem()
		c.Set(v)
		return c
	}
	return v
}

// dumpOf returns the canonical serialisation of the object graph below ptr (a pointer to the root value).
func dumpOf(ptr any) []byte {
	d := &dumper{buf: make([]byte, 0, 4096)}
	d.walk(reflect.ValueOf(ptr))
	return d.buf
}

func hashOf(ptr any) digest {
	s := sha256.Sum256(dumpOf(ptr))
	var out digest
	copy(out[:], s[:16])
	return out
}

func combine(parts ...[]byte) digest {
	h := sha256.New()
	for _, p := range parts {
		var l [8]byte
		binary.LittleEndian.PutUint64(l[:], uint64(len(p)))
		h.Write(l[:])
		h.Write(p)
	}
	var out digest
	copy(out[:], h.Sum(nil)[:16])
	return out
}
