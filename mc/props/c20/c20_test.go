package c20

// C20 — "Pre-confirmed view is contiguous above the head, immutable, and a true overlay".
//
// Harness A (deciding): the real preconfirmed.ChainStorage driven through its exported API by EVERY writer
// sequence up to a depth over the alphabet of DESIGN §4 C20, with readers everywhere (see `rule` in TestCheck).
// Harness B (poller_test.go): the real Poller goroutine with a scripted sequencer on a real Blockchain whose head
// is stored/reverted between and inside ticks.  Harness C (ordered_test.go): ordered effects on one address.
// Harness D (readers_test.go): ordered sequences of reader programs (open, sweep, close) on one process over views
// whose blocks carry every state-diff section.  Secondary: free-running goroutines (race_test.go).

import (
	"fmt"
	"os"
	"reflect"
	"runtime"
	"runtime/debug"
	"runtime/pprof"
	"strconv"
	"strings"
	"sync"
	"sync/atomic"
	"testing"
	"time"
	"unsafe"

	"verif/mc/ev"
	"verif/mc/schedatomic"

	"github.com/NethermindEth/juno/core"
	"github.com/NethermindEth/juno/core/felt"
	"github.com/NethermindEth/juno/core/pending"
	"github.com/NethermindEth/juno/starknet"
	"github.com/NethermindEth/juno/sync/preconfirmed"
)

// ---------------------------------------------------------------------------------------------------------
// writer alphabet

type op struct {
	Kind     byte   // F full block, D delta, N no-change, A AdvanceTo
	Slot     uint64 // target slot (F/D/N) or new oldest slot (A)
	ID       int    // identifier index (F, D)
	Count    int    // F: number of txs; D: index of the first appended tx
	Cls      bool   // newClasses passed
	WrongCnt bool   // D: baseTxCount off by one
	Misalign bool   // F: oldestPreConf argument off by one (alignment error path)
	Extra    bool   // N: newClasses additionally carries a second class E(slot)
}

func (o op) String() string {
	switch o.Kind {
	case 'F':
		s := fmt.Sprintf("full(%d,%s,%dtx", o.Slot, idNames[o.ID], o.Count)
		if o.Cls {
			s += ",cls"
		}
		if o.Misalign {
			s += ",misaligned"
		}
		return s + ")"
	case 'D':
		s := fmt.Sprintf("delta(%d,%s,+tx%d", o.Slot, idNames[o.ID], o.Count)
		if o.Cls {
			s += ",cls"
		}
		if o.WrongCnt {
			s += ",wrongbase"
		}
		return s + ")"
	case 'N':
		if o.Extra {
			return fmt.Sprintf("nochange(%d,cls+extra)", o.Slot)
		}
		if o.Cls {
			return fmt.Sprintf("nochange(%d,cls)", o.Slot)
		}
		return fmt.Sprintf("nochange(%d)", o.Slot)
	default:
		return fmt.Sprintf("advanceTo(%d)", o.Slot)
	}
}

func pathString(p []op) string {
	s := make([]string, len(p))
	for i := range p {
		s[i] = p[i].String()
	}
	return strings.Join(s, " ; ")
}

type world struct {
	st    *preconfirmed.ChainStorage
	inner *atomic.Pointer[preconfirmed.ChainReader] // the storage's only field (checked by layoutOK)
	wb    uint64                                    // oldestPreConf the writer passes (= slot of its last AdvanceTo)
	roots []root                                    // every chain the storage ever published on this path
	dumps pass                                      // canonical dump of each entry AS PUBLISHED (content keys only; immutability is always re-dumped)
}

type root struct {
	view preconfirmed.ChainReader
	dig  digest
	at   int // number of ops after which it was published
}

const startWB = 3 // writer starts believing the head is at 2

func newWorld() *world {
	st := preconfirmed.NewChainStorage()
	return &world{st: st, inner: (*atomic.Pointer[preconfirmed.ChainReader])(unsafe.Pointer(st)), wb: startWB, dumps: pass{}}
}

// layoutOK guards the unsafe peek: ChainStorage must consist of exactly one atomic.Pointer[ChainReader].
func layoutOK() error {
	t := reflect.TypeOf(preconfirmed.ChainStorage{})
	// bin/check builds sync/preconfirmed against verif/mc/schedatomic (prebuild.sh), whose Pointer[T] wraps the real
	// atomic.Pointer[T] as its only field (same layout); the -race rebuild of race_test.go uses the plain package.
	ft := t.Field(0).Type
	if t.NumField() != 1 || (ft != reflect.TypeOf(atomic.Pointer[preconfirmed.ChainReader]{}) && ft != reflect.TypeOf(schedatomic.Pointer[preconfirmed.ChainReader]{})) ||
		unsafe.Sizeof(schedatomic.Pointer[preconfirmed.ChainReader]{}) != unsafe.Sizeof(atomic.Pointer[preconfirmed.ChainReader]{}) {
		return fmt.Errorf("preconfirmed.ChainStorage layout changed: %v", t)
	}
	return nil
}

// geometry of the stored chain: empty, or slots [o..t] with the tip's identifier index and tx count.
func (w *world) geometry() (empty bool, o, t uint64, tipID, tipCnt int) {
	cur := w.inner.Load()
	if cur == nil || cur.Length() == 0 {
		return true, 0, 0, 0, 0
	}
	h := cur.Head()
	t = h.Block.Number
	o = t - uint64(cur.Length()-1)
	return false, o, t, idIndex(h.BlockIdentifier), len(h.Block.Transactions)
}

type alphaCfg struct {
	ids    int // identifiers used for full blocks (3 = x,y,blank)
	counts int // tx counts 0..counts-1 ... for full blocks
	maxTx  int // deltas are offered while the tip has fewer txs
}

func (w *world) alphabet(cfg alphaCfg) []op {
	var out []op
	empty, o, t, tipID, tipCnt := w.geometry()
	lo, hi := w.wb-1, w.wb+1
	if !empty {
		lo, hi = o-1, t+2
	}
	if lo < 1 {
		lo = 1
	}
	for s := lo; s <= hi; s++ {
		for i := 0; i < cfg.ids; i++ {
			for c := 0; c < cfg.counts; c++ {
				out = append(out, op{Kind: 'F', Slot: s, ID: i, Count: c})
				if c >= 2 {
					out = append(out, op{Kind: 'F', Slot: s, ID: i, Count: c, Cls: true})
				}
			}
		}
	}
	if !empty {
		out = append(out, op{Kind: 'F', Slot: t + 1, ID: 0, Count: 1, Misalign: true})
		if tipID >= 0 && tipCnt < cfg.maxTx {
			out = append(out, op{Kind: 'D', Slot: t, ID: tipID, Count: tipCnt})
			out = append(out, op{Kind: 'D', Slot: t, ID: tipID, Count: tipCnt, WrongCnt: true})
			if tipCnt == 1 {
				out = append(out, op{Kind: 'D', Slot: t, ID: tipID, Count: tipCnt, Cls: true})
			}
			out = append(out, op{Kind: 'D', Slot: t, ID: (tipID + 1) % 2, Count: tipCnt}) // identifier mismatch
			if t > o {
				out = append(out, op{Kind: 'D', Slot: t - 1, ID: tipID, Count: tipCnt}) // non-tip
			}
		}
		out = append(out, op{Kind: 'N', Slot: t}, op{Kind: 'N', Slot: t, Cls: true}, op{Kind: 'N', Slot: t, Cls: true, Extra: true})
		if t > o {
			out = append(out, op{Kind: 'N', Slot: t - 1, Cls: true})
		}
	} else {
		out = append(out, op{Kind: 'D', Slot: w.wb, ID: 0, Count: 0}, op{Kind: 'N', Slot: w.wb, Cls: true}) // bootstrap rejections
	}
	for n := lo; n <= hi; n++ {
		if empty && n == w.wb {
			continue
		}
		out = append(out, op{Kind: 'A', Slot: n})
	}
	return out
}

// apply executes one writer operation on the real storage. Returns the error text ("" if none) and a panic text.
func (w *world) apply(o op) (errText, panicText string) {
	panicked, msg := ev.Guard(func() {
		switch o.Kind {
		case 'A':
			w.st.AdvanceTo(o.Slot)
			w.wb = o.Slot
		case 'F':
			u, _ := decode(fullJSON(o.Slot, o.ID, o.Count))
			var cls map[felt.Felt]core.ClassDefinition
			if o.Cls {
				cls = classesFor(o.Slot, o.ID)
			}
			old := w.wb
			if o.Misalign {
				old++
			}
			if _, err := w.st.ApplyUpdate(u, o.Slot, 0, old, cls); err != nil {
				errText = err.Error()
			}
		case 'D':
			u, _ := decode(deltaJSON(o.Slot, o.ID, o.Count, o.Count+1))
			var cls map[felt.Felt]core.ClassDefinition
			if o.Cls {
				cls = classesFor(o.Slot, o.ID)
			}
			base := uint64(o.Count)
			if o.WrongCnt {
				base++
			}
			if _, err := w.st.ApplyUpdate(u, o.Slot, base, w.wb, cls); err != nil {
				errText = err.Error()
			}
		case 'N':
			var cls map[felt.Felt]core.ClassDefinition
			if o.Cls {
				_, _, _, tipID, _ := w.geometry()
				if tipID < 0 {
					tipID = 0
				}
				cls = classesFor(o.Slot, tipID)
				if o.Extra {
					c, h := extraClass(o.Slot)
					cls[h] = c
				}
			}
			if _, err := w.st.ApplyUpdate(starknet.PreConfirmedNoChange{}, o.Slot, 0, w.wb, cls); err != nil {
				errText = err.Error()
			}
		}
	})
	if panicked {
		panicText = msg
	}
	return
}

// replay rebuilds a world from scratch by executing path on a fresh storage (fresh objects everywhere).
func replay(path []op) *world {
	w := newWorld()
	for i, o := range path {
		before := w.inner.Load()
		w.apply(o)
		if cur := w.inner.Load(); cur != before && cur != nil {
			w.roots = append(w.roots, root{view: *cur, dig: viewDigest(cur, w.dumps), at: i + 1})
		}
	}
	return w
}

// ---------------------------------------------------------------------------------------------------------
// exploration

type explorer struct {
	r     *ev.Run
	c     *checker
	cfg   alphaCfg
	depth int

	nodes, transitions, noops, errs, views, nonEmptyViews, rootChecks, placements atomic.Int64
	maxLen                                                                        atomic.Int64
	errKinds                                                                      sync.Map
	abandoned                                                                     atomic.Int64
	splitAt                                                                       int
	robust                                                                        bool
	until                                                                         time.Time
	cut                                                                           atomic.Bool
	tasks                                                                         [][]op
}

type child struct {
	o      op
	result *preconfirmed.ChainReader // storage content after the op (nil = emptied)
	wb     uint64
}

// verifyRoots recomputes the deep hash of every chain ever published on this path.
func (x *explorer) verifyRoots(w *world) (bad []int) {
	p := pass{}
	for i := range w.roots {
		x.rootChecks.Add(1)
		if viewDigest(&w.roots[i].view, p) != w.roots[i].dig {
			bad = append(bad, i)
		}
	}
	return
}

// attribute re-executes path from scratch and then the candidate ops one at a time, checking every published
// chain after each: clean confirmation + culprit of an immutability failure seen after a batch.
func (x *explorer) attribute(path []op, cands []op) (culprit string, changed string, confirmed bool) {
	w := replay(path)
	if bad := x.verifyRoots(w); len(bad) > 0 {
		return "(prefix itself)", describe(&w.roots[bad[0]].view), true
	}
	for _, o := range cands {
		keep, wb := w.inner.Load(), w.wb
		w.apply(o)
		if bad := x.verifyRoots(w); len(bad) > 0 {
			return o.String(), describe(&w.roots[bad[0]].view), true
		}
		w.inner.Store(keep)
		w.wb = wb
	}
	return "", "", false
}

// visit explores the subtree below the state reached by path. Returns false when objects shared with the
// ancestors may have been corrupted (confirmed immutability violation): the caller abandons its subtree too.
func (x *explorer) visit(w *world, path []op) bool {
	x.nodes.Add(1)
	if len(path) >= x.depth {
		return true
	}
	if memHigh.Load() {
		x.cut.Store(true)
		x.r.Incomplete(fmt.Sprintf("memory budget reached at depth %d of the depth-%d exploration (ids=%d, counts=%d): expansion stopped", len(path), x.depth, x.cfg.ids, x.cfg.counts))
		return true
	}
	if x.r.OutOfTime() || (!x.until.IsZero() && time.Now().After(x.until)) {
		x.cut.Store(true)
		x.r.Incomplete(fmt.Sprintf("time budget: some subtrees of the depth-%d exploration (ids=%d, counts=%d) not explored", x.depth, x.cfg.ids, x.cfg.counts))
		return true
	}
	here, wbHere := w.inner.Load(), w.wb
	alpha := w.alphabet(x.cfg)
	var kids []child
	// phase 1: every operation of the alphabet is executed on this very state (the storage's atomic pointer is
	// put back after each; legal because the structure behind it is immutable — which is what phase 1b checks).
	for _, o := range alpha {
		x.transitions.Add(1)
		errText, panicText := w.apply(o)
		if panicText != "" {
			x.r.Violate("writer-panics "+string(o.Kind), map[string]any{"path": pathString(path), "op": o.String(), "panic": panicText})
		}
		if errText != "" {
			x.errs.Add(1)
			k := errClass(errText)
			if _, loaded := x.errKinds.LoadOrStore(k, true); !loaded {
				x.r.Outcome("writer-error: " + k)
			}
		}
		cur := w.inner.Load()
		if cur == here && w.wb == wbHere {
			x.noops.Add(1) // state unchanged: continuations are a subset of this node's own; not recursed (subsumption)
		} else {
			kids = append(kids, child{o, cur, w.wb})
		}
		w.inner.Store(here)
		w.wb = wbHere
	}
	// phase 1b: no chain ever handed out may have changed under any of these operations
	if bad := x.verifyRoots(w); len(bad) > 0 {
		culprit, changed, confirmed := x.attribute(path, alpha)
		key := "published-view-changed-after-later-operation"
		if !confirmed {
			key = "published-view-changed (no single writer operation reproduces it on a clean replay; see reader violations)"
		}
		x.r.Violate(key+" by="+opClass(culprit), map[string]any{"path": pathString(path), "culprit": culprit, "view_after": changed,
			"view_before_index": bad[0], "published_after_ops": w.roots[bad[0]].at})
		return false
	}
	// phase 2: descend
	for _, k := range kids {
		w.inner.Store(k.result)
		w.wb = k.wb
		npath := append(path[:len(path):len(path)], k.o)
		nroots := len(w.roots)
		if k.result != here && k.result != nil {
			w.roots = append(w.roots, root{view: *k.result, dig: viewDigest(k.result, w.dumps), at: len(npath)})
			if int64(k.result.Length()) > x.maxLen.Load() {
				x.maxLen.Store(int64(k.result.Length()))
			}
		}
		ok := x.readers(w, npath) // false: a read changed a published view (reported there); shared objects are no longer trustworthy
		if !ok {
		} else if len(npath) == x.splitAt {
			x.tasks = append(x.tasks, npath)
		} else {
			ok = x.visit(w, npath)
		}
		w.roots = w.roots[:nroots]
		w.forget(k.result, here)
		w.inner.Store(here)
		w.wb = wbHere
		if !ok {
			return false
		}
	}
	return true
}

// forget drops the path-scoped digests of the entries that exist only in the child's chain (memory bound: the table
// then holds at most the entries of the current path).
func (w *world) forget(child, parent *preconfirmed.ChainReader) {
	if child == nil || child == parent {
		return
	}
	for e := range child.NewestFirst() {
		keep := false
		if parent != nil {
			for pe := range parent.NewestFirst() {
				if pe == e {
					keep = true
					break
				}
			}
		}
		if !keep {
			delete(w.dumps, e)
		}
	}
}

// visitRobust is the fallback used for a task after a confirmed immutability violation: objects shared between
// sibling subtrees can no longer be trusted, so EVERY transition is executed on a world re-executed from scratch
// (fresh storage, fresh wire objects). Slower by a factor of the depth, but the enumeration still completes and
// every violating (path, op) is recorded.
func (x *explorer) visitRobust(path []op) {
	x.nodes.Add(1)
	if len(path) >= x.depth {
		return
	}
	if memHigh.Load() {
		x.cut.Store(true)
		x.r.Incomplete(fmt.Sprintf("memory budget reached at depth %d of the depth-%d exploration (ids=%d, counts=%d): expansion stopped", len(path), x.depth, x.cfg.ids, x.cfg.counts))
		return
	}
	if x.r.OutOfTime() || (!x.until.IsZero() && time.Now().After(x.until)) {
		x.cut.Store(true)
		x.r.Incomplete(fmt.Sprintf("time budget: some subtrees of the depth-%d exploration (ids=%d, counts=%d) not explored", x.depth, x.cfg.ids, x.cfg.counts))
		return
	}
	alpha := replay(path).alphabet(x.cfg)
	for _, o := range alpha {
		w := replay(path)
		here, wbHere := w.inner.Load(), w.wb
		x.transitions.Add(1)
		errText, panicText := w.apply(o)
		if panicText != "" {
			x.r.Violate("writer-panics "+string(o.Kind), map[string]any{"path": pathString(path), "op": o.String(), "panic": panicText})
		}
		if errText != "" {
			x.errs.Add(1)
		}
		if bad := x.verifyRoots(w); len(bad) > 0 {
			x.r.Violate("published-view-changed-after-later-operation by="+opClass(o.String()), map[string]any{"path": pathString(path), "culprit": o.String(),
				"view_after": describe(&w.roots[bad[0]].view), "published_after_ops": w.roots[bad[0]].at, "mode": "every transition on a freshly replayed world"})
			continue // the successor of a corrupting transition is not explored
		}
		cur := w.inner.Load()
		if cur == here && w.wb == wbHere {
			x.noops.Add(1)
			continue
		}
		npath := append(path[:len(path):len(path)], o)
		if cur != here && cur != nil {
			w.roots = append(w.roots, root{view: *cur, dig: viewDigest(cur, w.dumps), at: len(npath)})
		}
		x.readers(w, npath)
		x.visitRobust(npath)
	}
}

// readers: at this position, a reader that read ANY head height h takes its snapshot. Every request that can
// return a non-empty view, plus one on either side, is issued: q = h+1 in [o-1 .. t+1].
func (x *explorer) readers(w *world, path []op) (pure bool) {
	pure = true
	empty, o, t, _, _ := w.geometry()
	lo, hi := w.wb-1, w.wb+1
	if !empty {
		lo, hi = o-1, t+1
	}
	p := w.dumps
	for q := lo; q <= hi; q++ {
		v := w.st.SnapshotForBlock(q)
		x.views.Add(1)
		ctx := func() any { return map[string]any{"path": pathString(path), "snapshot_for": q} }
		entries, ok := x.c.structural(&v, q, ctx)
		if v.Length() > 0 {
			x.nonEmptyViews.Add(1)
			// placements of an explicit 3-step reader that this single snapshot stands for: h read at any
			// earlier-or-equal position x observation at any later-or-equal position
			x.placements.Add(int64(len(path)+1) * int64(x.depth-len(path)+1))
		}
		if ok && !x.c.functional(&v, entries, p, ctx) {
			pure = false
		}
	}
	return
}

func errClass(s string) string {
	// strip numbers so that the histogram is by error site
	var b strings.Builder
	for _, r := range s {
		if r >= '0' && r <= '9' {
			continue
		}
		b.WriteRune(r)
	}
	out := b.String()
	if len(out) > 70 {
		out = out[:70]
	}
	return out
}

func opClass(s string) string {
	if i := strings.IndexByte(s, '('); i > 0 {
		return s[:i]
	}
	return s
}

// ---------------------------------------------------------------------------------------------------------

func TestCheck(t *testing.T) {
	r := ev.Start("C20", "model_checking")
	if f := os.Getenv("C20_PROF"); f != "" {
		fh, _ := os.Create(f)
		_ = pprof.StartCPUProfile(fh)
		defer pprof.StopCPUProfile()
	}
	// bin/check exports GOGC=600; this harness churns through short-lived copies of memory.Database, so the default
	// would let the heap grow to a multiple of what is live. Soft limit + guard keep RSS well under 8 GB.
	debug.SetGCPercent(125)
	debug.SetMemoryLimit(5 << 30)
	stopGuard := startMemGuard()
	defer stopGuard()
	budget := ev.Pick(r, 170, 1500)
	r.SetBudget(budget)
	t0 := time.Now()
	share := func(f float64) time.Time { return t0.Add(time.Duration(float64(budget)*f) * time.Second) }
	if err := layoutOK(); err != nil {
		r.Infra("%v", err)
	}
	canons, err := buildCanons()
	if err != nil {
		r.Infra("canonical chains: %v", err)
	}
	chk := &checker{r: r, canons: canons, tallest: canons[4]}
	classesBefore := classPoolDigest()

	// harness E (atomics_test.go) first: seconds, own cap; a writer landing between the atomic operations of one
	// reader call
	atomicsHarness(r)
	if os.Getenv("C20_ONLY") == "E" { // development hook: harness E alone (the evidence of such a run is not a check result)
		r.Finish()
		return
	}

	// harness D next: it is cheap (seconds) and has its own cap, so it is not starved when a loaded machine lets
	// the explorers below use up the whole budget
	readersHarness(r, canons)

	depth := ev.Pick(r, 4, 5)
	full := alphaCfg{ids: 3, counts: 3, maxTx: 4}
	completed := 0
	x := &explorer{r: r, c: chk, cfg: full, depth: 4, until: share(ev.Pick(r, 0.8, 0.2))}
	onlyC := os.Getenv("C20_ONLY") == "C" // development hook: harness C alone (the evidence of such a run is not a check result)
	if onlyC {
		x.depth = 1
	}
	runExplorer(x) // depth 4 with the full alphabet first, in both tiers
	if !x.cut.Load() {
		completed = 4
	}
	if r.Thorough() && !r.OutOfTime() && !onlyC {
		// depth 5 (re-covers depth 4; the memoised functional checks are free the second time)
		x5 := &explorer{r: r, c: chk, cfg: full, depth: 5, until: share(0.65)}
		runExplorer(x5)
		if !x5.cut.Load() && completed == 4 {
			completed = 5
		}
		r.Set("A5_nodes", x5.nodes.Load())
		r.Set("A5_transitions", x5.transitions.Load())
		x.merge(x5)
	}
	r.Set("A_depth", int64(depth))
	r.Set("A_note", "thorough executes the depth-4 tree twice (once alone, once as the top of the depth-5 tree); states/transitions count executions")
	r.Set("A_depth_completed_full_alphabet", int64(completed))
	if r.Thorough() && !r.OutOfTime() && !onlyC {
		// depth 6 with the identifier/count alphabet halved (x,y; 0..1 txs + deltas); everything else unchanged
		x6 := &explorer{r: r, c: chk, cfg: alphaCfg{ids: 2, counts: 2, maxTx: 3}, depth: 6, until: share(0.8)}
		runExplorer(x6)
		r.Set("A6_nodes", x6.nodes.Load())
		r.Set("A6_transitions", x6.transitions.Load())
		r.Set("A6_completed", !x6.cut.Load())
		x.merge(x6)
	}
	// cross-validation of the memoisation: a shallower exploration with every functional check re-evaluated on every path
	chk2 := &checker{r: r, canons: canons, noMemo: true, tallest: canons[4]}
	x2 := &explorer{r: r, c: chk2, cfg: full, depth: ev.Pick(r, 2, 3), until: share(0.9)}
	if onlyC {
		x2.depth = 1
	}
	runExplorer(x2)
	r.Set("A_nomemo_depth", int64(x2.depth))
	r.Set("A_nomemo_view_evaluations", chk2.evalReal.Load())

	orderedHarness(r, canons)
	if !onlyC {
		pollerHarness(t, r, canons)
		raceSmoke(r)
	}

	if classPoolDigest() != classesBefore {
		r.Violate("shared-class-definition-mutated", map[string]any{})
	}

	r.Set("mem_peak_go_runtime_mb", int64(memPeak.Load()>>20))
	r.Set("mem_guard_tripped", memHigh.Load())
	r.Set("states", x.nodes.Load())
	r.Set("transitions", x.transitions.Load())
	r.Set("traces_validated_against_impl", x.nodes.Load())
	r.Set("A_noop_transitions_not_recursed", x.noops.Load())
	r.Set("A_writer_errors", x.errs.Load())
	r.Set("A_snapshots_taken", x.views.Load())
	r.Set("A_nonempty_views", x.nonEmptyViews.Load())
	r.Set("A_reader_placements_covered", x.placements.Load())
	r.Set("A_published_chain_rehashes", x.rootChecks.Load())
	r.Set("A_max_chain_length", x.maxLen.Load())
	r.Set("A_tasks_redone_in_robust_mode_after_violation", x.abandoned.Load())
	r.Set("view_contents_evaluated", chk.evalReal.Load())
	r.Set("view_evaluations_memoised", chk.evalMemo.Load())
	r.Set("state_reads", chk.stateReads.Load()+chk2.stateReads.Load())
	r.Set("lookups", chk.lookups.Load()+chk2.lookups.Load())
	r.Set("v2_hash_of_class_declared_above_the_base_visible_in_base", chk.v2FutureClassVisible.Load()+chk2.v2FutureClassVisible.Load())
	if chk.v2FutureClassVisible.Load() > 0 {
		r.Outcome("observed (not demanded): canonical history reader answers CompiledClassHashV2 for a class declared above the requested block")
	}
	r.Set("overlay_states_opened", chk.statesOpened.Load())
	r.Set("overlay_states_refused_no_base", chk.statesRefused.Load())
	r.Set("canonical_variants", int64(len(canons)*2))
	r.Set("evaluations", x.transitions.Load())
	r.Set("distinct_nontrivial", chk.evalReal.Load())
	r.Set("rule", fmt.Sprintf("A: DFS over ALL writer sequences <= %d (thorough additionally 6 with ids{x,y}, counts{0,1}) over {ApplyUpdate full(slot in [oldest-1..tip+2] x id{x,y,blank} x txs{0,1,2} x classes y/n), "+
		"delta(+1 tx; right/wrong base, wrong id, non-tip, with/without classes), no-change(with/without classes, non-tip), misaligned oldestPreConf; AdvanceTo(n in [oldest-1..tip+2])} on ONE real ChainStorage; "+
		"an operation that leaves the atomic pointer and the writer's alignment unchanged is executed and checked but not recursed (its continuations are a subset). "+
		"Head moves and readers are not interleaved as extra branches but realised in full on every path: ChainStorage never reads the blockchain, so a head history reaches a reader only through the h it read "+
		"and through the canonical state at read time; after EVERY state-changing op a snapshot is taken for every h+1 in [oldest-1..tip+1] (any head height a store/revert history can show a reader), "+
		"and each view is read under %d canonical chains (real Blockchain, both backends; straight, after RevertHead, fork re-stored after revert, base missing). "+
		"Immutability is measured, not assumed: deep canonical hash (reflect, unexported fields) of every chain ever published on the path is recomputed after every batch of sibling operations; culprit found by clean replay. "+
		"Functions of view content alone (lookups, overlay reads vs dictionary model, entry vs wire) are memoised per deep content hash (purity re-checked by hashing after the reads) and cross-validated unmemoised to depth %d. "+
		"non-trivial = distinct non-empty view contents fully evaluated. C (ordered_test.go): see C_rule. D (readers_test.go, ordered sequences of reader programs on one process): see D_rule", depth, len(canons)*2, x2.depth))
	pprof.StopCPUProfile()
	r.Assume = append(r.Assume,
		"operation-granularity atomicity: the only shared mutable word of ChainStorage is the atomic pointer (layout asserted by reflection); immutability of everything behind it is checked by deep hashing",
		"reader steps are read-only (checked by hashing the view after reading through it), hence all placements of a reader's 3 steps are covered by snapshotting for every h at every position and observing under every canonical variant",
		"class definition objects are harness-owned and shared between blocks; their deep hash is checked once at the end",
		"free-running goroutine pass is a smoke only; the race detector is used only if the binary was built with -race")
	r.Finish()
}

// memory guard: sampled every 250 ms; above memSoftCap of heap in use + not yet returned to the OS, every explorer
// and harness B stop expanding and the run finishes with exhaustive:false instead of being killed.
var memSoftCap = func() uint64 {
	if v, err := strconv.Atoi(os.Getenv("C20_MEMCAP_MB")); err == nil && v > 0 {
		return uint64(v) << 20 // test hook for the guard itself
	}
	return 6 << 30
}()

var (
	memHigh atomic.Bool
	memPeak atomic.Uint64
)

func startMemGuard() (stop func()) {
	done := make(chan struct{})
	go func() {
		tk := time.NewTicker(250 * time.Millisecond)
		defer tk.Stop()
		var ms runtime.MemStats
		for {
			select {
			case <-done:
				return
			case <-tk.C:
				runtime.ReadMemStats(&ms)
				inUse := ms.Sys - ms.HeapReleased
				if inUse > memPeak.Load() {
					memPeak.Store(inUse)
				}
				if inUse > memSoftCap {
					if !memHigh.Load() {
						memHigh.Store(true)
					}
					debug.FreeOSMemory()
				}
			}
		}
	}()
	return func() { close(done) }
}

func (x *explorer) merge(y *explorer) {
	x.nodes.Add(y.nodes.Load())
	x.transitions.Add(y.transitions.Load())
	x.noops.Add(y.noops.Load())
	x.errs.Add(y.errs.Load())
	x.views.Add(y.views.Load())
	x.nonEmptyViews.Add(y.nonEmptyViews.Load())
	x.placements.Add(y.placements.Load())
	x.rootChecks.Add(y.rootChecks.Load())
	x.abandoned.Add(y.abandoned.Load())
	if y.maxLen.Load() > x.maxLen.Load() {
		x.maxLen.Store(y.maxLen.Load())
	}
}

// collectRobust: robust-mode exploration of the top of the tree down to the split level, collecting tasks.
func (x *explorer) collectRobust(path []op) {
	x.robust = true
	if len(path) == x.splitAt {
		x.tasks = append(x.tasks, path)
		return
	}
	x.nodes.Add(1)
	alpha := replay(path).alphabet(x.cfg)
	for _, o := range alpha {
		w := replay(path)
		here, wbHere := w.inner.Load(), w.wb
		x.transitions.Add(1)
		w.apply(o)
		if bad := x.verifyRoots(w); len(bad) > 0 {
			x.r.Violate("published-view-changed-after-later-operation by="+opClass(o.String()), map[string]any{"path": pathString(path), "culprit": o.String(),
				"view_after": describe(&w.roots[bad[0]].view), "published_after_ops": w.roots[bad[0]].at, "mode": "every transition on a freshly replayed world"})
			continue
		}
		cur := w.inner.Load()
		if cur == here && w.wb == wbHere {
			x.noops.Add(1)
			continue
		}
		npath := append(path[:len(path):len(path)], o)
		if cur != here && cur != nil {
			w.roots = append(w.roots, root{view: *cur, dig: viewDigest(cur, w.dumps), at: len(npath)})
		}
		x.readers(w, npath)
		x.collectRobust(npath)
	}
}

// runExplorer explores the top of the tree inline, turns every node at depth 2 into a task (re-executed from
// scratch on its own fresh storage) and runs the tasks on all cores.
func runExplorer(x *explorer) {
	x.splitAt = 2
	if x.depth <= 2 {
		x.splitAt = -1
	}
	w := newWorld()
	x.readers(w, nil)
	if !x.visit(w, nil) {
		// confirmed immutability violation already in the top of the tree: everything in robust mode
		x.abandoned.Add(1)
		x.tasks, x.splitAt = nil, -1
		x.nodes.Store(0)
		x.splitAt = 2
		x.collectRobust(nil)
	}
	tasks := x.tasks
	robustAll := x.robust
	x.tasks, x.splitAt = nil, -1
	ev.Par(len(tasks), runtime.NumCPU(), func(i int) {
		if robustAll {
			x.visitRobust(tasks[i])
			return
		}
		w := replay(tasks[i])
		if !x.visit(w, tasks[i]) {
			x.abandoned.Add(1)
			x.visitRobust(tasks[i])
		}
	})
	for i := 0; i < len(tasks) && i < 2; i++ {
		t := tasks[(i*7+len(tasks)/2)%len(tasks)]
		w := replay(t)
		d := "empty"
		if cur := w.inner.Load(); cur != nil {
			d = describe(cur)
		}
		x.r.Sample(map[string]any{"harness": "A", "depth": x.depth, "task_prefix": pathString(t), "storage_after_prefix": d, "tasks": len(tasks)})
	}
}

func classPoolDigest() digest {
	var parts [][]byte
	for s := uint64(0); s < 24; s++ {
		for i := 0; i < 3; i++ {
			c, _, _ := classOf(s, i)
			parts = append(parts, dumpOf(c))
		}
	}
	return combine(parts...)
}

var _ = pending.ErrPreConfirmedNotFound
