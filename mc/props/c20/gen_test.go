package c20

// Wire-side alphabet of pre-confirmed content. Every update is produced as feeder JSON and pushed through the real
// starknet.DecodePreConfirmedUpdate + Validate, so each ApplyUpdate receives FRESH wire objects (the adapter keeps
// pointers into them; re-using one wire object for two applications would alias two blocks by harness construction).
//
// Transaction (slot s, identifier i, index k) is unique per (s,i,k): its hash and the values it writes identify
// it, so "lookup finds exactly the view's items" and "diffs applied in order" are decidable.
//   k=0  A.s0 := v, A.nonce := n                                   (A exists in every canonical base)
//   k=1  declare class S(s,i); deploy D(s,i) with it; D.s0 := ..; A.s0 := v' (same key as k=0); A.s1 := w (0 for some)
//   k=2  D.s1 := 6; D.nonce := 1; D.class replaced by C0; A.class replaced by S(s,i); 0x2[7] := ..
//        (touches the contract deployed by k=1: the same address is then in the deployed AND the replaced / nonce /
//        storage sections of one block's squashed diff; the systematic version of this is harness C, ordered_test.go)
//   k>=3 A.s0 := v''; D.s0 := ..
// k=2 is only reachable after k=1 in the same block (counts grow 0,1,2,...), and nothing refers to another
// pre-confirmed block, so every view composition is protocol-valid on top of every canonical base.

import (
	"bytes"
	"fmt"
	"sort"
	"strings"
	"sync"

	"verif/mc/chain"

	"github.com/NethermindEth/juno/clients/feeder"
	"github.com/NethermindEth/juno/core"
	"github.com/NethermindEth/juno/core/felt"
	"github.com/NethermindEth/juno/starknet"
)

const pcVersion = "0.14.0"

// idString: block_identifier is per block round, so x / y are distinct strings for every slot (a sequencer only sees
// the identifier); the blank placeholder is the feeder's constant.
func idString(s uint64, i int) string {
	if i == 2 {
		return feeder.PreConfirmedBlankIdentifier
	}
	return fmt.Sprintf("0x1d%04x", s*4+uint64(i))
}

var idNames = []string{"x", "y", "blank"}

func idIndex(s string) int {
	if s == feeder.PreConfirmedBlankIdentifier {
		return 2
	}
	var v uint64
	if _, err := fmt.Sscanf(s, "0x1d%04x", &v); err != nil {
		return -1
	}
	return int(v % 4)
}

func txHash(s uint64, i, k int) felt.Felt {
	return chain.FV(0x7000000 + s*0x1000 + uint64(i)*0x100 + uint64(k))
}
func val(s uint64, i, k int) uint64   { return 0x100000 + s*0x1000 + uint64(i+1)*0x100 + uint64(k) + 1 }
func addrD(s uint64, i int) felt.Felt { return chain.FV(0xD0000 + s*16 + uint64(i)) }
func classIdx(s uint64, i int) int    { return 10 + int(s)*3 + i }
func classOf(s uint64, i int) (core.ClassDefinition, felt.Felt, felt.Felt) {
	c, h, casm1, _ := chain.Sierra(classIdx(s, i))
	return c, h, casm1
}

// txEffect is the expected per-transaction state diff (the reference side).
func txEffect(s uint64, i, k int) *core.StateDiff {
	d := core.EmptyStateDiff()
	A, D := chain.AddrA, addrD(s, i)
	_, ch, casm := classOf(s, i)
	st := func(a felt.Felt, k felt.Felt, v uint64) {
		if d.StorageDiffs[a] == nil {
			d.StorageDiffs[a] = map[felt.Felt]*felt.Felt{}
		}
		d.StorageDiffs[a][k] = chain.F(v)
	}
	switch {
	case k == 0:
		st(A, chain.Slot0, val(s, i, 0))
		d.Nonces[A] = chain.F(0x100 + s*8 + uint64(i))
	case k == 1:
		d.DeclaredV1Classes[ch] = &casm
		d.DeployedContracts[D] = &ch
		st(D, chain.Slot0, 5+uint64(i))
		st(A, chain.Slot0, val(s, i, 1))
		if s%2 == 0 && i == 1 {
			st(A, chain.Slot1, 0) // write-to-zero through the overlay
		} else {
			st(A, chain.Slot1, val(s, i, 1)+0x50)
		}
	case k == 2:
		st(D, chain.Slot1, 6)
		d.Nonces[D] = chain.F(1)
		d.ReplacedClasses[A] = &ch
		_, c0 := chain.Cairo0(0) // declared by canonical block 0
		d.ReplacedClasses[D] = &c0
		st(chain.Sys2, chain.FV(7), val(s, i, 2))
	default:
		st(A, chain.Slot0, val(s, i, k))
		st(D, chain.Slot0, val(s, i, k)+1)
	}
	return &d
}

// mergeRef is the reference "apply diffs in order" for state diffs: later writes win, nothing is shared.
func mergeRef(dst, src *core.StateDiff) {
	for a, kv := range src.StorageDiffs {
		if dst.StorageDiffs[a] == nil {
			dst.StorageDiffs[a] = map[felt.Felt]*felt.Felt{}
		}
		for k, v := range kv {
			dst.StorageDiffs[a][k] = v.Clone()
		}
	}
	for a, v := range src.Nonces {
		dst.Nonces[a] = v.Clone()
	}
	for a, v := range src.DeployedContracts {
		dst.DeployedContracts[a] = v.Clone()
	}
	for a, v := range src.DeclaredV1Classes {
		dst.DeclaredV1Classes[a] = v.Clone()
	}
	for a, v := range src.ReplacedClasses {
		dst.ReplacedClasses[a] = v.Clone()
	}
	for a, v := range src.MigratedClasses {
		dst.MigratedClasses[a] = v
	}
	for _, h := range src.DeclaredV0Classes {
		dst.DeclaredV0Classes = append(dst.DeclaredV0Classes, h.Clone())
	}
}

func sortedKeys[V any](m map[felt.Felt]V) []felt.Felt {
	out := make([]felt.Felt, 0, len(m))
	for k := range m {
		out = append(out, k)
	}
	sort.Slice(out, func(i, j int) bool { return out[i].Cmp(&out[j]) < 0 })
	return out
}

func wireDiff(d *core.StateDiff) string {
	var b strings.Builder
	b.WriteString(`{"storage_diffs":{`)
	for i, a := range sortedKeys(d.StorageDiffs) {
		if i > 0 {
			b.WriteByte(',')
		}
		fmt.Fprintf(&b, `"%s":[`, a.String())
		for j, k := range sortedKeys(d.StorageDiffs[a]) {
			if j > 0 {
				b.WriteByte(',')
			}
			fmt.Fprintf(&b, `{"key":"%s","value":"%s"}`, k.String(), d.StorageDiffs[a][k].String())
		}
		b.WriteString(`]`)
	}
	b.WriteString(`},"nonces":{`)
	for i, a := range sortedKeys(d.Nonces) {
		if i > 0 {
			b.WriteByte(',')
		}
		fmt.Fprintf(&b, `"%s":"%s"`, a.String(), d.Nonces[a].String())
	}
	b.WriteString(`},"deployed_contracts":[`)
	for i, a := range sortedKeys(d.DeployedContracts) {
		if i > 0 {
			b.WriteByte(',')
		}
		fmt.Fprintf(&b, `{"address":"%s","class_hash":"%s"}`, a.String(), d.DeployedContracts[a].String())
	}
	b.WriteString(`],"old_declared_contracts":[`)
	for i, h := range d.DeclaredV0Classes {
		if i > 0 {
			b.WriteByte(',')
		}
		fmt.Fprintf(&b, `"%s"`, h.String())
	}
	b.WriteString(`],"declared_classes":[`)
	for i, a := range sortedKeys(d.DeclaredV1Classes) {
		if i > 0 {
			b.WriteByte(',')
		}
		fmt.Fprintf(&b, `{"class_hash":"%s","compiled_class_hash":"%s"}`, a.String(), d.DeclaredV1Classes[a].String())
	}
	b.WriteString(`],"replaced_classes":[`)
	for i, a := range sortedKeys(d.ReplacedClasses) {
		if i > 0 {
			b.WriteByte(',')
		}
		fmt.Fprintf(&b, `{"address":"%s","class_hash":"%s"}`, a.String(), d.ReplacedClasses[a].String())
	}
	b.WriteString(`],"migrated_compiled_classes":[`)
	{
		mk := make(map[felt.Felt]felt.Felt, len(d.MigratedClasses))
		for h, c := range d.MigratedClasses {
			mk[felt.Felt(h)] = felt.Felt(c)
		}
		for i, h := range sortedKeys(mk) {
			if i > 0 {
				b.WriteByte(',')
			}
			c := mk[h]
			fmt.Fprintf(&b, `{"class_hash":"%s","compiled_class_hash":"%s"}`, h.String(), c.String())
		}
	}
	b.WriteString(`]}`)
	return b.String()
}

func wireTx(s uint64, i, k int) (tx, rc, sd string) {
	return wireTxOf(txHash(s, i, k), s, k, txEffect(s, i, k))
}

// wireTxOf: feeder JSON of one transaction (hash h, position k of slot s) whose state diff is eff.
func wireTxOf(h felt.Felt, s uint64, k int, eff *core.StateDiff) (tx, rc, sd string) {
	tx = fmt.Sprintf(`{"transaction_hash":"%s","version":"0x1","type":"INVOKE_FUNCTION","sender_address":"0xa11ce","calldata":["0x1","0x%x"],"signature":["0x51"],"max_fee":"0x77","nonce":"0x%x"}`,
		h.String(), k, s*8+uint64(k))
	status, revert := "SUCCEEDED", ""
	if k == 3 {
		status, revert = "REVERTED", `,"revert_error":"r3"`
	}
	rc = fmt.Sprintf(`{"transaction_hash":"%s","actual_fee":"0x%x","events":[{"from_address":"0xa11ce","keys":["0x101","0x%x"],"data":["0x%x"]}],"execution_status":"%s"%s,`+
		`"execution_resources":{"n_steps":%d,"builtin_instance_counter":{"pedersen_builtin":1},"n_memory_holes":0,"data_availability":{"l1_gas":1,"l1_data_gas":2},"total_gas_consumed":{"l1_gas":1,"l1_data_gas":2,"l2_gas":3}},`+
		`"l2_to_l1_messages":[],"transaction_index":%d}`,
		h.String(), 0xfee+k, 0x200+k, s, status, revert, 100+k, k)
	sd = wireDiff(eff)
	return
}

var (
	wireMu   sync.Mutex
	wireMemo = map[string][]byte{}
)

func memo(key string, f func() []byte) []byte {
	wireMu.Lock()
	defer wireMu.Unlock()
	if b, ok := wireMemo[key]; ok {
		return b
	}
	b := f()
	wireMemo[key] = b
	return b
}

func memoHas(key string) bool {
	wireMu.Lock()
	defer wireMu.Unlock()
	_, ok := wireMemo[key]
	return ok
}

func txList(s uint64, i, from, to int) (txs, rcs, sds string) {
	var a, b, c []string
	for k := from; k < to; k++ {
		t, r, d := wireTx(s, i, k)
		a, b, c = append(a, t), append(b, r), append(c, d)
	}
	return strings.Join(a, ","), strings.Join(b, ","), strings.Join(c, ",")
}

// fullJSON: a full block for slot s, identifier i, carrying transactions 0..c-1.
func fullJSON(s uint64, i, c int) []byte {
	return memo(fmt.Sprintf("F/%d/%d/%d", s, i, c), func() []byte {
		txs, rcs, sds := txList(s, i, 0, c)
		return fullJSONOf(s, idString(s, i), 5000+s*10+uint64(i), txs, rcs, sds)
	})
}

func fullJSONOf(s uint64, id string, ts uint64, txs, rcs, sds string) []byte {
	return fullJSONVer(s, id, ts, txs, rcs, sds, pcVersion)
}

// fullJSONVer: the same full block with an explicit starknet_version (harness D delivers 0.14.1 blocks, the version
// that introduced migrated_compiled_classes).
func fullJSONVer(s uint64, id string, ts uint64, txs, rcs, sds, version string) []byte {
	return []byte(fmt.Sprintf(`{"changed":true,"block_number":%d,"block_identifier":"%s","transactions":[%s],"transaction_receipts":[%s],"transaction_state_diffs":[%s],`+
		`"status":"PRE_CONFIRMED","timestamp":%d,"starknet_version":"%s","sequencer_address":"0x5e9",`+
		`"l1_gas_price":{"price_in_wei":"0x6a5","price_in_fri":"0x6a6"},"l2_gas_price":{"price_in_wei":"0x2a1","price_in_fri":"0x2a2"},`+
		`"l1_da_mode":"BLOB","l1_data_gas_price":{"price_in_wei":"0xda1","price_in_fri":"0xda2"}}`,
		s, id, txs, rcs, sds, ts, version))
}

// deltaJSON: transactions from..to-1 appended under identifier i.
func deltaJSON(s uint64, i, from, to int) []byte {
	return memo(fmt.Sprintf("D/%d/%d/%d/%d", s, i, from, to), func() []byte {
		txs, rcs, sds := txList(s, i, from, to)
		return deltaJSONOf(s, idString(s, i), txs, rcs, sds)
	})
}

func deltaJSONOf(s uint64, id, txs, rcs, sds string) []byte {
	return []byte(fmt.Sprintf(`{"changed":true,"block_number":%d,"block_identifier":"%s","transactions":[%s],"transaction_receipts":[%s],"transaction_state_diffs":[%s]}`,
		s, id, txs, rcs, sds))
}

var noChangeJSON = []byte(`{"changed":false}`)

func decode(js []byte) (starknet.PreConfirmedUpdate, uint64) {
	env, err := starknet.DecodePreConfirmedUpdate(bytes.NewReader(js))
	if err != nil {
		panic(fmt.Sprintf("harness wire JSON does not decode: %v\n%s", err, js))
	}
	if err := env.Validate(); err != nil {
		panic(fmt.Sprintf("harness wire JSON does not validate: %v\n%s", err, js))
	}
	return env.Update, env.BlockNumber
}

// classesFor returns a FRESH map with the class declared by (s,i) (tx k=1): what the poller's
// fetchDeclaredClasses hands to ApplyUpdate. The class objects themselves are shared and immutable.
func classesFor(s uint64, i int) map[felt.Felt]core.ClassDefinition {
	c, h, _ := classOf(s, i)
	return map[felt.Felt]core.ClassDefinition{h: c}
}

// extraClass is a second class for a slot (a NoChange re-poll that brings one more definition).
func extraClass(s uint64) (core.ClassDefinition, felt.Felt) {
	c, h, _, _ := chain.Sierra(200 + int(s))
	return c, h
}
